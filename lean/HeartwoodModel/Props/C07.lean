import HeartwoodModel.Model.Issue
import HeartwoodModel.Model.Patch
import HeartwoodModel.Lemmas.Issue
import HeartwoodModel.Lemmas.PatchKeys
import HeartwoodModel.Lemmas.CobDag
import HeartwoodModel.Props.C06
set_option linter.unusedVariables false
/-!
# C07 — Issue and patch actions obey the authorization rules

Theorems about `Model/Issue.lean` and `Model/Patch.lean`. "Non-delegate" always refers to the identity
document the op itself refers to (`Op.doc`). "Unchanged" for comments of other authors is stated with
`Thread.other actor t id` = the live comment stored under `id` unless it is authored by `actor`: equality
of this function before and after says that no comment of another author was edited, redacted,
replaced or created.
-/
namespace HeartwoodModel.Issue
open HeartwoodModel.Cob

/-! ## Issues — single action (any state, action, actor, document) -/

/-- **unauth_assign_label_noop (issue)**: an action by a non-delegate never changes assignees or labels
(the only such actions that are let through are the no-op ones). -/
theorem unauth_assign_label_noop {i i' : Issue} {a : Action} {e : Id} {actor : Actor} {doc : Doc}
    (hnd : doc.isDelegate actor = false) (h : opAction i a e actor doc = .ok i') :
    i'.assignees = i.assignees ∧ i'.labels = i.labels := by
  unfold opAction at h
  split at h
  · cases h
  · rename_i hauth
    obtain ⟨_, _, hm⟩ := auth_allow_nondelegate hnd hauth
    obtain ⟨h1, h2, _, _⟩ := action_frame h
    constructor
    · rcases h1 with h1 | ⟨as, rfl, h1⟩
      · exact h1
      · simp only [] at hm; rw [h1, hm]
    · rcases h2 with h2 | ⟨ls, rfl, h2⟩
      · exact h2
      · simp only [] at hm; rw [h2, hm]
  · cases h
  · cases h; exact ⟨rfl, rfl⟩

/-- **unauth_title_lifecycle_noop (issue)**: an action by someone who is neither a delegate nor the
issue author never changes the title or the open/closed state. -/
theorem unauth_title_lifecycle_noop {i i' : Issue} {a : Action} {e : Id} {actor : Actor} {doc : Doc}
    (hnd : doc.isDelegate actor = false) (hna : i.author ≠ some actor)
    (h : opAction i a e actor doc = .ok i') : i'.title = i.title ∧ i'.state = i.state := by
  unfold opAction at h
  split at h
  · cases h
  · rename_i hauth
    obtain ⟨author, hau, hm⟩ := auth_allow_nondelegate hnd hauth
    obtain ⟨_, _, h3, h4⟩ := action_frame h
    constructor
    · rcases h3 with h3 | ⟨t, k, rfl⟩
      · exact h3
      · simp only [] at hm; subst hm; exact absurd hau hna
    · rcases h4 with h4 | ⟨s, rfl⟩
      · exact h4
      · simp only [] at hm; subst hm; exact absurd hau hna
  · cases h
  · cases h; exact ⟨rfl, rfl⟩

/-- **unauth_comment_noop (issue)**: an action by a non-delegate leaves every live comment of every
other author exactly as it was (not edited, not redacted, not replaced), and creates none. -/
theorem unauth_comment_noop {i i' : Issue} {a : Action} {e : Id} {actor : Actor} {doc : Doc}
    (hnd : doc.isDelegate actor = false) (hf : i.thread.other actor e = none)
    (h : opAction i a e actor doc = .ok i') (id : Id) :
    i'.thread.other actor id = i.thread.other actor id := by
  unfold opAction at h
  split at h
  · cases h
  · rename_i hauth
    exact action_other hnd hauth hf h id
  · cases h
  · cases h; rfl

/-! ## Issues — whole operations -/

theorem opAction_rootLive {A : Actor} {rid : Id} {i i' : Issue} {a : Action} {e : Id} {actor : Actor}
    {doc : Doc} (hr : RootLive A rid i) (hne : e ≠ rid) (h : opAction i a e actor doc = .ok i') :
    RootLive A rid i' := by
  unfold opAction at h
  split at h
  · cases h
  · exact action_rootLive hr hne h
  · cases h
  · cases h; exact hr

theorem opAction_keys {i i' : Issue} {a : Action} {e : Id} {actor : Actor} {doc : Doc}
    (h : opAction i a e actor doc = .ok i') (k : Id) (hk : get? k i'.thread.comments ≠ none) :
    get? k i.thread.comments ≠ none ∨ k = e := by
  unfold opAction at h
  split at h
  · cases h
  · exact action_keys h k hk
  · cases h
  · cases h; exact Or.inl hk

/-- Everything the property says, for one applied op of a non-delegate, on a state whose root comment
`rid` (by `A`) is live and in which the op's id is fresh. -/
theorem applyActions_unauth {A : Actor} {rid : Id} {e : Id} {actor : Actor} {doc : Doc}
    (hnd : doc.isDelegate actor = false) (hne : e ≠ rid) (as : List Action) {i i' : Issue}
    (hr : RootLive A rid i) (hf : i.thread.other actor e = none)
    (h : applyActions e actor doc i as = .ok i') :
    RootLive A rid i' ∧ i'.assignees = i.assignees ∧ i'.labels = i.labels ∧
    (actor ≠ A → i'.title = i.title ∧ i'.state = i.state) ∧
    ∀ id, i'.thread.other actor id = i.thread.other actor id := by
  induction as generalizing i with
  | nil => simp only [applyActions] at h; cases h; exact ⟨hr, rfl, rfl, fun _ => ⟨rfl, rfl⟩, fun _ => rfl⟩
  | cons a as ih =>
    simp only [applyActions] at h
    split at h
    · rename_i i1 h1
      have hr1 := opAction_rootLive hr hne h1
      have ho := unauth_comment_noop hnd hf h1
      obtain ⟨r2, a2, l2, t2, o2⟩ := ih hr1 (by rw [ho e]; exact hf) h
      obtain ⟨a1, l1⟩ := unauth_assign_label_noop hnd h1
      refine ⟨r2, a2.trans a1, l2.trans l1, fun hA => ?_, fun id => (o2 id).trans (ho id)⟩
      have := unauth_title_lifecycle_noop hnd (by rw [hr.author]; intro hh; cases hh; exact hA rfl) h1
      exact ⟨(t2 hA).1.trans this.1, (t2 hA).2.trans this.2⟩
    · cases h

/-! ## Issues — histories -/

/-- The op's author is not a delegate of the document the op refers to. -/
def NonDelegate (o : Op) : Prop := ∀ d, o.doc = some d → d.isDelegate o.author = false

/-- Invariant of evaluation from a root op: the root comment is live and authored by the root op's
author; every comment key is the id of the root or of an applied entry. -/
structure Inv (A : Actor) (rid : Id) (seen : List Id) (i : Issue) : Prop where
  root : RootLive A rid i
  keys : ∀ k, get? k i.thread.comments ≠ none → k ∈ seen

theorem applyActions_rootLive {A : Actor} {rid e : Id} {actor : Actor} {doc : Doc} (hne : e ≠ rid)
    (as : List Action) {i i' : Issue} (hr : RootLive A rid i) (h : applyActions e actor doc i as = .ok i') :
    RootLive A rid i' := by
  induction as generalizing i with
  | nil => simp only [applyActions] at h; cases h; exact hr
  | cons a as ih =>
    simp only [applyActions] at h
    split at h
    · rename_i i1 h1; exact ih (opAction_rootLive hr hne h1) h
    · cases h

theorem applyActions_keys {e : Id} {actor : Actor} {doc : Doc} (as : List Action) {i i' : Issue}
    (h : applyActions e actor doc i as = .ok i') (k : Id) (hk : get? k i'.thread.comments ≠ none) :
    get? k i.thread.comments ≠ none ∨ k = e := by
  induction as generalizing i with
  | nil => simp only [applyActions] at h; cases h; exact Or.inl hk
  | cons a as ih =>
    simp only [applyActions] at h
    split at h
    · rename_i i1 h1
      rcases ih h with h2 | h2
      · exact opAction_keys h1 k h2
      · exact Or.inr h2
    · cases h

theorem Inv.step {A : Actor} {rid : Id} {seen : List Id} {i : Issue} (inv : Inv A rid seen i) (o : Op)
    (hne : o.id ≠ rid) : Inv A rid (o.id :: seen) (step i o) := by
  unfold Issue.step
  cases hop : op i o with
  | error e => exact ⟨inv.root, fun k hk => List.mem_cons_of_mem _ (inv.keys k hk)⟩
  | ok i1 =>
    simp only
    unfold Issue.op at hop
    split at hop
    · cases hop
    · refine ⟨applyActions_rootLive hne _ inv.root hop, fun k hk => ?_⟩
      rcases applyActions_keys _ hop k hk with h | h
      · exact List.mem_cons_of_mem _ (inv.keys k h)
      · exact h ▸ List.mem_cons_self

theorem Inv.eval {A : Actor} {rid : Id} {seen : List Id} {i : Issue} (ops : List Op)
    (inv : Inv A rid seen i) (hne : ∀ o ∈ ops, o.id ≠ rid) :
    Inv A rid ((ops.map (·.id)).reverse ++ seen) (eval i ops) := by
  induction ops generalizing seen i with
  | nil => simpa [Issue.eval] using inv
  | cons o os ih =>
    have := ih (inv.step o (hne o List.mem_cons_self)) (fun o' ho' => hne o' (List.mem_cons_of_mem _ ho'))
    simpa [Issue.eval, List.foldl_cons] using this

theorem rootActions_inv {e : Id} {actor : Actor} {doc : Doc} (as : List Action) {i i' : Issue}
    (hr : RootLive actor e i) (hk : ∀ k, get? k i.thread.comments ≠ none → k = e)
    (h : rootActions e actor doc i as = .ok i') :
    RootLive actor e i' ∧ ∀ k, get? k i'.thread.comments ≠ none → k = e := by
  induction as generalizing i with
  | nil => simp only [rootActions] at h; cases h; exact ⟨hr, hk⟩
  | cons a as ih =>
    simp only [rootActions] at h
    split at h
    · cases h
    · split at h
      · rename_i i1 h1
        refine ih ?_ ?_ h
        · -- the root op may only touch its own comment
          obtain ⟨c, rest, htl, hc, ha⟩ := hr
          have hfl : i.thread.firstLive = some (e, c) := by simp [Thread.firstLive, htl, hc]
          cases a with
          | assign as' => simp only [action] at h1; cases h1; exact ⟨c, rest, htl, hc, ha⟩
          | edit t kd => simp only [action] at h1; split at h1 <;> cases h1; exact ⟨c, rest, htl, hc, ha⟩
          | lifecycle s => simp only [action] at h1; cases h1; exact ⟨c, rest, htl, hc, ha⟩
          | label ls => simp only [action] at h1; cases h1; exact ⟨c, rest, htl, hc, ha⟩
          | comment b rt =>
            simp only [action] at h1
            obtain ⟨t, ht, rfl⟩ := liftThread_ok h1
            unfold Thread.comment at ht
            split at ht
            · cases ht
            · split at ht
              · cases ht
              · cases ht
                exact ⟨_, rest ++ [e], by simp [htl], get?_ins_self _ _ _, rfl⟩
          | commentEdit cid b =>
            simp only [action] at h1
            obtain ⟨t, ht, rfl⟩ := liftThread_ok h1
            unfold Thread.edit at ht
            split at ht
            · cases ht
            · split at ht
              · cases ht
              · cases ht; exact ⟨c, rest ++ [e], by simp [htl], hc, ha⟩
              · rename_i c1 hc1
                cases ht
                have : cid = e := hk cid (by simp [hc1])
                subst this
                rw [hc] at hc1; cases hc1
                exact ⟨_, rest ++ [cid], by simp [htl], get?_ins_self _ _ _, ha⟩
          | commentRedact cid =>
            simp only [action] at h1
            rw [hfl] at h1
            simp only at h1
            split at h1
            · cases h1
            · rename_i hid
              obtain ⟨t, ht, rfl⟩ := liftThread_ok h1
              unfold Thread.redact at ht
              split at ht
              · cases ht
              · rename_i x hx
                exact absurd (hk cid (by simp [hx])) hid
          | commentReact cid =>
            simp only [action] at h1
            obtain ⟨t, ht, rfl⟩ := liftThread_ok h1
            refine ⟨c, ?_⟩
            unfold Thread.react at ht
            split at ht
            · cases ht
            · cases ht; exact ⟨rest, htl, hc, ha⟩
            · cases ht; exact ⟨rest ++ [e], by simp [htl], hc, ha⟩
        · intro k hk1
          rcases action_keys h1 k hk1 with h2 | h2
          · exact hk k h2
          · exact h2
      · cases h
    · cases h
    · exact ih hr hk h

/-- The state built by `from_root` satisfies the invariant. -/
theorem Inv.fromRoot {root : Op} {i0 : Issue} (h : fromRoot root = .ok i0) :
    Inv root.author root.id [root.id] i0 := by
  unfold Issue.fromRoot at h
  split at h
  · cases h
  · split at h
    · rename_i body rest hact
      let C : Comment := ⟨root.author, [(root.author, body)], none, false⟩
      have hget : get? root.id [(root.id, some C)] = some (some C) := by simp [get?]
      have := rootActions_inv _ (i := _) ⟨C, [], rfl, hget, rfl⟩ ?_ h
      · exact ⟨this.1, fun k hk => List.mem_singleton.mpr (this.2 k hk)⟩
      · intro k hk
        simp only [get?] at hk
        split at hk
        · rename_i hh; exact hh.symm
        · exact absurd rfl hk
    · cases h

/-- What the property demands of one evaluation step `i ⟶ i'` by entry `o` on an issue whose author is
`A`: if `o`'s author is not a delegate of the document `o` refers to, then assignees and labels are
unchanged, title and open/closed state are unchanged unless `o`'s author is `A`, and every live comment
of every other author is unchanged (and none is created in another author's name). -/
def StepRespectsAuth (A : Actor) (i : Issue) (o : Op) (i' : Issue) : Prop :=
  NonDelegate o →
    i'.assignees = i.assignees ∧ i'.labels = i.labels ∧
    (o.author ≠ A → i'.title = i.title ∧ i'.state = i.state) ∧
    ∀ id, i'.thread.other o.author id = i.thread.other o.author id

theorem step_respects {A : Actor} {rid : Id} {i : Issue} {o : Op} (hr : RootLive A rid i)
    (hne : o.id ≠ rid) (hfresh : get? o.id i.thread.comments = none) :
    StepRespectsAuth A i o (step i o) := by
  intro hnd
  unfold Issue.step
  cases hop : op i o with
  | error e => exact ⟨rfl, rfl, fun _ => ⟨rfl, rfl⟩, fun _ => rfl⟩
  | ok i1 =>
    simp only
    unfold Issue.op at hop
    split at hop
    · cases hop
    · rename_i doc hd
      have := applyActions_unauth (hnd doc hd) hne o.actions hr (by simp [Thread.other, hfresh]) hop
      exact ⟨this.2.1, this.2.2.1, this.2.2.2.1, this.2.2.2.2⟩

/-- **authorization_history (issue)** — the property over whole histories, at full strength: for every
valid root op, every list of further entries with pairwise distinct ids (in whatever order the evaluator
linearised them; rejected entries are pruned and change nothing), and every position in it, the step
taken at that position respects the authorization rules (`StepRespectsAuth`, issue author = author of
the root op). -/
theorem authorization_history {root : Op} {i0 : Issue} (h0 : fromRoot root = .ok i0)
    (pre : List Op) (o : Op) (post : List Op)
    (hids : (root.id :: (pre ++ o :: post).map (·.id)).Nodup) :
    StepRespectsAuth root.author (eval i0 pre) o (step (eval i0 pre) o) := by
  have hnodup := List.nodup_cons.mp hids
  have hne : ∀ o' ∈ pre ++ o :: post, o'.id ≠ root.id := by
    intro o' ho' heq
    exact hnodup.1 (heq ▸ List.mem_map.mpr ⟨o', ho', rfl⟩)
  have inv : Inv root.author root.id ((pre.map (·.id)).reverse ++ [root.id]) (eval i0 pre) :=
    (Inv.fromRoot h0).eval pre (fun o' ho' => hne o' (List.mem_append_left _ ho'))
  have hoid : o.id ≠ root.id := hne o (List.mem_append_right _ List.mem_cons_self)
  refine step_respects inv.root hoid ?_
  apply Classical.byContradiction
  intro hk
  have hmem := inv.keys o.id hk
  have h2 : (pre.map (·.id) ++ o.id :: post.map (·.id)).Nodup := by simpa using hnodup.2
  rcases List.mem_append.mp hmem with hm | hm
  · have hm' : o.id ∈ pre.map (·.id) := by simpa using hm
    exact (List.nodup_append.mp h2).2.2 _ hm' _ List.mem_cons_self rfl
  · exact hoid (List.mem_singleton.mp hm)

/-! ## Issues — every change graph -/

section Graph
open HeartwoodModel.Dag HeartwoodModel.ChangeGraph

/-- `Evaluate::init` for issues. -/
def graphInit (o : Op) : Option Issue :=
  match fromRoot o with
  | .ok i => some i
  | .error _ => none

/-- **authorization_dag (issue)** — the property for the state produced by the real evaluation algorithm
(`ChangeGraph::evaluate` as modelled in `Model/ChangeGraph.lean`) on EVERY well-formed acyclic change
graph whose entries are named by their keys: the evaluation is the linear evaluation `eval i0 hist` of
a list of validly signed entries of the graph, and every step of it respects the authorization rules. -/
theorem authorization_dag {g g' : Dag Op} (hwf : g.Wf) (hac : Acyclic g.dependentsOf)
    (hid : ∀ k n, g.get k = some n → n.value.id = k)
    {sigOk : Op → Bool} {ts : Op → Nat} {fuel : Nat} {root : K} {i : Issue}
    (h : evaluate sigOk ts graphInit issueApplyM fuel g root = .ok i g') :
    ∃ (rootOp : Op) (i0 : Issue) (hist : List Op), (∃ rn, g.get root = some rn ∧ rn.value = rootOp) ∧
      fromRoot rootOp = .ok i0 ∧ i = eval i0 hist ∧
      (∀ o ∈ hist, ∃ k n, g.get k = some n ∧ n.value = o ∧ sigOk o = true) ∧
      ∀ pre o post, hist = pre ++ o :: post →
        StepRespectsAuth rootOp.author (eval i0 pre) o (step (eval i0 pre) o) := by
  obtain ⟨rn, i0, calls, hr, hi, hn, hroot, hv, hs⟩ :=
    evaluate_is_fold (stepf := step) (entryOf := fun c => c.2.1.value) hwf hac
      (fun s k n sibs => by simp [issueApplyM]) h
  have hi' : fromRoot rn.value = .ok i0 := by
    unfold graphInit at hi
    split at hi
    · rename_i q hq; cases hi; exact hq
    · cases hi
  have hids : (calls.map fun c => c.2.1.value.id) = calls.map (·.1) := by
    apply List.map_congr_left
    intro c hc
    obtain ⟨n0, h1, h2, _⟩ := hv c hc
    rw [h2]; exact hid _ _ h1
  refine ⟨rn.value, i0, calls.map (fun (c : Call Op) => c.2.1.value), ⟨rn, hr, rfl⟩, hi', hs, ?_, ?_⟩
  · intro o ho
    obtain ⟨c, hc, rfl⟩ := List.mem_map.mp ho
    obtain ⟨n0, h1, h2, h3⟩ := hv c hc
    exact ⟨c.1, n0, h1, h2.symm, by rw [h2]; exact h3⟩
  · intro pre o post hsplit
    refine authorization_history hi' pre o post ?_
    rw [← hsplit, List.map_map]
    show (rn.value.id :: calls.map fun c => c.2.1.value.id).Nodup
    rw [hids, hid _ _ hr]
    exact List.nodup_cons.mpr ⟨hroot, hn⟩

end Graph

end HeartwoodModel.Issue

namespace HeartwoodModel.Patch
open HeartwoodModel.Cob

/-! ## Patches — single action (any state, action, actor, document) -/

/-- Frame: which of `author`, `title`, `labels`, `assignees` an applied action touches. -/
theorem action_fields {p p' : Patch} {a : Action} {e : Id} {actor : Actor} {doc : Doc}
    (h : action p a e actor doc = .ok p') :
    p'.author = p.author ∧ (p'.title = p.title ∨ ∃ t, a = .edit t) ∧
    (p'.labels = p.labels ∨ ∃ ls, a = .label ls ∧ p'.labels = canon ls) ∧
    (p'.assignees = p.assignees ∨ ∃ as, a = .assign as) := by
  cases a
  case edit t => simp only [action] at h; cases h; exact ⟨rfl, Or.inr ⟨t, rfl⟩, Or.inl rfl, Or.inl rfl⟩
  case label ls => simp only [action] at h; cases h; exact ⟨rfl, Or.inl rfl, Or.inr ⟨ls, rfl, rfl⟩, Or.inl rfl⟩
  case assign as => simp only [action] at h; cases h; exact ⟨rfl, Or.inl rfl, Or.inl rfl, Or.inr ⟨as, rfl⟩⟩
  all_goals (
    simp only [action] at h
    repeat' split at h
    all_goals first
      | (cases h; exact ⟨rfl, Or.inl rfl, Or.inl rfl, Or.inl rfl⟩)
      | (cases h)
      | (rw [withReview_frame h]; exact ⟨rfl, Or.inl rfl, Or.inl rfl, Or.inl rfl⟩)
      | (rw [withRevision_frame h]; exact ⟨rfl, Or.inl rfl, Or.inl rfl, Or.inl rfl⟩))

/-- **unauth_assign_label_merge_noop (patch)**: an action by a non-delegate never changes assignees,
labels or merges (only the no-op label action is let through). -/
theorem unauth_assign_label_merge_noop {p p' : Patch} {a : Action} {e : Id} {actor : Actor} {doc : Doc}
    (hnd : doc.isDelegate actor = false) (h : opAction p a e actor doc = .ok p') :
    p'.assignees = p.assignees ∧ p'.labels = p.labels ∧ p'.merges = p.merges := by
  unfold opAction at h
  split at h
  · cases h
  · rename_i hauth
    have hfact := auth_allow_nondelegate hnd hauth
    obtain ⟨_, _, h3, h4⟩ := action_fields h
    refine ⟨?_, ?_, ?_⟩
    · rcases h4 with h4 | ⟨as, rfl⟩
      · exact h4
      · exact absurd hfact (by simp [AuthFact])
    · rcases h3 with h3 | ⟨ls, rfl, h3⟩
      · exact h3
      · rw [h3]; exact hfact
    · rcases action_state_merges h with ⟨_, hm⟩ | ⟨_, _, _, _, hm⟩ | ⟨r, c, rfl, _⟩
      · exact hm
      · exact hm
      · exact absurd hfact (by simp [AuthFact])
  · cases h
  · cases h; exact ⟨rfl, rfl, rfl⟩

/-- **unauth_title_lifecycle_noop (patch)**: an action by someone who is neither a delegate nor the
patch author never changes the title or the lifecycle state (draft / open / archived / merged). -/
theorem unauth_title_lifecycle_noop {p p' : Patch} {a : Action} {e : Id} {actor : Actor} {doc : Doc}
    (hnd : doc.isDelegate actor = false) (hna : actor ≠ p.author)
    (h : opAction p a e actor doc = .ok p') : p'.title = p.title ∧ p'.state = p.state := by
  unfold opAction at h
  split at h
  · cases h
  · rename_i hauth
    have hfact := auth_allow_nondelegate hnd hauth
    obtain ⟨_, h2, _, _⟩ := action_fields h
    constructor
    · rcases h2 with h2 | ⟨t, rfl⟩
      · exact h2
      · exact absurd hfact hna
    · rcases action_state_merges h with ⟨hs, _⟩ | ⟨l, rfl, _⟩ | ⟨r, c, rfl, _⟩
      · exact hs
      · exact absurd hfact hna
      · exact absurd hfact (by simp [AuthFact])
  · cases h
  · cases h; exact ⟨rfl, rfl⟩

/-- **unauth_comment_review_noop (patch)**: an action by a non-delegate relates the revisions before and
after by `RevsRel`: a revision is redacted or its description edited only by its own author; reviews
of other authors are kept with the same summary / verdict / labels; comments of other authors (in
revision discussions and in reviews) keep author, body versions and reply target. (`Fresh`: nothing by
other authors is stored under the op's own id — ids are commit ids.) -/
theorem unauth_comment_review_noop {p p' : Patch} {a : Action} {e : Id} {actor : Actor} {doc : Doc}
    (hnd : doc.isDelegate actor = false) (hf : Fresh actor e p)
    (h : opAction p a e actor doc = .ok p') : RevsRel actor e p p' := by
  unfold opAction at h
  split at h
  · cases h
  · rename_i hauth; exact unauth_action_revsRel hnd hauth hf h
  · cases h
  · cases h; exact RevsRel.same rfl

/-! Readable consequences of `RevsRel` (what the relation says about each kind of item). -/

/-- A live revision of another author stays live, with the same author and description. -/
theorem RevsRel.revision_kept {actor : Actor} {e : Id} {p p' : Patch} (h : RevsRel actor e p p') {r : Id}
    {rev : Revision} (hr : get? r p.revisions = some (some rev)) (hne : rev.author ≠ actor) :
    ∃ rev', get? r p'.revisions = some (some rev') ∧ rev'.author = rev.author ∧
      rev'.description = rev.description := by
  obtain ⟨rev', hr', hs⟩ := h.fwd r rev hr hne
  exact ⟨rev', hr', hs.author, hs.description hne⟩

/-- While a revision is live, every review in it by another author is kept with the same core. -/
theorem RevsRel.review_kept {actor : Actor} {e : Id} {p p' : Patch} (h : RevsRel actor e p p') {r : Id}
    {rev rev' : Revision} (hr : get? r p.revisions = some (some rev))
    (hr' : get? r p'.revisions = some (some rev')) (hfresh : Fresh actor e p)
    {k : Actor} {rv : Review} (hk : get? k rev.reviews = some rv) (hne : rv.author ≠ actor) :
    ∃ rv', get? k rev'.reviews = some rv' ∧ rv'.core = rv.core := by
  rcases h.bwd r rev' hr' with ⟨rev0, hr0, hs⟩ | ⟨hre, ho⟩
  · rw [hr] at hr0; cases hr0
    exact hs.kept k rv hk hne
  · subst hre
    exact absurd ((hfresh.own rev hr).reviews k rv hk).1 hne

/-- While a revision is live, every comment of another author in its discussion is unchanged. -/
theorem RevsRel.discussion_kept {actor : Actor} {e : Id} {p p' : Patch} (h : RevsRel actor e p p') {r : Id}
    {rev rev' : Revision} (hr : get? r p.revisions = some (some rev))
    (hr' : get? r p'.revisions = some (some rev')) (hfresh : Fresh actor e p) (id : Id) :
    rev'.discussion.other actor id = rev.discussion.other actor id := by
  rcases h.bwd r rev' hr' with ⟨rev0, hr0, hs⟩ | ⟨hre, ho⟩
  · rw [hr] at hr0; cases hr0
    exact hs.discussion id
  · subst hre
    rw [ho.discussion id, (hfresh.own rev hr).discussion id]

/-- While a review of another author is present, every comment of another author in it keeps its core
(author, body versions, reply target). -/
theorem RevsRel.review_comment_kept {actor : Actor} {e : Id} {p p' : Patch} (h : RevsRel actor e p p')
    {r : Id} {rev rev' : Revision} (hr : get? r p.revisions = some (some rev))
    (hr' : get? r p'.revisions = some (some rev')) (hfresh : Fresh actor e p)
    {k : Actor} {rv rv' : Review} (hk : get? k rev.reviews = some rv) (hk' : get? k rev'.reviews = some rv')
    (hne : rv.author ≠ actor) (id : Id) :
    rv'.comments.otherCore actor id = rv.comments.otherCore actor id := by
  rcases h.bwd r rev' hr' with ⟨rev0, hr0, hs⟩ | ⟨hre, ho⟩
  · rw [hr] at hr0; cases hr0
    rcases hs.origin k rv' hk' with ⟨rv0, hk0, _, hoc⟩ | ⟨ha, hoc⟩
    · rw [hk] at hk0; cases hk0; exact hoc id
    · obtain ⟨rv2, hk2, hc2⟩ := hs.kept k rv hk hne
      rw [hk'] at hk2; cases hk2
      have : rv'.author = rv.author := by
        have := congrArg (fun c => c.2.1) hc2; simpa [Review.core] using this
      exact absurd (this ▸ ha) hne
  · subst hre
    exact absurd ((hfresh.own rev hr).reviews k rv hk).1 hne

/-! ## Patches — whole operations -/

theorem opAction_author {p p' : Patch} {a : Action} {e : Id} {actor : Actor} {doc : Doc}
    (h : opAction p a e actor doc = .ok p') : p'.author = p.author := by
  unfold opAction at h
  split at h
  · cases h
  · exact (action_fields h).1
  · cases h
  · cases h; rfl

/-- Everything the property says, for the actions of one applied op of a non-delegate. -/
theorem applyActions_unauth {e : Id} {actor : Actor} {doc : Doc} (hnd : doc.isDelegate actor = false)
    (as : List Action) {p p' : Patch} (hf : Fresh actor e p) (h : applyActions e actor doc p as = .ok p') :
    p'.author = p.author ∧ p'.assignees = p.assignees ∧ p'.labels = p.labels ∧ p'.merges = p.merges ∧
    (actor ≠ p.author → p'.title = p.title ∧ p'.state = p.state) ∧ RevsRel actor e p p' := by
  induction as generalizing p with
  | nil =>
    simp only [applyActions] at h; cases h
    exact ⟨rfl, rfl, rfl, rfl, fun _ => ⟨rfl, rfl⟩, RevsRel.same rfl⟩
  | cons a as ih =>
    simp only [applyActions] at h
    split at h
    · rename_i p1 h1
      have hrel := unauth_comment_review_noop hnd hf h1
      have hau := opAction_author h1
      obtain ⟨a1, l1, m1⟩ := unauth_assign_label_merge_noop hnd h1
      obtain ⟨au2, a2, l2, m2, t2, r2⟩ := ih (hf.step hrel) h
      refine ⟨au2.trans hau, a2.trans a1, l2.trans l1, m2.trans m1, fun hA => ?_, hrel.trans r2⟩
      have t1 := unauth_title_lifecycle_noop hnd hA h1
      have t2' := t2 (by rw [hau]; exact hA)
      exact ⟨t2'.1.trans t1.1, t2'.2.trans t1.2⟩
    · cases h

/-! ## Patches — histories -/

/-- The op's author is not a delegate of the document the op refers to. -/
def NonDelegate (o : Op) : Prop := ∀ d, o.doc = some d → d.isDelegate o.author = false

/-- What the property demands of one evaluation step `p ⟶ p'` by entry `o`: if `o`'s author is not a
delegate of the document `o` refers to, then assignees, labels and merges are unchanged; title and
lifecycle state are unchanged unless `o`'s author is the patch author; and revisions, reviews and
comments of other authors are untouched in the sense of `RevsRel`. -/
def StepRespectsAuth (p : Patch) (o : Op) (p' : Patch) : Prop :=
  NonDelegate o →
    p'.assignees = p.assignees ∧ p'.labels = p.labels ∧ p'.merges = p.merges ∧
    (o.author ≠ p.author → p'.title = p.title ∧ p'.state = p.state) ∧
    RevsRel o.author o.id p p'

theorem Fresh.congr {actor : Actor} {e : Id} {p q : Patch} (h : q.revisions = p.revisions)
    (hf : Fresh actor e p) : Fresh actor e q :=
  ⟨fun rev hr => hf.own rev (h ▸ hr), fun r rev hr => hf.disc r rev (h ▸ hr),
   fun r rev k rv hr hk => hf.rcom r rev k rv (h ▸ hr) hk⟩

theorem step_respects {p : Patch} {o : Op} (hn : NoKey o.id p) : StepRespectsAuth p o (step p o) := by
  intro hnd
  unfold Patch.step
  cases hop : op p o with
  | error e => exact ⟨rfl, rfl, rfl, fun _ => ⟨rfl, rfl⟩, RevsRel.same rfl⟩
  | ok p1 =>
    simp only
    unfold Patch.op at hop
    split at hop
    · cases hop
    · rename_i doc hd
      have := applyActions_unauth (hnd doc hd) o.actions
        (Fresh.congr (p := p) (q := { p with timeline := p.timeline ++ [o.id] }) rfl (hn.fresh o.author)) hop
      obtain ⟨_, a1, l1, m1, t1, r1⟩ := this
      exact ⟨a1, l1, m1, t1, ⟨r1.fwd, r1.bwd⟩⟩

theorem opAction_noKey {p p' : Patch} {a : Action} {e e1 : Id} {actor : Actor} {doc : Doc} (hne : e ≠ e1)
    (h : opAction p a e1 actor doc = .ok p') (hn : NoKey e p) : NoKey e p' := by
  unfold opAction at h
  split at h
  · cases h
  · exact action_noKey hne h hn
  · cases h
  · cases h; exact hn

theorem applyActions_noKey {e e1 : Id} {actor : Actor} {doc : Doc} (hne : e ≠ e1) (as : List Action)
    {p p' : Patch} (h : applyActions e1 actor doc p as = .ok p') (hn : NoKey e p) : NoKey e p' := by
  induction as generalizing p with
  | nil => simp only [applyActions] at h; cases h; exact hn
  | cons a as ih =>
    simp only [applyActions] at h
    split at h
    · rename_i p1 h1; exact ih h (opAction_noKey hne h1 hn)
    · cases h

theorem step_noKey {p : Patch} {o : Op} {e : Id} (hne : e ≠ o.id) (hn : NoKey e p) : NoKey e (step p o) := by
  unfold Patch.step
  cases hop : op p o with
  | error _ => exact hn
  | ok p1 =>
    simp only
    unfold Patch.op at hop
    split at hop
    · cases hop
    · exact applyActions_noKey hne _ hop (hn.same rfl)

theorem rootActions_noKey {e e1 : Id} {actor : Actor} {doc : Doc} (hne : e ≠ e1) (as : List Action)
    {p p' : Patch} (h : rootActions e1 actor doc p as = .ok p') (hn : NoKey e p) : NoKey e p' := by
  induction as generalizing p with
  | nil => simp only [rootActions] at h; cases h; exact hn
  | cons a as ih =>
    simp only [rootActions] at h
    split at h
    · cases h
    · split at h
      · rename_i p1 h1; exact ih h (action_noKey hne h1 hn)
      · cases h
    · cases h
    · exact ih h hn

theorem fromRoot_noKey {root : Op} {p0 : Patch} (h : fromRoot root = .ok p0) {e : Id} (hne : e ≠ root.id) :
    NoKey e p0 := by
  unfold Patch.fromRoot at h
  split at h
  · cases h
  · split at h
    · refine rootActions_noKey hne _ h ?_
      refine ⟨by simp [Patch.new, get?, Ne.symm hne], fun r rev hr => ?_, fun r rev k rv hr hk => ?_⟩
      · simp only [Patch.new, get?] at hr
        split at hr
        · cases hr; rfl
        · cases hr
      · simp only [Patch.new, get?] at hr
        split at hr
        · cases hr; simp [get?] at hk
        · cases hr
    · cases h

theorem eval_noKey {p : Patch} (ops : List Op) {e : Id} (hne : ∀ o ∈ ops, e ≠ o.id) (hn : NoKey e p) :
    NoKey e (eval p ops) := by
  induction ops generalizing p with
  | nil => simpa [Patch.eval] using hn
  | cons o os ih =>
    simp only [Patch.eval, List.foldl_cons]
    exact ih (fun o' ho' => hne o' (List.mem_cons_of_mem _ ho')) (step_noKey (hne o List.mem_cons_self) hn)

/-- **authorization_history (patch)** — the property over whole histories, at full strength: for every
valid root op, every list of further entries with pairwise distinct ids (in whatever order the evaluator
linearised them; rejected entries are pruned and change nothing), and every position in it, the step
taken at that position respects the authorization rules (`StepRespectsAuth`). -/
theorem authorization_history {root : Op} {p0 : Patch} (h0 : fromRoot root = .ok p0)
    (pre : List Op) (o : Op) (post : List Op)
    (hids : (root.id :: (pre ++ o :: post).map (·.id)).Nodup) :
    StepRespectsAuth (eval p0 pre) o (step (eval p0 pre) o) := by
  have hnodup := List.nodup_cons.mp hids
  have hoid : o.id ≠ root.id := by
    intro heq
    exact hnodup.1 (heq ▸ List.mem_map.mpr ⟨o, List.mem_append_right _ List.mem_cons_self, rfl⟩)
  have h2 : (pre.map (·.id) ++ o.id :: post.map (·.id)).Nodup := by simpa using hnodup.2
  refine step_respects (eval_noKey pre (fun o' ho' heq => ?_) (fromRoot_noKey h0 hoid))
  exact (List.nodup_append.mp h2).2.2 _ (List.mem_map.mpr ⟨o', ho', rfl⟩) _ List.mem_cons_self heq.symm

theorem applyActions_author {e : Id} {actor : Actor} {doc : Doc} (as : List Action) {p p' : Patch}
    (h : applyActions e actor doc p as = .ok p') : p'.author = p.author := by
  induction as generalizing p with
  | nil => simp only [applyActions] at h; cases h; rfl
  | cons a as ih =>
    simp only [applyActions] at h
    split at h
    · rename_i p1 h1; exact (ih h).trans (opAction_author h1)
    · cases h

/-- The patch author never changes (so "the object author" of the statement is well defined). -/
theorem author_constant {p : Patch} (ops : List Op) : (eval p ops).author = p.author := by
  induction ops generalizing p with
  | nil => rfl
  | cons o os ih =>
    simp only [Patch.eval, List.foldl_cons]
    rw [show List.foldl step (step p o) os = eval (step p o) os from rfl, ih]
    unfold Patch.step
    cases hop : op p o with
    | error _ => rfl
    | ok p1 =>
      simp only
      unfold Patch.op at hop
      split at hop
      · cases hop
      · exact applyActions_author (p := { p with timeline := p.timeline ++ [o.id] }) _ hop

/-! ## Patches — every change graph -/

section Graph
open HeartwoodModel.Dag HeartwoodModel.ChangeGraph

/-- `Evaluate::init` for patches. -/
def graphInit (o : Op) : Option Patch :=
  match fromRoot o with
  | .ok p => some p
  | .error _ => none

/-- **authorization_dag (patch)** — as for issues: on EVERY well-formed acyclic change graph whose
entries are named by their keys, the state produced by the evaluator is `eval p0 hist` for a list of
validly signed entries of the graph, and every step of that run respects the authorization rules. -/
theorem authorization_dag {g g' : Dag Op} (hwf : g.Wf) (hac : Acyclic g.dependentsOf)
    (hid : ∀ k n, g.get k = some n → n.value.id = k)
    {sigOk : Op → Bool} {ts : Op → Nat} {fuel : Nat} {root : K} {p : Patch}
    (h : evaluate sigOk ts graphInit patchApplyM fuel g root = .ok p g') :
    ∃ (rootOp : Op) (p0 : Patch) (hist : List Op), (∃ rn, g.get root = some rn ∧ rn.value = rootOp) ∧
      fromRoot rootOp = .ok p0 ∧ p = eval p0 hist ∧
      (∀ o ∈ hist, ∃ k n, g.get k = some n ∧ n.value = o ∧ sigOk o = true) ∧
      ∀ pre o post, hist = pre ++ o :: post →
        StepRespectsAuth (eval p0 pre) o (step (eval p0 pre) o) := by
  obtain ⟨rn, p0, calls, hr, hi, hn, hroot, hv, hs⟩ :=
    evaluate_is_fold (stepf := step) (entryOf := fun c => c.2.1.value) hwf hac
      (fun s k n sibs => by simp [patchApplyM]) h
  have hi' : fromRoot rn.value = .ok p0 := by
    unfold graphInit at hi
    split at hi
    · rename_i q hq; cases hi; exact hq
    · cases hi
  have hids : (calls.map fun c => c.2.1.value.id) = calls.map (·.1) := by
    apply List.map_congr_left
    intro c hc
    obtain ⟨n0, h1, h2, _⟩ := hv c hc
    rw [h2]; exact hid _ _ h1
  refine ⟨rn.value, p0, calls.map (fun (c : Call Op) => c.2.1.value), ⟨rn, hr, rfl⟩, hi', hs, ?_, ?_⟩
  · intro o ho
    obtain ⟨c, hc, rfl⟩ := List.mem_map.mp ho
    obtain ⟨n0, h1, h2, h3⟩ := hv c hc
    exact ⟨c.1, n0, h1, h2.symm, by rw [h2]; exact h3⟩
  · intro pre o post hsplit
    refine authorization_history hi' pre o post ?_
    rw [← hsplit, List.map_map]
    show (rn.value.id :: calls.map fun c => c.2.1.value.id).Nodup
    rw [hids, hid _ _ hr]
    exact List.nodup_cons.mpr ⟨hroot, hn⟩

end Graph

end HeartwoodModel.Patch
