import HeartwoodModel.Model.FetchSched
import HeartwoodModel.Driver.Util
/-! Driver entry for C16. Case: `<conc>,<peers>,<repos>,<persist>,<have>,<seed> <op>…` (see
`harness/c16/src/main.rs` for the op syntax). Output: one item per op: `P` (panic, run stops), `K`
(result that is not outstanding) or `<emitted>/<fetching>/<sessions>`. -/
namespace HeartwoodModel.Driver.C16
open HeartwoodModel.FetchSched HeartwoodModel.Driver.Util

structure Dims where
  peers : Nat
  repos : Nat
  /-- flag `m`: the repositories are not in storage (inventory announcements and the sync task fetch) -/
  missing : Bool

def dots? (s : String) : Option (List Nat) :=
  if s == "-" then some [] else (splitOn s '.').mapM nat?

def parseCfg (s : String) : Option (Cfg × Dims) :=
  let go (conc peers repos persist hv seed flags : String) : Option (Cfg × Dims) := do
    let conc ← nat? conc; let peers ← nat? peers; let repos ← nat? repos
    let persist ← dots? persist; let hv ← dots? hv; let _ ← nat? seed
    let fl := if flags == "-" then [] else flags.toList
    if peers == 0 || peers > 9 || repos == 0 || repos > 9 || conc > 64 then none
    else if persist.any (fun p => p == 0 || p > peers) || hv.any (fun v => v == 0 || v > 3) then none
    else if fl.any (fun ch => ch != 'm' && ch != 'w') then none
    else some ({ conc, persist, want := fun v => if hv.contains v then 0 else v, wireFilter := fl.contains 'w' },
               { peers, repos, missing := fl.contains 'm' })
  match splitOn s ',' with
  | [conc, peers, repos, persist, hv, seed] => go conc peers repos persist hv seed "-"
  | [conc, peers, repos, persist, hv, seed, flags] => go conc peers repos persist hv seed flags
  | _ => none

def peer? (d : Dims) (s : String) : Option Nat := do
  let n ← nat? s
  if 1 ≤ n ∧ n ≤ d.peers then some n else none

def repo? (d : Dims) (s : String) : Option Nat := do
  let n ← nat? s
  if 1 ≤ n ∧ n ≤ d.repos then some n else none

/-- `r=n.n,r=n` → the flattened list of (repo, node) pairs; `-` = empty. -/
def plan? (d : Dims) (s : String) : Option (List (Nat × Nat)) :=
  if s == "-" then some [] else do
    let groups ← (splitOn s ',').mapM (fun g =>
      match splitOn g '=' with
      | [r, ns] => do
        let r ← repo? d r
        let ns ← (splitOn ns '.').mapM (peer? d)
        some (ns.map (fun n => (r, n)))
      | _ => none)
    some groups.flatten

def parseOp (d : Dims) (t : String) : Option Op :=
  let (head, perm, plan) : String × Option String × Option String :=
    match splitOn t ':' with
    | [h] => (h, none, none)
    | [h, p] => (h, some p, none)
    | [h, p, q] => (h, some p, some q)
    | _ => ("", none, none)
  if plan.isSome && head != "w" then none else
  match head.toList, perm with
  | 'i' :: rest, none => (peer? d (String.ofList rest)).map .connIn
  | 'o' :: rest, none => (peer? d (String.ofList rest)).map .connOut
  | 'd' :: rest, none => (peer? d (String.ofList rest)).map .dial
  | 'x' :: l :: rest, some p => do
    let n ← peer? d (String.ofList rest)
    let p ← dots? p
    if l == 'i' then some (.disc n .inbound p) else if l == 'o' then some (.disc n .outbound p) else none
  | 'c' :: rest, none =>
    match splitOn (String.ofList rest) '.' with
    | [r, n] => do some (.fetchCmd (← repo? d r) (← peer? d n))
    | _ => none
  | 'a' :: rest, none =>
    match splitOn (String.ofList rest) '.' with
    | [r, n, v] => do
      let v ← nat? v
      if 1 ≤ v ∧ v ≤ 3 then some (.refsAnn (← repo? d r) (← peer? d n) v) else none
    | _ => none
  | 'r' :: rest, some p => do
    let p ← dots? p
    match rest.reverse with
    | 's' :: k => let k ← nat? (String.ofList k.reverse); if k = 0 then none else some (.result k true p)
    | 'f' :: k => let k ← nat? (String.ofList k.reverse); if k = 0 then none else some (.result k false p)
    | _ => none
  | ['w'], some p => do some (.wake (← dots? p) (← plan? d (plan.getD "-")))
  | 'v' :: rest, none =>
    if !d.missing then none else
    match splitOn (String.ofList rest) '.' with
    | [r, n] => do some (.invAnn (← repo? d r) (← peer? d n))
    | _ => none
  | _, _ => none

def insertSorted (a : Nat) : List Nat → List Nat
  | [] => [a]
  | b :: bs => if a ≤ b then a :: b :: bs else b :: insertSorted a bs

def sortNats (xs : List Nat) : List Nat := xs.foldr insertSorted []

def range1 (n : Nat) : List Nat := (List.range n).map (· + 1)

def keys (d : Dims) (s : State) : List Nat := (range1 d.peers).filter (fun n => (s.sessions n).isSome)

/-- The permutation supplied with an event must list exactly the sessions that `dequeue_fetches` will see. -/
def permOk (c : Cfg) (d : Dims) (s : State) : Op → Bool
  | .disc n l p =>
    let ks := keys d s
    let ks := match s.sessions n with
      | some x => if x.link == l && !c.persist.contains n then ks.filter (· != n) else ks
      | none => ks
    sortNats p == ks
  | .result _ _ p => sortNats p == keys d s
  | .wake p plan =>
    sortNats p == keys d s && (d.missing || plan.isEmpty) &&
    plan.all (fun rn => match s.sessions rn.2 with | some x => x.isConnected | none => false)
  | _ => true

def showEmit (e : Emit) : String := s!"r{e.rid}n{e.nid}v{e.refs}"

def showState (d : Dims) (s : State) : String :=
  let fs := (range1 d.repos).filterMap (fun r => (s.fetching r).map (fun f => s!"r{r}n{f.frm}v{f.refs}"))
  let ss := (range1 d.peers).filterMap (fun n => (s.sessions n).map (fun x =>
    let l := match x.link with | .inbound => "i" | .outbound => "o"
    let st := match x.st with | .attempted => "A" | .connected _ => "C" | .disconnected => "D"
    let set := joinWith "." ((sortNats x.fset).map toString)
    let q := joinWith "," (x.queue.map (fun q =>
      s!"{q.rid}:{q.refs}:{showBool q.chan}" ++ (if q.frm == n then "" else s!"@{q.frm}")))
    s!"n{n}{l}{st}[{set}]({q})"))
  (if fs.isEmpty then "-" else joinWith "," fs) ++ "/" ++ (if ss.isEmpty then "-" else joinWith ";" ss)

def go (c : Cfg) (d : Dims) (s : State) : List Op → List String → Option (List String)
  | [], acc => some acc.reverse
  | op :: ops, acc =>
    if !permOk c d s op then none else
    let skip := match op with
      | .result fid _ _ => (findPending s fid).isNone
      | _ => false
    if skip then go c d s ops ("K" :: acc) else
    match step c s op with
    | .error (.panic _) => some ("P" :: acc).reverse
    | .error .badPerm => none
    | .ok s' =>
      let em := if s'.emits.isEmpty then "-" else joinWith "," (s'.emits.map showEmit)
      go c d s' ops ((em ++ "/" ++ showState d s') :: acc)

def run (args : List String) : String :=
  match args with
  | cfg :: ops =>
    match parseCfg cfg with
    | some (c, d) =>
      match ops.mapM (parseOp d) with
      | some ops =>
        match go c d (init c) ops [] with
        | some outs => joinWith " " outs
        | none => "bad-op"
      | none => "bad-op"
    | none => "bad-op"
  | _ => "bad-op"

end HeartwoodModel.Driver.C16
