import HeartwoodModel.Model.Term
/-!
Helper lemmas for C26: the scan loop stops at a prefix of the clusters that fits, the byte offset it
accumulated splits the string at a cluster boundary, and one-iteration equations for `Line::truncate`.
-/
set_option linter.unusedSimpArgs false
set_option linter.unusedVariables false
namespace HeartwoodModel.Term

theorem eq_nil_or_snoc {α : Type} (l : List α) : l = [] ∨ ∃ init last, l = init ++ [last] := by
  rcases List.eq_nil_or_concat l with h | ⟨init, last, h⟩
  · exact .inl h
  · exact .inr ⟨init, last, by rw [h, List.concat_eq_append]⟩

theorem gwidth_append (a b : Str) : gwidth (a ++ b) = gwidth a + gwidth b := by
  induction a with
  | nil => simp [gwidth]
  | cons g a ih => simp [gwidth, ih, Nat.add_assoc]

theorem byteLen_append (a b : Str) : byteLen (a ++ b) = byteLen a + byteLen b := by
  induction a with
  | nil => simp [byteLen]
  | cons g a ih => simp [byteLen, ih, Nat.add_assoc]

theorem lwidth_append (a b : Line) : lwidth (a ++ b) = lwidth a + lwidth b := by
  induction a with
  | nil => simp [lwidth]
  | cons g a ih => simp [lwidth, ih, Nat.add_assoc]

theorem lwidth_concat (a : Line) (i : Str) : lwidth (a ++ [i]) = lwidth a + gwidth i := by
  simp [lwidth_append, lwidth]

theorem gwidth_take_mono (s : Str) {j k : Nat} (h : j ≤ k) :
    gwidth (s.take j) ≤ gwidth (s.take k) := by
  induction s generalizing j k with
  | nil => simp [gwidth]
  | cons g s ih =>
    cases j with
    | zero => simp [gwidth]
    | succ j =>
      cases k with
      | zero => omega
      | succ k =>
        have := ih (j := j) (k := k) (by omega)
        simp only [List.take_succ_cons, gwidth]
        omega

theorem gwidth_take_le (s : Str) (k : Nat) : gwidth (s.take k) ≤ gwidth s := by
  have := gwidth_take_mono s (j := k) (k := k + s.length) (by omega)
  have e : s.take (k + s.length) = s := List.take_of_length_le (by omega)
  rwa [e] at this

/-- The loop of `truncate` takes a number `k` of whole clusters: `cols` is their width, `boundary`
their length in bytes, and `cols + d ≤ width` is preserved. -/
theorem scan_spec (width d : Nat) (s : Str) (c b : Nat) :
    ∃ k, scan width d s c b = (c + gwidth (s.take k), b + byteLen (s.take k)) ∧
      (c + d ≤ width → c + gwidth (s.take k) + d ≤ width) := by
  induction s generalizing c b with
  | nil => exact ⟨0, by simp [scan, gwidth, byteLen], by simp [gwidth]⟩
  | cons g s ih =>
    unfold scan
    split
    · exact ⟨0, by simp [gwidth, byteLen], by simp [gwidth]⟩
    · rename_i hfit
      obtain ⟨k, hk, hle⟩ := ih (c + g.width) (b + g.byteLen)
      refine ⟨k + 1, ?_, ?_⟩
      · rw [hk]; simp [gwidth, byteLen, Nat.add_assoc]
      · intro _
        have := hle (by omega)
        simp only [List.take_succ_cons, gwidth]
        omega

/-- The byte offset reached after `k` whole clusters splits the string at a cluster boundary: no
panic, no cut inside a cluster. (`j < k` only if clusters of zero bytes exist.) -/
theorem splitAtByte_take (s : Str) (k : Nat) :
    ∃ j, j ≤ k ∧ splitAtByte s (byteLen (s.take k)) = .ok (s.take j, s.drop j) := by
  induction s generalizing k with
  | nil => exact ⟨0, by omega, by simp [byteLen, splitAtByte]⟩
  | cons g s ih =>
    cases k with
    | zero => exact ⟨0, by omega, by simp [byteLen, splitAtByte]⟩
    | succ k =>
      simp only [List.take_succ_cons, byteLen]
      generalize hb : g.byteLen + byteLen (s.take k) = b
      cases b with
      | zero => exact ⟨0, by omega, by simp [splitAtByte]⟩
      | succ n =>
        obtain ⟨j, hj, hs⟩ := ih k
        have h1 : g.byteLen ≤ n + 1 := by omega
        have h2 : n + 1 - g.byteLen = byteLen (s.take k) := by omega
        refine ⟨j + 1, by omega, ?_⟩
        simp [splitAtByte, h1, h2, hs]

/-- `str::truncate` never panics, never cuts inside a cluster, and its result fits. -/
theorem truncate_spec (s : Str) (w : Nat) (d : Str) :
    ∃ out, truncate s w d = .ok out ∧ gwidth out ≤ w ∧
      (out = s ∨ out = [] ∨ ∃ j, out = s.take j ∨ out = s.take j ++ d) := by
  unfold truncate
  split
  · rename_i hlt
    dsimp only
    split
    · exact ⟨[], rfl, by simp [gwidth], .inr (.inl rfl)⟩
    · rename_i hd
      obtain ⟨k, hk, hle⟩ := scan_spec w (gwidth d) s 0 0
      have hfit := hle (by omega)
      obtain ⟨j, hj, hsplit⟩ := splitAtByte_take s k
      have hmono := gwidth_take_mono s hj
      rw [hk]
      simp only [Nat.zero_add, hsplit]
      split
      · exact ⟨s.take j, rfl, by omega, .inr (.inr ⟨j, .inl rfl⟩)⟩
      · exact ⟨s.take j ++ d, rfl, by rw [gwidth_append]; omega, .inr (.inr ⟨j, .inr rfl⟩)⟩
  · exact ⟨s, rfl, by omega, .inl rfl⟩

/-! ### one iteration of `Line::truncate` -/

theorem lineTruncate_done {f : Nat} {items : Line} {w : Nat} {d : Str} (h : lwidth items ≤ w) :
    lineTruncate (f + 1) items w d = some (.ok items) := by
  unfold lineTruncate
  have : ¬ (lwidth items > w) := by omega
  simp [this]

theorem lineTruncate_pop {f : Nat} {init : Line} {last : Str} {w : Nat} {d : Str}
    (h2 : w < lwidth init) :
    lineTruncate (f + 1) (init ++ [last]) w d = lineTruncate f init w d := by
  conv => lhs; rw [lineTruncate]
  have hl := lwidth_concat init last
  have h1 : lwidth (init ++ [last]) > w := by omega
  have h3 : ¬ (lwidth (init ++ [last]) < gwidth last) := by omega
  have h4 : lwidth (init ++ [last]) - gwidth last > w := by omega
  simp [h1, h3, h4]

theorem lineTruncate_cut {f : Nat} {init : Line} {last : Str} {w : Nat} {d : Str}
    (h : w < lwidth (init ++ [last])) (h2 : lwidth init ≤ w) :
    ∃ item', truncate last (w - lwidth init) d = .ok item' ∧ gwidth item' ≤ w - lwidth init ∧
      lineTruncate (f + 1) (init ++ [last]) w d = lineTruncate f (init ++ [item']) w d := by
  obtain ⟨item', ht, hw, _⟩ := truncate_spec last (w - lwidth init) d
  refine ⟨item', ht, hw, ?_⟩
  conv => lhs; rw [lineTruncate]
  have hl := lwidth_concat init last
  have h1 : lwidth (init ++ [last]) > w := h
  have h3 : ¬ (lwidth (init ++ [last]) < gwidth last) := by omega
  have h4 : ¬ (lwidth (init ++ [last]) - gwidth last > w) := by omega
  have h5 : ¬ (w < lwidth (init ++ [last]) - gwidth last) := by omega
  have h6 : lwidth (init ++ [last]) - gwidth last = lwidth init := by omega
  have h7 : ¬ (lwidth init > w) := by omega
  have h8 : ¬ (w < lwidth init) := by omega
  simp only [h1, if_true, List.getLast?_concat, h3, if_false, h4, h5, List.dropLast_concat, h6, ht, h7,
    h8]

end HeartwoodModel.Term
