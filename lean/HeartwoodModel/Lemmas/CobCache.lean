import HeartwoodModel.Model.CobCache
/-!
# Helper lemmas for C09 (`Model/CobCache.lean`)

* sorted tables: `lookup` after `upsert` / `erase` / `image`, preservation of sortedness, extensionality;
* the write rules preserve the invariant "cache row `k` = encoding of truth `k`" (`Inv`);
* `decodeRows`, `GROUP BY` (`addToGroups`, `countsGo`).
-/
set_option linter.unusedSimpArgs false
set_option linter.unusedVariables false
namespace HeartwoodModel.CobCache

namespace Table
variable {α β : Type}

@[simp] private theorem image_nil (f : α → β) : image f ([] : Table α) = [] := rfl
@[simp] theorem image_cons (f : α → β) (k : Id) (v : α) (t : Table α) :
    image f ((k, v) :: t) = (k, f v) :: image f t := rfl

@[simp] theorem lookup_nil (k : Id) : lookup k ([] : Table α) = none := rfl
theorem lookup_cons (k k' : Id) (v : α) (t : Table α) :
    lookup k ((k', v) :: t) = if k' = k then some v else lookup k t := rfl

theorem lookup_image (f : α → β) (k : Id) (t : Table α) :
    lookup k (image f t) = (lookup k t).map f := by
  induction t with
  | nil => rfl
  | cons kv t ih =>
    obtain ⟨k', v⟩ := kv
    rw [image_cons, lookup_cons, lookup_cons, ih]
    by_cases h : k' = k <;> simp [h]

private theorem lookup_upsert_self (k : Id) (v : α) (t : Table α) : lookup k (upsert k v t) = some v := by
  induction t with
  | nil => simp [upsert, lookup_cons]
  | cons kv t ih =>
    obtain ⟨k₁, v₁⟩ := kv
    by_cases h1 : k₁ = k
    · simp [upsert, h1, lookup_cons]
    · by_cases h2 : k < k₁
      · simp [upsert, h1, h2, lookup_cons]
      · simp [upsert, h1, h2, lookup_cons, ih]

private theorem lookup_upsert_ne {k k' : Id} (h : k' ≠ k) (v : α) (t : Table α) :
    lookup k' (upsert k v t) = lookup k' t := by
  have h' : ¬ k = k' := fun e => h e.symm
  induction t with
  | nil => simp [upsert, lookup_cons, h']
  | cons kv t ih =>
    obtain ⟨k₁, v₁⟩ := kv
    by_cases h1 : k₁ = k
    · subst h1
      simp [upsert, lookup_cons, h']
    · by_cases h2 : k < k₁
      · simp [upsert, h1, h2, lookup_cons, h']
      · simp [upsert, h1, h2, lookup_cons, ih]

theorem lookup_upsert (k k' : Id) (v : α) (t : Table α) :
    lookup k' (upsert k v t) = if k' = k then some v else lookup k' t := by
  by_cases h : k' = k
  · subst h; simp [lookup_upsert_self]
  · simp [h, lookup_upsert_ne h]

theorem lookup_erase (k k' : Id) (t : Table α) :
    lookup k' (erase k t) = if k' = k then none else lookup k' t := by
  induction t with
  | nil => simp [erase]
  | cons kv t ih =>
    obtain ⟨k₁, v₁⟩ := kv
    by_cases h1 : k₁ = k
    · subst h1
      by_cases h : k' = k₁
      · subst h; simp [erase, ih]
      · have : ¬ k₁ = k' := fun e => h e.symm
        simp [erase, ih, h, lookup_cons, this]
    · by_cases h : k' = k
      · subst h; simp [erase, h1, lookup_cons, ih]
      · simp [erase, h1, lookup_cons, ih, h]

theorem lookup_set (k k' : Id) (o : Option α) (t : Table α) :
    lookup k' (set k o t) = if k' = k then o else lookup k' t := by
  cases o with
  | none => simp [set, lookup_erase]
  | some v => simp [set, lookup_upsert]

/-! ### sortedness -/

/-- Strictly increasing keys (in particular: no key twice). -/
def Sorted (t : Table α) : Prop := t.Pairwise (fun a b => a.1 < b.1)

theorem sorted_nil : Sorted ([] : Table α) := List.Pairwise.nil

theorem sorted_cons {k : Id} {v : α} {t : Table α} :
    Sorted ((k, v) :: t) ↔ (∀ kv ∈ t, k < kv.1) ∧ Sorted t := by
  unfold Sorted; exact List.pairwise_cons

private theorem mem_upsert {k : Id} {v : α} {t : Table α} {kv : Id × α} (h : kv ∈ upsert k v t) :
    kv = (k, v) ∨ kv ∈ t := by
  induction t with
  | nil => simp [upsert] at h; exact Or.inl h
  | cons kv₁ t ih =>
    obtain ⟨k₁, v₁⟩ := kv₁
    by_cases h1 : k₁ = k
    · simp [upsert, h1] at h
      rcases h with h | h
      · exact Or.inl h
      · exact Or.inr (List.mem_cons_of_mem _ h)
    · by_cases h2 : k < k₁
      · simp [upsert, h1, h2] at h
        rcases h with h | h | h
        · exact Or.inl h
        · exact Or.inr (by rw [h]; exact List.mem_cons_self)
        · exact Or.inr (List.mem_cons_of_mem _ h)
      · simp [upsert, h1, h2] at h
        rcases h with h | h
        · exact Or.inr (by rw [h]; exact List.mem_cons_self)
        · rcases ih h with h | h
          · exact Or.inl h
          · exact Or.inr (List.mem_cons_of_mem _ h)

theorem sorted_upsert {k : Id} {v : α} {t : Table α} (hs : Sorted t) : Sorted (upsert k v t) := by
  induction t with
  | nil => simp [upsert, Sorted]
  | cons kv₁ t ih =>
    obtain ⟨k₁, v₁⟩ := kv₁
    obtain ⟨hlt, hst⟩ := sorted_cons.mp hs
    by_cases h1 : k₁ = k
    · subst h1
      simp only [upsert, if_true]
      exact sorted_cons.mpr ⟨hlt, hst⟩
    · by_cases h2 : k < k₁
      · simp only [upsert, h1, h2, if_false, if_true]
        refine sorted_cons.mpr ⟨?_, hs⟩
        intro kv hkv
        rcases List.mem_cons.mp hkv with h | h
        · rw [h]; exact h2
        · exact String.lt_trans h2 (hlt kv h)
      · simp only [upsert, h1, h2, if_false]
        refine sorted_cons.mpr ⟨?_, ih hst⟩
        intro kv hkv
        rcases mem_upsert hkv with h | h
        · rw [h]
          -- ¬ k < k₁ and k₁ ≠ k, hence k₁ < k
          rcases Decidable.em (k₁ < k) with h3 | h3
          · exact h3
          · exact absurd (String.le_antisymm (String.not_lt.mp h2) (String.not_lt.mp h3)) h1
        · exact hlt kv h

private theorem mem_erase {k : Id} {t : Table α} {kv : Id × α} (h : kv ∈ erase k t) : kv ∈ t := by
  induction t with
  | nil => simp [erase] at h
  | cons kv₁ t ih =>
    obtain ⟨k₁, v₁⟩ := kv₁
    by_cases h1 : k₁ = k
    · simp only [erase, h1, if_true] at h
      exact List.mem_cons_of_mem _ (ih h)
    · simp only [erase, h1, if_false] at h
      rcases List.mem_cons.mp h with h | h
      · rw [h]; exact List.mem_cons_self
      · exact List.mem_cons_of_mem _ (ih h)

theorem sorted_erase {k : Id} {t : Table α} (hs : Sorted t) : Sorted (erase k t) := by
  induction t with
  | nil => simp [erase, Sorted]
  | cons kv₁ t ih =>
    obtain ⟨k₁, v₁⟩ := kv₁
    obtain ⟨hlt, hst⟩ := sorted_cons.mp hs
    by_cases h1 : k₁ = k
    · simp only [erase, h1, if_true]; exact ih hst
    · simp only [erase, h1, if_false]
      exact sorted_cons.mpr ⟨fun kv hkv => hlt kv (mem_erase hkv), ih hst⟩

theorem sorted_set {k : Id} {o : Option α} {t : Table α} (hs : Sorted t) : Sorted (set k o t) := by
  cases o with
  | none => exact sorted_erase hs
  | some v => exact sorted_upsert hs

theorem sorted_image (f : α → β) {t : Table α} (hs : Sorted t) : Sorted (image f t) := by
  induction t with
  | nil => exact sorted_nil
  | cons kv t ih =>
    obtain ⟨k, v⟩ := kv
    obtain ⟨hlt, hst⟩ := sorted_cons.mp hs
    rw [image_cons]
    refine sorted_cons.mpr ⟨?_, ih hst⟩
    intro kv hkv
    obtain ⟨kv', hm, rfl⟩ := List.mem_map.mp hkv
    exact hlt kv' hm

theorem lookup_eq_none_of_lt {k : Id} {t : Table α} (h : ∀ kv ∈ t, k < kv.1) : lookup k t = none := by
  induction t with
  | nil => rfl
  | cons kv t ih =>
    obtain ⟨k₁, v₁⟩ := kv
    have h1 : k < k₁ := h (k₁, v₁) List.mem_cons_self
    have hne : ¬ k₁ = k := fun e => String.lt_irrefl k (by rw [e] at h1; exact h1)
    rw [lookup_cons, if_neg hne]
    exact ih (fun kv hkv => h kv (List.mem_cons_of_mem _ hkv))

theorem lookup_of_mem {k : Id} {v : α} {t : Table α} (hs : Sorted t) (h : (k, v) ∈ t) :
    lookup k t = some v := by
  induction t with
  | nil => cases h
  | cons kv t ih =>
    obtain ⟨k₁, v₁⟩ := kv
    obtain ⟨hlt, hst⟩ := sorted_cons.mp hs
    rcases List.mem_cons.mp h with h | h
    · cases h; simp [lookup_cons]
    · have h1 : k₁ < k := hlt (k, v) h
      have hne : ¬ k₁ = k := fun e => String.lt_irrefl k (by rw [e] at h1; exact h1)
      rw [lookup_cons, if_neg hne]
      exact ih hst h

theorem mem_of_lookup {k : Id} {v : α} {t : Table α} (h : lookup k t = some v) : (k, v) ∈ t := by
  induction t with
  | nil => cases h
  | cons kv t ih =>
    obtain ⟨k₁, v₁⟩ := kv
    rw [lookup_cons] at h
    by_cases h1 : k₁ = k
    · rw [if_pos h1] at h; cases h; rw [h1]; exact List.mem_cons_self
    · rw [if_neg h1] at h; exact List.mem_cons_of_mem _ (ih h)

/-- Two sorted tables with the same `lookup` are equal. -/
theorem ext_of_sorted {a b : Table α} (ha : Sorted a) (hb : Sorted b)
    (h : ∀ k, lookup k a = lookup k b) : a = b := by
  induction a generalizing b with
  | nil =>
    cases b with
    | nil => rfl
    | cons kv b =>
      obtain ⟨k, v⟩ := kv
      have := h k
      simp [lookup_cons] at this
  | cons kv a ih =>
    obtain ⟨k, v⟩ := kv
    obtain ⟨hlt, hsa⟩ := sorted_cons.mp ha
    cases b with
    | nil =>
      have := h k
      simp [lookup_cons] at this
    | cons kv' b =>
      obtain ⟨k', v'⟩ := kv'
      obtain ⟨hlt', hsb⟩ := sorted_cons.mp hb
      -- the heads carry the same key
      have hk : k = k' := by
        rcases Decidable.em (k < k') with h1 | h1
        · -- k is in a but smaller than every key of b
          have h2 := h k
          rw [lookup_cons, if_pos rfl] at h2
          have : lookup k ((k', v') :: b) = none :=
            lookup_eq_none_of_lt (fun kv hkv => by
              rcases List.mem_cons.mp hkv with e | e
              · rw [e]; exact h1
              · exact String.lt_trans h1 (hlt' kv e))
          rw [this] at h2; cases h2
        · rcases Decidable.em (k' < k) with h3 | h3
          · have h2 := h k'
            rw [lookup_cons (k := k') (k' := k'), if_pos rfl] at h2
            have : lookup k' ((k, v) :: a) = none :=
              lookup_eq_none_of_lt (fun kv hkv => by
                rcases List.mem_cons.mp hkv with e | e
                · rw [e]; exact h3
                · exact String.lt_trans h3 (hlt kv e))
            rw [this] at h2; cases h2
          · exact String.le_antisymm (String.not_lt.mp h3) (String.not_lt.mp h1)
      subst hk
      have hv : v = v' := by
        have h2 := h k
        simp [lookup_cons] at h2
        exact h2
      subst hv
      congr 1
      apply ih hsa hsb
      intro j
      have h2 := h j
      rw [lookup_cons, lookup_cons] at h2
      by_cases hj : k = j
      · subst hj
        rw [lookup_eq_none_of_lt hlt, lookup_eq_none_of_lt hlt']
      · rw [if_neg hj, if_neg hj] at h2; exact h2

end Table

/-! ## Filtering a sorted table -/

namespace Table
variable {β : Type}

theorem sorted_filter (p : Id × β → Bool) {t : Table β} (hs : Sorted t) : Sorted (t.filter p) := by
  unfold Sorted at *
  exact hs.filter p

theorem lookup_filter (p : Id × β → Bool) {t : Table β} (hs : Sorted t) (k : Id) :
    lookup k (t.filter p) = (lookup k t).bind fun v => if p (k, v) then some v else none := by
  induction t with
  | nil => rfl
  | cons kv t ih =>
    obtain ⟨k₁, v₁⟩ := kv
    obtain ⟨hlt, hst⟩ := sorted_cons.mp hs
    rw [List.filter_cons, lookup_cons]
    by_cases hk : k₁ = k
    · subst hk
      rw [if_pos rfl]
      by_cases hp : p (k₁, v₁) = true
      · simp [hp, lookup_cons]
      · have hnone : lookup k₁ (t.filter p) = none :=
          lookup_eq_none_of_lt (fun kv hkv => hlt kv (List.mem_filter.mp hkv).1)
        simp [hp, hnone]
    · rw [if_neg hk]
      by_cases hp : p (k₁, v₁) = true
      · simp only [hp, if_true, lookup_cons, if_neg hk]; exact ih hst
      · simp only [hp]; exact ih hst

end Table

/-! ## The invariant: every cache row is the encoding of the object of the repository that owns its id -/

section Inv
variable {α : Type}

theorem setTruth_same (truth : Repo → Table α) (r : Repo) (t : Table α) : setTruth truth r t r = t := by
  simp [setTruth]

theorem setTruth_other (truth : Repo → Table α) {r r' : Repo} (t : Table α) (h : r' ≠ r) :
    setTruth truth r t r' = truth r' := by
  simp [setTruth, h]

/-- Every row is filed under the repository that owns its id. -/
def RowsOwned (owner : Id → Repo) (c : Table Row) : Prop :=
  ∀ id row, c.lookup id = some row → row.repo = owner id

theorem lookup_cacheUpdate {owner : Id → Repo} {c : Table Row} (ho : RowsOwned owner c) {r : Repo} {id : Id}
    (hr : owner id = r) (j : Json) (k : Id) :
    (cacheUpdate r id j c).lookup k = if k = id then some ⟨r, j⟩ else c.lookup k := by
  unfold cacheUpdate
  rw [Table.lookup_upsert]
  by_cases hk : k = id
  · rw [if_pos hk, if_pos hk]
    cases hl : c.lookup id with
    | none => rfl
    | some row => simp only; rw [ho id row hl, hr]
  · rw [if_neg hk, if_neg hk]

theorem sorted_cacheUpdate {c : Table Row} (hs : Table.Sorted c) (r : Repo) (id : Id) (j : Json) :
    Table.Sorted (cacheUpdate r id j c) := Table.sorted_upsert hs

theorem rowsOwned_cacheUpdate {owner : Id → Repo} {c : Table Row} (ho : RowsOwned owner c) {r : Repo} {id : Id}
    (hr : owner id = r) (j : Json) : RowsOwned owner (cacheUpdate r id j c) := by
  intro k row hl
  rw [lookup_cacheUpdate ho hr] at hl
  by_cases hk : k = id
  · rw [if_pos hk] at hl; cases hl; rw [hk, hr]
  · rw [if_neg hk] at hl; exact ho k row hl

theorem rowsOwned_erase {owner : Id → Repo} {c : Table Row} (ho : RowsOwned owner c) (id : Id) :
    RowsOwned owner (c.erase id) := by
  intro k row hl
  rw [Table.lookup_erase] at hl
  by_cases hk : k = id
  · rw [if_pos hk] at hl; cases hl
  · rw [if_neg hk] at hl; exact ho k row hl

/-- What a handle of repository `r` sees of row `k`. -/
theorem lookup_view {c : Table Row} (hs : Table.Sorted c) (r : Repo) (k : Id) :
    (view r c).lookup k = (c.lookup k).bind fun row => if row.repo = r then some row.json else none := by
  unfold view
  rw [Table.lookup_image, Table.lookup_filter _ hs]
  cases c.lookup k with
  | none => rfl
  | some row =>
    by_cases h : row.repo = r <;> simp [h]

theorem sorted_view {c : Table Row} (hs : Table.Sorted c) (r : Repo) : Table.Sorted (view r c) :=
  Table.sorted_image _ (Table.sorted_filter _ hs)

theorem lookup_cacheRemoveAll {c : Table Row} (hs : Table.Sorted c) (r : Repo) (k : Id) :
    (cacheRemoveAll r c).lookup k = (c.lookup k).bind fun row => if row.repo = r then none else some row := by
  unfold cacheRemoveAll
  rw [Table.lookup_filter _ hs]
  cases c.lookup k with
  | none => rfl
  | some row =>
    by_cases h : row.repo = r <;> simp [h]

theorem sorted_cacheRemoveAll {c : Table Row} (hs : Table.Sorted c) (r : Repo) :
    Table.Sorted (cacheRemoveAll r c) := Table.sorted_filter _ hs

theorem sorted_applyChanges {t : Table α} (cs : List (Id × Option α)) (h : Table.Sorted t) :
    Table.Sorted (applyChanges t cs) := by
  induction cs generalizing t with
  | nil => exact h
  | cons c cs ih => obtain ⟨id, o⟩ := c; exact ih (Table.sorted_set h)

/-- Objects not named in `changes` evaluate as before. -/
theorem lookup_applyChanges_of_not_mem {t : Table α} (cs : List (Id × Option α)) {k : Id}
    (h : ∀ c ∈ cs, c.1 ≠ k) : (applyChanges t cs).lookup k = t.lookup k := by
  induction cs generalizing t with
  | nil => rfl
  | cons c cs ih =>
    obtain ⟨id, o⟩ := c
    have hne : k ≠ id := fun e => h (id, o) List.mem_cons_self e.symm
    rw [applyChanges, ih (fun c hc => h c (List.mem_cons_of_mem _ hc)), Table.lookup_set, if_neg hne]

theorem sorted_updateOrRemove (enc : α → Json) (truth : Table α) (r : Repo) {cache : Table Row} (id : Id)
    (h : Table.Sorted cache) : Table.Sorted (updateOrRemove enc truth r cache id) := by
  unfold updateOrRemove
  cases truth.lookup id with
  | none => exact Table.sorted_erase h
  | some o => exact sorted_cacheUpdate h _ _ _

theorem sorted_cacheCobs (enc : α → Json) (truth : Table α) (r : Repo) {cache : Table Row} (refs : List RefUpd)
    (h : Table.Sorted cache) : Table.Sorted (cacheCobs enc truth r cache refs) := by
  induction refs generalizing cache with
  | nil => exact h
  | cons u us ih =>
    unfold cacheCobs
    by_cases hsk : u.skipped = true
    · rw [if_pos hsk]; exact ih h
    · rw [if_neg hsk]; exact ih (sorted_updateOrRemove enc truth r u.id h)

/-- After `cache_cobs` on repository `r` (whose reference updates name ids owned by `r`), the rows of the
objects named by a non-skipped update are in sync with the repository; all other rows are untouched. -/
theorem lookup_cacheCobs (enc : α → Json) (truth : Table α) {owner : Id → Repo} (r : Repo) (refs : List RefUpd)
    (hown : ∀ u ∈ refs, u.skipped = false → owner u.id = r) {cache : Table Row}
    (ho : RowsOwned owner cache) (k : Id) :
    (cacheCobs enc truth r cache refs).lookup k =
      if (∃ u ∈ refs, u.id = k ∧ u.skipped = false) then (truth.lookup k).map (fun o => ⟨r, enc o⟩)
      else cache.lookup k := by
  induction refs generalizing cache with
  | nil => simp [cacheCobs]
  | cons u us ih =>
    have hown' : ∀ u' ∈ us, u'.skipped = false → owner u'.id = r :=
      fun u' hu' => hown u' (List.mem_cons_of_mem _ hu')
    unfold cacheCobs
    by_cases hsk : u.skipped = true
    · rw [if_pos hsk, ih hown' ho]
      have : (∃ u' ∈ u :: us, u'.id = k ∧ u'.skipped = false) ↔ (∃ u' ∈ us, u'.id = k ∧ u'.skipped = false) := by
        constructor
        · rintro ⟨u', hm, h1, h2⟩
          rcases List.mem_cons.mp hm with e | e
          · subst e; rw [hsk] at h2; cases h2
          · exact ⟨u', e, h1, h2⟩
        · rintro ⟨u', hm, h1, h2⟩; exact ⟨u', List.mem_cons_of_mem _ hm, h1, h2⟩
      by_cases hex : ∃ u' ∈ us, u'.id = k ∧ u'.skipped = false
      · rw [if_pos hex, if_pos (this.mpr hex)]
      · rw [if_neg hex, if_neg (fun h => hex (this.mp h))]
    · have hsk' : u.skipped = false := by cases h : u.skipped <;> simp_all
      have hou : owner u.id = r := hown u List.mem_cons_self hsk'
      have ho1 : RowsOwned owner (updateOrRemove enc truth r cache u.id) := by
        unfold updateOrRemove
        cases truth.lookup u.id with
        | none => exact rowsOwned_erase ho _
        | some o => exact rowsOwned_cacheUpdate ho hou _
      have hl1 : (updateOrRemove enc truth r cache u.id).lookup k =
          if k = u.id then (truth.lookup u.id).map (fun o => (⟨r, enc o⟩ : Row)) else cache.lookup k := by
        unfold updateOrRemove
        cases truth.lookup u.id with
        | none => simp [cacheRemove, Table.lookup_erase]
        | some o => simp [lookup_cacheUpdate ho hou]
      rw [if_neg hsk, ih hown' ho1]
      by_cases hex : ∃ u' ∈ us, u'.id = k ∧ u'.skipped = false
      · obtain ⟨u', hm, h1, h2⟩ := hex
        rw [if_pos ⟨u', hm, h1, h2⟩, if_pos ⟨u', List.mem_cons_of_mem _ hm, h1, h2⟩]
      · rw [if_neg hex, hl1]
        by_cases hk : k = u.id
        · rw [if_pos hk, if_pos ⟨u, List.mem_cons_self, hk.symm, hsk'⟩, hk]
        · rw [if_neg hk]
          have : ¬ ∃ u' ∈ u :: us, u'.id = k ∧ u'.skipped = false := by
            rintro ⟨u', hm, h1, h2⟩
            rcases List.mem_cons.mp hm with e | e
            · subst e; exact hk h1.symm
            · exact hex ⟨u', e, h1, h2⟩
          rw [if_neg this]

/-- `write_all`'s updates: the rows of the objects of `t` (all owned by `r`) are rewritten, the others kept. -/
theorem writeRows_spec (enc : α → Json) {owner : Id → Repo} (r : Repo) (t : Table α) (hs : Table.Sorted t)
    (hown : ∀ kv ∈ t, owner kv.1 = r) {c : Table Row} (hc : Table.Sorted c) (ho : RowsOwned owner c) :
    Table.Sorted (writeRows enc r c t) ∧
    ∀ k, (writeRows enc r c t).lookup k =
      match t.lookup k with
      | some o => some ⟨r, enc o⟩
      | none => c.lookup k := by
  induction t generalizing c with
  | nil => exact ⟨hc, fun _ => rfl⟩
  | cons kv t ih =>
    obtain ⟨k₁, o₁⟩ := kv
    obtain ⟨hlt, hst⟩ := Table.sorted_cons.mp hs
    have hk₁ : owner k₁ = r := hown (k₁, o₁) List.mem_cons_self
    obtain ⟨ih1, ih2⟩ := ih hst (fun kv hkv => hown kv (List.mem_cons_of_mem _ hkv))
      (sorted_cacheUpdate hc r k₁ (enc o₁)) (rowsOwned_cacheUpdate ho hk₁ (enc o₁))
    refine ⟨ih1, ?_⟩
    intro k
    simp only [writeRows]
    rw [ih2 k, Table.lookup_cons]
    by_cases hk : k₁ = k
    · subst hk
      rw [if_pos rfl, Table.lookup_eq_none_of_lt hlt]
      simp [lookup_cacheUpdate ho hk₁]
    · rw [if_neg hk, lookup_cacheUpdate ho hk₁ (enc o₁) k, if_neg (fun e => hk e.symm)]

theorem setTruth_self (truth : Repo → Table α) (r : Repo) : setTruth truth r (truth r) = truth := by
  funext r'
  by_cases h : r' = r
  · subst h; exact setTruth_same _ _ _
  · exact setTruth_other _ _ h

/-- The part of the invariant that every operation keeps, sound or not, as long as it only names ids
of its own repository: sorted tables, an id lives only in the repository that owns it, and a row is filed
under the owner of its id. -/
structure Base (owner : Id → Repo) (s : Store α) : Prop where
  truth_sorted : ∀ r, Table.Sorted (s.truth r)
  cache_sorted : Table.Sorted s.cache
  owned : ∀ r k, owner k ≠ r → (s.truth r).lookup k = none
  rows_owned : RowsOwned owner s.cache

/-- The rows of the ids owned by repository `r` are the encodings of what `r` evaluates to. -/
def AgreeOn (enc : α → Json) (owner : Id → Repo) (r : Repo) (s : Store α) : Prop :=
  ∀ k, owner k = r → s.cache.lookup k = ((s.truth r).lookup k).map fun o => ⟨r, enc o⟩

/-- What the handle of repository `r` reads is exactly the encoding of what `r` evaluates to. -/
theorem view_eq {enc : α → Json} {owner : Id → Repo} {s : Store α} (hb : Base owner s) {r : Repo}
    (ha : AgreeOn enc owner r s) : view r s.cache = (s.truth r).image enc := by
  apply Table.ext_of_sorted (sorted_view hb.cache_sorted r) (Table.sorted_image enc (hb.truth_sorted r))
  intro k
  rw [lookup_view hb.cache_sorted, Table.lookup_image]
  by_cases hk : owner k = r
  · rw [ha k hk]
    cases (s.truth r).lookup k <;> simp
  · rw [hb.owned r k hk]
    cases hl : s.cache.lookup k with
    | none => rfl
    | some row =>
      have : ¬ row.repo = r := by rw [hb.rows_owned k row hl]; exact hk
      simp [this]

theorem base_empty (owner : Id → Repo) : Base owner (Store.empty : Store α) :=
  ⟨fun _ => Table.sorted_nil, Table.sorted_nil, fun _ _ _ => rfl, fun _ _ h => by cases h⟩

theorem agreeOn_empty (enc : α → Json) (owner : Id → Repo) (r : Repo) :
    AgreeOn enc owner r (Store.empty : Store α) := fun _ _ => rfl

end Inv

/-! ## Decoding rows -/

theorem decodeRows_image {α : Type} {enc : α → Json} {dec : Json → Option α}
    (h : ∀ a, dec (enc a) = some a) (t : Table α) : decodeRows dec (t.image enc) = .ok t := by
  induction t with
  | nil => rfl
  | cons kv t ih =>
    obtain ⟨k, v⟩ := kv
    rw [Table.image_cons, decodeRows, h v]
    simp only [ih, Res.bind]

theorem filter_image {α : Type} (enc : α → Json) (p : Json → Bool) (q : α → Bool)
    (t : Table α) (h : ∀ kv ∈ t, p (enc kv.2) = q kv.2) :
    (t.image enc).filter (fun kv => p kv.2) = Table.image enc (t.filter fun kv => q kv.2) := by
  induction t with
  | nil => rfl
  | cons kv t ih =>
    obtain ⟨k, v⟩ := kv
    have hv : p (enc v) = q v := h (k, v) List.mem_cons_self
    have ih' := ih (fun kv hkv => h kv (List.mem_cons_of_mem _ hkv))
    rw [Table.image_cons, List.filter_cons, List.filter_cons]
    simp only [hv]
    cases q v
    · simpa using ih'
    · simp only [if_true, Table.image_cons]; rw [ih']

/-! ## JSON accessors -/

namespace Json

@[simp] theorem members_ofObj (l : List (String × Json)) : members (ofObj l) = l := by
  induction l with
  | nil => rfl
  | cons kv l ih => obtain ⟨k, v⟩ := kv; simp [ofObj, members, ih]

private theorem get?_ofObj (k : String) (l : List (String × Json)) : get? k (ofObj l) = Table.lookup k l := by
  induction l with
  | nil => rfl
  | cons kv l ih =>
    obtain ⟨k', v⟩ := kv
    simp only [ofObj, get?, Table.lookup_cons, ih]

end Json

/-! ## `GROUP BY` and the counts fold -/

section Counts
variable {σ κ : Type}

/-- `pick` returns a row of the group. -/
def PickOk (pick : List Json → Option Json) : Prop :=
  ∀ l, l ≠ [] → ∃ x, x ∈ l ∧ pick l = some x

theorem pickOk_head : PickOk List.head? := by
  intro l hl
  cases l with
  | nil => exact absurd rfl hl
  | cons x t => exact ⟨x, List.mem_cons_self, rfl⟩

/-- The state a row decodes to. -/
def rowState (decState : Json → Option σ) (j : Json) : Option σ := (j.get? "state").bind decState

/-- Row `j` is the encoding of an object in state `s`: `$.state` decodes to `s` and `$.state.status` is the
status name of `s`. -/
def GoodRow (decState : Json → Option σ) (nm : σ → String) (j : Json) (s : σ) : Prop :=
  rowState decState j = some s ∧ statusKey j = some (.str (nm s))

/-- Every group is non-empty; its rows are good and carry the group's key. -/
def GroupsOk (decState : Json → Option σ) (nm : σ → String) (gs : Groups) : Prop :=
  ∀ g ∈ gs, g.2 ≠ [] ∧ ∀ j ∈ g.2, statusKey j = g.1 ∧ ∃ s, GoodRow decState nm j s

private theorem groupsOk_addToGroups {decState : Json → Option σ} {nm : σ → String} {gs : Groups} {j : Json}
    {s : σ} (hg : GroupsOk decState nm gs) (hj : GoodRow decState nm j s) :
    GroupsOk decState nm (addToGroups (statusKey j) j gs) := by
  induction gs with
  | nil =>
    intro g hgm
    simp only [addToGroups, List.mem_singleton] at hgm
    subst hgm
    refine ⟨by simp, ?_⟩
    intro j' hj'
    simp only [List.mem_singleton] at hj'
    subst hj'
    exact ⟨rfl, s, hj⟩
  | cons g gs ih =>
    obtain ⟨k', rows⟩ := g
    have hhead := hg (k', rows) List.mem_cons_self
    have htail : GroupsOk decState nm gs := fun g hgm => hg g (List.mem_cons_of_mem _ hgm)
    unfold addToGroups
    by_cases hk : k' = statusKey j
    · rw [if_pos hk]
      intro g hgm
      rcases List.mem_cons.mp hgm with e | e
      · subst e
        refine ⟨by simp, ?_⟩
        intro j' hj'
        rcases List.mem_cons.mp hj' with e' | e'
        · subst e'; exact ⟨hk.symm, s, hj⟩
        · exact hhead.2 j' e'
      · exact htail g e
    · rw [if_neg hk]
      intro g hgm
      rcases List.mem_cons.mp hgm with e | e
      · subst e; exact hhead
      · exact ih htail g e

/-- What `countsGo` needs to know about the bucket arithmetic. -/
structure AddLaws (nm : σ → String) (add : κ → σ → Nat → κ) : Prop where
  congr : ∀ acc s s' n, nm s = nm s' → add acc s n = add acc s' n
  merge : ∀ acc s n m, add (add acc s n) s m = add acc s (n + m)
  comm : ∀ acc s n s' m, add (add acc s n) s' m = add (add acc s' m) s n

private theorem countsGo_add {decState : Json → Option σ} {nm : σ → String} {add : κ → σ → Nat → κ}
    (hl : AddLaws nm add) (pick : List Json → Option Json) (gs : Groups) (acc : κ) (s : σ) (n : Nat) :
    countsGo decState add pick gs (add acc s n) =
      (countsGo decState add pick gs acc).bind fun r => .ok (add r s n) := by
  induction gs generalizing acc with
  | nil => rfl
  | cons g gs ih =>
    obtain ⟨k', rows⟩ := g
    simp only [countsGo]
    cases (pick rows).bind (Json.get? "state") with
    | none => rfl
    | some st =>
      simp only
      cases decState st with
      | none => rfl
      | some s' =>
        simp only
        rw [hl.comm, ih]

/-- The picked row of a good group decodes to a state with the group's status name. -/
private theorem picked_state {decState : Json → Option σ} {nm : σ → String} {pick : List Json → Option Json}
    (hp : PickOk pick) {k : Option Json} {rows : List Json} (hne : rows ≠ [])
    (hrows : ∀ j ∈ rows, statusKey j = k ∧ ∃ s, GoodRow decState nm j s) :
    ∃ st s, (pick rows).bind (Json.get? "state") = some st ∧ decState st = some s ∧
      k = some (.str (nm s)) := by
  obtain ⟨x, hx, hpick⟩ := hp rows hne
  obtain ⟨hkx, s, hrs, hkey⟩ := hrows x hx
  unfold rowState at hrs
  cases hst : x.get? "state" with
  | none => rw [hst] at hrs; cases hrs
  | some st =>
    rw [hst] at hrs
    exact ⟨st, s, by rw [hpick]; exact hst, hrs, by rw [← hkx, hkey]⟩

private theorem countsGo_addToGroups {decState : Json → Option σ} {nm : σ → String} {add : κ → σ → Nat → κ}
    (hl : AddLaws nm add) {pick : List Json → Option Json} (hp : PickOk pick)
    {gs : Groups} (hg : GroupsOk decState nm gs) {j : Json} {s : σ} (hj : GoodRow decState nm j s)
    (acc : κ) :
    countsGo decState add pick (addToGroups (statusKey j) j gs) acc =
      (countsGo decState add pick gs acc).bind fun r => .ok (add r s 1) := by
  induction gs generalizing acc with
  | nil =>
    have hrows : ∀ j' ∈ [j], statusKey j' = statusKey j ∧ ∃ s, GoodRow decState nm j' s := by
      intro j' hj'; simp only [List.mem_singleton] at hj'; subst hj'; exact ⟨rfl, s, hj⟩
    obtain ⟨st, s', h1, h2, h3⟩ := picked_state hp (by simp) hrows
    have hnm : nm s' = nm s := by
      rw [hj.2] at h3; injection h3 with h3; injection h3 with h3; exact h3.symm
    simp only [addToGroups, countsGo, h1, h2, List.length_singleton, Res.bind]
    rw [hl.congr _ _ _ _ hnm]
  | cons g gs ih =>
    obtain ⟨k', rows⟩ := g
    have hhead := hg (k', rows) List.mem_cons_self
    have htail : GroupsOk decState nm gs := fun g hgm => hg g (List.mem_cons_of_mem _ hgm)
    obtain ⟨st, sy, hy1, hy2, hy3⟩ := picked_state hp hhead.1 hhead.2
    unfold addToGroups
    by_cases hk : k' = statusKey j
    · rw [if_pos hk]
      have hrows : ∀ j' ∈ j :: rows, statusKey j' = k' ∧ ∃ s, GoodRow decState nm j' s := by
        intro j' hj'
        rcases List.mem_cons.mp hj' with e | e
        · subst e; exact ⟨hk.symm, s, hj⟩
        · exact hhead.2 j' e
      obtain ⟨st', sx, hx1, hx2, hx3⟩ := picked_state hp (by simp) hrows
      have hnx : nm sx = nm s := by
        rw [hk, hj.2] at hx3; injection hx3 with h; injection h with h; exact h.symm
      have hny : nm sy = nm s := by
        rw [hk, hj.2] at hy3; injection hy3 with h; injection h with h; exact h.symm
      simp only [countsGo, hx1, hx2, hy1, hy2, List.length_cons]
      rw [hl.congr _ _ _ _ hnx, hl.congr acc _ _ _ hny, ← hl.merge, countsGo_add hl]
    · rw [if_neg hk]
      simp only [countsGo, hy1, hy2]
      exact ih htail _

/-- The SQL counts over good rows: one unit per row, added to the bucket of the row's state. -/
theorem countsGo_groupBy {decState : Json → Option σ} {nm : σ → String} {add : κ → σ → Nat → κ}
    (hl : AddLaws nm add) {pick : List Json → Option Json} (hp : PickOk pick)
    (xs : List (Json × σ)) (hx : ∀ x ∈ xs, GoodRow decState nm x.1 x.2) (acc : κ) :
    countsGo decState add pick (groupBy statusKey (xs.map (·.1))) acc =
      .ok (xs.foldr (fun x a => add a x.2 1) acc) ∧
    GroupsOk decState nm (groupBy statusKey (xs.map (·.1))) := by
  induction xs with
  | nil => exact ⟨rfl, fun g hg => by cases hg⟩
  | cons x xs ih =>
    obtain ⟨j, s⟩ := x
    have hj : GoodRow decState nm j s := hx (j, s) List.mem_cons_self
    obtain ⟨ih1, ih2⟩ := ih (fun x hxm => hx x (List.mem_cons_of_mem _ hxm))
    refine ⟨?_, ?_⟩
    · simp only [List.map_cons, groupBy, List.foldr_cons]
      rw [countsGo_addToGroups hl hp ih2 hj, ih1]
      rfl
    · simp only [List.map_cons, groupBy]
      exact groupsOk_addToGroups ih2 hj

theorem foldl_eq_foldr_add {τ : Type} {nm : σ → String} {add : κ → σ → Nat → κ} (hl : AddLaws nm add)
    (st : τ → σ) (t : List τ) (acc : κ) :
    t.foldl (fun a x => add a (st x) 1) acc = t.foldr (fun x a => add a (st x) 1) acc := by
  induction t generalizing acc with
  | nil => rfl
  | cons x t ih =>
    simp only [List.foldl_cons, List.foldr_cons]
    rw [ih]
    -- move the unit for `x` past the fold
    clear ih
    induction t with
    | nil => rfl
    | cons y t ih2 =>
      simp only [List.foldr_cons]
      rw [ih2, hl.comm]

end Counts

/-! ## The concrete encoding used by the driver is lawful -/

private theorem decIds_encIds (l : List Id) : decIds (encIds l) = l := by
  simp [decIds, encIds, List.map_map, Function.comp_def]

private theorem decReview_encReview (r : Review) : decReview (encReview r) = some r := by
  simp [decReview, encReview, Json.ofObj, Json.get?, Json.path?, decIds_encIds]

private theorem decReviews_enc (l : List (String × Review)) :
    decReviews (l.map fun ar => (ar.1, encReview ar.2)) = some l := by
  induction l with
  | nil => rfl
  | cons ar l ih => simp [decReviews, decReview_encReview, ih]

private theorem decRevision_encRevision (r : Revision) : decRevision (encRevision r) = some r := by
  simp [decRevision, encRevision, Json.ofObj, Json.get?, Json.path?, decIds_encIds, decReviews_enc]

private theorem encRevision_ne_null (r : Revision) : encRevision r ≠ Json.null := by
  simp [encRevision, Json.ofObj]

private theorem ofName_name (s : PStatus) : PStatus.ofName s.name = some s := by
  cases s <;> simp [PStatus.ofName, PStatus.name]

private theorem decPState_encPState (s : PState) : decPState (encPState s) = some s := by
  simp [decPState, encPState, Json.ofObj, Json.get?, ofName_name]

@[simp] private theorem encRevisionOpt_none : encRevisionOpt none = Json.null := rfl
@[simp] private theorem encRevisionOpt_some (r : Revision) : encRevisionOpt (some r) = encRevision r := rfl

private theorem decRevisions_enc (l : List (Id × Option Revision)) :
    decRevisions (l.map fun kv => (kv.1, encRevisionOpt kv.2)) = some l := by
  induction l with
  | nil => rfl
  | cons kv l ih =>
    obtain ⟨k, o⟩ := kv
    cases o with
    | none => simp [decRevisions, decRevOpt, ih]
    | some r =>
      have h : decRevOpt (encRevision r) = some (some r) := by
        unfold decRevOpt
        split
        · next h => exact absurd h (encRevision_ne_null r)
        · simp [decRevision_encRevision]
      simp [decRevisions, h, ih]

private theorem decPatch_encPatch (p : Patch) : decPatch (encPatch p) = some p := by
  have h := decRevisions_enc p.revisions
  simp only [decPatch, encPatch, Json.ofObj, Json.get?, decPState_encPState, Json.members_ofObj]
  simp [h, decPState_encPState]

theorem stdPatchCodec_lawful : stdPatchCodec.Lawful where
  dec_enc := decPatch_encPatch
  decRev_encRev := decRevision_encRevision
  encRev_ne_null := encRevision_ne_null
  revisions_at := by
    intro p
    have : stdPatchCodec.encRevOpt = encRevisionOpt := by
      funext o; cases o <;> rfl
    rw [this]
    simp [stdPatchCodec, encPatch, Json.ofObj, Json.get?]
  state_at := by
    intro p
    refine ⟨encPState p.state, ?_, decPState_encPState _, ?_⟩
    · simp [stdPatchCodec, encPatch, Json.ofObj, Json.get?]
    · simp [encPState, Json.ofObj, Json.get?]

private theorem decIState_encIState (s : IState) : decIState (encIState s) = some s := by
  cases s with
  | «open» => simp [decIState, encIState, Json.ofObj, Json.get?]
  | closed r => cases r <;> simp [decIState, encIState, Json.ofObj, Json.get?]

private theorem decIssue_encIssue (i : Issue) : decIssue (encIssue i) = some i := by
  simp [decIssue, encIssue, Json.ofObj, Json.get?, Json.path?, decIState_encIState, decIds_encIds]

theorem stdIssueCodec_lawful : stdIssueCodec.Lawful where
  dec_enc := decIssue_encIssue
  state_at := by
    intro i
    refine ⟨encIState i.state, ?_, decIState_encIState _, ?_, ?_⟩
    · simp [stdIssueCodec, encIssue, Json.ofObj, Json.get?]
    · cases i.state with
      | «open» => simp [encIState, Json.ofObj, Json.get?, IState.name]
      | closed r => cases r <;> simp [encIState, Json.ofObj, Json.get?, IState.name]
    · cases i.state with
      | «open» => simp [encIState, Json.ofObj, Json.get?, IState.reasonName]
      | closed r => cases r <;> simp [encIState, Json.ofObj, Json.get?, IState.reasonName]


end HeartwoodModel.CobCache
