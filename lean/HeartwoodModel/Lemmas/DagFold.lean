import HeartwoodModel.Lemmas.DagMerge
/-!
# `descendants_of` (work-list search) and the loop of `Dag::fold`
-/
set_option linter.unusedSimpArgs false
set_option linter.unusedVariables false
namespace HeartwoodModel.Dag
variable {V : Type}

/-! ### `bfs` -/

/-- successor function read off the `nbrs` table -/
def nextOf (nbrs : K → Option (List K)) (k : K) : List K :=
  match nbrs k with
  | some ns => ns
  | none => []

structure BfsPost (nbrs : K → Option (List K)) (q vis out : List K) : Prop where
  mono : ∀ x, x ∈ vis → x ∈ out
  sound : ∀ x, x ∈ out → x ∈ vis ∨ ((nbrs x).isSome = true ∧ ∃ k ∈ q, x = k ∨ Reach (nextOf nbrs) k x)
  done : ∀ k, k ∈ q → (nbrs k).isSome = true → k ∈ out
  closed : ∀ x, x ∈ out → x ∈ vis ∨ ∀ y ∈ nextOf nbrs x, (nbrs y).isSome = true → y ∈ out

theorem bfs_post (nbrs : K → Option (List K)) :
    ∀ (fuel : Nat) (q vis out : List K), bfs nbrs fuel q vis vis = some out → BfsPost nbrs q vis out := by
  intro fuel
  induction fuel with
  | zero => intro q vis out h; simp [bfs] at h
  | succ fuel ih =>
    intro q vis out h
    cases q with
    | nil =>
      simp [bfs] at h
      subst h
      exact ⟨by simp, fun x hx => .inl (by simpa using hx), by simp, fun x hx => .inl (by simpa using hx)⟩
    | cons k q =>
      rw [bfs] at h
      cases hk : nbrs k with
      | none =>
        simp only [hk] at h
        have hp := ih _ _ _ h
        refine ⟨hp.mono, ?_, ?_, hp.closed⟩
        · intro x hx
          rcases hp.sound x hx with h1 | ⟨h1, d, hd, h2⟩
          · exact .inl h1
          · exact .inr ⟨h1, d, List.mem_cons_of_mem _ hd, h2⟩
        · intro d hd hn
          rcases List.mem_cons.mp hd with rfl | hd
          · rw [hk] at hn; simp at hn
          · exact hp.done d hd hn
      | some ns =>
        simp only [hk] at h
        by_cases hkv : k ∈ vis
        · simp only [hkv, if_true] at h
          have hp := ih _ _ _ h
          refine ⟨hp.mono, ?_, ?_, hp.closed⟩
          · intro x hx
            rcases hp.sound x hx with h1 | ⟨h1, d, hd, h2⟩
            · exact .inl h1
            · exact .inr ⟨h1, d, List.mem_cons_of_mem _ hd, h2⟩
          · intro d hd hn
            rcases List.mem_cons.mp hd with rfl | hd
            · exact hp.mono _ hkv
            · exact hp.done d hd hn
        · simp only [hkv, if_false] at h
          have hp := ih _ _ _ h
          have hnext : nextOf nbrs k = ns := by simp [nextOf, hk]
          refine ⟨fun x hx => hp.mono x (List.mem_cons_of_mem _ hx), ?_, ?_, ?_⟩
          · intro x hx
            rcases hp.sound x hx with h1 | ⟨h1, d, hd, h2⟩
            · rcases List.mem_cons.mp h1 with rfl | h1
              · exact .inr ⟨by simp [hk], x, by simp, .inl rfl⟩
              · exact .inl h1
            · rcases List.mem_append.mp hd with hd | hd
              · exact .inr ⟨h1, d, List.mem_cons_of_mem _ hd, h2⟩
              · refine .inr ⟨h1, k, by simp, .inr ?_⟩
                have hd' : d ∈ nextOf nbrs k := by rw [hnext]; exact hd
                rcases h2 with rfl | h2
                · exact .step hd'
                · exact .trans hd' h2
          · intro d hd hn
            rcases List.mem_cons.mp hd with rfl | hd
            · exact hp.mono _ (by simp)
            · exact hp.done d (List.mem_append_left _ hd) hn
          · intro x hx
            rcases hp.closed x hx with h1 | h1
            · rcases List.mem_cons.mp h1 with rfl | h1
              · right
                intro y hy hn
                rw [hnext] at hy
                exact hp.done y (List.mem_append_right _ hy) hn
              · exact .inl h1
            · exact .inr h1

theorem nextOf_dependents (g : Dag V) :
    nextOf (fun k => (g.get k).map (·.dependents)) = g.dependentsOf := by
  funext k
  simp only [nextOf, Dag.dependentsOf]
  cases g.get k <;> rfl

/-- `descendants_of(node)` of a node of a well-formed graph: exactly its transitive dependents. -/
theorem descendantsOf_spec {g : Dag V} (hwf : g.Wf) {fuel : Nat} {k : K} {n : Node V}
    (hk : g.get k = some n) {ds : List K} (h : g.descendantsOf fuel n = some ds) :
    ∀ y, y ∈ ds ↔ g.Desc k y := by
  have hp0 := bfs_post _ fuel n.dependents [] ds h
  have hp : (∀ x, x ∈ ds → x ∈ ([] : List K) ∨ (((fun k => (g.get k).map (·.dependents)) x).isSome = true ∧
        ∃ k ∈ n.dependents, x = k ∨ Reach g.dependentsOf k x)) ∧
      (∀ k, k ∈ n.dependents → ((fun k => (g.get k).map (·.dependents)) k).isSome = true → k ∈ ds) ∧
      (∀ x, x ∈ ds → x ∈ ([] : List K) ∨ ∀ y ∈ g.dependentsOf x,
        ((fun k => (g.get k).map (·.dependents)) y).isSome = true → y ∈ ds) := by
    have h1 := hp0.sound; have h2 := hp0.done; have h3 := hp0.closed
    rw [nextOf_dependents] at h1 h3
    exact ⟨h1, h2, h3⟩
  have hnode : ∀ y, ((fun k => (g.get k).map (·.dependents)) y).isSome = true ↔ g.contains y = true := by
    intro y; simp [Dag.contains]
  have hclosed : ∀ x y, x ∈ ds → g.Desc x y → y ∈ ds := by
    intro x y hx hr
    induction hr with
    | step e =>
      rcases hp.2.2 _ hx with h1 | h1
      · simp at h1
      · exact h1 _ e ((hnode _).mpr (Dag.contains_of_mem_depsOf ((hwf.sym _ _).mp e)))
    | trans e _ ih =>
      rcases hp.2.2 _ hx with h1 | h1
      · simp at h1
      · exact ih (h1 _ e ((hnode _).mpr (Dag.contains_of_mem_depsOf ((hwf.sym _ _).mp e))))
  intro y
  constructor
  · intro hy
    rcases hp.1 y hy with h1 | ⟨_, d, hd, h2⟩
    · simp at h1
    · have hd' : d ∈ g.dependentsOf k := by rw [Dag.dependentsOf_of_get hk]; exact hd
      rcases h2 with rfl | h2
      · exact .step hd'
      · exact .trans hd' h2
  · intro hr
    cases hr with
    | step e =>
      rw [Dag.dependentsOf_of_get hk] at e
      exact hp.2.1 y e ((hnode _).mpr (Dag.contains_of_mem_depsOf ((hwf.sym k y).mp
        (by rw [Dag.dependentsOf_of_get hk]; exact e))))
    | trans e hr' =>
      rename_i v
      have hv : v ∈ ds := by
        have e' := e
        rw [Dag.dependentsOf_of_get hk] at e'
        exact hp.2.1 v e' ((hnode _).mpr (Dag.contains_of_mem_depsOf ((hwf.sym k v).mp e)))
      exact hclosed v y hv hr'

/-! ### the loop of `fold`, instrumented -/

/-- Instrument a `fold` filter with the trace of its calls `(key, continue?)`. -/
def tracedF {A : Type} (f : A → K → Node V → A × Bool) (st : A × List (K × Bool)) (k : K) (n : Node V) :
    (A × List (K × Bool)) × Bool :=
  let r := f st.1 k n
  ((r.1, st.2 ++ [(k, r.2)]), r.2)

structure FoldPost (g : Dag V) (skip ks : List K) (ext : List (K × Bool)) : Prop where
  sub : List.Sublist (calledOf ext) ks
  called : ∀ x, x ∈ calledOf ext ↔
    x ∈ ks ∧ g.contains x = true ∧ x ∉ skip ∧ ¬ ∃ b ∈ brokenOf ext, g.Desc b x

theorem foldLoop_post {A : Type} {g : Dag V} (hwf : g.Wf) (hac : Acyclic g.dependentsOf)
    (fuel : Nat) (f : A → K → Node V → A × Bool) :
    ∀ (ks skip : List K) (a : A) (tr : List (K × Bool)) (a' : A) (tr' : List (K × Bool)),
      Topo g.dependentsOf ks →
      g.foldLoop fuel (tracedF f) ks skip (a, tr) = some (a', tr') →
      ∃ ext, tr' = tr ++ ext ∧ FoldPost g skip ks ext := by
  intro ks
  induction ks with
  | nil =>
    intro skip a tr a' tr' _ h
    simp [Dag.foldLoop] at h
    exact ⟨[], by simp [h.2], by simp, by simp⟩
  | cons k ks ih =>
    intro skip a tr a' tr' htopo h
    have hn := List.nodup_cons.mp htopo.nodup
    rw [Dag.foldLoop] at h
    by_cases hks : k ∈ skip
    · simp only [hks, if_true] at h
      obtain ⟨ext, he, hp⟩ := ih _ _ _ _ _ htopo.tail h
      refine ⟨ext, he, hp.sub.cons k, ?_⟩
      intro x
      rw [hp.called x]
      constructor
      · rintro ⟨h1, h2⟩; exact ⟨List.mem_cons_of_mem _ h1, h2⟩
      · rintro ⟨h1, h2, h3, h4⟩
        rcases List.mem_cons.mp h1 with rfl | h1
        · exact absurd hks h3
        · exact ⟨h1, h2, h3, h4⟩
    · simp only [hks, if_false] at h
      cases hk : g.get k with
      | none =>
        simp only [hk] at h
        obtain ⟨ext, he, hp⟩ := ih _ _ _ _ _ htopo.tail h
        refine ⟨ext, he, hp.sub.cons k, ?_⟩
        intro x
        rw [hp.called x]
        constructor
        · rintro ⟨h1, h2⟩; exact ⟨List.mem_cons_of_mem _ h1, h2⟩
        · rintro ⟨h1, h2, h3, h4⟩
          rcases List.mem_cons.mp h1 with rfl | h1
          · rw [Dag.contains_iff] at h2
            obtain ⟨m, hm⟩ := h2
            rw [hm] at hk; simp at hk
          · exact ⟨h1, h2, h3, h4⟩
      | some n =>
        simp only [hk] at h
        have hkc : g.contains k = true := Dag.contains_iff.mpr ⟨n, hk⟩
        by_cases hc : (f a k n).2 = true
        · simp only [tracedF, hc, if_true] at h
          obtain ⟨ext, he, hp⟩ := ih _ _ _ _ _ htopo.tail h
          refine ⟨(k, true) :: ext, by simp [he], ?_, ?_⟩
          · simpa using hp.sub.cons_cons k
          · intro x
            simp only [calledOf_cons, List.mem_cons, brokenOf_cons, if_true]
            constructor
            · rintro (rfl | hx)
              · refine ⟨.inl rfl, hkc, hks, ?_⟩
                rintro ⟨b, hb, hd⟩
                exact htopo.head_not_reached (hp.sub.subset (brokenOf_sub_calledOf hb)) hd
              · obtain ⟨h1, h2⟩ := (hp.called x).mp hx
                exact ⟨.inr h1, h2⟩
            · rintro ⟨h1, h2, h3, h4⟩
              rcases h1 with rfl | h1
              · exact .inl rfl
              · exact .inr ((hp.called x).mpr ⟨h1, h2, h3, h4⟩)
        · have hc' : (f a k n).2 = false := by simpa using hc
          simp only [tracedF, hc', Bool.false_eq_true, if_false] at h
          cases hds : g.descendantsOf fuel n with
          | none => simp [hds] at h
          | some ds =>
            simp only [hds] at h
            have hdesc := descendantsOf_spec hwf hk hds
            obtain ⟨ext, he, hp⟩ := ih _ _ _ _ _ htopo.tail h
            refine ⟨(k, false) :: ext, by simp [he], ?_, ?_⟩
            · simpa using hp.sub.cons_cons k
            · intro x
              simp only [calledOf_cons, List.mem_cons, brokenOf_cons, Bool.false_eq_true, if_false]
              constructor
              · rintro (rfl | hx)
                · refine ⟨.inl rfl, hkc, hks, ?_⟩
                  rintro ⟨b, hb, hd⟩
                  rcases hb with rfl | hb
                  · exact hac _ hd
                  · exact htopo.head_not_reached (hp.sub.subset (brokenOf_sub_calledOf hb)) hd
                · obtain ⟨h1, h2, h3, h4⟩ := (hp.called x).mp hx
                  refine ⟨.inr h1, h2, fun hxs => h3 (List.mem_append_right _ hxs), ?_⟩
                  rintro ⟨b, hb, hd⟩
                  rcases hb with rfl | hb
                  · exact h3 (List.mem_append_left _ ((hdesc x).mpr hd))
                  · exact h4 ⟨b, hb, hd⟩
              · rintro ⟨h1, h2, h3, h4⟩
                rcases h1 with rfl | h1
                · exact .inl rfl
                · refine .inr ((hp.called x).mpr ⟨h1, h2, ?_, fun ⟨b, hb, hd⟩ => h4 ⟨b, .inr hb, hd⟩⟩)
                  intro hxs
                  rcases List.mem_append.mp hxs with h5 | h5
                  · exact h4 ⟨k, .inl rfl, (hdesc x).mp h5⟩
                  · exact h3 h5

/-! ### well-formed acyclic graphs are root-reachable -/

theorem rootReachable_of_topo {g : Dag V} (hwf : g.Wf) {ord : List K} (htopo : Topo g.dependentsOf ord)
    (hall : ∀ x, g.contains x = true → x ∈ ord) : g.RootReachable := by
  -- induction on the length of the prefix before `x`
  have key : ∀ (m : Nat) (l1 l2 : List K) (x : K), l1.length = m → ord = l1 ++ x :: l2 →
      g.contains x = true → x ∈ g.roots ∨ ∃ r ∈ g.roots, g.Desc r x := by
    intro m
    induction m using Nat.strongRecOn with
    | _ m ih =>
      intro l1 l2 x hlen hord hx
      cases hd : g.depsOf x with
      | nil => exact .inl ((hwf.roots_iff x).mpr ⟨hx, hd⟩)
      | cons d ds =>
        have hdx : d ∈ g.depsOf x := by rw [hd]; simp
        have hxd : x ∈ g.dependentsOf d := (hwf.sym d x).mpr hdx
        have hdc : g.contains d = true := Dag.contains_of_mem_dependentsOf hxd
        have hbef : Before ord d x :=
          htopo.order d x (hall d hdc) (hall x hx) (.step hxd)
        -- d lies in l1
        have hdl1 : d ∈ l1 := by
          obtain ⟨p1, p2, hp, hxp2⟩ := hbef
          -- ord = p1 ++ d :: p2 with x ∈ p2, and ord = l1 ++ x :: l2, ord nodup
          have hnd := htopo.nodup
          apply Classical.byContradiction
          intro hnot
          have hb2 : Before (l1 ++ x :: l2) d x := hord ▸ (⟨p1, p2, hp, hxp2⟩ : Before ord d x)
          have := Before.drop_prefix hb2 hnot
          have hne : d ≠ x := Before.ne_of_nodup (hord ▸ hnd) hb2
          have h3 := Before.of_cons_ne this hne
          have hxl2 : x ∈ l2 := h3.mem_right
          rw [hord] at hnd
          have := (List.nodup_append.mp hnd).2.1
          exact (List.nodup_cons.mp this).1 hxl2
        obtain ⟨q1, q2, hq⟩ := List.append_of_mem hdl1
        have hlt : q1.length < m := by rw [← hlen, hq]; simp <;> omega
        have hord' : ord = q1 ++ d :: (q2 ++ x :: l2) := by rw [hord, hq]; simp
        rcases ih q1.length hlt q1 _ d rfl hord' hdc with h1 | ⟨r, hr, h1⟩
        · exact .inr ⟨d, h1, .step hxd⟩
        · exact .inr ⟨r, hr, h1.snoc hxd⟩
  intro x hx
  obtain ⟨l1, l2, h⟩ := List.append_of_mem (hall x hx)
  exact key l1.length l1 l2 x rfl h hx

end HeartwoodModel.Dag
