import HeartwoodModel.Model.Varint
/-!
# Model of `radicle-node/src/wire/frame.rs` — C13a, C14

A frame is `"rad" 0x01`, a varint stream id whose bits 1–2 give the stream kind, then either a control
message (`u8` command + varint stream id) or a varint-length-prefixed payload (git: opaque bytes; gossip:
a message decoded from a cursor over the complete payload). The message codec is a parameter
(`Frame<M>` is generic in the Rust as well); `Model/Wire.lean` provides the one for `Message`.
-/
namespace HeartwoodModel.Frame
open HeartwoodModel.Codec

inductive Kind where
  | control | gossip | git
  deriving Repr, DecidableEq

/-- `StreamId::kind`: `(id >> 1) & 0b11`; `0b11` is not a stream kind. -/
def kindOf (sid : Nat) : Option Kind :=
  match (sid / 2) % 4 with
  | 0 => some .control
  | 1 => some .gossip
  | 2 => some .git
  | _ => none

/-- `Control`; the payload is a stream id. -/
inductive Control where
  | open (stream : Nat)
  | close (stream : Nat)
  | eof (stream : Nat)
  deriving Repr, DecidableEq

inductive Data (M : Type) where
  | control (c : Control)
  | gossip (m : M)
  | git (d : Bytes)
  deriving Repr, DecidableEq

/-- `Frame<M>` (the version field is the constant `PROTOCOL_VERSION_STRING`). -/
structure Frame (M : Type) where
  stream : Nat
  data : Data M
  deriving Repr, DecidableEq

/-- `PROTOCOL_VERSION_STRING = "rad" ++ [1]` -/
def versionBytes : Bytes := [0x72, 0x61, 0x64, 0x01]

/-- `Version::decode`: `read_exact` of 4 bytes, then the comparison (`InvalidProtocolVersion`).
The subsequent `version.number() != PROTOCOL_VERSION` check can then no longer fail. -/
def version : Dec Unit :=
  (take 4).filterMap fun v => if v = versionBytes then some () else none

/-- `Control::decode`: an unknown command byte is an error before the stream id is read. -/
def control : Dec Control :=
  u8.bind fun c =>
    if c = 0 then Varint.decode.map .open
    else if c = 1 then Varint.decode.map .close
    else if c = 2 then Varint.decode.map .eof
    else Dec.fail

/-- `Frame::<M>::decode`. -/
def decode {M : Type} (decM : Dec M) : Dec (Frame M) :=
  version.bind fun _ =>
  Varint.decode.bind fun sid =>
    match kindOf sid with
    | some .control => control.map fun c => ⟨sid, .control c⟩
    | some .gossip => (Dec.nested Varint.payloadDecode decM).map fun m => ⟨sid, .gossip m⟩
    | some .git => Varint.payloadDecode.map fun p => ⟨sid, .git p⟩
    | none => Dec.fail

def Control.encode? : Control → Option Bytes
  | .open s => (Varint.encode? s).map ([0] ++ ·)
  | .close s => (Varint.encode? s).map ([1] ++ ·)
  | .eof s => (Varint.encode? s).map ([2] ++ ·)

/-- `Frame::<M>::encode`; `none` = the encoder panics or fails (stream id or payload length ≥ 2^62, or
`wire::serialize(msg)` fails). Nb. the encoder does not check that the stream kind matches the data. -/
def encode? {M : Type} (encM : M → Option Bytes) (f : Frame M) : Option Bytes :=
  match Varint.encode? f.stream with
  | none => none
  | some sid =>
    let body :=
      match f.data with
      | .control c => c.encode?
      | .git d => Varint.payloadEncode? d
      | .gossip m => (encM m).bind Varint.payloadEncode?
    body.map fun bd => versionBytes ++ sid ++ bd

/-- The frames that `Frame::git/control/gossip` build: the stream kind agrees with the data. -/
def Frame.kindOk {M : Type} (f : Frame M) : Prop :=
  match f.data with
  | .control _ => kindOf f.stream = some .control
  | .gossip _ => kindOf f.stream = some .gossip
  | .git _ => kindOf f.stream = some .git

instance {M : Type} (f : Frame M) : Decidable f.kindOk := by
  unfold Frame.kindOk; cases f.data <;> infer_instance

/-- Largest single buffer request while decoding a frame from `b` (cf. `Varint.payloadAlloc`); `allocM p`
is the largest request made while decoding a message from the complete payload `p`. Version, stream ids
and control messages live on the stack. -/
def alloc (allocM : Bytes → Nat) (b : Bytes) : Nat :=
  match (version.bind fun _ => Varint.decode) b with
  | .ok sid r =>
    match kindOf sid with
    | some .gossip =>
      match Varint.payloadDecode r with
      | .ok p _ => max (Varint.payloadAlloc r) (allocM p)
      | _ => Varint.payloadAlloc r
    | some .git => Varint.payloadAlloc r
    | _ => 0
  | _ => 0

/-- The same with the pre-fix `vec![0; size]` (only used to state what the fix repaired). -/
def allocDeclared (b : Bytes) : Nat :=
  match (version.bind fun _ => Varint.decode) b with
  | .ok sid r =>
    match kindOf sid with
    | some .gossip => Varint.payloadAllocDeclared r
    | some .git => Varint.payloadAllocDeclared r
    | _ => 0
  | _ => 0

end HeartwoodModel.Frame
