//! C09 — the COB cache answers exactly like direct evaluation.
//!
//! One case = one fresh real repository (alice's storage) with a write-through in-memory SQLite COB
//! cache, plus a *script* of operations:
//!
//! * local operations by alice (`a`) through the write-through API (`patch::Cache<_, StoreWriter>`,
//!   `issue::Cache<_, StoreWriter>`): create / draft / revision / redact / comment / review / lifecycle /
//!   merge / edit / remove / `write` / `write_all`;
//! * *fetched updates*: operations by other signers (`b`, `c`) written straight into their namespaces of
//!   the same repository without touching the cache, followed by ONE call of the real
//!   `worker::fetch::cache_cobs` with the `RefUpdate`s computed from the actual ref diff
//!   (token `f:<op>+<op>…`, `f!:` adds a `Skipped` update);
//! * `x:<op>+<op>…`: the same foreign operations with NO cache write afterwards (the repository changes behind the
//!   cache's back — not one of the property's operations; queries are printed but not judged for the objects
//!   concerned until `write`, `write_all` or a fetched update rewrites their rows): exercises `write_all`;
//! * `q`: run every query of the `Patches` / `Issues` traits on the cached store
//!   (`Cache<_, StoreWriter>`) and on the direct path (`Cache<_, NoCache>`), for every identifier in the
//!   pool (all ids occurring anywhere in any object so far + unknown ids).
//!
//! Script tokens (`<k>` = index of the token in the script; the entity created by token `k` is named
//! `<kind><k>`, sub-operation `j` of an `f:` token creates `<kind><k>x<j>`; `p` patch (= its root
//! revision), `r` revision, `c` comment, `v` review, `d` review comment, `i` issue (= its root comment),
//! `e` other entry, `u` unknown id, `g` commit):
//!   pc.S.N pd.S.N rev.S.P.N red.S.P.R cm.S.P.R cred.S.P.R.C rv.S.P.R.V rvc.S.P.W rvred.S.P.W
//!   lc.S.P.(o|d|a) mg.S.P.R ed.S.P.N rm.S.P      ic.S.N icm.S.I icred.S.I.C ilc.S.I.(o|s|x) ied.S.I.N irm.S.I
//!   w.P wa iw.I iwa q        (S = signer a|b|c; only `a` may appear outside `f:` / `x:`)
//! Tokens starting with `@` are annotations: ignored on input, regenerated on output. They carry the
//! graph of the opaque function "evaluate this object directly from the repository" at the points used
//! (the abstract object after each operation), the ref updates handed to `cache_cobs`, and the id pool of
//! each `q`. The Lean driver reads only them (+ `w`, `wa`, `iw`, `iwa`, `q`).
//!
//! Output: for each `q`, `G:…|L:…|S…|C:…|F:…|IG:…|IL:…|IS…|IC:…`; every answer is `<cached>` or
//! `<cached>!<direct>` when they differ (`E` error, `P` panic, `-` none / empty).

use std::collections::{BTreeMap, BTreeSet};
use std::hash::{Hash, Hasher};
use std::ops::ControlFlow;
use std::str::FromStr;

use radicle::cob::cache::{NoCache, StoreWriter, Update};
use radicle::cob::issue::{self, CloseReason, Issue};
use radicle::cob::patch::{self, Lifecycle, MergeTarget, Patch, PatchMut, ReviewId, RevisionId, Status, Verdict};
use radicle::cob::store::Store as CobStore;
use radicle::cob::{self, ObjectId};
use radicle::crypto::test::signer::MockSigner;
use radicle::git;
use radicle::node::device::Device;
use radicle::storage::git::Repository;
use radicle::storage::RefUpdate;
use radicle::test::setup::Node;
use radicle_node::worker::verif::cache_cobs;
use verif_common::*;

type Dev = Device<MockSigner>;

fn digest(s: &str) -> String {
    let mut h = std::collections::hash_map::DefaultHasher::new();
    s.hash(&mut h);
    format!("{:010x}", h.finish() & 0xff_ffff_ffff)
}

fn jdigest<T: serde::Serialize>(t: &T) -> String {
    digest(&serde_json::to_string(t).unwrap_or_else(|_| "unserializable".into()))
}

/// A project created once per process (`rad init` with alice's key, plus three commits); every case works
/// on its own copy of the storage directory, so cases are independent and cheap to set up.
struct Template {
    _node: Node,
    root: std::path::PathBuf,
    storage: std::path::PathBuf,
    /// the repositories of the storage (they share the COB cache database)
    rids: Vec<radicle::prelude::RepoId>,
    commits: Vec<(git::Oid, git::Oid)>,
}

fn template() -> &'static Template {
    static T: std::sync::OnceLock<Template> = std::sync::OnceLock::new();
    T.get_or_init(|| {
        let tmp = tempfile::tempdir().expect("tempdir");
        let node = Node::new(tmp, MockSigner::from_seed([0xa1; 32]), "alice");
        let repo = node.project();
        // a second project in the same storage
        let (working, _) = radicle::test::fixtures::repository(node.root.join("working-beta"));
        let (rid2, _, _) = radicle::rad::init(
            &working,
            "beta".try_into().expect("name"),
            "Another repository",
            git::RefString::try_from("master").expect("refname"),
            radicle::identity::Visibility::default(),
            &node.signer,
            &node.storage,
        )
        .expect("rad init");
        let rids = vec![repo.id, rid2];
        // g0 = head of alice's default branch (mergeable); g1, g2 = further commits (not on the branch).
        // Both working copies come from the same fixture, so the commits (and their ids) are the same in
        // both repositories.
        let mut commits = vec![];
        for (n, rid) in rids.iter().enumerate() {
            use radicle::storage::ReadStorage;
            let r = node.storage.repository(*rid).expect("repository");
            let raw = &r.backend;
            let head = raw
                .find_reference(&format!("refs/namespaces/{}/refs/heads/master", node.signer.public_key()))
                .expect("master")
                .peel_to_commit()
                .expect("commit");
            let sig = git2::Signature::new("anonymous", "anonymous@example.com", &git2::Time::new(1_700_000_000, 0)).expect("sig");
            let tree = head.tree().expect("tree");
            let mut cs = vec![];
            let base: git::Oid = head.parent_id(0).map(git::Oid::from).unwrap_or_else(|_| head.id().into());
            cs.push((base, git::Oid::from(head.id())));
            for i in 1..3 {
                let oid = raw.commit(None, &sig, &sig, &format!("commit {i}"), &tree, &[&head]).expect("commit");
                cs.push((git::Oid::from(head.id()), git::Oid::from(oid)));
            }
            if n == 0 {
                commits = cs;
            } else {
                assert_eq!(commits, cs, "the two fixture repositories have the same commits");
            }
        }
        let storage = node.storage.path().to_path_buf();
        let root = node.root.clone();
        Template { _node: node, root, storage, rids, commits }
    })
}

fn copy_dir(from: &std::path::Path, to: &std::path::Path) -> std::io::Result<()> {
    std::fs::create_dir_all(to)?;
    for e in std::fs::read_dir(from)? {
        let e = e?;
        let (src, dst) = (e.path(), to.join(e.file_name()));
        if e.file_type()?.is_dir() {
            copy_dir(&src, &dst)?;
        } else {
            std::fs::copy(&src, &dst)?;
        }
    }
    Ok(())
}

struct World {
    _tmp: tempfile::TempDir,
    storage: radicle::Storage,
    /// the repositories of the storage; they share `db`
    repos: Vec<Repository>,
    /// index of the repository the script currently operates on (`R0` / `R1` tokens)
    cur: usize,
    /// symbolic name -> index of the repository the object (or the entity inside an object) belongs to
    owner: BTreeMap<String, usize>,
    /// class under which a known-stale object is reported (`stale-after-remove` / `cross-repo-remove`)
    stale_class: BTreeMap<String, &'static str>,
    signers: Vec<Dev>,
    db: StoreWriter,
    commits: Vec<(git::Oid, git::Oid)>,
    /// hex id -> symbolic name
    sym: BTreeMap<String, String>,
    /// symbolic name -> hex id
    hex: BTreeMap<String, String>,
    /// names in order of introduction (the id pool)
    pool: Vec<String>,
    tags: BTreeSet<String>,
    viol: Vec<(String, String)>,
    /// Known finding `stale-after-remove`: names of the objects on which the local signer performed
    /// `remove` while another peer's reference kept the object alive, and whose cache row has not been
    /// rewritten since (by cache_cobs, write or write_all). Derived from the script, not from the answers.
    stale_p: BTreeSet<String>,
    stale_i: BTreeSet<String>,
    /// Names of objects changed in the repository behind the cache's back (`x:` tokens) whose row has not
    /// been rewritten since: the cache is legitimately out of date for them, nothing is compared.
    dirty_p: BTreeSet<String>,
    dirty_i: BTreeSet<String>,
}

#[derive(Clone, Copy, PartialEq, Eq)]
enum Kind {
    Patch,
    Issue,
}

/// What a single operation did.
enum Done {
    /// (object kind, object id): object written / touched
    Touched(Kind, ObjectId),
    Failed(String),
}

impl World {
    fn new() -> World {
        use radicle::storage::ReadStorage;
        let t = template();
        let tmp = tempfile::tempdir().expect("tempdir");
        let path = tmp.path().join("storage");
        copy_dir(&t.storage, &path).expect("copy template storage");
        let signers: Vec<Dev> = vec![
            Device::mock_from_seed([0xa1; 32]),
            Device::mock_from_seed([0xb2; 32]),
            Device::mock_from_seed([0xc3; 32]),
        ];
        let storage = radicle::Storage::open(
            &path,
            git::UserInfo { alias: radicle::node::Alias::new("alice"), key: *signers[0].public_key() },
        )
        .expect("open storage");
        let repos: Vec<Repository> = t.rids.iter().map(|rid| storage.repository(*rid).expect("open repository")).collect();
        let db = radicle::cob::cache::Store::<radicle::cob::cache::Write>::memory()
            .expect("memory db")
            .with_migrations(radicle::cob::migrate::ignore)
            .expect("migrations");
        let mut w = World {
            _tmp: tmp,
            storage,
            repos,
            cur: 0,
            owner: BTreeMap::new(),
            stale_class: BTreeMap::new(),
            signers,
            db,
            commits: t.commits.clone(),
            sym: BTreeMap::new(),
            hex: BTreeMap::new(),
            pool: vec![],
            tags: BTreeSet::new(),
            viol: vec![],
            stale_p: BTreeSet::new(),
            stale_i: BTreeSet::new(),
            dirty_p: BTreeSet::new(),
            dirty_i: BTreeSet::new(),
        };
        assert_eq!(w.signers[0].public_key(), t._node.signer.public_key());
        for (i, (_, oid)) in w.commits.clone().iter().enumerate() {
            w.name(&oid.to_string(), format!("g{i}"));
        }
        for i in 0..2 {
            let fake = format!("{:040x}", 0xfeed_0000_0000u64 + i);
            w.name(&fake, format!("u{i}"));
        }
        w
    }

    fn name(&mut self, hex: &str, name: String) {
        if !self.sym.contains_key(hex) {
            self.sym.insert(hex.to_string(), name.clone());
            self.hex.insert(name.clone(), hex.to_string());
            if !(name.starts_with('g') || name.starts_with('u')) {
                self.owner.insert(name.clone(), self.cur);
            }
            self.pool.push(name);
        }
    }

    /// Symbolic name of an id; ids never named before get a name derived from their hex (and join the pool).
    fn sym_of(&mut self, hex: &str) -> String {
        if let Some(n) = self.sym.get(hex) {
            return n.clone();
        }
        let n = format!("x{}", &hex[..hex.len().min(10)]);
        self.name(hex, n.clone());
        n
    }

    fn oid_of(&self, name: &str) -> Option<git::Oid> {
        self.hex.get(name).and_then(|h| git::Oid::from_str(h).ok())
    }

    fn actor(&self, key: &str) -> String {
        for (i, s) in self.signers.iter().enumerate() {
            let pk = s.public_key().to_string();
            if key == pk || key.ends_with(&pk) {
                return ["a", "b", "c"][i].to_string();
            }
        }
        "z".into()
    }

    fn repo(&self) -> &Repository {
        &self.repos[self.cur]
    }

    /// A second handle on the same repository (so that `self` stays free for bookkeeping).
    fn reopen(&self) -> Repository {
        use radicle::storage::ReadStorage;
        self.storage.repository(self.repos[self.cur].id).expect("reopen repository")
    }

    // ---- abstract objects (the graph of direct evaluation) ------------------------------------------

    fn direct_patch(&self, id: &ObjectId) -> Option<Patch> {
        patch::Patches::open(self.repo()).ok()?.get(id).ok().flatten()
    }

    fn direct_issue(&self, id: &ObjectId) -> Option<Issue> {
        issue::Issues::open(self.repo()).ok()?.get(id).ok().flatten()
    }

    fn ids_of(&mut self, v: Option<&serde_json::Value>) -> String {
        let mut out = vec![];
        if let Some(serde_json::Value::Object(m)) = v {
            for k in m.keys() {
                out.push(self.sym_of(k));
            }
        }
        if out.is_empty() {
            "-".into()
        } else {
            out.join("+")
        }
    }

    fn abs_patch(&mut self, p: &Patch) -> String {
        let status = match p.state() {
            patch::State::Draft => "draft",
            patch::State::Open { .. } => "open",
            patch::State::Archived => "archived",
            patch::State::Merged { .. } => "merged",
        };
        let extra = jdigest(p.state());
        let v = serde_json::to_value(p).expect("patch to json");
        let mut revs = vec![];
        if let Some(serde_json::Value::Object(m)) = v.get("revisions") {
            for (k, rv) in m {
                let rname = self.sym_of(k);
                let rid = RevisionId::from(git::Oid::from_str(k).expect("revision id"));
                match p.revision(&rid) {
                    None => {
                        if !rv.is_null() {
                            self.viol.push(("abstraction-broken".into(), format!("revision {k} present in JSON, absent by API")));
                        }
                        revs.push(format!("{rname}~!"));
                    }
                    Some(r) => {
                        let comments = self.ids_of(rv.get("discussion").and_then(|d| d.get("comments")));
                        let mut reviews = vec![];
                        if let Some(serde_json::Value::Object(rm)) = rv.get("reviews") {
                            for (actor, review) in rm {
                                let a = self.actor(actor);
                                let vid = review.get("id").and_then(|x| x.as_str()).unwrap_or("").to_string();
                                let vname = self.sym_of(&vid);
                                let cs = self.ids_of(review.get("comments").and_then(|d| d.get("comments")));
                                reviews.push(format!("{a}/{vname}/{cs}"));
                            }
                        }
                        let reviews = if reviews.is_empty() { "-".to_string() } else { reviews.join("^") };
                        revs.push(format!("{rname}~{}~{comments}~{reviews}", jdigest(r)));
                    }
                }
            }
        }
        // entry ids of the timeline and review index join the pool, too
        if let Some(serde_json::Value::Array(t)) = v.get("timeline") {
            for e in t {
                if let Some(s) = e.as_str() {
                    self.sym_of(s);
                }
            }
        }
        if let Some(serde_json::Value::Object(m)) = v.get("reviews") {
            for k in m.keys() {
                self.sym_of(k);
            }
        }
        let revs = if revs.is_empty() { "-".to_string() } else { revs.join(";") };
        format!("{status}.{extra}.{}.{revs}", jdigest(p))
    }

    fn abs_issue(&mut self, i: &Issue) -> String {
        let state = match i.state() {
            issue::State::Open => "open",
            issue::State::Closed { reason: CloseReason::Solved } => "solved",
            issue::State::Closed { reason: CloseReason::Other } => "other",
        };
        let v = serde_json::to_value(i).expect("issue to json");
        let comments = self.ids_of(v.get("thread").and_then(|t| t.get("comments")));
        format!("{state}.{}.{comments}", jdigest(i))
    }

    fn abs(&mut self, kind: Kind, id: &ObjectId) -> String {
        match kind {
            Kind::Patch => match self.direct_patch(id) {
                Some(p) => self.abs_patch(&p),
                None => "-".into(),
            },
            Kind::Issue => match self.direct_issue(id) {
                Some(i) => self.abs_issue(&i),
                None => "-".into(),
            },
        }
    }

    // ---- operations ---------------------------------------------------------------------------------

    /// Run one patch/issue operation with signer `s`; `local` = through the write-through cache.
    fn op(&mut self, tok: &str, tag: &str, local: bool) -> Done {
        let f: Vec<&str> = tok.split('.').collect();
        let s = match f.get(1) {
            Some(&"a") => 0,
            Some(&"b") => 1,
            Some(&"c") => 2,
            _ => return Done::Failed("bad-signer".into()),
        };
        if local != (s == 0) {
            return Done::Failed("bad-signer".into());
        }
        let signer = Device::mock_from_seed([[0xa1u8, 0xb2, 0xc3][s]; 32]);
        let arg = |i: usize| f.get(i).copied().unwrap_or("");
        let r = if f[0] == "bogus" {
            self.bogus_op(&f, &signer)
        } else if f[0].starts_with('i') {
            self.issue_op(&f, tag, &signer, local)
        } else {
            self.patch_op(&f, tag, &signer, local)
        };
        let _ = arg;
        match r {
            Ok(d) => d,
            Err(e) => Done::Failed(e),
        }
    }

    /// `bogus.S.(p|i).NAME`: signer `S` advertises, in the current repository, a COB reference carrying the id
    /// `NAME` (typically the id of an object of ANOTHER repository) that points to a commit which is not a COB
    /// change. Nothing evaluates from it; the fetch reports the reference as created.
    fn bogus_op(&mut self, f: &[&str], signer: &Dev) -> Result<Done, String> {
        let kind = match f.get(2) {
            Some(&"p") => Kind::Patch,
            Some(&"i") => Kind::Issue,
            _ => return Err("bad-arg".into()),
        };
        let oid = self.oid_of(f.get(3).copied().unwrap_or("")).ok_or("unknown-ref")?;
        let refname = format!(
            "refs/namespaces/{}/refs/cobs/xyz.radicle.{}/{}",
            signer.public_key(),
            if kind == Kind::Patch { "patch" } else { "issue" },
            oid
        );
        let target: git2::Oid = self.commits[0].1.into();
        self.repo().backend.reference(&refname, target, true, "bogus").map_err(|e| e.to_string())?;
        Ok(Done::Touched(kind, ObjectId::from(oid)))
    }

    fn patch_op(&mut self, f: &[&str], tag: &str, signer: &Dev, local: bool) -> Result<Done, String> {
        let e2s = |e: &dyn std::fmt::Display| {
            let s = e.to_string();
            s.chars().take(60).collect::<String>()
        };
        let repo = self.reopen();
        let repo = &repo;
        let arg = |i: usize| f.get(i).copied().unwrap_or("");
        match f[0] {
            "pc" | "pd" => {
                let n: usize = arg(2).parse().map_err(|_| "bad-arg".to_string())?;
                let (base, oid) = self.commits[n % self.commits.len()];
                let title = format!("patch {n} #{tag}");
                let id = if local {
                    let mut c = patch::Cache::open(patch::Patches::open(repo).map_err(|e| e2s(&e))?, self.db.clone());
                    let pm = if f[0] == "pc" {
                        c.create(title, "description", MergeTarget::Delegates, base, oid, &[], signer)
                    } else {
                        c.draft(title, "description", MergeTarget::Delegates, base, oid, &[], signer)
                    }
                    .map_err(|e| e2s(&e))?;
                    pm.id
                } else {
                    let mut c = patch::Cache::no_cache(repo).map_err(|e| e2s(&e))?;
                    let pm = if f[0] == "pc" {
                        c.create(title, "description", MergeTarget::Delegates, base, oid, &[], signer)
                    } else {
                        c.draft(title, "description", MergeTarget::Delegates, base, oid, &[], signer)
                    }
                    .map_err(|e| e2s(&e))?;
                    pm.id
                };
                self.name(&id.to_string(), format!("p{tag}"));
                Ok(Done::Touched(Kind::Patch, id))
            }
            "rm" => {
                let id = ObjectId::from(self.oid_of(arg(2)).ok_or("unknown-ref")?);
                if local {
                    let mut c = patch::Cache::open(patch::Patches::open(repo).map_err(|e| e2s(&e))?, self.db.clone());
                    c.remove(&id, signer).map_err(|e| e2s(&e))?;
                } else {
                    let st = patch::Patches::open(repo).map_err(|e| e2s(&e))?;
                    st.remove(&id, signer).map_err(|e| e2s(&e))?;
                }
                Ok(Done::Touched(Kind::Patch, id))
            }
            _ => {
                let id = ObjectId::from(self.oid_of(arg(2)).ok_or("unknown-ref")?);
                let named = if local {
                    let mut c = patch::Cache::open(patch::Patches::open(repo).map_err(|e| e2s(&e))?, self.db.clone());
                    let mut pm = c.get_mut(&id).map_err(|e| e2s(&e))?;
                    self.patch_mut_op(&mut pm, f, signer)?
                } else {
                    let mut c = patch::Cache::no_cache(repo).map_err(|e| e2s(&e))?;
                    let mut pm = c.get_mut(&id).map_err(|e| e2s(&e))?;
                    self.patch_mut_op(&mut pm, f, signer)?
                };
                if let Some((k, hex)) = named {
                    self.name(&hex, format!("{k}{tag}"));
                }
                Ok(Done::Touched(Kind::Patch, id))
            }
        }
    }

    fn patch_mut_op<C: Update<Patch>>(
        &self,
        pm: &mut PatchMut<'_, '_, Repository, C>,
        f: &[&str],
        signer: &Dev,
    ) -> Result<Option<(char, String)>, String> {
        let e2s = |e: patch::Error| e.to_string().chars().take(60).collect::<String>();
        let arg = |i: usize| f.get(i).copied().unwrap_or("");
        let rid = |name: &str| self.oid_of(name).map(RevisionId::from).ok_or_else(|| "unknown-ref".to_string());
        Ok(match f[0] {
            "rev" => {
                let n: usize = arg(3).parse().map_err(|_| "bad-arg".to_string())?;
                let (base, oid) = self.commits[n % self.commits.len()];
                let r = pm.update(format!("revision {n}"), base, oid, signer).map_err(e2s)?;
                Some(('r', r.to_string()))
            }
            "red" => {
                let e = pm.redact(rid(arg(3))?, signer).map_err(e2s)?;
                Some(('e', e.to_string()))
            }
            "cm" => {
                let e = pm.comment(rid(arg(3))?, "a comment", None, None, [], signer).map_err(e2s)?;
                Some(('c', e.to_string()))
            }
            "cred" => {
                let c = self.oid_of(arg(4)).ok_or("unknown-ref")?;
                let e = pm.comment_redact(rid(arg(3))?, c, signer).map_err(e2s)?;
                Some(('e', e.to_string()))
            }
            "rv" => {
                let verdict = match arg(4) {
                    "a" => Some(Verdict::Accept),
                    "r" => Some(Verdict::Reject),
                    "n" => None,
                    _ => return Err("bad-arg".into()),
                };
                let v = pm.review(rid(arg(3))?, verdict, Some("summary".to_string()), vec![], signer).map_err(e2s)?;
                Some(('v', v.to_string()))
            }
            "rvc" => {
                let v = self.oid_of(arg(3)).map(ReviewId::from).ok_or("unknown-ref")?;
                let e = pm.review_comment(v, "a review comment", None, None, [], signer).map_err(e2s)?;
                Some(('d', e.to_string()))
            }
            "rvred" => {
                let v = self.oid_of(arg(3)).map(ReviewId::from).ok_or("unknown-ref")?;
                let e = pm.redact_review(v, signer).map_err(e2s)?;
                Some(('e', e.to_string()))
            }
            "lc" => {
                let st = match arg(3) {
                    "o" => Lifecycle::Open,
                    "d" => Lifecycle::Draft,
                    "a" => Lifecycle::Archived,
                    _ => return Err("bad-arg".into()),
                };
                let e = pm.lifecycle(st, signer).map_err(e2s)?;
                Some(('e', e.to_string()))
            }
            "mg" => {
                let r = rid(arg(3))?;
                let commit = pm.revision(&r).map(|r| r.head()).ok_or("unknown-revision")?;
                let m = pm.merge(r, commit, signer).map_err(e2s)?;
                Some(('e', m.entry.to_string()))
            }
            "ed" => {
                let e = pm
                    .edit::<_, String>(format!("title {}", arg(3)), MergeTarget::Delegates, signer)
                    .map_err(e2s)?;
                Some(('e', e.to_string()))
            }
            _ => return Err("bad-op".into()),
        })
    }

    fn issue_op(&mut self, f: &[&str], tag: &str, signer: &Dev, local: bool) -> Result<Done, String> {
        fn e2s(e: impl std::fmt::Display) -> String {
            e.to_string().chars().take(60).collect::<String>()
        }
        let repo = self.reopen();
        let repo = &repo;
        let arg = |i: usize| f.get(i).copied().unwrap_or("");
        match f[0] {
            "ic" => {
                let n = arg(2);
                let id = if local {
                    let mut c = issue::Cache::open(issue::Issues::open(repo).map_err(e2s)?, self.db.clone());
                    let im = c.create(format!("issue {n} #{tag}"), "description", &[], &[], [], signer).map_err(e2s)?;
                    *im.id()
                } else {
                    let mut c = issue::Cache::no_cache(repo).map_err(e2s)?;
                    let im = c.create(format!("issue {n} #{tag}"), "description", &[], &[], [], signer).map_err(e2s)?;
                    *im.id()
                };
                self.name(&id.to_string(), format!("i{tag}"));
                Ok(Done::Touched(Kind::Issue, id))
            }
            "irm" => {
                let id = ObjectId::from(self.oid_of(arg(2)).ok_or("unknown-ref")?);
                if local {
                    let mut c = issue::Cache::open(issue::Issues::open(repo).map_err(e2s)?, self.db.clone());
                    c.remove(&id, signer).map_err(e2s)?;
                } else {
                    let st = issue::Issues::open(repo).map_err(e2s)?;
                    st.remove::<NoCache, _>(&id, signer).map_err(e2s)?;
                }
                Ok(Done::Touched(Kind::Issue, id))
            }
            _ => {
                let id = ObjectId::from(self.oid_of(arg(2)).ok_or("unknown-ref")?);
                macro_rules! run {
                    ($im:expr) => {{
                        let im = $im;
                        match f[0] {
                            "icm" => {
                                let root = *im.root().0;
                                let e = im.comment("an issue comment", root, [], signer).map_err(e2s)?;
                                Some(('c', e.to_string()))
                            }
                            "icred" => {
                                let c = self.oid_of(arg(3)).ok_or("unknown-ref")?;
                                let e = im.redact_comment(c, signer).map_err(e2s)?;
                                Some(('e', e.to_string()))
                            }
                            "ilc" => {
                                let st = match arg(3) {
                                    "o" => issue::State::Open,
                                    "s" => issue::State::Closed { reason: CloseReason::Solved },
                                    "x" => issue::State::Closed { reason: CloseReason::Other },
                                    _ => return Err("bad-arg".into()),
                                };
                                let e = im.lifecycle(st, signer).map_err(e2s)?;
                                Some(('e', e.to_string()))
                            }
                            "ied" => {
                                let e = im.edit(format!("title {}", arg(3)), signer).map_err(e2s)?;
                                Some(('e', e.to_string()))
                            }
                            _ => return Err("bad-op".into()),
                        }
                    }};
                }
                let named: Option<(char, String)> = if local {
                    let mut c = issue::Cache::open(issue::Issues::open(repo).map_err(e2s)?, self.db.clone());
                    let mut im = c.get_mut(&id).map_err(e2s)?;
                    run!(&mut im)
                } else {
                    let mut c = issue::Cache::no_cache(repo).map_err(e2s)?;
                    let mut im = c.get_mut(&id).map_err(e2s)?;
                    run!(&mut im)
                };
                if let Some((k, hex)) = named {
                    self.name(&hex, format!("{k}{tag}"));
                }
                Ok(Done::Touched(Kind::Issue, id))
            }
        }
    }

    /// All `refs/namespaces/*/refs/*` references (name -> target).
    fn refs(&self) -> BTreeMap<String, git::Oid> {
        let mut m = BTreeMap::new();
        if let Ok(refs) = self.repo().backend.references_glob("refs/namespaces/*") {
            for r in refs.flatten() {
                if let (Some(n), Some(t)) = (r.name(), r.target()) {
                    m.insert(n.to_string(), git::Oid::from(t));
                }
            }
        }
        m
    }

    /// One direct evaluation of the object: its abstract form and (oracle) the comparison with the cached row.
    fn abs_checked(&mut self, kind: Kind, id: &ObjectId, class: &str) -> String {
        let repo = self.reopen();
        match kind {
            Kind::Patch => {
                let d = self.direct_patch(id);
                let c = catch(|| {
                    let c = patch::Cache::open(patch::Patches::open(&repo).expect("open"), self.db.clone());
                    patch::cache::Patches::get(&c, id)
                });
                if !matches!(&c, Ok(Ok(c)) if *c == d) {
                    let n = self.sym_of(&id.to_string());
                    self.viol.push((class.to_string(), format!("patch {n}: cached get differs from direct evaluation (direct is {})", if d.is_some() { "present" } else { "absent" })));
                }
                match d {
                    Some(p) => self.abs_patch(&p),
                    None => "-".into(),
                }
            }
            Kind::Issue => {
                let d = self.direct_issue(id);
                let c = catch(|| {
                    let c = issue::Cache::open(issue::Issues::open(&repo).expect("open"), self.db.clone());
                    issue::cache::Issues::get(&c, id)
                });
                if !matches!(&c, Ok(Ok(c)) if *c == d) {
                    let n = self.sym_of(&id.to_string());
                    self.viol.push((class.to_string(), format!("issue {n}: cached get differs from direct evaluation (direct is {})", if d.is_some() { "present" } else { "absent" })));
                }
                match d {
                    Some(i) => self.abs_issue(&i),
                    None => "-".into(),
                }
            }
        }
    }

    // ---- immediate staleness check (oracle) ----------------------------------------------------------

    /// The row of `name` was rewritten by an operation on the current repository: if the object belongs to this
    /// repository it is in sync again.
    fn refreshed(&mut self, patch: bool, name: &str) {
        if self.owner.get(name).map(|o| *o == self.cur).unwrap_or(true) {
            if patch {
                self.stale_p.remove(name);
                self.dirty_p.remove(name);
            } else {
                self.stale_i.remove(name);
                self.dirty_i.remove(name);
            }
        }
    }

    /// `write_all` on the current repository.
    fn refreshed_all(&mut self, patch: bool) {
        let cur = self.cur;
        let owner = self.owner.clone();
        let keep = |n: &String| owner.get(n).map(|o| *o != cur).unwrap_or(false);
        if patch {
            self.stale_p.retain(keep);
            self.dirty_p.retain(keep);
        } else {
            self.stale_i.retain(keep);
            self.dirty_i.retain(keep);
        }
    }

    /// `remove` / `cache_cobs` in the current repository deleted the row `name` of an object of ANOTHER repository?
    fn check_foreign_row(&mut self, kind: Kind, id: &ObjectId, name: &str) {
        let Some(own) = self.owner.get(name).copied() else { return };
        if own == self.cur {
            return;
        }
        let save = self.cur;
        self.cur = own;
        let (eq, cached_none, direct_some) = self.probe(kind, id);
        self.cur = save;
        if eq {
            return;
        }
        if direct_some && cached_none {
            if kind == Kind::Patch { self.stale_p.insert(name.to_string()); } else { self.stale_i.insert(name.to_string()); }
            self.stale_class.insert(name.to_string(), "cross-repo-remove");
            self.viol.push(("cross-repo-remove".into(), format!("{name}: an operation on repository R{save} deleted the cache row of this object of repository R{own} (alive there)")));
        } else {
            self.viol.push((if kind == Kind::Patch { "get-mismatch" } else { "issue-get-mismatch" }.into(), format!("{name}: after an operation on repository R{save} the row of this object of R{own} differs from direct evaluation")));
        }
    }

    /// (cached get == direct get, cached get is `Ok(None)`, direct get is `Some`)
    fn probe(&self, kind: Kind, id: &ObjectId) -> (bool, bool, bool) {
        let repo = self.reopen();
        match kind {
            Kind::Patch => {
                let d = patch::Patches::open(&repo).ok().and_then(|s| s.get(id).ok()).flatten();
                let c = catch(|| {
                    let c = patch::Cache::open(patch::Patches::open(&repo).expect("open"), self.db.clone());
                    patch::cache::Patches::get(&c, id)
                });
                (matches!(&c, Ok(Ok(c)) if *c == d), matches!(&c, Ok(Ok(None))), d.is_some())
            }
            Kind::Issue => {
                let d = issue::Issues::open(&repo).ok().and_then(|s| s.get(id).ok()).flatten();
                let c = catch(|| {
                    let c = issue::Cache::open(issue::Issues::open(&repo).expect("open"), self.db.clone());
                    issue::cache::Issues::get(&c, id)
                });
                (matches!(&c, Ok(Ok(c)) if *c == d), matches!(&c, Ok(Ok(None))), d.is_some())
            }
        }
    }

    // ---- queries -------------------------------------------------------------------------------------

    fn show_patches(&mut self, r: Result<Result<Vec<(ObjectId, Patch)>, String>, String>) -> String {
        match r {
            Err(_) => "P".into(),
            Ok(Err(_)) => "E".into(),
            Ok(Ok(v)) => {
                let mut xs: Vec<String> = v.iter().map(|(id, p)| format!("{}#{}", self.sym_of(&id.to_string()), jdigest(p))).collect();
                xs.sort();
                if xs.is_empty() { "-".into() } else { xs.join(",") }
            }
        }
    }

    fn show_issues(&mut self, r: Result<Result<Vec<(ObjectId, Issue)>, String>, String>) -> String {
        match r {
            Err(_) => "P".into(),
            Ok(Err(_)) => "E".into(),
            Ok(Ok(v)) => {
                let mut xs: Vec<String> = v.iter().map(|(id, p)| format!("{}#{}", self.sym_of(&id.to_string()), jdigest(p))).collect();
                xs.sort();
                if xs.is_empty() { "-".into() } else { xs.join(",") }
            }
        }
    }

    /// `d_adj` = the direct answer with the known-stale objects (`stale_p` / `stale_i`) taken out: a
    /// difference explained by them alone is the known finding `stale-after-remove`; any other difference
    /// keeps the class of its query.
    fn cmp(&mut self, class: &str, what: &str, c: String, d: String, d_adj: String) -> String {
        self.cmp_if(true, class, what, c, d, d_adj)
    }

    /// `judge = false`: the cache is legitimately out of date for the objects concerned (`x:`), print only.
    fn cmp_if(&mut self, judge: bool, class: &str, what: &str, c: String, d: String, d_adj: String) -> String {
        if c == d {
            c
        } else {
            if !judge {
                self.tags.insert("unjudged-while-dirty".into());
            } else if c == d_adj {
                let cur = self.cur;
                let classes: BTreeSet<&'static str> = self
                    .stale_p
                    .iter()
                    .chain(self.stale_i.iter())
                    .filter(|n| self.owner.get(*n) == Some(&cur))
                    .map(|n| self.stale_class.get(n).copied().unwrap_or("stale-after-remove"))
                    .collect();
                for class in classes {
                    self.viol.push((class.to_string(), format!("{what}: cached={c} direct={d} (the difference is exactly the objects whose row a remove deleted while they are alive)")));
                }
            } else {
                self.viol.push((class.to_string(), format!("{what}: cached={c} direct={d}")));
            }
            format!("{c}!{d}")
        }
    }

    /// A `name#digest,…` list without the entries of the given names.
    fn without(list: &str, names: &BTreeSet<String>) -> String {
        if list == "-" || list == "E" || list == "P" {
            return list.to_string();
        }
        let v: Vec<&str> = list.split(',').filter(|e| !names.contains(e.split('#').next().unwrap_or(""))).collect();
        if v.is_empty() { "-".into() } else { v.join(",") }
    }

    /// Every query on every repository of the storage (the pool is the same for all: ids of the objects of
    /// one repository are unknown ids for the other).
    fn query(&mut self) -> (String, String) {
        let pool = self.pool.clone();
        let save = self.cur;
        let mut outs = vec![];
        for i in 0..self.repos.len() {
            self.cur = i;
            let o = self.query_repo(&pool);
            outs.push(format!("R{i}[{o}]"));
        }
        self.cur = save;
        (pool.join(","), outs.join(" ## "))
    }

    fn query_repo(&mut self, pool: &[String]) -> String {
        use issue::cache::Issues as IQ;
        use patch::cache::Patches as PQ;
        let repo = self.reopen();
        let repo = &repo;
        let pool = pool.to_vec();
        let mut out = vec![];
        fn s<E: std::fmt::Display>(e: E) -> String {
            e.to_string()
        }
        let pc = patch::Cache::open(patch::Patches::open(repo).expect("open"), self.db.clone());
        let pd = patch::Cache::no_cache(repo).expect("open");
        let ic = issue::Cache::open(issue::Issues::open(repo).expect("open"), self.db.clone());
        let id_ = issue::Cache::no_cache(repo).expect("open");

        // get
        let mut g = vec![];
        let mut ig = vec![];
        for n in &pool {
            let Some(oid) = self.oid_of(n) else { continue };
            let id = ObjectId::from(oid);
            let show = |r: Result<Result<Option<String>, String>, String>| match r {
                Err(_) => "P".to_string(),
                Ok(Err(_)) => "E".to_string(),
                Ok(Ok(None)) => "-".to_string(),
                Ok(Ok(Some(d))) => d,
            };
            let c = show(catch(|| PQ::get(&pc, &id).map(|o| o.map(|p| jdigest(&p))).map_err(s)));
            let d = show(catch(|| PQ::get(&pd, &id).map(|o| o.map(|p| jdigest(&p))).map_err(s)));
            let adj = if self.stale_p.contains(n) { "-".to_string() } else { d.clone() };
            let a = self.cmp_if(!self.dirty_p.contains(n), "get-mismatch", &format!("patch get {n}"), c, d, adj);
            g.push(format!("{n}={a}"));
            let c = show(catch(|| IQ::get(&ic, &id).map(|o| o.map(|p| jdigest(&p))).map_err(s)));
            let d = show(catch(|| IQ::get(&id_, &id).map(|o| o.map(|p| jdigest(&p))).map_err(s)));
            let adj = if self.stale_i.contains(n) { "-".to_string() } else { d.clone() };
            let a = self.cmp_if(!self.dirty_i.contains(n), "issue-get-mismatch", &format!("issue get {n}"), c, d, adj);
            ig.push(format!("{n}={a}"));
        }
        out.push(format!("G:{}", g.join(",")));

        // list
        let c = catch(|| PQ::list(&pc).map_err(s).and_then(|it| it.collect::<Result<Vec<_>, _>>().map_err(s)));
        let d = catch(|| PQ::list(&pd).map_err(s).and_then(|it| it.collect::<Result<Vec<_>, _>>().map_err(s)));
        let (c, d) = (self.show_patches(c), self.show_patches(d));
        let adj = Self::without(&d, &self.stale_p);
        let a = self.cmp_if(self.dirty_p.is_empty(), "list-mismatch", "patch list", c, d, adj);
        out.push(format!("L:{a}"));

        // list by status
        for (st, name) in [(Status::Draft, "draft"), (Status::Open, "open"), (Status::Archived, "archived"), (Status::Merged, "merged")] {
            let c = catch(|| PQ::list_by_status(&pc, &st).map_err(s).and_then(|it| it.collect::<Result<Vec<_>, _>>().map_err(s)));
            let d = catch(|| PQ::list_by_status(&pd, &st).map_err(s).and_then(|it| it.collect::<Result<Vec<_>, _>>().map_err(s)));
            let (c, d) = (self.show_patches(c), self.show_patches(d));
            if c != "-" {
                self.tags.insert(format!("status-{name}-nonempty"));
            }
            let adj = Self::without(&d, &self.stale_p);
            let a = self.cmp_if(self.dirty_p.is_empty(), "list-by-status-mismatch", &format!("patch list_by_status {name}"), c, d, adj);
            out.push(format!("S{name}:{a}"));
        }

        // counts
        let showc = |r: Result<Result<patch::PatchCounts, String>, String>| match r {
            Err(_) => "P".to_string(),
            Ok(Err(_)) => "E".to_string(),
            Ok(Ok(c)) => format!("{},{},{},{}", c.open, c.draft, c.archived, c.merged),
        };
        let c = showc(catch(|| PQ::counts(&pc).map_err(s)));
        let d = showc(catch(|| PQ::counts(&pd).map_err(s)));
        // direct counts without the known-stale patches
        let adj = match catch(|| PQ::counts(&pd).map_err(s)) {
            Ok(Ok(mut k)) => {
                for n in self.stale_p.clone() {
                    if let Some(p) = self.oid_of(&n).and_then(|o| self.direct_patch(&ObjectId::from(o))) {
                        match p.state() {
                            patch::State::Draft => k.draft = k.draft.saturating_sub(1),
                            patch::State::Open { .. } => k.open = k.open.saturating_sub(1),
                            patch::State::Archived => k.archived = k.archived.saturating_sub(1),
                            patch::State::Merged { .. } => k.merged = k.merged.saturating_sub(1),
                        }
                    }
                }
                format!("{},{},{},{}", k.open, k.draft, k.archived, k.merged)
            }
            _ => d.clone(),
        };
        let a = self.cmp_if(self.dirty_p.is_empty(), "counts-mismatch", "patch counts", c, d, adj);
        out.push(format!("C:{a}"));

        // find by revision
        let mut fb = vec![];
        for n in &pool {
            let Some(oid) = self.oid_of(n) else { continue };
            let rid = RevisionId::from(oid);
            let mut found = None;
            let mut show = |w: &mut World, r: Result<Result<Option<patch::ByRevision>, String>, String>| match r {
                Err(_) => "P".to_string(),
                Ok(Err(_)) => "E".to_string(),
                Ok(Ok(None)) => "-".to_string(),
                Ok(Ok(Some(b))) => {
                    found = Some(());
                    format!("{}/{}/{}#{}", w.sym_of(&b.id.to_string()), w.sym_of(&b.revision_id.to_string()), jdigest(&b.revision), jdigest(&b.patch))
                }
            };
            let c = catch(|| PQ::find_by_revision(&pc, &rid).map_err(s));
            let c = show(self, c);
            let d = catch(|| PQ::find_by_revision(&pd, &rid).map_err(s));
            let d = show(self, d);
            if found.is_some() {
                self.tags.insert("find-hit".into());
            }
            let adj = if self.stale_p.contains(d.split('/').next().unwrap_or("")) { "-".to_string() } else { d.clone() };
            let a = self.cmp_if(self.dirty_p.is_empty(), "find-by-revision-mismatch", &format!("find_by_revision {n}"), c, d, adj);
            fb.push(format!("{n}={a}"));
        }
        out.push(format!("F:{}", fb.join(",")));

        // issues
        out.push(format!("IG:{}", ig.join(",")));
        let c = catch(|| IQ::list(&ic).map_err(s).and_then(|it| it.collect::<Result<Vec<_>, _>>().map_err(s)));
        let d = catch(|| IQ::list(&id_).map_err(s).and_then(|it| it.collect::<Result<Vec<_>, _>>().map_err(s)));
        let (c, d) = (self.show_issues(c), self.show_issues(d));
        let adj = Self::without(&d, &self.stale_i);
        let a = self.cmp_if(self.dirty_i.is_empty(), "issue-list-mismatch", "issue list", c, d, adj);
        out.push(format!("IL:{a}"));
        for (st, name) in [
            (issue::State::Open, "open"),
            (issue::State::Closed { reason: CloseReason::Solved }, "solved"),
            (issue::State::Closed { reason: CloseReason::Other }, "other"),
        ] {
            let c = catch(|| IQ::list_by_status(&ic, &st).map_err(s).and_then(|it| it.collect::<Result<Vec<_>, _>>().map_err(s)));
            let d = catch(|| IQ::list_by_status(&id_, &st).map_err(s).and_then(|it| it.collect::<Result<Vec<_>, _>>().map_err(s)));
            let (c, d) = (self.show_issues(c), self.show_issues(d));
            if c != "-" {
                self.tags.insert(format!("issue-status-{name}-nonempty"));
            }
            let adj = Self::without(&d, &self.stale_i);
            let a = self.cmp_if(self.dirty_i.is_empty(), "issue-list-by-status-mismatch", &format!("issue list_by_status {name}"), c, d, adj);
            out.push(format!("IS{name}:{a}"));
        }
        let showc = |r: Result<Result<issue::IssueCounts, String>, String>| match r {
            Err(_) => "P".to_string(),
            Ok(Err(_)) => "E".to_string(),
            Ok(Ok(c)) => format!("{},{}", c.open, c.closed),
        };
        let c = showc(catch(|| IQ::counts(&ic).map_err(s)));
        let d = showc(catch(|| IQ::counts(&id_).map_err(s)));
        let adj = match catch(|| IQ::counts(&id_).map_err(s)) {
            Ok(Ok(mut k)) => {
                for n in self.stale_i.clone() {
                    if let Some(i) = self.oid_of(&n).and_then(|o| self.direct_issue(&ObjectId::from(o))) {
                        match i.state() {
                            issue::State::Open => k.open = k.open.saturating_sub(1),
                            issue::State::Closed { .. } => k.closed = k.closed.saturating_sub(1),
                        }
                    }
                }
                format!("{},{}", k.open, k.closed)
            }
            _ => d.clone(),
        };
        let a = self.cmp_if(self.dirty_i.is_empty(), "issue-counts-mismatch", "issue counts", c, d, adj);
        out.push(format!("IC:{a}"));

        out.join("|")
    }

    /// Model assumptions, checked on the real objects: serde round-trip of every object; a revision id
    /// occurs (non-redacted) in at most one patch, and if it is a patch id, in that patch.
    fn check_assumptions(&mut self) {
        let save = self.cur;
        let mut seen: BTreeMap<String, usize> = BTreeMap::new();
        for i in 0..self.repos.len() {
            self.cur = i;
            self.check_assumptions_repo(&mut seen);
        }
        self.cur = save;
    }

    fn check_assumptions_repo(&mut self, seen: &mut BTreeMap<String, usize>) {
        let repo = self.reopen();
        let cur = self.cur;
        // an object id lives in one repository only (ids are content hashes)
        let mut note = |w: &mut World, id: String| {
            if let Some(o) = seen.insert(id.clone(), cur) {
                if o != cur {
                    w.viol.push(("id-in-two-repositories".into(), format!("object {id} evaluates in R{o} and R{cur}")));
                }
            }
        };
        if let Ok(ps) = patch::Patches::open(&repo) {
            if let Ok(all) = ps.all() {
                for (id, _) in all.filter_map(|r| r.ok()) {
                    note(self, id.to_string());
                }
            }
        }
        if let Ok(is) = issue::Issues::open(&repo) {
            if let Ok(all) = is.all() {
                for (id, _) in all.filter_map(|r| r.ok()) {
                    note(self, id.to_string());
                }
            }
        }
        let Ok(ps) = patch::Patches::open(&repo) else { return };
        let Ok(all) = ps.all() else { return };
        let all: Vec<(ObjectId, Patch)> = all.filter_map(|r| r.ok()).collect();
        let ids: BTreeSet<String> = all.iter().map(|(id, _)| id.to_string()).collect();
        let mut owner: BTreeMap<String, String> = BTreeMap::new();
        for (id, p) in &all {
            let js = serde_json::to_string(p).unwrap_or_default();
            if serde_json::from_str::<Patch>(&js).ok().as_ref() != Some(p) {
                self.viol.push(("serde-roundtrip".into(), format!("patch {id} does not round-trip through JSON")));
            }
            for (rid, r) in p.revisions() {
                let rjs = serde_json::to_string(r).unwrap_or_default();
                if serde_json::from_str::<patch::Revision>(&rjs).ok().as_ref() != Some(r) {
                    self.viol.push(("serde-roundtrip".into(), format!("revision {rid} does not round-trip through JSON")));
                }
                let rid = rid.to_string();
                if let Some(o) = owner.insert(rid.clone(), id.to_string()) {
                    self.viol.push(("revision-id-not-unique".into(), format!("revision {rid} occurs in patches {o} and {id}")));
                }
                if ids.contains(&rid) && rid != id.to_string() {
                    self.viol.push(("revision-id-not-unique".into(), format!("revision {rid} of patch {id} is another patch's id")));
                }
            }
        }
        if let Ok(is) = issue::Issues::open(&repo) {
            if let Ok(all) = is.all() {
                for (id, i) in all.filter_map(|r| r.ok()) {
                    let js = serde_json::to_string(&i).unwrap_or_default();
                    if serde_json::from_str::<Issue>(&js).ok().as_ref() != Some(&i) {
                        self.viol.push(("serde-roundtrip".into(), format!("issue {id} does not round-trip through JSON")));
                    }
                }
            }
        }
    }
}

const LOCAL_OPS: &[&str] = &["bogus", "pc", "pd", "rev", "red", "cm", "cred", "rv", "rvc", "rvred", "lc", "mg", "ed", "rm", "ic", "icm", "icred", "ilc", "ied", "irm"];

/// Executes the script; returns the outcome and the annotated input (script + regenerated annotations).
fn run_script(input: &str) -> (Outcome, String) {
    let toks: Vec<&str> = input.split(' ').filter(|t| !t.is_empty() && !t.starts_with('@')).collect();
    if toks.is_empty() {
        return (Outcome::new("bad-case").trivial(), input.to_string());
    }
    let mut w = World::new();
    let mut annotated: Vec<String> = vec![];
    let mut outputs: Vec<String> = vec![];
    let mut bad = false;
    for (k, tok) in toks.iter().enumerate() {
        annotated.push(tok.to_string());
        let head = tok.split(['.', ':']).next().unwrap_or("");
        if LOCAL_OPS.contains(&head) {
            let done = w.op(tok, &k.to_string(), true);
            match done {
                Done::Failed(e) => {
                    if e == "bad-signer" || e == "bad-arg" || e == "bad-op" {
                        bad = true;
                    }
                    w.tags.insert(format!("fail-{head}"));
                    annotated.push("@fail".into());
                }
                Done::Touched(kind, id) => {
                    let n = w.sym_of(&id.to_string());
                    let kc = if kind == Kind::Patch { 'p' } else { 'i' };
                    if head == "rm" || head == "irm" {
                        let abs = w.abs(kind, &id);
                        w.tags.insert(if abs == "-" { "remove-last-ref".into() } else { "remove-object-survives".to_string() });
                        annotated.push(format!("@rm:{kc}:{n}={abs}"));
                        let foreign = w.owner.get(&n).map(|o| *o != w.cur).unwrap_or(false);
                        if foreign {
                            // the id belongs to an object of another repository: nothing to remove here
                            w.tags.insert("remove-id-of-other-repository".into());
                            w.check_foreign_row(kind, &id, &n);
                        }
                        let (eq, cached_none, direct_some) = w.probe(kind, &id);
                        if !foreign {
                            if kind == Kind::Patch { w.dirty_p.remove(&n); } else { w.dirty_i.remove(&n); }
                        }
                        let stale = if kind == Kind::Patch { &mut w.stale_p } else { &mut w.stale_i };
                        if !foreign {
                            stale.remove(&n);
                        }
                        if eq || foreign {
                            // in sync (the last reference is gone, or the row was refreshed)
                        } else if direct_some && cached_none {
                            // known finding: removed by the local signer, alive through another peer's reference
                            stale.insert(n.clone());
                            w.viol.push(("stale-after-remove".into(), format!("{n}: removed by the local signer, still evaluates from another peer's reference, cache row deleted")));
                        } else if !direct_some {
                            w.viol.push(("row-survives-remove".into(), format!("{n}: object gone from the repository, cache row still there")));
                        } else {
                            w.viol.push((if kind == Kind::Patch { "get-mismatch" } else { "issue-get-mismatch" }.into(), format!("{n}: after remove the cache row differs from direct evaluation")));
                        }
                    } else {
                        let abs = w.abs_checked(kind, &id, if head == "pc" || head == "pd" || head == "ic" { "stale-after-create" } else { "stale-after-update" });
                        w.tags.insert(format!("ok-{head}"));
                        annotated.push(format!("@ok:{kc}:{n}={abs}"));
                        w.refreshed(kind == Kind::Patch, &n);
                    }
                }
            }
        } else if head == "x" {
            // changes by other signers that NO cache write follows (not one of the property's operations)
            let body = tok.split_once(':').map(|x| x.1).unwrap_or("");
            let mut touched: Vec<(Kind, ObjectId)> = vec![];
            for (j, sub) in body.split('+').enumerate() {
                let sh = sub.split('.').next().unwrap_or("");
                if !LOCAL_OPS.contains(&sh) {
                    bad = true;
                    continue;
                }
                match w.op(sub, &format!("{k}x{j}"), false) {
                    Done::Failed(e) => {
                        if e == "bad-signer" || e == "bad-arg" || e == "bad-op" {
                            bad = true;
                        }
                        w.tags.insert(format!("external-fail-{sh}"));
                    }
                    Done::Touched(kind, id) => {
                        w.tags.insert(format!("external-ok-{sh}"));
                        if !touched.contains(&(kind, id)) {
                            touched.push((kind, id));
                        }
                    }
                }
            }
            let mut chg = vec![];
            for (kind, id) in &touched {
                let n = w.sym_of(&id.to_string());
                let abs = w.abs(*kind, id);
                chg.push(format!("{}{n}={abs}", if *kind == Kind::Patch { 'p' } else { 'i' }));
                if *kind == Kind::Patch { w.dirty_p.insert(n); } else { w.dirty_i.insert(n); }
            }
            annotated.push(format!("@x:{}", if chg.is_empty() { "-".to_string() } else { chg.join("&") }));
        } else if head == "f" || head == "f!" {
            let body = tok.split_once(':').map(|x| x.1).unwrap_or("");
            let before = w.refs();
            let mut touched: Vec<(Kind, ObjectId)> = vec![];
            for (j, sub) in body.split('+').enumerate() {
                let sh = sub.split('.').next().unwrap_or("");
                if !LOCAL_OPS.contains(&sh) {
                    bad = true;
                    continue;
                }
                match w.op(sub, &format!("{k}x{j}"), false) {
                    Done::Failed(e) => {
                        if e == "bad-signer" || e == "bad-arg" || e == "bad-op" {
                            bad = true;
                        }
                        w.tags.insert(format!("fetched-fail-{sh}"));
                    }
                    Done::Touched(kind, id) => {
                        w.tags.insert(format!("fetched-ok-{sh}"));
                        if !touched.contains(&(kind, id)) {
                            touched.push((kind, id));
                        }
                    }
                }
            }
            let after = w.refs();
            let mut updates: Vec<RefUpdate> = vec![];
            let mut refs_ann: Vec<String> = vec![];
            let mut names: BTreeSet<&String> = before.keys().collect();
            names.extend(after.keys());
            for n in names {
                let Ok(name) = git::RefString::try_from(n.as_str()) else { continue };
                let upd = match (before.get(n), after.get(n)) {
                    (Some(o), Some(nw)) if o != nw => Some((RefUpdate::Updated { name: name.clone(), old: *o, new: *nw }, 'u')),
                    (None, Some(nw)) => Some((RefUpdate::Created { name: name.clone(), oid: *nw }, 'c')),
                    (Some(o), None) => Some((RefUpdate::Deleted { name: name.clone(), oid: *o }, 'd')),
                    _ => None,
                };
                if let Some((u, kc)) = upd {
                    if let Some(ns) = name.to_namespaced() {
                        if let Ok(Some(tid)) = cob::TypedId::from_namespaced(&ns) {
                            let k = if tid.is_patch() { Some('p') } else if tid.is_issue() { Some('i') } else { None };
                            if let Some(k) = k {
                                let sn = w.sym_of(&tid.id.to_string());
                                refs_ann.push(format!("{k}{sn}:{kc}"));
                                w.tags.insert(format!("refupdate-{kc}"));
                                // cache_cobs rewrites (or removes) this row
                                w.refreshed(k == 'p', &sn);
                            }
                        }
                    }
                    updates.push(u);
                }
            }
            if head == "f!" {
                // a ref whose update was skipped by the fetch (nothing changed in the repository)
                if let Some((n, o)) = after.iter().find(|(n, _)| {
                    (n.contains("/refs/cobs/xyz.radicle.patch/") || n.contains("/refs/cobs/xyz.radicle.issue/")) && before.get(*n) == after.get(*n)
                }) {
                    if let Ok(name) = git::RefString::try_from(n.as_str()) {
                        if let Some(ns) = name.to_namespaced() {
                            if let Ok(Some(tid)) = cob::TypedId::from_namespaced(&ns) {
                                let k = if tid.is_patch() { 'p' } else { 'i' };
                                let sn = w.sym_of(&tid.id.to_string());
                                refs_ann.push(format!("{k}{sn}:s"));
                                w.tags.insert("refupdate-s".into());
                            }
                        }
                        updates.push(RefUpdate::Skipped { name, oid: *o });
                    }
                }
            }
            let rid = w.repo().id;
            let _ = &rid;
            let repo = w.reopen();
            let mut db = w.db.clone();
            let r = catch(|| cache_cobs(&rid, &updates, &repo, &mut db).map_err(|e| e.to_string()));
            if !matches!(r, Ok(Ok(()))) {
                w.viol.push(("cache-cobs-failed".into(), format!("{r:?}")));
            }
            let mut chg = vec![];
            for (kind, id) in &touched {
                let n = w.sym_of(&id.to_string());
                // an object changed behind the cache's back earlier and not named by a reference update of
                // this fetch is still legitimately out of date: not judged
                // (likewise an object in the known-finding state `stale-after-remove` that this fetch did not touch:
                // e.g. `rm` by a signer who holds no reference changes nothing)
                let unjudged = if *kind == Kind::Patch {
                    w.dirty_p.contains(&n) || w.stale_p.contains(&n)
                } else {
                    w.dirty_i.contains(&n) || w.stale_i.contains(&n)
                };
                let foreign = w.owner.get(&n).map(|o| *o != w.cur).unwrap_or(false);
                let abs = if unjudged || foreign { w.abs(*kind, id) } else { w.abs_checked(*kind, id, "stale-after-fetch") };
                if foreign {
                    // a reference update of THIS repository named the id of an object of another repository
                    w.tags.insert("fetched-id-of-other-repository".into());
                    w.check_foreign_row(*kind, id, &n);
                }
                chg.push(format!("{}{n}={abs}", if *kind == Kind::Patch { 'p' } else { 'i' }));
            }
            let chg = if chg.is_empty() { "-".to_string() } else { chg.join("&") };
            let refs_ann = if refs_ann.is_empty() { "-".to_string() } else { refs_ann.join(",") };
            annotated.push(format!("@f:{chg}|{refs_ann}"));
        } else if head == "w" || head == "iw" {
            let name = tok.split('.').nth(1).unwrap_or("");
            let repo = w.reopen();
            match w.oid_of(name).map(ObjectId::from) {
                None => {
                    w.tags.insert("fail-write".into());
                }
                Some(id) => {
                    let ok = if head == "w" {
                        let mut c = patch::Cache::open(patch::Patches::open(&repo).expect("open"), w.db.clone());
                        c.write(&id).is_ok()
                    } else {
                        let mut c = issue::Cache::open(issue::Issues::open(&repo).expect("open"), w.db.clone());
                        c.write(&id).is_ok()
                    };
                    w.tags.insert(if ok { "ok-write".into() } else { "fail-write".to_string() });
                    if ok {
                        w.refreshed(head == "w", name);
                    }
                }
            }
            // the driver needs the name only if it exists; unknown names are no-ops on both sides
        } else if *tok == "wa" || *tok == "iwa" {
            let repo = w.reopen();
            let ok = if *tok == "wa" {
                let mut c = patch::Cache::open(patch::Patches::open(&repo).expect("open"), w.db.clone());
                c.write_all(|_, _| ControlFlow::Continue(())).is_ok()
            } else {
                let mut c = issue::Cache::open(issue::Issues::open(&repo).expect("open"), w.db.clone());
                c.write_all(|_, _| ControlFlow::Continue(())).is_ok()
            };
            if !ok {
                w.viol.push(("write-all-failed".into(), tok.to_string()));
            }
            w.tags.insert("ok-write-all".into());
            if ok {
                w.refreshed_all(*tok == "wa");
            }
        } else if *tok == "R0" || *tok == "R1" {
            w.cur = if *tok == "R0" { 0 } else { 1 };
            w.tags.insert(format!("switch-{tok}"));
        } else if *tok == "q" {
            let (pool, out) = w.query();
            annotated.push(format!("@pool:{pool}"));
            outputs.push(out);
        } else {
            bad = true;
        }
        if bad {
            return (Outcome::new("bad-case").trivial(), input.to_string());
        }
    }
    w.check_assumptions();
    let mut o = Outcome::new(if outputs.is_empty() { "-".to_string() } else { outputs.join(" ;; ") });
    o.nontrivial = !outputs.is_empty();
    o.tags = w.tags.iter().cloned().collect();
    // one oracle line per class is enough
    let mut seen = BTreeSet::new();
    for (c, m) in w.viol.drain(..) {
        if seen.insert(c.clone()) {
            o.violations.push((c, m));
        }
    }
    let _ = CobStore::<Patch, Repository>::open; // (type anchor)
    (o, annotated.join(" "))
}

// ---- generator ----------------------------------------------------------------------------------------

#[derive(Default, Clone)]
struct GRev {
    name: String,
    author: usize,
    redacted: bool,
    comments: Vec<(String, usize)>,
    reviews: Vec<(String, usize)>,
}

#[derive(Default, Clone)]
struct GPatch {
    repo: usize,
    name: String,
    revs: Vec<GRev>,
    removed: bool,
    others: bool,
}

#[derive(Default, Clone)]
struct GIssue {
    repo: usize,
    name: String,
    comments: Vec<(String, usize)>,
    removed: bool,
}

struct Gen {
    /// the repository the script is currently operating on
    cur: usize,
    patches: Vec<GPatch>,
    issues: Vec<GIssue>,
}

const S: [&str; 3] = ["a", "b", "c"];

impl Gen {
    /// One operation by signer `s`; `tag` names the created entity.
    fn op(&mut self, rng: &mut Rng, s: usize, tag: &str) -> String {
        let sg = S[s];
        let cur = self.cur;
        // once in a while an operation names an object of the OTHER repository (rm / bogus reference)
        if rng.chance(1, 40) {
            let other_p: Vec<&GPatch> = self.patches.iter().filter(|p| p.repo != cur && !p.removed).collect();
            let other_i: Vec<&GIssue> = self.issues.iter().filter(|i| i.repo != cur && !i.removed).collect();
            if !other_p.is_empty() && rng.bool() {
                let n = &rng.pick(&other_p).name;
                return if s == 0 { format!("rm.a.{n}") } else { format!("bogus.{sg}.p.{n}") };
            } else if !other_i.is_empty() {
                let n = &rng.pick(&other_i).name;
                return if s == 0 { format!("irm.a.{n}") } else { format!("bogus.{sg}.i.{n}") };
            }
        }
        let live_p: Vec<usize> = (0..self.patches.len()).filter(|i| self.patches[*i].repo == cur && (!self.patches[*i].removed || rng.chance(1, 6))).collect();
        let live_i: Vec<usize> = (0..self.issues.len()).filter(|i| self.issues[*i].repo == cur && (!self.issues[*i].removed || rng.chance(1, 6))).collect();
        let choice = rng.below(100);
        if live_p.is_empty() && choice < 70 || choice < 12 {
            let name = format!("p{tag}");
            self.patches.push(GPatch { repo: cur, name: name.clone(), revs: vec![GRev { name, author: s, ..Default::default() }], removed: false, others: s != 0 });
            return format!("{}.{sg}.{}", if rng.chance(1, 4) { "pd" } else { "pc" }, rng.pick(&[0, 0, 1, 2]));
        }
        if choice < 70 {
            let pi = *rng.pick(&live_p);
            if s != 0 {
                self.patches[pi].others = true;
            }
            let p = self.patches[pi].clone();
            let ri = rng.below(p.revs.len() as u64) as usize;
            let r = &p.revs[ri];
            return match rng.below(24) {
                0..=2 => {
                    self.patches[pi].revs.push(GRev { name: format!("r{tag}"), author: s, ..Default::default() });
                    format!("rev.{sg}.{}.{}", p.name, rng.below(3))
                }
                3..=5 => {
                    // redact: mostly one of the signer's own non-root revisions (succeeds), sometimes any
                    // (the root and foreign ones fail)
                    let own: Vec<usize> = (1..p.revs.len()).filter(|i| p.revs[*i].author == s && !p.revs[*i].redacted).collect();
                    let ri = if !own.is_empty() && !rng.chance(1, 5) { *rng.pick(&own) } else { ri };
                    let r = &p.revs[ri];
                    self.patches[pi].revs[ri].redacted |= r.author == s && ri != 0;
                    format!("red.{sg}.{}.{}", p.name, r.name)
                }
                6..=8 => {
                    self.patches[pi].revs[ri].comments.push((format!("c{tag}"), s));
                    format!("cm.{sg}.{}.{}", p.name, r.name)
                }
                9 => match r.comments.first() {
                    Some((c, _)) => format!("cred.{sg}.{}.{}.{c}", p.name, r.name),
                    None => format!("cm.{sg}.{}.{}", p.name, r.name),
                },
                10..=11 => {
                    self.patches[pi].revs[ri].reviews.push((format!("v{tag}"), s));
                    format!("rv.{sg}.{}.{}.{}", p.name, r.name, rng.pick(&["a", "r", "n"]))
                }
                12 | 21 => match p.revs.iter().flat_map(|r| r.reviews.first()).next() {
                    Some((v, _)) => format!("rvc.{sg}.{}.{v}", p.name),
                    None => format!("rv.{sg}.{}.{}.a", p.name, r.name),
                },
                13 => match r.reviews.first() {
                    Some((v, _)) => format!("rvred.{sg}.{}.{v}", p.name),
                    None => format!("ed.{sg}.{}.{}", p.name, rng.below(9)),
                },
                14..=16 => format!("lc.{sg}.{}.{}", p.name, rng.pick(&["o", "d", "a", "a"])),
                17 | 22 | 23 => format!("mg.{sg}.{}.{}", p.name, r.name),
                18 => format!("ed.{sg}.{}.{}", p.name, rng.below(9)),
                _ => {
                    self.patches[pi].removed = true;
                    format!("rm.{sg}.{}", p.name)
                }
            };
        }
        if live_i.is_empty() || choice < 78 {
            self.issues.push(GIssue { repo: cur, name: format!("i{tag}"), ..Default::default() });
            return format!("ic.{sg}.{}", rng.below(9));
        }
        let ii = *rng.pick(&live_i);
        let i = self.issues[ii].clone();
        match rng.below(10) {
            0..=2 => {
                self.issues[ii].comments.push((format!("c{tag}"), s));
                format!("icm.{sg}.{}", i.name)
            }
            3 => match i.comments.first() {
                Some((c, _)) => format!("icred.{sg}.{}.{c}", i.name),
                None => format!("icm.{sg}.{}", i.name),
            },
            4..=6 => format!("ilc.{sg}.{}.{}", i.name, rng.pick(&["o", "s", "x"])),
            7 => format!("ied.{sg}.{}.{}", i.name, rng.below(9)),
            _ => {
                self.issues[ii].removed = true;
                format!("irm.{sg}.{}", i.name)
            }
        }
    }
}

fn gen_case(rng: &mut Rng, max_ops: u64) -> String {
    let mut g = Gen { cur: 0, patches: vec![], issues: vec![] };
    let n = rng.range(6, max_ops);
    let mut toks: Vec<String> = vec![];
    // the repository was changed behind the cache's back (`x:`) and not yet re-read with write_all
    let mut dirty = false;
    fn resync(toks: &mut Vec<String>, dirty: &mut bool, cur: usize) {
        if *dirty {
            // write_all is per repository: re-read both, come back to the current one
            for r in [1 - cur, cur] {
                toks.push(format!("R{r}"));
                toks.push("wa".into());
                toks.push("iwa".into());
            }
            *dirty = false;
        }
    }
    while (toks.len() as u64) < n {
        // the storage holds two repositories sharing the cache: switch between them now and then
        if rng.chance(1, 7) {
            g.cur = 1 - g.cur;
            toks.push(format!("R{}", g.cur));
        }
        let k = toks.len();
        let r = rng.below(100);
        if r < 60 {
            let t = g.op(rng, 0, &k.to_string());
            toks.push(t);
        } else if r < 82 {
            let m = rng.range(1, 3);
            let subs: Vec<String> = (0..m)
                .map(|j| {
                    let s = rng.range(1, 2) as usize;
                    g.op(rng, s, &format!("{k}x{j}"))
                })
                .collect();
            toks.push(format!("{}:{}", if rng.chance(1, 4) { "f!" } else { "f" }, subs.join("+")));
        } else if r < 86 {
            let m = rng.range(1, 2);
            let subs: Vec<String> = (0..m)
                .map(|j| {
                    let s = rng.range(1, 2) as usize;
                    g.op(rng, s, &format!("{k}x{j}"))
                })
                .collect();
            toks.push(format!("x:{}", subs.join("+")));
            dirty = true;
        } else if r < 89 {
            toks.push(if rng.bool() { "wa".into() } else { "iwa".to_string() });
        } else if r < 92 {
            if rng.bool() && !g.patches.is_empty() {
                toks.push(format!("w.{}", rng.pick(&g.patches).name));
            } else if !g.issues.is_empty() {
                toks.push(format!("iw.{}", rng.pick(&g.issues).name));
            } else {
                resync(&mut toks, &mut dirty, g.cur);
                toks.push("q".into());
            }
        } else {
            // mostly re-read everything before asking; sometimes ask while out of date (nothing is judged then)
            if !rng.chance(1, 8) {
                resync(&mut toks, &mut dirty, g.cur);
            }
            toks.push("q".into());
        }
    }
    resync(&mut toks, &mut dirty, g.cur);
    toks.push("q".into());
    toks.join(" ")
}

fn main() {
    // Real git repositories are I/O bound: keep them on tmpfs when there is one (100x faster on a loaded disk).
    if std::env::var_os("C09_KEEP_TMPDIR").is_none() && std::path::Path::new("/dev/shm").is_dir() {
        std::env::set_var("TMPDIR", "/dev/shm");
    }
    let mut ctx = Ctx::from_args("C09");
    let (fixed, is_replay) = ctx.fixed_inputs();
    for i in fixed {
        let (o, annotated) = run_script(&i);
        ctx.count("corpus-or-replay");
        ctx.record(&annotated, o);
    }
    if !is_replay {
        let mut rng = ctx.rng();
        let n = ctx.size(40, 450);
        for _ in 0..n {
            let input = gen_case(&mut rng, 28);
            let (o, annotated) = run_script(&input);
            ctx.record(&annotated, o);
        }
    }
    // the template lives in a static: remove its directory by hand
    let _ = std::fs::remove_dir_all(&template().root);
    ctx.finish(
        "one fresh real repository + write-through in-memory SQLite COB cache per case; random scripts of local operations \
         (create/draft/revision/redact/comment/review/lifecycle/merge/edit/remove/write/write_all on patches and issues), fetched \
         updates by two other signers applied through the real cache_cobs with the actual ref diff (created/updated/deleted/skipped), \
         changes behind the cache's back followed by write_all, \
         and query points where every Patches/Issues query runs on Cache<_,StoreWriter> and Cache<_,NoCache> for every id occurring \
         anywhere in any object (patch, revision incl. redacted, comment, review, review comment, entry, commit, issue) + unknown ids; \
         non-trivial = at least one query point; distinct by script text",
        false,
    );
}
