import HeartwoodModel.Lemmas.ServiceInput
/-!
The outcome class of a message (handled / disconnect reason) and the evolution of the session states
depend on the oracle `Env` only through `limited` (C13b): what justifies running the driver with a fixed oracle.
-/
namespace HeartwoodModel.ServiceInput

/-- The part of a session that decides outcome classes. -/
def SessState.kind : SessState → Nat
  | .initial => 0
  | .attempted => 1
  | .connected _ _ => 2
  | .disconnected => 3

def Session.view (s : Session) : Nid × Host × Bool × Bool × Nat :=
  (s.id, s.host, s.routable, s.persistent, s.state.kind)

/-- `σ'` differs from `σ` at most in fetch sets, queues, subscriptions and pending pings. -/
def SameShape (σ σ' : State) : Prop :=
  σ'.self = σ.self ∧ σ'.now = σ.now ∧ σ'.buckets = σ.buckets ∧
  ∀ k, (σ'.sessions k).map Session.view = (σ.sessions k).map Session.view

theorem SameShape.refl (σ : State) : SameShape σ σ := ⟨rfl, rfl, rfl, fun _ => rfl⟩

theorem SameShape.trans {a b c : State} (h1 : SameShape a b) (h2 : SameShape b c) : SameShape a c :=
  ⟨h2.1.trans h1.1, h2.2.1.trans h1.2.1, h2.2.2.1.trans h1.2.2.1, fun k => (h2.2.2.2 k).trans (h1.2.2.2 k)⟩

/-- Replacing a session by one with the same view keeps the shape. -/
theorem SameShape.updSession (σ : State) (k : Nid) (s s' : Session) (hs : σ.sessions k = some s)
    (hv : s'.view = s.view) : SameShape σ { σ with sessions := upd σ.sessions k (some s') } := by
  refine ⟨rfl, rfl, rfl, ?_⟩
  intro k'
  by_cases hk : k' = k
  · subst hk; simp [upd_same, hs, hv]
  · simp [upd_other _ hk]

theorem queueFetch_shape (σ : State) (rid : Rid) (frm : Nid) (r : List RefAt) (σ' : State)
    (h : queueFetch σ rid frm r = .ok σ') : SameShape σ σ' := by
  unfold queueFetch at h
  cases hs : σ.sessions frm with
  | none => simp [hs] at h; subst h; exact .refl _
  | some s =>
    simp only [hs] at h
    split at h
    · simp at h
    · split at h
      · simp at h; subst h; exact .refl _
      · split at h
        · simp at h; subst h; exact .refl _
        · simp only [Except.ok.injEq] at h
          subst h
          exact SameShape.updSession σ frm s _ hs rfl

theorem fetch_shape (σ : State) (rid : Rid) (frm : Nid) (r : List RefAt) (σ' : State)
    (h : fetch σ rid frm r = .ok σ') : SameShape σ σ' := by
  unfold fetch at h
  cases hs : σ.sessions frm with
  | none => simp [hs] at h; subst h; exact .refl _
  | some s =>
    simp only [hs] at h
    split at h
    · split at h
      · simp at h; subst h; exact .refl _
      · exact queueFetch_shape σ rid frm r σ' h
    · split at h
      · simp at h; subst h; exact .refl _
      · split at h
        · exact queueFetch_shape σ rid frm r σ' h
        · split at h
          · rename_i fs aw hst
            split at h
            · simp at h
            · simp only [Except.ok.injEq] at h
              subst h
              refine ⟨rfl, rfl, rfl, ?_⟩
              intro k'
              by_cases hk : k' = frm
              · subst hk; simp [upd_same, hs, Session.view, hst, SessState.kind]
              · simp [upd_other _ hk]
          · simp at h

theorem fetchAll_shape (frm : Nid) (rids : List Rid) : ∀ (σ σ' : State),
    fetchAll σ frm rids = .ok σ' → SameShape σ σ' := by
  induction rids with
  | nil => intro σ σ' h; simp [fetchAll] at h; subst h; exact .refl _
  | cons rid rest ih =>
    intro σ σ' h
    unfold fetchAll at h
    cases h1 : fetch σ rid frm [] with
    | error e => simp [h1] at h
    | ok σ1 =>
      simp only [h1] at h
      exact (fetch_shape σ rid frm [] σ1 h1).trans (ih σ1 σ' h)

/-- The outcome class of an announcement, from the guards that do not consult the oracle. -/
def annClass (σ : State) (a : Announcement) : Outcome :=
  if !a.sigOk then .disconnect .misbehavior
  else if a.announcer = σ.self then .ok
  else if a.timestamp = 0 then .disconnect .invalidTimestamp
  else if MAX_TIME_DELTA < a.timestamp - σ.now then .disconnect .invalidTimestamp
  else .ok

theorem stored_shape (σ : State) (a : Announcement) : SameShape σ (stored σ a) :=
  ⟨rfl, rfl, rfl, fun _ => rfl⟩

theorem processStored_class (env : Env) (σ : State) (a : Announcement) :
    (∃ s, (processStored env σ a).1 = .panic s) ∨
    ((processStored env σ a).1 = .ok ∧ SameShape σ (processStored env σ a).2) := by
  unfold processStored
  cases a.kind with
  | node seed => exact .inr ⟨rfl, .refl _⟩
  | inventory rids =>
    simp only
    by_cases h7 : (!env.routingSynced) = true
    · rw [if_pos h7]; exact .inr ⟨rfl, .refl _⟩
    rw [if_neg h7]
    cases σ.sessions a.announcer with
    | none => exact .inr ⟨rfl, .refl _⟩
    | some sess =>
      simp only
      cases hf : fetchAll σ a.announcer
          (env.shuffle (rids.filter fun id => env.seeded id && !env.haveLocal id)) with
      | error e => exact .inl ⟨e, rfl⟩
      | ok σ' => exact .inr ⟨rfl, fetchAll_shape _ _ σ σ' hf⟩
  | refs rid refs =>
    simp only
    by_cases h7 : refs.isEmpty = true
    · rw [if_pos h7]; exact .inr ⟨rfl, .refl _⟩
    rw [if_neg h7]
    by_cases h8 : (!env.seeded rid) = true
    · rw [if_pos h8]; exact .inr ⟨rfl, .refl _⟩
    rw [if_neg h8]
    cases σ.sessions a.announcer with
    | none => exact .inr ⟨rfl, .refl _⟩
    | some remote =>
      simp only
      by_cases h9 : (env.wanted rid refs).isEmpty = true
      · rw [if_pos h9]; exact .inr ⟨rfl, .refl _⟩
      rw [if_neg h9]
      cases hf : fetch σ rid remote.id (env.wanted rid refs) with
      | error e => exact .inl ⟨e, rfl⟩
      | ok σ' => exact .inr ⟨rfl, fetch_shape σ rid remote.id _ σ' hf⟩

/-- Unless it panics (which `handleAnnouncement_ok` excludes under the invariant), an announcement is
classified by `annClass`, whatever the oracle says, and the shape of the state is unchanged. -/
theorem handleAnnouncement_class (c : Code) (hc : c.msgLike) (env : Env) (σ : State) (a : Announcement) :
    (∃ s, (handleAnnouncement c env σ a).1 = .panic s) ∨
    ((handleAnnouncement c env σ a).1 = annClass σ a ∧
      SameShape σ (handleAnnouncement c env σ a).2) := by
  unfold handleAnnouncement annClass
  by_cases h1 : (!a.sigOk) = true
  · rw [if_pos h1, if_pos h1]; exact .inr ⟨rfl, .refl _⟩
  rw [if_neg h1, if_neg h1]
  by_cases h2 : a.announcer = σ.self
  · rw [if_pos h2, if_pos h2]; exact .inr ⟨rfl, .refl _⟩
  rw [if_neg h2, if_neg h2]
  by_cases h3 : a.timestamp = 0
  · have : (c.zeroTimestampGuard && a.timestamp == 0) = true := by simp [hc.1, h3]
    rw [if_pos this, if_pos h3]; exact .inr ⟨rfl, .refl _⟩
  have h3' : ¬ (c.zeroTimestampGuard && a.timestamp == 0) = true := by simp [hc.1, h3]
  rw [if_neg h3']
  simp only [if_neg h3]
  by_cases h4 : MAX_TIME_DELTA < a.timestamp - σ.now
  · rw [if_pos h4, if_pos h4]; exact .inr ⟨rfl, .refl _⟩
  rw [if_neg h4, if_neg h4]
  by_cases h5 : unknownIgnored env σ a = true
  · rw [if_pos h5]; exact .inr ⟨rfl, .refl _⟩
  rw [if_neg h5]
  by_cases h6 : (!(env.announcedFresh && isNewer σ a)) = true
  · rw [if_pos h6]; exact .inr ⟨rfl, .refl _⟩
  rw [if_neg h6]
  rcases processStored_class env (stored σ a) a with hp | ⟨ho, hs⟩
  · exact .inl hp
  · exact .inr ⟨ho, (stored_shape σ a).trans hs⟩

theorem SameShape.symm {a b : State} (h : SameShape a b) : SameShape b a :=
  ⟨h.1.symm, h.2.1.symm, h.2.2.1.symm, fun k => (h.2.2.2 k).symm⟩

/-- Outcome class of a dispatched message. -/
def dispClass (σ : State) : Msg → Outcome
  | .announcement a => annClass σ a
  | _ => .ok

theorem dispatch_class (c : Code) (hc : c.msgLike) (env : Env) {σ : State} (h : Inv σ) (remote : Nid) (peer : Session)
    (hp : σ.sessions remote = some peer) (m : Msg) :
    (dispatch c env σ remote peer m).1 = dispClass σ m ∧
    SameShape σ (dispatch c env σ remote peer m).2 := by
  have hgood := dispatch_ok c hc env h remote peer hp m
  unfold dispatch dispClass at *
  cases m with
  | announcement a =>
    simp only at hgood ⊢
    rcases handleAnnouncement_class c hc env σ a with ⟨s, hs⟩ | hcl
    · exact absurd hs (hgood.1 s)
    · exact hcl
  | subscribe since until_ =>
    simp only [hc.2, Bool.false_and, Bool.false_eq_true, if_false]
    refine ⟨?_, SameShape.updSession σ remote peer _ hp rfl⟩
    first | rfl | trivial
  | info => exact ⟨rfl, .refl _⟩
  | ping n => exact ⟨rfl, .refl _⟩
  | pong len =>
    simp only
    split
    · rename_i fs expected hst
      by_cases he : expected = len
      · rw [if_pos he]
        refine ⟨rfl, SameShape.updSession σ remote peer _ hp ?_⟩
        simp [Session.view, hst, SessState.kind]
      · rw [if_neg he]; exact ⟨rfl, .refl _⟩
    · exact ⟨rfl, .refl _⟩

/-- Buckets after `limiter.limit` for a message from `remote`. -/
def bucketsAfter (σ : State) (remote : Nid) : Host → Option Nat :=
  match σ.sessions remote with
  | none => σ.buckets
  | some p => if p.routable then upd σ.buckets p.host (some σ.now) else σ.buckets

/-- Is the message dropped by the rate limiter? -/
def dropped (limited : Bool) (σ : State) (remote : Nid) : Bool :=
  match σ.sessions remote with
  | none => false
  | some p => p.routable && (σ.buckets p.host).isSome && limited

/-- The state in which the message is dispatched: buckets refreshed, a connecting peer moved to `Connected`. -/
def preState (limited : Bool) (σ : State) (remote : Nid) : State :=
  match σ.sessions remote with
  | none => σ
  | some p =>
    let σb : State := { σ with buckets := bucketsAfter σ remote }
    if dropped limited σ remote then σb else
    match p.state with
    | .initial => { σb with sessions := upd σ.sessions remote (some p.toConnected) }
    | .attempted => { σb with sessions := upd σ.sessions remote (some p.toConnected) }
    | _ => σb

/-- Outcome class of a message: a function of the shape of the state and of `limited` only. -/
def msgClass (limited : Bool) (σ : State) (remote : Nid) (m : Msg) : Outcome :=
  match σ.sessions remote with
  | none => .ok
  | some p =>
    if dropped limited σ remote then .ok else
    match p.state with
    | .disconnected => .ok
    | _ => dispClass σ m

theorem limit_eq (env : Env) {σ : State} (h : Inv σ) (remote : Nid) (p : Session)
    (hp : σ.sessions remote = some p) :
    limit env σ p = some (dropped env.limited σ remote, bucketsAfter σ remote) := by
  unfold limit dropped bucketsAfter
  simp only [hp]
  cases hr : p.routable with
  | false => simp
  | true =>
    simp only [Bool.not_true, Bool.false_eq_true, if_false, Bool.true_and, if_true]
    cases hb : σ.buckets p.host with
    | none => simp
    | some t =>
      have : ¬ σ.now < t := by have := h.clock p.host t hb; omega
      simp [this]

/-- **One message, any oracle**: the outcome is `msgClass`, and the resulting state has the shape of `preState`. -/
theorem handleMessage_class (c : Code) (hc : c.msgLike) (env : Env) {σ : State} (h : Inv σ) (remote : Nid) (m : Msg) :
    (handleMessage c env σ remote m).1 = msgClass env.limited σ remote m ∧
    SameShape (preState env.limited σ remote) (handleMessage c env σ remote m).2 := by
  unfold handleMessage msgClass preState
  cases hs : σ.sessions remote with
  | none => exact ⟨rfl, .refl _⟩
  | some peer =>
    simp only
    rw [limit_eq env h remote peer hs]
    simp only
    have h1 : Inv { σ with buckets := bucketsAfter σ remote } := by
      have := limit_ok env h peer
      obtain ⟨l, b, hl, hb⟩ := this
      rw [limit_eq env h remote peer hs] at hl
      simp only [Option.some.injEq, Prod.mk.injEq] at hl
      obtain ⟨_, rfl⟩ := hl
      exact ⟨h.ids, h.fetching, hb⟩
    by_cases hd : dropped env.limited σ remote = true
    · simp only [hd, if_true]
      refine ⟨?_, .refl _⟩
      first | rfl | trivial
    simp only [hd, Bool.false_eq_true, if_false]
    have hid : peer.id = remote := h.ids remote peer hs
    have hconn : Inv { ({ σ with buckets := bucketsAfter σ remote } : State) with
        sessions := upd σ.sessions remote (some peer.toConnected) } := by
      refine h1.updSession remote peer.toConnected hid ?_
      intro fs aw hst rid hrid
      simp only [Session.toConnected, SessState.connected.injEq] at hst
      obtain ⟨rfl, _⟩ := hst
      simp at hrid
    cases hst : peer.state with
    | disconnected => exact ⟨rfl, .refl _⟩
    | connected fs aw => exact dispatch_class c hc env h1 remote peer hs m
    | initial =>
      simp only
      have := dispatch_class c hc env hconn remote peer.toConnected (by simp [upd_same]) m
      exact ⟨this.1, this.2⟩
    | attempted =>
      simp only
      have := dispatch_class c hc env hconn remote peer.toConnected (by simp [upd_same]) m
      exact ⟨this.1, this.2⟩

/-! ### the class and the next shape depend on the shape only -/

theorem sessions_of_shape {σ τ : State} (h : SameShape σ τ) (k : Nid) :
    (σ.sessions k = none ∧ τ.sessions k = none) ∨
    ∃ p q, σ.sessions k = some p ∧ τ.sessions k = some q ∧ q.view = p.view := by
  have := h.2.2.2 k
  cases hp : σ.sessions k with
  | none =>
    cases hq : τ.sessions k with
    | none => exact .inl ⟨rfl, rfl⟩
    | some q => simp [hp, hq] at this
  | some p =>
    cases hq : τ.sessions k with
    | none => simp [hp, hq] at this
    | some q =>
      simp only [hp, hq, Option.map_some, Option.some.injEq] at this
      exact .inr ⟨p, q, rfl, rfl, this⟩

theorem view_fields {p q : Session} (h : q.view = p.view) :
    q.id = p.id ∧ q.host = p.host ∧ q.routable = p.routable ∧ q.persistent = p.persistent ∧
    q.state.kind = p.state.kind := by
  simp only [Session.view, Prod.mk.injEq] at h
  exact h

theorem dispClass_of_shape {σ τ : State} (h : SameShape σ τ) (m : Msg) : dispClass τ m = dispClass σ m := by
  cases m <;> simp [dispClass, annClass, h.1, h.2.1]

theorem kind_cases (s : SessState) :
    (s = .initial ∧ s.kind = 0) ∨ (s = .attempted ∧ s.kind = 1) ∨
    ((∃ fs aw, s = .connected fs aw) ∧ s.kind = 2) ∨ (s = .disconnected ∧ s.kind = 3) := by
  cases s <;> simp [SessState.kind]

theorem msgClass_of_shape {σ τ : State} (h : SameShape σ τ) (l : Bool) (remote : Nid) (m : Msg) :
    msgClass l τ remote m = msgClass l σ remote m ∧ dropped l τ remote = dropped l σ remote ∧
    bucketsAfter τ remote = bucketsAfter σ remote := by
  rcases sessions_of_shape h remote with ⟨hp, hq⟩ | ⟨p, q, hp, hq, hv⟩
  · refine ⟨?_, ?_, ?_⟩
    · simp only [msgClass, hp, hq]
    · simp only [dropped, hp, hq]
    · simp only [bucketsAfter, hp, hq, h.2.2.1]
  · obtain ⟨_, hh, hr, _, hk⟩ := view_fields hv
    have hd : dropped l τ remote = dropped l σ remote := by
      simp only [dropped, hp, hq, hh, hr, h.2.2.1]
    refine ⟨?_, hd, ?_⟩
    · simp only [msgClass, hp, hq, hd, dispClass_of_shape h m]
      split
      · rfl
      · rcases kind_cases p.state with ⟨e, k⟩ | ⟨e, k⟩ | ⟨⟨fs, aw, e⟩, k⟩ | ⟨e, k⟩ <;>
        rcases kind_cases q.state with ⟨e', k'⟩ | ⟨e', k'⟩ | ⟨⟨fs', aw', e'⟩, k'⟩ | ⟨e', k'⟩ <;>
        first
          | (exfalso; omega)
          | simp only [e, e']
    · simp only [bucketsAfter, hp, hq, hh, hr, h.2.2.1, h.2.1]

theorem preState_of_shape {σ τ : State} (h : SameShape σ τ) (l : Bool) (remote : Nid) :
    SameShape (preState l σ remote) (preState l τ remote) := by
  obtain ⟨_, hdrop, hbuck⟩ := msgClass_of_shape h l remote .info
  unfold preState
  rcases sessions_of_shape h remote with ⟨hp, hq⟩ | ⟨p, q, hp, hq, hv⟩
  · simp only [hp, hq]; exact h
  · obtain ⟨hi, hh, hr, hpers, hk⟩ := view_fields hv
    simp only [hp, hq, hdrop]
    have base : SameShape ({ σ with buckets := bucketsAfter σ remote } : State)
        ({ τ with buckets := bucketsAfter τ remote } : State) :=
      ⟨h.1, h.2.1, hbuck, h.2.2.2⟩
    have conn : SameShape
        ({ ({ σ with buckets := bucketsAfter σ remote } : State) with
            sessions := upd σ.sessions remote (some p.toConnected) } : State)
        ({ ({ τ with buckets := bucketsAfter τ remote } : State) with
            sessions := upd τ.sessions remote (some q.toConnected) } : State) := by
      refine ⟨h.1, h.2.1, hbuck, ?_⟩
      intro k
      by_cases hkr : k = remote
      · subst hkr
        simp [upd_same, Session.view, Session.toConnected, SessState.kind, hi, hh, hr, hpers]
      · simp only [upd_other _ hkr]; exact h.2.2.2 k
    split
    · exact base
    · rcases kind_cases p.state with ⟨e, k⟩ | ⟨e, k⟩ | ⟨⟨fs, aw, e⟩, k⟩ | ⟨e, k⟩ <;>
      rcases kind_cases q.state with ⟨e', k'⟩ | ⟨e', k'⟩ | ⟨⟨fs', aw', e'⟩, k'⟩ | ⟨e', k'⟩ <;>
      first
        | (exfalso; omega)
        | (simp only [e, e']; first | exact conn | exact base)

theorem connectedSessions_shape {σ τ : State} (h : SameShape σ τ) (r : Nid) (ho : Host) (ro p : Bool) :
    SameShape (connectedSessions σ r ho ro p) (connectedSessions τ r ho ro p) := by
  unfold connectedSessions
  rcases sessions_of_shape h r with ⟨hp, hq⟩ | ⟨s, t, hp, hq, hv⟩
  · simp only [hp, hq]
    refine ⟨h.1, h.2.1, h.2.2.1, ?_⟩
    intro k
    by_cases hk : k = r
    · subst hk; simp [upd_same]
    · simp only [upd_other _ hk]; exact h.2.2.2 k
  · obtain ⟨hi, hh, hr, hpers, _⟩ := view_fields hv
    simp only [hp, hq]
    have key : ∀ k, (upd τ.sessions r (some t.toConnected) k).map Session.view =
        (upd σ.sessions r (some s.toConnected) k).map Session.view := by
      intro k
      by_cases hk : k = r
      · subst hk
        simp [upd_same, Session.view, Session.toConnected, SessState.kind, hi, hh, hr, hpers]
      · simp only [upd_other _ hk]; exact h.2.2.2 k
    split <;> split <;> exact ⟨h.1, h.2.1, h.2.2.1, key⟩

theorem disconnected_shape {σ τ : State} (h : SameShape σ τ) (r : Nid) :
    SameShape (disconnected σ r) (disconnected τ r) := by
  unfold disconnected
  rcases sessions_of_shape h r with ⟨hp, hq⟩ | ⟨s, t, hp, hq, hv⟩
  · simp only [hp, hq]; exact h
  · obtain ⟨hi, hh, hr, hpers, _⟩ := view_fields hv
    simp only [hp, hq, hpers]
    split
    · refine ⟨h.1, h.2.1, h.2.2.1, ?_⟩
      intro k
      by_cases hk : k = r
      · subst hk
        simp [upd_same, Session.view, SessState.kind, hi, hh, hr, hpers]
      · simp only [upd_other _ hk]; exact h.2.2.2 k
    · refine ⟨h.1, h.2.1, h.2.2.1, ?_⟩
      intro k
      by_cases hk : k = r
      · subst hk; simp [upd_same]
      · simp only [upd_other _ hk]; exact h.2.2.2 k

theorem restarted_shape (σ τ : State) (h : SameShape σ τ) (cfg : List (Nid × Host × Bool)) :
    SameShape (restarted σ cfg) (restarted τ cfg) :=
  ⟨h.1, h.2.1, rfl, fun _ => rfl⟩

/-- **One step, two oracles**: from states of the same shape, oracles that agree on `limited` give the same
outcome and states of the same shape (current code, i.e. with the saturating `Service::initial` of 192a092). -/
theorem step_env_irrelevant (e1 e2 : Env) (hl : e1.limited = e2.limited) {σ τ : State}
    (hσ : Inv σ) (hτ : Inv τ) (h : SameShape σ τ) (op : Op) :
    (step Code.current e1 σ op).1 = (step Code.current e2 τ op).1 ∧
    SameShape (step Code.current e1 σ op).2 (step Code.current e2 τ op).2 := by
  cases op with
  | recv r m =>
    obtain ⟨c1, s1⟩ := handleMessage_class Code.current Code.current_msgLike e1 hσ r m
    obtain ⟨c2, s2⟩ := handleMessage_class Code.current Code.current_msgLike e2 hτ r m
    simp only [step]
    refine ⟨?_, ?_⟩
    · rw [c1, c2, hl, (msgClass_of_shape h e2.limited r m).1]
    · rw [hl] at s1
      exact (s1.symm.trans (preState_of_shape h e2.limited r)).trans s2
  | connectIn r ho ro p =>
    obtain ⟨t1, ht1⟩ := initialSince_fixed σ
    obtain ⟨t2, ht2⟩ := initialSince_fixed τ
    simp only [step, connectedInbound, ht1, ht2]
    refine ⟨?_, connectedSessions_shape h r ho ro p⟩
    first | rfl | trivial
  | disconnect r => exact ⟨rfl, disconnected_shape h r⟩
  | restart cfg => exact ⟨rfl, restarted_shape σ τ h cfg⟩

/-- **Any history, two oracle sequences** agreeing on `limited`: the same outcomes. -/
theorem run_env_irrelevant (envs1 envs2 : Nat → Env) (hl : ∀ i, (envs1 i).limited = (envs2 i).limited)
    (ops : List Op) : ∀ (σ τ : State) (i : Nat), Inv σ → Inv τ → SameShape σ τ →
    run Code.current envs1 σ ops i = run Code.current envs2 τ ops i := by
  induction ops with
  | nil => intro σ τ i _ _ _; rfl
  | cons op ops ih =>
    intro σ τ i hσ hτ h
    obtain ⟨ho, hs⟩ := step_env_irrelevant (envs1 i) (envs2 i) (hl i) hσ hτ h op
    obtain ⟨np1, i1⟩ := step_ok (envs1 i) hσ op
    obtain ⟨np2, i2⟩ := step_ok (envs2 i) hτ op
    unfold run
    cases h1 : step Code.current (envs1 i) σ op with
    | mk o1 σ1 =>
      cases h2 : step Code.current (envs2 i) τ op with
      | mk o2 τ1 =>
        rw [h1, h2] at ho hs
        rw [h1] at np1 i1
        rw [h2] at np2 i2
        simp only at ho hs np1 np2 i1 i2
        subst ho
        cases o1 with
        | panic s => exact absurd rfl (np1 s)
        | ok => simp only; rw [ih σ1 τ1 (i + 1) i1 i2 hs]
        | disconnect e => simp only; rw [ih σ1 τ1 (i + 1) i1 i2 hs]

end HeartwoodModel.ServiceInput
