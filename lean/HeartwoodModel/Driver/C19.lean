import HeartwoodModel.Model.Doc
import HeartwoodModel.Model.JsonWire
import HeartwoodModel.Driver.Util
/-! Driver entry for C19.

Case: `<did table> <nfc table> <kind> <args…>`

* did table: `idx:hex,idx:hex,…` or `-` — the graph of `showDid` (`Did::encode`) on the keys of the case;
  `parseDid` (`Did::decode`) is its inverse and `none` on every other string.
* nfc table: `hex>hex,…` or `-` — the graph of NFC on the string fragments of the case that are not
  already normalised (every other fragment is a fixed point).
* `json <tree>`: a JSON document (wire syntax of `Model/JsonWire.lean`) given to `Doc::from_blob` /
  `Doc::deserialize`.
* `raw <delegates idx,…> <threshold> <P | V<idx,…>> <payload tree>`: a `RawDoc` built through the Rust API
  and given to `RawDoc::verified`.

Output: `rej`, or `ok v=<version> t=<threshold> d=<delegates> vis=<pub|priv:allow> enc=<hex of Doc::encode | err>
rt=<1 equal | 0 different | E decoding failed | x no encoding>`. -/
namespace HeartwoodModel.Driver.C19
open HeartwoodModel.Json HeartwoodModel.JsonWire HeartwoodModel.Doc HeartwoodModel.Driver.Util

def parseDidTable (s : String) : Option (List (Nat × Bytes)) :=
  if s == "-" then some [] else
  (splitOn s ',').mapM fun e =>
    match splitOn e ':' with
    | [i, h] => do let i ← nat? i; let h ← hexBytes? h; some (i, h)
    | _ => none

def parseNfcTable (s : String) : Option (List (Bytes × Bytes)) :=
  if s == "-" then some [] else
  (splitOn s ',').mapM fun e =>
    match splitOn e '>' with
    | [a, b] => do let a ← hexBytes? a; let b ← hexBytes? b; some (a, b)
    | _ => none

def nfcOf (tbl : List (Bytes × Bytes)) (s : Bytes) : Bytes :=
  match tbl.find? (fun e => e.1 == s) with
  | some e => e.2
  | none => s

def showDidOf (tbl : List (Nat × Bytes)) (d : Did) : Bytes :=
  match tbl.find? (fun e => e.1 == d) with
  | some e => e.2
  | none => []

def parseDidOf (tbl : List (Nat × Bytes)) (s : Bytes) : Option Did :=
  (tbl.find? (fun e => e.2 == s)).map (·.1)

def showVis : Visibility → String
  | .pub => "pub"
  | .priv allow => "priv:" ++ showNats allow

def showDoc (nfc : Bytes → Bytes) (sd : Did → Bytes) (pd : Bytes → Option Did) (d : Doc) : String :=
  let enc := match d.encode nfc sd with
    | some b => toHex b
    | none => "err"
  let rt := match d.roundtrip nfc sd pd with
    | none => "x"
    | some (.error _) => "E"
    | some (.ok d') => if d'.beq d then "1" else "0"
  s!"ok v={d.version} t={d.threshold} d={showNats d.delegates} vis={showVis d.visibility} enc={enc} rt={rt}"

def showResult (nfc : Bytes → Bytes) (sd : Did → Bytes) (pd : Bytes → Option Did) : Except DocErr Doc → String
  | .error _ => "rej"
  | .ok d => showDoc nfc sd pd d

/-- every delegate / allow index must be in the did table (otherwise `showDid` is not defined on it) -/
def covered (tbl : List (Nat × Bytes)) (ds : List Nat) : Bool := ds.all fun d => tbl.any (·.1 == d)

def run (args : List String) : String :=
  match args with
  | dt :: nt :: kind :: rest =>
    match parseDidTable dt, parseNfcTable nt with
    | some dtbl, some ntbl =>
      let nfc := nfcOf ntbl
      let sd := showDidOf dtbl
      let pd := parseDidOf dtbl
      match kind, rest with
      | "json", [tree] =>
        match parseTree dtbl tree with
        | .ok j _ => showResult nfc sd pd (Doc.decode pd j)
        | .syntax => "bad-op"
        | .fuel => "fuel"
      | "raw", [dels, thr, vis, tree] =>
        match nats? dels, nat? thr, parseTree dtbl tree with
        | some dels, some thr, .ok j _ =>
          let vis? : Option Visibility :=
            if vis == "P" then some .pub
            else if vis.startsWith "V" then (nats? (vis.drop 1).toString).map (fun a => .priv (setOfList a))
            else none
          match vis?, parsePayload j with
          | some v, some payload =>
            let allow := match v with | .pub => [] | .priv a => a
            if covered dtbl dels && covered dtbl allow then
              showResult nfc sd pd
                (RawDoc.verified { version := IDENTITY_VERSION, payload, delegates := dels, threshold := thr, visibility := v })
            else "bad-op"
          | _, _ => "bad-op"
        | _, _, .fuel => "fuel"
        | _, _, _ => "bad-op"
      | _, _ => "bad-op"
    | _, _ => "bad-op"
  | _ => "bad-op"

end HeartwoodModel.Driver.C19
