import HeartwoodModel.Model.Crdt
import HeartwoodModel.Lemmas.Crdt
/-!
# C22 — CRDT merges are associative, commutative and idempotent

Property theorems about `Model/Crdt.lean`.

* `*_lawful`: every `Semilattice` implementation of `radicle-crdt` (`Max`, `Min`, `bool`, `()`, `Option`,
  `Redactable`, `LWWReg`, `GMap`, `GSet`, `LWWMap`, `LWWSet`) satisfies the three laws, for *every*
  lawful component type and every strict linear order on clocks / keys / values (`LawfulOrdered`, i.e.
  what Rust's `Ord` promises). Equality on maps is equality of the sorted entry lists, which by `GMap.ext`
  is extensional equality of `get` — Rust's `==` on `BTreeMap`.
* `lww_exposes_max_clock`, `lww_never_written`: what an `LWWMap` exposes for a key after any list of
  writes is the join of the values written to that key with the greatest clock; `lww_order_irrelevant`
  and `lww_merge_is_union_of_writes`: the order of the writes, and how they were distributed over
  replicas that are then merged, do not matter.
* `lww_insert_wins_at_equal_clock`, `lww_insert_absorbs_remove`: at the greatest clock an insertion wins
  over any number of removals with the same clock.
-/
set_option linter.unusedSimpArgs false
set_option linter.unusedVariables false
set_option linter.unusedSectionVars false
namespace HeartwoodModel.Crdt

/-! ## the semilattice laws, type by type -/

theorem unit_lawful : LawfulSemilattice Unit := ⟨fun _ _ _ => rfl, fun _ _ => rfl, fun _ => rfl⟩
instance : LawfulSemilattice Unit := unit_lawful

theorem bool_lawful : LawfulSemilattice Bool :=
  ⟨by intro a b c; cases a <;> cases b <;> cases c <;> rfl,
   by intro a b; cases a <;> cases b <;> rfl,
   by intro a; cases a <;> rfl⟩
instance : LawfulSemilattice Bool := bool_lawful

section Ord
variable {α : Type} [Ordered α] [LawfulOrdered α]

theorem max_merge_eq (s o : MaxV α) : merge s o = ⟨pick (fun a b => Ordered.lt a b) s.val o.val⟩ := by
  show (if Ordered.lt s.val o.val then (⟨o.val⟩ : MaxV α) else s) = _
  unfold pick
  split <;> rfl

theorem min_merge_eq (s o : MinV α) : merge s o = ⟨pick (fun a b => Ordered.lt b a) s.val o.val⟩ := by
  show (if Ordered.lt o.val s.val then (⟨o.val⟩ : MinV α) else s) = _
  unfold pick
  split <;> rfl

/-- `Max<T>` for any linearly ordered `T`. -/
theorem max_lawful : LawfulSemilattice (MaxV α) :=
  ⟨by intro a b c; simp only [max_merge_eq]; rw [pick_assoc (strictLinear_lt α)],
   by intro a b; simp only [max_merge_eq]; rw [pick_comm (strictLinear_lt α)],
   by intro a; simp only [max_merge_eq, pick_idem]⟩
instance : LawfulSemilattice (MaxV α) := max_lawful

/-- `Min<T>` for any linearly ordered `T`. -/
theorem min_lawful : LawfulSemilattice (MinV α) :=
  ⟨by intro a b c; simp only [min_merge_eq]; rw [pick_assoc (strictLinear_gt α)],
   by intro a b; simp only [min_merge_eq]; rw [pick_comm (strictLinear_gt α)],
   by intro a; simp only [min_merge_eq, pick_idem]⟩
instance : LawfulSemilattice (MinV α) := min_lawful

end Ord

/-- `Option<T>` for any lawful `T`. -/
theorem option_lawful {α : Type} [Semilattice α] [LawfulSemilattice α] : LawfulSemilattice (Option α) :=
  ⟨opt_assoc, opt_comm, opt_idem⟩
instance {α : Type} [Semilattice α] [LawfulSemilattice α] : LawfulSemilattice (Option α) := option_lawful

/-- `Redactable<T>` for any `T: PartialEq` (with decidable, i.e. reflexive, equality). -/
theorem redactable_lawful {α : Type} [DecidableEq α] : LawfulSemilattice (Redactable α) := by
  refine ⟨?_, ?_, ?_⟩
  · intro a b c
    cases a with
    | redacted => cases b <;> cases c <;> rfl
    | present a =>
      cases b with
      | redacted => cases c <;> rfl
      | present b =>
        cases c with
        | redacted =>
          show merge (if a ≠ b then Redactable.redacted else Redactable.present a) Redactable.redacted = _
          split <;> rfl
        | present c =>
          show merge (if a ≠ b then Redactable.redacted else Redactable.present a) (Redactable.present c)
            = merge (Redactable.present a) (if b ≠ c then Redactable.redacted else Redactable.present b)
          by_cases hab : a = b <;> by_cases hbc : b = c
          · subst hab; subst hbc; simp
          · subst hab
            simp only [ne_eq, not_true_eq_false, if_false, hbc, not_false_eq_true, if_true]
            show (if a ≠ c then Redactable.redacted else Redactable.present a) = Redactable.redacted
            simp [hbc]
          · subst hbc
            simp only [ne_eq, hab, not_false_eq_true, if_true, not_true_eq_false, if_false]
            show Redactable.redacted = (if a ≠ b then Redactable.redacted else Redactable.present a)
            simp [hab]
          · simp only [ne_eq, hab, hbc, not_false_eq_true, if_true]
            rfl
  · intro a b
    cases a with
    | redacted => cases b <;> rfl
    | present a =>
      cases b with
      | redacted => rfl
      | present b =>
        show (if a ≠ b then Redactable.redacted else Redactable.present a)
          = (if b ≠ a then Redactable.redacted else Redactable.present b)
        by_cases h : a = b
        · subst h; simp
        · have h' : ¬ b = a := fun e => h e.symm
          simp [h, h']
  · intro a
    cases a with
    | redacted => rfl
    | present a =>
      show (if a ≠ a then Redactable.redacted else Redactable.present a) = _
      simp
instance {α : Type} [DecidableEq α] : LawfulSemilattice (Redactable α) := redactable_lawful

/-- `LWWReg<T, C>` for any lawful `T` and linearly ordered clock `C`. -/
theorem lwwreg_lawful {T C : Type} [DecidableEq C] [Ordered C] [LawfulOrdered C] [Semilattice T]
    [LawfulSemilattice T] : LawfulSemilattice (LWWReg T C) := ⟨reg_assoc, reg_comm, reg_idem⟩
instance {T C : Type} [DecidableEq C] [Ordered C] [LawfulOrdered C] [Semilattice T]
    [LawfulSemilattice T] : LawfulSemilattice (LWWReg T C) := lwwreg_lawful

section Maps
variable {K V : Type} [Ordered K] [LawfulOrdered K] [DecidableEq K] [Semilattice V] [LawfulSemilattice V]

/-- `GMap<K, V>` for any lawful `V` and linearly ordered key `K`; `=` is `BTreeMap`'s extensional `==`. -/
theorem gmap_lawful : LawfulSemilattice (GMap K V) := by
  refine ⟨?_, ?_, ?_⟩
  · intro a b c; apply GMap.ext; intro k; simp only [GMap.get_merge]; exact opt_assoc _ _ _
  · intro a b; apply GMap.ext; intro k; simp only [GMap.get_merge]; exact opt_comm _ _
  · intro a; apply GMap.ext; intro k; simp only [GMap.get_merge]; exact opt_idem _
instance : LawfulSemilattice (GMap K V) := gmap_lawful

omit [Semilattice V] [LawfulSemilattice V] in
/-- `GSet::merge` (insert every key of `other`) is the `GMap<K, ()>` merge of the inner maps. -/
theorem gset_merge_inner (s o : GSet K) : (merge s o).inner = merge s.inner o.inner := by
  show (o.keys.foldl (fun s k => s.insert k) s).inner
    = o.inner.entries.foldl (fun m kv => m.insert kv.1 kv.2) s.inner
  unfold GSet.keys
  generalize o.inner.entries = l
  induction l generalizing s with
  | nil => rfl
  | cons hd tl ih =>
    simp only [List.map_cons, List.foldl_cons]
    rw [ih]
    rfl

omit [Semilattice V] [LawfulSemilattice V] in
theorem GSet.ext' {a b : GSet K} (h : a.inner = b.inner) : a = b := by
  cases a; cases b; simp only at h; subst h; rfl

omit [Semilattice V] [LawfulSemilattice V] in
/-- `GSet<K>`. -/
theorem gset_lawful : LawfulSemilattice (GSet K) := by
  refine ⟨?_, ?_, ?_⟩
  · intro a b c; apply GSet.ext'; simp only [gset_merge_inner]; exact LawfulSemilattice.assoc _ _ _
  · intro a b; apply GSet.ext'; simp only [gset_merge_inner]; exact LawfulSemilattice.comm _ _
  · intro a; apply GSet.ext'; simp only [gset_merge_inner]; exact LawfulSemilattice.idem _
instance : LawfulSemilattice (GSet K) := gset_lawful

variable {C : Type} [DecidableEq C] [Ordered C] [LawfulOrdered C]

theorem LWWMap.ext' {a b : LWWMap K V C} (h : a.inner = b.inner) : a = b := by
  cases a; cases b; simp only at h; subst h; rfl

theorem lwwmap_merge_inner (a b : LWWMap K V C) : (merge a b).inner = merge a.inner b.inner := rfl

/-- `LWWMap<K, V, C>` = `GMap<K, LWWReg<Option<V>, C>>`. -/
theorem lwwmap_lawful : LawfulSemilattice (LWWMap K V C) := by
  refine ⟨?_, ?_, ?_⟩
  · intro a b c; apply LWWMap.ext'; simp only [lwwmap_merge_inner]; exact LawfulSemilattice.assoc _ _ _
  · intro a b; apply LWWMap.ext'; simp only [lwwmap_merge_inner]; exact LawfulSemilattice.comm _ _
  · intro a; apply LWWMap.ext'; simp only [lwwmap_merge_inner]; exact LawfulSemilattice.idem _
instance : LawfulSemilattice (LWWMap K V C) := lwwmap_lawful

omit [Semilattice V] [LawfulSemilattice V] in
/-- `LWWSet<T, C>` = `LWWMap<T, (), C>`. -/
theorem lwwset_lawful : LawfulSemilattice (LWWSet K C) := by
  have ext : ∀ {a b : LWWSet K C}, a.inner = b.inner → a = b := by
    intro a b h; cases a; cases b; simp only at h; subst h; rfl
  have mi : ∀ a b : LWWSet K C, (merge a b).inner = merge a.inner b.inner := fun _ _ => rfl
  refine ⟨?_, ?_, ?_⟩
  · intro a b c; apply ext; simp only [mi]; exact LawfulSemilattice.assoc _ _ _
  · intro a b; apply ext; simp only [mi]; exact LawfulSemilattice.comm _ _
  · intro a; apply ext; simp only [mi]; exact LawfulSemilattice.idem _
instance : LawfulSemilattice (LWWSet K C) := lwwset_lawful

/-! ## last-writer-wins: what is exposed -/

/-- The register written by one write. -/
def Write.reg (w : Write K V C) : LWWReg (Option V) C := LWWReg.new w.val w.clock

omit [LawfulSemilattice V] [LawfulOrdered C] in
theorem LWWMap.apply_inner (m : LWWMap K V C) (w : Write K V C) :
    (m.apply w).inner = m.inner.insert w.key w.reg := by
  unfold LWWMap.apply Write.reg
  cases h : w.val <;> rfl

omit [LawfulSemilattice V] [LawfulOrdered C] in
/-- The register stored under `k` after a list of writes: the fold of the writes to `k`. -/
theorem get_foldl_apply (ws : List (Write K V C)) (m : LWWMap K V C) (k : K) :
    (ws.foldl LWWMap.apply m).inner.get k
      = (ws.filter (fun w => w.key = k)).foldl (fun a w => merge a (some w.reg)) (m.inner.get k) := by
  induction ws generalizing m with
  | nil => rfl
  | cons w t ih =>
    simp only [List.foldl_cons]
    rw [ih, LWWMap.apply_inner, GMap.get_insert]
    by_cases h : w.key = k
    · subst h
      simp [List.filter]
    · have h' : ¬ k = w.key := fun e => h e.symm
      simp [List.filter, h, h']

omit [LawfulSemilattice V] [LawfulOrdered C] [Ordered K] [LawfulOrdered K] [DecidableEq K] in
theorem foldl_some (l : List (Write K V C)) (acc : LWWReg (Option V) C) :
    l.foldl (fun a w => merge a (some w.reg)) (some acc) = some (l.foldl (fun a w => merge a w.reg) acc) := by
  induction l generalizing acc with
  | nil => rfl
  | cons w t ih => simp only [List.foldl_cons, opt_merge_some_some]; rw [ih]

omit [LawfulSemilattice V] [Ordered K] [LawfulOrdered K] [DecidableEq K] in
/-- Folding writes (all with clocks `≤ c`, one of them — or the accumulator — at `c`) into a register
leaves clock `c` and the join of the values written at `c`. -/
theorem reg_fold (c : C) (l : List (Write K V C)) (acc : LWWReg (Option V) C)
    (hacc : Ordered.lt c acc.clock.val = false) (hl : ∀ w ∈ l, Ordered.lt c w.clock = false)
    (hex : acc.clock.val = c ∨ ∃ w ∈ l, w.clock = c) :
    (l.foldl (fun a w => merge a w.reg) acc).clock.val = c ∧
    (l.foldl (fun a w => merge a w.reg) acc).value
      = (l.filter (fun w => w.clock = c)).foldl (fun a w => merge a w.val)
          (if acc.clock.val = c then acc.value else none) := by
  induction l generalizing acc with
  | nil =>
    rcases hex with h | ⟨w, hw, _⟩
    · simp [h]
    · cases hw
  | cons w t ih =>
    simp only [List.foldl_cons]
    have hwc : Ordered.lt c w.clock = false := hl w (by simp)
    have ht : ∀ w' ∈ t, Ordered.lt c w'.clock = false := fun w' hw' => hl w' (by simp [hw'])
    -- the register after this write
    have hregc : w.reg.clock.val = w.clock := rfl
    have hregv : w.reg.value = w.val := rfl
    rcases reg_cases acc w.reg with ⟨hlt, hm⟩ | ⟨heq, hm⟩ | ⟨hgt, hm⟩
    · -- acc < w : replaced by the write
      rw [hm]
      rw [hregc] at hlt
      have hacc_ne : acc.clock.val ≠ c := by
        intro e; rw [e, hwc] at hlt; cases hlt
      have hex' : w.reg.clock.val = c ∨ ∃ w' ∈ t, w'.clock = c := by
        rcases hex with h | ⟨w', hw', hc⟩
        · exact absurd h hacc_ne
        · rcases List.mem_cons.mp hw' with rfl | hw'
          · exact Or.inl hc
          · exact Or.inr ⟨w', hw', hc⟩
      obtain ⟨i1, i2⟩ := ih w.reg (by rw [hregc]; exact hwc) ht hex'
      refine ⟨i1, ?_⟩
      rw [i2, hregc, hregv]
      by_cases hc : w.clock = c
      · simp [List.filter, hc, hacc_ne]
      · simp [List.filter, hc, hacc_ne]
    · -- same clock: values merged
      rw [hm]
      have hcl : acc.clock.val = w.clock := by rw [heq]; rfl
      have hex' : acc.clock.val = c ∨ ∃ w' ∈ t, w'.clock = c := by
        rcases hex with h | ⟨w', hw', hc⟩
        · exact Or.inl h
        · rcases List.mem_cons.mp hw' with rfl | hw'
          · exact Or.inl (hcl.trans hc)
          · exact Or.inr ⟨w', hw', hc⟩
      obtain ⟨i1, i2⟩ := ih { clock := acc.clock, value := merge acc.value w.reg.value } hacc ht hex'
      refine ⟨i1, ?_⟩
      rw [i2, hregv]
      by_cases hc : w.clock = c
      · have : acc.clock.val = c := hcl.trans hc
        simp [List.filter, hc, this]
      · have : ¬ acc.clock.val = c := fun e => hc (hcl.symm.trans e)
        simp [List.filter, hc, this]
    · -- acc > w : the write is ignored
      rw [hm]
      rw [hregc] at hgt
      have hw_ne : w.clock ≠ c := by
        intro e; rw [e, hacc] at hgt; cases hgt
      have hex' : acc.clock.val = c ∨ ∃ w' ∈ t, w'.clock = c := by
        rcases hex with h | ⟨w', hw', hc⟩
        · exact Or.inl h
        · rcases List.mem_cons.mp hw' with rfl | hw'
          · exact absurd hc hw_ne
          · exact Or.inr ⟨w', hw', hc⟩
      obtain ⟨i1, i2⟩ := ih acc hacc ht hex'
      refine ⟨i1, ?_⟩
      rw [i2]
      simp [List.filter, hw_ne]

omit [LawfulSemilattice V] [LawfulOrdered C] in
theorem LWWMap.get_eq (m : LWWMap K V C) (k : K) :
    m.get k = (m.inner.get k).bind (fun r => r.value) := by
  unfold LWWMap.get; cases m.inner.get k <;> rfl

omit [LawfulSemilattice V] [LawfulOrdered C] in
theorem LWWMap.containsKey_eq (m : LWWMap K V C) (k : K) : m.containsKey k = (m.get k).isSome := by
  unfold LWWMap.containsKey LWWMap.get; cases m.inner.get k <;> rfl

omit [LawfulSemilattice V] in
/-- **C22, LWW exposes the greatest clock.** After any list of writes (insertions and removals, any
order), if `c` is the greatest clock among the writes to `k`, then the map stores clock `c` for `k` and
`get k` is the join (`Option` merge, `none` = removal is the identity) of the values written to `k`
with clock `c`. -/
theorem lww_exposes_max_clock (ws : List (Write K V C)) (k : K) (c : C)
    (hmax : ∀ w ∈ ws, w.key = k → Ordered.lt c w.clock = false)
    (hex : ∃ w ∈ ws, w.key = k ∧ w.clock = c) :
    ((LWWMap.applyAll ws).inner.get k).map (fun r => r.clock.val) = some c ∧
    (LWWMap.applyAll ws).get k
      = (ws.filter (fun w => w.key = k && w.clock = c)).foldl (fun a w => merge a w.val) none := by
  unfold LWWMap.applyAll
  rw [LWWMap.get_eq, get_foldl_apply]
  have hfil : ws.filter (fun w => decide (w.key = k) && decide (w.clock = c))
      = (ws.filter (fun w => w.key = k)).filter (fun w => w.clock = c) := by
    rw [List.filter_filter]
    congr 1
    funext w
    exact Bool.and_comm _ _
  rw [hfil]
  have hmax' : ∀ w ∈ ws.filter (fun w => w.key = k), Ordered.lt c w.clock = false := by
    intro w hw
    have := List.mem_filter.mp hw
    exact hmax w this.1 (by simpa using this.2)
  have hex' : ∃ w ∈ ws.filter (fun w => w.key = k), w.clock = c := by
    obtain ⟨w, hw, hk, hc⟩ := hex
    exact ⟨w, List.mem_filter.mpr ⟨hw, by simpa using hk⟩, hc⟩
  generalize ws.filter (fun w => w.key = k) = F at hmax' hex'
  have he : (LWWMap.empty : LWWMap K V C).inner.get k = none := rfl
  rw [he]
  cases F with
  | nil => obtain ⟨w, hw, _⟩ := hex'; cases hw
  | cons w t =>
    simp only [List.foldl_cons, opt_merge_none_left]
    rw [foldl_some]
    have hwc : Ordered.lt c w.reg.clock.val = false := hmax' w (by simp)
    have ht : ∀ w' ∈ t, Ordered.lt c w'.clock = false := fun w' hw' => hmax' w' (by simp [hw'])
    have hex'' : w.reg.clock.val = c ∨ ∃ w' ∈ t, w'.clock = c := by
      obtain ⟨w', hw', hc⟩ := hex'
      rcases List.mem_cons.mp hw' with rfl | hw'
      · exact Or.inl hc
      · exact Or.inr ⟨w', hw', hc⟩
    obtain ⟨i1, i2⟩ := reg_fold c t w.reg hwc ht hex''
    refine ⟨by simp [i1], ?_⟩
    show (t.foldl (fun a w => merge a w.reg) w.reg).value = _
    rw [i2]
    have hregc : w.reg.clock.val = w.clock := rfl
    have hregv : w.reg.value = w.val := rfl
    rw [hregc, hregv]
    by_cases hc : w.clock = c
    · simp [List.filter, hc]
    · simp [List.filter, hc]

omit [LawfulSemilattice V] [LawfulOrdered C] in
/-- A key that was never written is not exposed. -/
theorem lww_never_written (ws : List (Write K V C)) (k : K) (h : ∀ w ∈ ws, w.key ≠ k) :
    (LWWMap.applyAll ws).get k = none ∧ (LWWMap.applyAll ws).containsKey k = false := by
  have hg : (LWWMap.applyAll ws).get k = none := by
    unfold LWWMap.applyAll
    rw [LWWMap.get_eq, get_foldl_apply]
    have : ws.filter (fun w => w.key = k) = [] := by
      apply List.filter_eq_nil_iff.mpr
      intro w hw
      simpa using h w hw
    rw [this]
    rfl
  exact ⟨hg, by rw [LWWMap.containsKey_eq, hg]; rfl⟩

omit [LawfulSemilattice V] in
/-- **C22, insertion wins at equal clocks.** If the greatest clock among the writes to `k` is `c` and one
of the writes with that clock is an insertion, then `k` is present — whatever removals carry the same
clock, and wherever they come in the order. -/
theorem lww_insert_wins_at_equal_clock (ws : List (Write K V C)) (k : K) (c : C) (v : V)
    (hmax : ∀ w ∈ ws, w.key = k → Ordered.lt c w.clock = false)
    (hins : ∃ w ∈ ws, w.key = k ∧ w.clock = c ∧ w.val = some v) :
    (LWWMap.applyAll ws).containsKey k = true := by
  obtain ⟨w, hw, hk, hc, hv⟩ := hins
  rw [LWWMap.containsKey_eq, (lww_exposes_max_clock ws k c hmax ⟨w, hw, hk, hc⟩).2]
  apply opt_foldl_isSome_of_mem (fun w => w.val) _ none w
  · exact List.mem_filter.mpr ⟨hw, by simp [hk, hc]⟩
  · rw [hv]; rfl

/-- Operation-level form: on any map, an insertion absorbs a removal with the same clock, in either
order (`remove` after `insert` changes nothing; `insert` after `remove` gives the state of the `insert`
alone). -/
theorem lww_insert_absorbs_remove (m : LWWMap K V C) (k : K) (v : V) (c : C) :
    (m.insert k v c).remove k c = m.insert k v c ∧ (m.remove k c).insert k v c = m.insert k v c := by
  have key : ∀ (a b : Option V), merge (LWWReg.new a c : LWWReg (Option V) C) (LWWReg.new b c)
      = LWWReg.new (merge a b) c := fun a b => reg_merge_of_eq rfl
  constructor
  · apply LWWMap.ext'
    show (m.inner.insert k (LWWReg.new (some v) c)).insert k (LWWReg.new none c) = _
    rw [GMap.insert_insert, key]
    rfl
  · apply LWWMap.ext'
    show (m.inner.insert k (LWWReg.new none c)).insert k (LWWReg.new (some v) c) = _
    rw [GMap.insert_insert, key]
    rfl

/-- Writes commute. -/
theorem LWWMap.apply_comm (m : LWWMap K V C) (w1 w2 : Write K V C) :
    (m.apply w1).apply w2 = (m.apply w2).apply w1 := by
  apply LWWMap.ext'
  simp only [LWWMap.apply_inner]
  exact GMap.insert_comm _ _ _ _ _

/-- **Any order.** Two replicas that saw the same multiset of writes in different orders are equal. -/
theorem lww_order_irrelevant (ws ws' : List (Write K V C)) (h : ws.Perm ws') :
    LWWMap.applyAll ws = LWWMap.applyAll ws' := by
  unfold LWWMap.applyAll
  generalize (LWWMap.empty : LWWMap K V C) = m
  induction h generalizing m with
  | nil => rfl
  | cons x _ ih => simp only [List.foldl_cons]; exact ih _
  | swap x y l => simp only [List.foldl_cons]; rw [LWWMap.apply_comm]
  | trans _ _ ih1 ih2 => exact (ih1 m).trans (ih2 m)

/-- **Merging replicas.** Merging the states of two replicas gives the state of a replica that saw all
the writes of both. With the semilattice laws, any merge tree over any distribution of the writes yields
the same map. -/
theorem lww_merge_is_union_of_writes (ws1 ws2 : List (Write K V C)) :
    merge (LWWMap.applyAll ws1) (LWWMap.applyAll ws2) = LWWMap.applyAll (ws1 ++ ws2) := by
  apply LWWMap.ext'
  apply GMap.ext
  intro k
  rw [lwwmap_merge_inner, GMap.get_merge]
  unfold LWWMap.applyAll
  simp only [get_foldl_apply, List.filter_append, List.foldl_append]
  have he : (LWWMap.empty : LWWMap K V C).inner.get k = none := rfl
  rw [he]
  exact (opt_foldl_merge (fun w : Write K V C => some w.reg) _ _).symm

end Maps

/-! ## non-vacuity: concrete instances (`Nat` keys, clocks and values) -/

/-- The hypotheses are satisfiable: `Nat` is a lawful order, so every theorem above applies to
`LWWMap Nat (MaxV Nat) Nat`, `LWWSet Nat Nat`, …. -/
example : LawfulSemilattice (LWWMap Nat (MaxV Nat) Nat) := inferInstance
example : LawfulSemilattice (LWWSet Nat Nat) := inferInstance
example : LawfulSemilattice (GMap Nat (LWWReg (Option (Redactable Nat)) Nat)) := inferInstance
example : LawfulSemilattice (Option (MinV Nat)) := inferInstance

/-- Equal clocks, two inserts and a remove: the greater value (by `Max`'s `Ord`) is exposed. -/
example : (LWWMap.applyAll [⟨1, some ⟨5⟩, 2⟩, ⟨1, none, 2⟩, ⟨1, some ⟨7⟩, 2⟩, ⟨1, some ⟨9⟩, 1⟩] :
    LWWMap Nat (MaxV Nat) Nat).get 1 = some ⟨7⟩ := by decide

/-- Removal at a strictly greater clock wins. -/
example : (LWWMap.applyAll [⟨1, some ⟨5⟩, 2⟩, ⟨1, none, 3⟩] : LWWMap Nat (MaxV Nat) Nat).containsKey 1 = false := by
  decide

/-- Insert and remove at the same clock, both orders: present. -/
example : ((LWWSet.empty : LWWSet Nat Nat).insert 4 3 |>.remove 4 3).contains 4 = true ∧
    ((LWWSet.empty : LWWSet Nat Nat).remove 4 3 |>.insert 4 3).contains 4 = true := by decide

/-- `Redactable`: two different present values merge to `redacted` (both orders). -/
example : merge (Redactable.present 1) (Redactable.present 2) = (Redactable.redacted : Redactable Nat) ∧
    merge (Redactable.present 2) (Redactable.present 1) = (Redactable.redacted : Redactable Nat) := by decide

end HeartwoodModel.Crdt
