import HeartwoodModel.Lemmas.PatchAuth
/-! Keys: an applied patch action of entry `e1` never creates a revision / comment key `e ≠ e1`. -/
set_option linter.unusedVariables false
namespace HeartwoodModel.Patch
open HeartwoodModel.Cob

/-- `e` is not the key of any revision, discussion comment or review comment of `p`. -/
structure NoKey (e : Id) (p : Patch) : Prop where
  rev : get? e p.revisions = none
  disc : ∀ r rev, get? r p.revisions = some (some rev) → get? e rev.discussion.comments = none
  rcom : ∀ r rev k rv, get? r p.revisions = some (some rev) → get? k rev.reviews = some rv →
    get? e rv.comments.comments = none

theorem NoKey.fresh {e : Id} {p : Patch} (h : NoKey e p) (actor : Actor) : Fresh actor e p :=
  ⟨fun rev hr => (by rw [h.rev] at hr; cases hr),
   fun r rev hr => (by simp [Thread.other, h.disc r rev hr]),
   fun r rev k rv hr hk => (by simp [Thread.other, h.rcom r rev k rv hr hk])⟩

/-- How the keys of one revision may evolve. -/
structure RevKeys (e : Id) (rev rev' : Revision) : Prop where
  disc : get? e rev.discussion.comments = none → get? e rev'.discussion.comments = none
  rcom : ∀ k rv', get? k rev'.reviews = some rv' →
    (∃ rv, get? k rev.reviews = some rv ∧ (get? e rv.comments.comments = none → get? e rv'.comments.comments = none))
    ∨ rv'.comments = Thread.empty

theorem NoKey.same {e : Id} {p p' : Patch} (hn : NoKey e p) (h : p'.revisions = p.revisions) : NoKey e p' :=
  ⟨h ▸ hn.rev, fun r rev hr => hn.disc r rev (h ▸ hr), fun r rev k rv hr hk => hn.rcom r rev k rv (h ▸ hr) hk⟩

theorem NoKey.update {e : Id} {p p' : Patch} {r0 : Id} {rev0 rev0' : Revision}
    (h : p'.revisions = ins r0 (some rev0') p.revisions) (h0 : get? r0 p.revisions = some (some rev0))
    (hk : RevKeys e rev0 rev0') (hn : NoKey e p) : NoKey e p' := by
  have hne : e ≠ r0 := by intro hh; subst hh; rw [hn.rev] at h0; cases h0
  refine ⟨by rw [h, get?_ins_ne _ _ hne]; exact hn.rev, fun r rev hr => ?_, fun r rev k rv hr hkk => ?_⟩
  · by_cases hrr : r = r0
    · subst hrr; rw [h, get?_ins_self] at hr; cases hr
      exact hk.disc (hn.disc r rev0 h0)
    · rw [h, get?_ins_ne _ _ hrr] at hr; exact hn.disc r rev hr
  · by_cases hrr : r = r0
    · subst hrr; rw [h, get?_ins_self] at hr; cases hr
      rcases hk.rcom k rv hkk with ⟨rv0, hk0, himp⟩ | hem
      · exact himp (hn.rcom r rev0 k rv0 h0 hk0)
      · rw [hem]; rfl
    · rw [h, get?_ins_ne _ _ hrr] at hr; exact hn.rcom r rev k rv hr hkk

theorem NoKey.redact {e : Id} {p p' : Patch} {r0 : Id} (h : p'.revisions = ins r0 none p.revisions)
    (h0 : get? r0 p.revisions ≠ none) (hn : NoKey e p) : NoKey e p' := by
  have hne : e ≠ r0 := by intro hh; subst hh; exact h0 hn.rev
  refine ⟨by rw [h, get?_ins_ne _ _ hne]; exact hn.rev, fun r rev hr => ?_, fun r rev k rv hr hkk => ?_⟩
  · by_cases hrr : r = r0
    · subst hrr; rw [h, get?_ins_self] at hr; cases hr
    · rw [h, get?_ins_ne _ _ hrr] at hr; exact hn.disc r rev hr
  · by_cases hrr : r = r0
    · subst hrr; rw [h, get?_ins_self] at hr; cases hr
    · rw [h, get?_ins_ne _ _ hrr] at hr; exact hn.rcom r rev k rv hr hkk

theorem NoKey.new {e e1 : Id} {p p' : Patch} {revn : Revision} (hne : e ≠ e1)
    (h : p'.revisions = ins e1 (some revn) p.revisions) (hd : revn.discussion = Thread.empty)
    (hr : revn.reviews = []) (hn : NoKey e p) : NoKey e p' := by
  refine ⟨by rw [h, get?_ins_ne _ _ hne]; exact hn.rev, fun r rev hr' => ?_, fun r rev k rv hr' hkk => ?_⟩
  · by_cases hrr : r = e1
    · subst hrr; rw [h, get?_ins_self] at hr'; cases hr'; rw [hd]; rfl
    · rw [h, get?_ins_ne _ _ hrr] at hr'; exact hn.disc r rev hr'
  · by_cases hrr : r = e1
    · subst hrr; rw [h, get?_ins_self] at hr'; cases hr'; rw [hr] at hkk; simp [get?] at hkk
    · rw [h, get?_ins_ne _ _ hrr] at hr'; exact hn.rcom r rev k rv hr' hkk

theorem RevKeys.of_discussion {e : Id} {rev : Revision} {t' : Thread}
    (h : get? e rev.discussion.comments = none → get? e t'.comments = none) :
    RevKeys e rev { rev with discussion := t' } :=
  ⟨h, fun k rv hk => Or.inl ⟨rv, hk, fun x => x⟩⟩

theorem RevKeys.of_other {e : Id} {rev rev' : Revision} (hd : rev'.discussion = rev.discussion)
    (hr : rev'.reviews = rev.reviews) : RevKeys e rev rev' :=
  ⟨fun h => hd ▸ h, fun k rv hk => Or.inl ⟨rv, hr ▸ hk, fun x => x⟩⟩

theorem RevKeys.of_review_update {e : Id} {rev : Revision} {k : Actor} {rv rv' : Review}
    (hk : get? k rev.reviews = some rv)
    (h : get? e rv.comments.comments = none → get? e rv'.comments.comments = none) :
    RevKeys e rev { rev with reviews := ins k rv' rev.reviews } := by
  refine ⟨fun x => x, fun k0 rv0 hk0 => ?_⟩
  by_cases hkk : k0 = k
  · subst hkk
    simp only [get?_ins_self, Option.some.injEq] at hk0
    subst hk0
    exact Or.inl ⟨rv, hk, h⟩
  · simp only [get?_ins_ne _ _ hkk] at hk0
    exact Or.inl ⟨rv0, hk0, fun x => x⟩

theorem RevKeys.of_review_insert {e : Id} {rev : Revision} {k : Actor} {rvn : Review}
    (hc : rvn.comments = Thread.empty) : RevKeys e rev { rev with reviews := ins k rvn rev.reviews } := by
  refine ⟨fun x => x, fun k0 rv0 hk0 => ?_⟩
  by_cases hkk : k0 = k
  · subst hkk
    simp only [get?_ins_self, Option.some.injEq] at hk0
    subst hk0
    exact Or.inr hc
  · simp only [get?_ins_ne _ _ hkk] at hk0
    exact Or.inl ⟨rv0, hk0, fun x => x⟩

theorem RevKeys.of_review_delete {e : Id} {rev : Revision} {k : Actor} :
    RevKeys e rev { rev with reviews := del k rev.reviews } := by
  refine ⟨fun x => x, fun k0 rv0 hk0 => ?_⟩
  have hkk : k0 ≠ k := by intro h; subst h; simp [get?_del_self] at hk0
  simp only [get?_del_ne _ hkk] at hk0
  exact Or.inl ⟨rv0, hk0, fun x => x⟩

/-- Keys of a thread after an operation of entry `e1`: nothing new except possibly `e1`. -/
theorem thread_none_comment {t t' : Thread} {e e1 : Id} {actor : Actor} {b : Nat} {rt : Option Id} (hne : e ≠ e1)
    (h : t.comment e1 actor b rt = .ok t') (hn : get? e t.comments = none) : get? e t'.comments = none := by
  apply Classical.byContradiction
  intro hc
  rcases Thread.comment_keys h e hc with h1 | h1
  · exact h1 hn
  · exact hne h1

theorem thread_none_edit {t t' : Thread} {e e1 : Id} {actor : Actor} {cid : Id} {b : Nat}
    (h : t.edit e1 actor cid b = .ok t') (hn : get? e t.comments = none) : get? e t'.comments = none := by
  apply Classical.byContradiction
  intro hc
  exact Thread.edit_keys h e hc hn

theorem thread_none_redact {t t' : Thread} {e e1 cid : Id}
    (h : t.redact e1 cid = .ok t') (hn : get? e t.comments = none) : get? e t'.comments = none := by
  apply Classical.byContradiction
  intro hc
  exact Thread.redact_keys h e hc hn

theorem thread_none_react {t t' : Thread} {e e1 cid : Id}
    (h : t.react e1 cid = .ok t') (hn : get? e t.comments = none) : get? e t'.comments = none := by
  rw [Thread.react_comments h]; exact hn

theorem thread_none_setResolved {t t' : Thread} {e e1 cid : Id} {b : Bool}
    (h : t.setResolved e1 cid b = .ok t') (hn : get? e t.comments = none) : get? e t'.comments = none := by
  unfold Thread.setResolved at h
  split at h
  · cases h
  · cases h; exact hn
  · rename_i c hc
    cases h
    have hne : e ≠ cid := by intro hh; subst hh; rw [hn] at hc; cases hc
    simp [get?_ins_ne _ _ hne, hn]

theorem noKey_withReview {e : Id} {p p' : Patch} {rid : Id} {f : Review → Except Err Review}
    (h : withReview p rid f = .ok p')
    (hf : ∀ rv rv', f rv = .ok rv' → get? e rv.comments.comments = none → get? e rv'.comments.comments = none)
    (hn : NoKey e p) : NoKey e p' := by
  rcases withReview_spec h with rfl | ⟨revId, reviewer, rev, rv, rv', hidx, hrev, hrv, hfr, rfl⟩
  · exact hn
  · exact NoKey.update rfl hrev (RevKeys.of_review_update hrv (hf rv rv' hfr)) hn

theorem noKey_withRevision {e : Id} {p p' : Patch} {r : Id} {f : Revision → Except Err Revision}
    (h : withRevision p r f = .ok p') (hf : ∀ rev rev', f rev = .ok rev' → RevKeys e rev rev')
    (hn : NoKey e p) : NoKey e p' := by
  rcases withRevision_spec h with rfl | ⟨rev, rev', hrev, hfr, rfl⟩
  · exact hn
  · exact NoKey.update rfl hrev (hf rev rev' hfr) hn

/-- An applied action of entry `e1` (by anybody) does not create the key `e ≠ e1`. -/
theorem action_noKey {p p' : Patch} {a : Action} {e e1 : Id} {actor : Actor} {doc : Doc} (hne : e ≠ e1)
    (h : action p a e1 actor doc = .ok p') (hn : NoKey e p) : NoKey e p' := by
  cases a with
  | edit t => simp only [action] at h; cases h; exact hn.same rfl
  | label ls => simp only [action] at h; cases h; exact hn.same rfl
  | lifecycle l =>
    simp only [action] at h
    split at h
    · split at h <;> cases h <;> exact hn.same rfl
    · cases h; exact hn
  | assign as => simp only [action] at h; cases h; exact hn.same rfl
  | merge r c anc =>
    simp only [action] at h
    split at h
    · cases h
    · cases h; exact hn
    · split at h
      · cases h; exact hn
      · cases h
      · split at h <;> cases h <;> exact hn.same rfl
  | review r s v l =>
    simp only [action] at h
    split at h
    · rename_i rev hrev
      split at h
      · cases h
        exact NoKey.update rfl hrev (RevKeys.of_review_insert rfl) hn
      · cases h; exact hn
    · cases h; exact hn
  | reviewEdit review s v l =>
    simp only [action] at h
    split at h
    · cases h
    · exact noKey_withReview h (fun rv rv' hf hx => by cases hf; exact hx) hn
  | reviewRedact review =>
    simp only [action] at h
    split at h
    · cases h
    · cases h; exact hn
    · split at h
      · cases h
      · cases h; exact hn
      · rename_i rev hrev
        cases h
        exact NoKey.update rfl hrev RevKeys.of_review_delete hn
  | reviewComment review b rt =>
    simp only [action] at h
    refine noKey_withReview h (fun rv rv' hf hx => ?_) hn
    obtain ⟨t, ht, rfl⟩ := liftThread_ok hf
    exact thread_none_comment hne ht hx
  | reviewCommentEdit review comment b =>
    simp only [action] at h
    refine noKey_withReview h (fun rv rv' hf hx => ?_) hn
    obtain ⟨t, ht, rfl⟩ := liftThread_ok hf
    exact thread_none_edit ht hx
  | reviewCommentRedact review comment =>
    simp only [action] at h
    refine noKey_withReview h (fun rv rv' hf hx => ?_) hn
    obtain ⟨t, ht, rfl⟩ := liftThread_ok hf
    exact thread_none_redact ht hx
  | reviewCommentReact review comment =>
    simp only [action] at h
    refine noKey_withReview h (fun rv rv' hf hx => ?_) hn
    obtain ⟨t, ht, rfl⟩ := liftThread_ok hf
    exact thread_none_react ht hx
  | reviewCommentResolve review comment =>
    simp only [action] at h
    refine noKey_withReview h (fun rv rv' hf hx => ?_) hn
    obtain ⟨t, ht, rfl⟩ := liftThread_ok hf
    exact thread_none_setResolved ht hx
  | reviewCommentUnresolve review comment =>
    simp only [action] at h
    refine noKey_withReview h (fun rv rv' hf hx => ?_) hn
    obtain ⟨t, ht, rfl⟩ := liftThread_ok hf
    exact thread_none_setResolved ht hx
  | revision d =>
    simp only [action] at h
    cases h
    exact NoKey.new hne rfl rfl rfl hn
  | revisionEdit r d =>
    simp only [action] at h
    split at h
    · rename_i rev hrev
      cases h
      exact NoKey.update rfl hrev (RevKeys.of_other rfl rfl) hn
    · cases h; exact hn
    · cases h
  | revisionReact r =>
    simp only [action] at h
    split at h <;> cases h
    exact hn
  | revisionRedact r =>
    simp only [action] at h
    split at h
    · cases h
    · split at h
      · cases h
      · split at h
        · rename_i x hx
          split at h
          · cases h; exact hn
          · cases h
            exact NoKey.redact rfl (by rw [hx]; simp) hn
        · cases h
  | revisionComment r b rt =>
    simp only [action] at h
    refine noKey_withRevision h (fun rev rev' hf => ?_) hn
    obtain ⟨t, ht, rfl⟩ := liftDiscussion_ok hf
    exact RevKeys.of_discussion (thread_none_comment hne ht)
  | revisionCommentEdit r comment b =>
    simp only [action] at h
    refine noKey_withRevision h (fun rev rev' hf => ?_) hn
    obtain ⟨t, ht, rfl⟩ := liftDiscussion_ok hf
    exact RevKeys.of_discussion (thread_none_edit ht)
  | revisionCommentRedact r comment =>
    simp only [action] at h
    refine noKey_withRevision h (fun rev rev' hf => ?_) hn
    obtain ⟨t, ht, rfl⟩ := liftDiscussion_ok hf
    exact RevKeys.of_discussion (thread_none_redact ht)
  | revisionCommentReact r comment =>
    simp only [action] at h
    refine noKey_withRevision h (fun rev rev' hf => ?_) hn
    obtain ⟨t, ht, rfl⟩ := liftDiscussion_ok hf
    exact RevKeys.of_discussion (thread_none_react ht)

end HeartwoodModel.Patch
