//! C22 — CRDT merges are associative, commutative and idempotent; LWW structures expose the greatest
//! clock, insertion wins at equal clocks.
//!
//! Case input: `<type> <A> <B> <C>` — three construction scripts (see `lean/HeartwoodModel/Driver/C22.lean`
//! for the syntax) that are run on the REAL `radicle-crdt` types. Output:
//! `<a> <b> <c> <a∨b> <(a∨b)∨c> <bits>` with bits `a==b, ab==ba, (ab)c==a(bc), aa==a, ab==a, abc==ab`
//! (Rust `==`). `LWWMap`/`LWWSet` hide their registers; their clocks are recovered through the public API by
//! probing clones (`remove(k, c')` / `insert(k, _, c')` for increasing `c'`).
//!
//! Oracle (the property statement on what the real code did, independent of the model):
//! * every order and bracketing of `a ∨ b ∨ c` gives `==` results; `x ∨ x == x` for operands and joins
//!   (`not-commutative`, `not-associative`, `not-idempotent`);
//! * for `LWWReg`, `LWWMap`, `LWWSet` (and the open-coded `GMap<_, LWWReg<Option<_>>>`): what `get` exposes for
//!   a key in `a`, `b`, `c`, `a∨b`, `a∨b∨c` is the join of the values written with the greatest clock among
//!   the writes of the scripts involved; an insertion at that clock is never hidden by a removal at that
//!   clock (`lww-not-max-clock`, `lww-remove-beats-insert`); `contains_key`/`iter`/`len`/`is_empty`
//!   agree with `get` (`lww-view-inconsistent`);
//! * no panic (`panic`).

use radicle_crdt::{GMap, GSet, LWWMap, LWWReg, LWWSet, Lamport, Max, Min, Redactable, Semilattice};
use verif_common::*;

/// Greatest clock accepted in `LWWMap`/`LWWSet` scripts (clocks are probed up to `CL + 1`).
const CL: u8 = 60;

type Viol = Vec<(String, String)>;

fn p8(s: &str) -> Option<u8> {
    if s.is_empty() || !s.bytes().all(|b| b.is_ascii_digit()) {
        return None;
    }
    s.parse().ok()
}

fn show_list(parts: Vec<String>) -> String {
    if parts.is_empty() {
        "-".into()
    } else {
        parts.join(";")
    }
}

// ---------------------------------------------------------------------------------------------
// Element types: values that can sit inside a register or a map.

trait Elem: Semilattice + Clone + PartialEq {
    fn parse(s: &str) -> Option<Self>;
    fn show(&self) -> String;
    /// Any value (used to probe tombstones).
    fn sample() -> Self;
    /// The single writes `(value, clock)` a script of this type consists of, when it is a register.
    fn reg_check(&self, _scripts: &[&str], _label: &str, _viol: &mut Viol, _tags: &mut Vec<String>) {}
}

impl Elem for Max<u8> {
    fn parse(s: &str) -> Option<Self> {
        p8(s).map(Max::from)
    }
    fn show(&self) -> String {
        self.get().to_string()
    }
    fn sample() -> Self {
        Max::from(0)
    }
}

impl Elem for Min<u8> {
    fn parse(s: &str) -> Option<Self> {
        p8(s).map(Min)
    }
    fn show(&self) -> String {
        self.0.to_string()
    }
    fn sample() -> Self {
        Min(0)
    }
}

impl Elem for bool {
    fn parse(s: &str) -> Option<Self> {
        match s {
            "0" => Some(false),
            "1" => Some(true),
            _ => None,
        }
    }
    fn show(&self) -> String {
        (*self as u8).to_string()
    }
    fn sample() -> Self {
        false
    }
}

impl Elem for () {
    fn parse(s: &str) -> Option<Self> {
        (s == "u").then_some(())
    }
    fn show(&self) -> String {
        "u".into()
    }
    fn sample() -> Self {}
}

impl<E: Elem> Elem for Option<E> {
    fn parse(s: &str) -> Option<Self> {
        if s == "-" {
            Some(None)
        } else {
            E::parse(s).map(Some)
        }
    }
    fn show(&self) -> String {
        match self {
            None => "-".into(),
            Some(e) => e.show(),
        }
    }
    fn sample() -> Self {
        Some(E::sample())
    }
}

impl Elem for Redactable<u8> {
    fn parse(s: &str) -> Option<Self> {
        if s == "R" {
            Some(Redactable::Redacted)
        } else {
            p8(s).map(Redactable::Present)
        }
    }
    fn show(&self) -> String {
        match self {
            Redactable::Redacted => "R".into(),
            Redactable::Present(n) => n.to_string(),
        }
    }
    fn sample() -> Self {
        Redactable::Present(0)
    }
}

fn parse_vc<V: Elem>(s: &str) -> Option<(V, u8)> {
    let (v, c) = s.split_once('@')?;
    Some((V::parse(v)?, p8(c)?))
}

fn parse_reg_ops<V: Elem>(s: &str) -> Option<Vec<(V, u8)>> {
    s.split(';').map(parse_vc::<V>).collect()
}

/// Join (with the value type's own merge) of the values written at the greatest clock.
fn expected_reg<V: Semilattice + Clone>(writes: &[(V, u8)]) -> Option<(V, u8, usize)> {
    let cm = writes.iter().map(|w| w.1).max()?;
    let mut it = writes.iter().filter(|w| w.1 == cm).map(|w| w.0.clone());
    let first = it.next()?;
    let n = writes.iter().filter(|w| w.1 == cm).count();
    Some((it.fold(first, |a, b| a.join(b)), cm, n))
}

impl<V: Elem> Elem for LWWReg<V, u8> {
    fn parse(s: &str) -> Option<Self> {
        let ops = parse_reg_ops::<V>(s)?;
        let mut it = ops.into_iter();
        let (v, c) = it.next()?;
        let mut r = LWWReg::new(v, c);
        for (v, c) in it {
            r.set(v, c);
        }
        Some(r)
    }
    fn show(&self) -> String {
        format!("{}@{}", self.get().show(), self.clock().get())
    }
    fn sample() -> Self {
        LWWReg::new(V::sample(), 0)
    }
    fn reg_check(&self, scripts: &[&str], label: &str, viol: &mut Viol, tags: &mut Vec<String>) {
        let mut writes = vec![];
        for s in scripts {
            writes.extend(parse_reg_ops::<V>(s).unwrap_or_default());
        }
        if let Some((v, c, n)) = expected_reg(&writes) {
            if n > 1 {
                tags.push("tie-at-max-clock".into());
            }
            if *self.clock().get() != c || *self.get() != v {
                viol.push((
                    "lww-not-max-clock".into(),
                    format!("{label}: register exposes {} but the writes {scripts:?} have join {}@{c} at the greatest clock", self.show(), v.show()),
                ));
            }
        }
    }
}

// ---------------------------------------------------------------------------------------------
// Top-level CRDT types under test.

trait Crdt: Semilattice + Clone + PartialEq {
    fn build(s: &str) -> Option<Self>;
    fn render(&self, keys: &[u8]) -> String;
    /// Keys a script mentions (the probe universe of `LWWMap`/`LWWSet`).
    fn keys(_script: &str) -> Vec<u8> {
        vec![]
    }
    /// LWW clauses of the property, on the state `self` obtained by joining the values of `scripts`.
    fn view_oracle(&self, _scripts: &[&str], _keys: &[u8], _label: &str, _viol: &mut Viol, _tags: &mut Vec<String>) {}
}

macro_rules! crdt_for_elem {
    ($($t:ty),*) => {$(
        impl Crdt for $t {
            fn build(s: &str) -> Option<Self> { <$t as Elem>::parse(s) }
            fn render(&self, _keys: &[u8]) -> String { self.show() }
            fn view_oracle(&self, scripts: &[&str], _keys: &[u8], label: &str, viol: &mut Viol, tags: &mut Vec<String>) {
                self.reg_check(scripts, label, viol, tags)
            }
        }
    )*};
}
crdt_for_elem!(
    Max<u8>,
    Min<u8>,
    bool,
    (),
    Option<Max<u8>>,
    Redactable<u8>,
    Option<Redactable<u8>>,
    LWWReg<Max<u8>, u8>,
    LWWReg<Min<u8>, u8>,
    LWWReg<Redactable<u8>, u8>,
    LWWReg<Option<Max<u8>>, u8>
);

fn parse_kv<V: Elem>(s: &str) -> Option<Vec<(u8, V)>> {
    if s == "-" {
        return Some(vec![]);
    }
    s.split(';')
        .map(|e| {
            let (k, v) = e.split_once('=')?;
            Some((p8(k)?, V::parse(v)?))
        })
        .collect()
}

impl<V: Elem> Crdt for GMap<u8, V> {
    fn build(s: &str) -> Option<Self> {
        let mut m = GMap::default();
        for (k, v) in parse_kv::<V>(s)? {
            m.insert(k, v);
        }
        Some(m)
    }
    fn render(&self, _keys: &[u8]) -> String {
        show_list(self.iter().map(|(k, v)| format!("{k}={}", v.show())).collect())
    }
    fn view_oracle(&self, scripts: &[&str], _keys: &[u8], label: &str, viol: &mut Viol, tags: &mut Vec<String>) {
        // only meaningful when `V` is a register: per key, the writes to that key
        let mut all: Vec<(u8, &str)> = vec![];
        for s in scripts {
            if *s != "-" {
                for e in s.split(';') {
                    if let Some((k, v)) = e.split_once('=') {
                        if let Some(k) = p8(k) {
                            all.push((k, v));
                        }
                    }
                }
            }
        }
        for (k, v) in self.iter() {
            let mine: Vec<&str> = all.iter().filter(|(k2, _)| k2 == k).map(|(_, v)| *v).collect();
            v.reg_check(&mine, &format!("{label}[{k}]"), viol, tags);
        }
    }
}

impl Crdt for GSet<u8> {
    fn build(s: &str) -> Option<Self> {
        let mut m = GSet::default();
        if s != "-" {
            for k in s.split(';') {
                m.insert(p8(k)?);
            }
        }
        Some(m)
    }
    fn render(&self, _keys: &[u8]) -> String {
        show_list(self.iter().map(|k| k.to_string()).collect())
    }
}

/// `+k=v@c` / `!k@c`; a removal is `(k, None, c)`.
fn parse_map_ops<V: Elem>(s: &str) -> Option<Vec<(u8, Option<V>, u8)>> {
    if s == "-" {
        return Some(vec![]);
    }
    s.split(';')
        .map(|op| {
            let w = if let Some(rest) = op.strip_prefix('+') {
                let (k, vc) = rest.split_once('=')?;
                let (v, c) = parse_vc::<V>(vc)?;
                (p8(k)?, Some(v), c)
            } else if let Some(rest) = op.strip_prefix('!') {
                let (k, c) = rest.split_once('@')?;
                (p8(k)?, None, p8(c)?)
            } else {
                return None;
            };
            (w.2 <= CL).then_some(w)
        })
        .collect()
}

/// `+k@c` / `!k@c`
fn parse_set_ops(s: &str) -> Option<Vec<(u8, Option<()>, u8)>> {
    if s == "-" {
        return Some(vec![]);
    }
    s.split(';')
        .map(|op| {
            let (ins, rest) = if let Some(r) = op.strip_prefix('+') {
                (true, r)
            } else if let Some(r) = op.strip_prefix('!') {
                (false, r)
            } else {
                return None;
            };
            let (k, c) = rest.split_once('@')?;
            let c = p8(c)?;
            (c <= CL).then_some((p8(k)?, ins.then_some(()), c))
        })
        .collect()
}

/// The LWW clauses for one key: `writes` are the writes to the key, `actual` what `get` exposes.
fn lww_key_check<V: Semilattice + Clone + PartialEq>(
    k: u8,
    writes: &[(Option<V>, u8)],
    actual: Option<&V>,
    show: impl Fn(Option<&V>) -> String,
    label: &str,
    viol: &mut Viol,
    tags: &mut Vec<String>,
) {
    let Some(cm) = writes.iter().map(|w| w.1).max() else {
        if actual.is_some() {
            viol.push(("lww-not-max-clock".into(), format!("{label}: key {k} was never written but is exposed")));
        }
        return;
    };
    let at: Vec<&Option<V>> = writes.iter().filter(|w| w.1 == cm).map(|w| &w.0).collect();
    let mut ins = at.iter().filter_map(|v| v.as_ref().cloned());
    let removed = at.iter().any(|v| v.is_none());
    let n_ins = at.iter().filter(|v| v.is_some()).count();
    let expected: Option<V> = ins.next().map(|first| ins.fold(first, |a, b| a.join(b)));
    if at.len() > 1 {
        tags.push("tie-at-max-clock".into());
    }
    if removed && n_ins > 0 {
        tags.push("insert-remove-tie".into());
    }
    if n_ins > 1 {
        tags.push("insert-insert-tie".into());
    }
    if actual != expected.as_ref() {
        let class = if expected.is_some() && actual.is_none() && removed { "lww-remove-beats-insert" } else { "lww-not-max-clock" };
        viol.push((
            class.into(),
            format!(
                "{label}: key {k}: exposes {} but the writes at the greatest clock {cm} join to {}",
                show(actual),
                show(expected.as_ref())
            ),
        ));
    }
}

impl<V: Elem> Crdt for LWWMap<u8, V, u8> {
    fn build(s: &str) -> Option<Self> {
        let mut m = LWWMap::default();
        for (k, v, c) in parse_map_ops::<V>(s)? {
            match v {
                Some(v) => m.insert(k, v, c),
                None => m.remove(k, c),
            }
        }
        Some(m)
    }
    fn keys(script: &str) -> Vec<u8> {
        parse_map_ops::<V>(script).unwrap_or_default().iter().map(|w| w.0).collect()
    }
    fn render(&self, keys: &[u8]) -> String {
        let mut parts = vec![];
        for &k in keys {
            match self.get(&k) {
                Some(v) => {
                    // the hidden clock is one less than the least removal clock that hides the key
                    let mut c = "inf".to_string();
                    for cp in 0..=CL + 1 {
                        let mut m = self.clone();
                        m.remove(k, cp);
                        if m.get(&k).is_none() {
                            c = (cp as i32 - 1).to_string();
                            break;
                        }
                    }
                    parts.push(format!("{k}={}@{c}", v.show()));
                }
                None => {
                    // the clock of a tombstone is the least insertion clock that shows the key
                    let mut c = None;
                    for cp in 0..=CL + 1 {
                        let mut m = self.clone();
                        m.insert(k, V::sample(), cp);
                        if m.get(&k).is_some() {
                            c = Some(cp);
                            break;
                        }
                    }
                    match c {
                        Some(0) => {}
                        Some(c) => parts.push(format!("{k}=-@{c}")),
                        None => parts.push(format!("{k}=-@inf")),
                    }
                }
            }
        }
        show_list(parts)
    }
    fn view_oracle(&self, scripts: &[&str], keys: &[u8], label: &str, viol: &mut Viol, tags: &mut Vec<String>) {
        let mut all = vec![];
        for s in scripts {
            all.extend(parse_map_ops::<V>(s).unwrap_or_default());
        }
        let mut visible = vec![];
        for &k in keys {
            let writes: Vec<(Option<V>, u8)> = all.iter().filter(|w| w.0 == k).map(|w| (w.1.clone(), w.2)).collect();
            let actual = self.get(&k);
            lww_key_check(k, &writes, actual, |v| v.map(|v| v.show()).unwrap_or("nothing".into()), label, viol, tags);
            if self.contains_key(&k) != actual.is_some() {
                viol.push(("lww-view-inconsistent".into(), format!("{label}: contains_key({k}) disagrees with get")));
            }
            if actual.is_some() {
                visible.push(k);
            }
        }
        let it: Vec<u8> = self.iter().map(|(k, _)| *k).collect();
        if it != visible || self.len() != visible.len() || self.is_empty() != visible.is_empty() {
            viol.push(("lww-view-inconsistent".into(), format!("{label}: iter/len/is_empty disagree with get: {it:?} vs {visible:?}")));
        }
    }
}

impl Crdt for LWWSet<u8, Lamport> {
    fn build(s: &str) -> Option<Self> {
        let mut m = LWWSet::default();
        for (k, v, c) in parse_set_ops(s)? {
            match v {
                Some(()) => m.insert(k, Lamport::from(c as u64)),
                None => m.remove(k, Lamport::from(c as u64)),
            }
        }
        Some(m)
    }
    fn keys(script: &str) -> Vec<u8> {
        parse_set_ops(script).unwrap_or_default().iter().map(|w| w.0).collect()
    }
    fn render(&self, keys: &[u8]) -> String {
        let mut parts = vec![];
        for &k in keys {
            if self.contains(&k) {
                let mut c = "inf".to_string();
                for cp in 0..=CL + 1 {
                    let mut m = self.clone();
                    m.remove(k, Lamport::from(cp as u64));
                    if !m.contains(&k) {
                        c = (cp as i32 - 1).to_string();
                        break;
                    }
                }
                parts.push(format!("+{k}@{c}"));
            } else {
                let mut c = None;
                for cp in 0..=CL + 1 {
                    let mut m = self.clone();
                    m.insert(k, Lamport::from(cp as u64));
                    if m.contains(&k) {
                        c = Some(cp);
                        break;
                    }
                }
                match c {
                    Some(0) => {}
                    Some(c) => parts.push(format!("!{k}@{c}")),
                    None => parts.push(format!("!{k}@inf")),
                }
            }
        }
        show_list(parts)
    }
    fn view_oracle(&self, scripts: &[&str], keys: &[u8], label: &str, viol: &mut Viol, tags: &mut Vec<String>) {
        let mut all = vec![];
        for s in scripts {
            all.extend(parse_set_ops(s).unwrap_or_default());
        }
        let mut visible = vec![];
        for &k in keys {
            let writes: Vec<(Option<()>, u8)> = all.iter().filter(|w| w.0 == k).map(|w| (w.1, w.2)).collect();
            let actual = self.contains(&k).then_some(());
            lww_key_check(k, &writes, actual.as_ref(), |v| if v.is_some() { "present".into() } else { "absent".into() }, label, viol, tags);
            if actual.is_some() {
                visible.push(k);
            }
        }
        let it: Vec<u8> = self.iter().copied().collect();
        if it != visible || self.is_empty() != visible.is_empty() {
            viol.push(("lww-view-inconsistent".into(), format!("{label}: iter/is_empty disagree with contains: {it:?} vs {visible:?}")));
        }
    }
}

// ---------------------------------------------------------------------------------------------

fn run_typed<T: Crdt>(ty: &str, sa: &str, sb: &str, sc: &str) -> Outcome {
    let r = catch(|| {
        let (Some(a), Some(b), Some(c)) = (T::build(sa), T::build(sb), T::build(sc)) else {
            return None;
        };
        let mut keys: Vec<u8> = [sa, sb, sc].iter().flat_map(|s| T::keys(s)).collect();
        keys.sort();
        keys.dedup();
        let j = |x: &T, y: &T| x.clone().join(y.clone());
        let ab = j(&a, &b);
        let ba = j(&b, &a);
        let abc = j(&ab, &c);
        let a_bc = j(&a, &j(&b, &c));
        let mut viol: Viol = vec![];
        let mut tags = vec![ty.to_string()];
        // ---- oracle: the three laws, on the real type with Rust `==`
        let ops = [(&a, "a"), (&b, "b"), (&c, "c")];
        for (i, (x, nx)) in ops.iter().enumerate() {
            for (y, ny) in ops.iter().skip(i + 1) {
                if j(x, y) != j(y, x) {
                    viol.push(("not-commutative".into(), format!("{nx}∨{ny} != {ny}∨{nx}")));
                }
            }
        }
        let perms = [[0, 1, 2], [0, 2, 1], [1, 0, 2], [1, 2, 0], [2, 0, 1], [2, 1, 0]];
        for p in perms {
            let (x, y, z) = (ops[p[0]].0, ops[p[1]].0, ops[p[2]].0);
            let l = j(&j(x, y), z);
            let r = j(x, &j(y, z));
            if l != r {
                viol.push(("not-associative".into(), format!("({0}∨{1})∨{2} != {0}∨({1}∨{2})", ops[p[0]].1, ops[p[1]].1, ops[p[2]].1)));
            } else if l != abc {
                // equal bracketings but a different result than (a∨b)∨c: some order matters
                viol.push(("not-commutative".into(), format!("({}∨{})∨{} != (a∨b)∨c", ops[p[0]].1, ops[p[1]].1, ops[p[2]].1)));
            }
        }
        for (x, n) in [(&a, "a"), (&b, "b"), (&c, "c"), (&ab, "a∨b"), (&abc, "a∨b∨c")] {
            if j(x, x) != *x {
                viol.push(("not-idempotent".into(), format!("{n}∨{n} != {n}")));
            }
        }
        // ---- oracle: LWW clauses
        a.view_oracle(&[sa], &keys, "a", &mut viol, &mut tags);
        b.view_oracle(&[sb], &keys, "b", &mut viol, &mut tags);
        c.view_oracle(&[sc], &keys, "c", &mut viol, &mut tags);
        ab.view_oracle(&[sa, sb], &keys, "a∨b", &mut viol, &mut tags);
        abc.view_oracle(&[sa, sb, sc], &keys, "a∨b∨c", &mut viol, &mut tags);
        // ---- canonical output
        let bits: String = [a == b, ab == ba, abc == a_bc, j(&a, &a) == a, ab == a, abc == ab]
            .iter()
            .map(|b| if *b { '1' } else { '0' })
            .collect();
        if ab != a && ab != b {
            tags.push("proper-join".into());
        }
        if abc != ab {
            tags.push("third-operand-matters".into());
        }
        let out = format!(
            "{} {} {} {} {} {bits}",
            a.render(&keys),
            b.render(&keys),
            c.render(&keys),
            ab.render(&keys),
            abc.render(&keys)
        );
        let nontrivial = !(a == b && b == c);
        Some((out, viol, tags, nontrivial))
    });
    match r {
        Err(msg) => Outcome::new("panic").tag(ty).tag("panic").violation("panic", format!("merge panicked: {msg}")),
        Ok(None) => Outcome::new("bad-case").trivial(),
        Ok(Some((out, viol, mut tags, nontrivial))) => {
            viol_dedup(tags.as_mut());
            let mut o = Outcome::new(out);
            o.violations = viol;
            o.tags = tags;
            o.nontrivial = nontrivial;
            o
        }
    }
}

fn viol_dedup(tags: &mut Vec<String>) {
    tags.sort();
    tags.dedup();
}

const TYPES: &[&str] = &[
    "max", "min", "bool", "unit", "optmax", "red", "optred", "regmax", "regmin", "regred", "regopt", "gmap", "gmapred",
    "gmapreg", "gset", "lwwmap", "lwwmapred", "lwwset",
];

fn run_case(input: &str) -> Outcome {
    let t: Vec<&str> = input.split(' ').collect();
    if t.len() != 4 {
        return Outcome::new("bad-case").trivial();
    }
    let (a, b, c) = (t[1], t[2], t[3]);
    match t[0] {
        "max" => run_typed::<Max<u8>>(t[0], a, b, c),
        "min" => run_typed::<Min<u8>>(t[0], a, b, c),
        "bool" => run_typed::<bool>(t[0], a, b, c),
        "unit" => run_typed::<()>(t[0], a, b, c),
        "optmax" => run_typed::<Option<Max<u8>>>(t[0], a, b, c),
        "red" => run_typed::<Redactable<u8>>(t[0], a, b, c),
        "optred" => run_typed::<Option<Redactable<u8>>>(t[0], a, b, c),
        "regmax" => run_typed::<LWWReg<Max<u8>, u8>>(t[0], a, b, c),
        "regmin" => run_typed::<LWWReg<Min<u8>, u8>>(t[0], a, b, c),
        "regred" => run_typed::<LWWReg<Redactable<u8>, u8>>(t[0], a, b, c),
        "regopt" => run_typed::<LWWReg<Option<Max<u8>>, u8>>(t[0], a, b, c),
        "gmap" => run_typed::<GMap<u8, Max<u8>>>(t[0], a, b, c),
        "gmapred" => run_typed::<GMap<u8, Redactable<u8>>>(t[0], a, b, c),
        "gmapreg" => run_typed::<GMap<u8, LWWReg<Option<Max<u8>>, u8>>>(t[0], a, b, c),
        "gset" => run_typed::<GSet<u8>>(t[0], a, b, c),
        "lwwmap" => run_typed::<LWWMap<u8, Max<u8>, u8>>(t[0], a, b, c),
        "lwwmapred" => run_typed::<LWWMap<u8, Redactable<u8>, u8>>(t[0], a, b, c),
        "lwwset" => run_typed::<LWWSet<u8, Lamport>>(t[0], a, b, c),
        _ => Outcome::new("bad-case").trivial(),
    }
}

// ---------------------------------------------------------------------------------------------
// Generators.

fn strs(xs: &[&str]) -> Vec<String> {
    xs.iter().map(|s| s.to_string()).collect()
}

fn nums(n: u8) -> Vec<String> {
    (0..n).map(|i| i.to_string()).collect()
}

/// All maps over `keys` where each key is absent or carries one of `per_key` (already formatted with `{k}`).
fn products(keys: &[u8], per_key: &dyn Fn(u8) -> Vec<String>) -> Vec<String> {
    let mut acc: Vec<Vec<String>> = vec![vec![]];
    for &k in keys {
        let opts = per_key(k);
        let mut next = vec![];
        for base in &acc {
            next.push(base.clone());
            for o in &opts {
                let mut b = base.clone();
                b.push(o.clone());
                next.push(b);
            }
        }
        acc = next;
    }
    acc.into_iter().map(show_list).collect()
}

/// Scripts of one or two single-key ops.
fn upto2(ops: &[String]) -> Vec<String> {
    let mut v: Vec<String> = ops.to_vec();
    for a in ops {
        for b in ops {
            v.push(format!("{a};{b}"));
        }
    }
    v
}

/// The exhaustively enumerated operand domains of a type (`thorough` = larger bounds): every triple
/// over each domain is run.
fn domains(ty: &str, thorough: bool) -> Vec<Vec<String>> {
    let (d, extra) = domain(ty, thorough);
    let mut v = vec![d];
    if !extra.is_empty() {
        v.push(extra);
    }
    v
}

fn domain(ty: &str, thorough: bool) -> (Vec<String>, Vec<String>) {
    let mut extra: Vec<String> = vec![];
    let d = domain_main(ty, thorough, &mut extra);
    (d, extra)
}

fn domain_main(ty: &str, thorough: bool, extra: &mut Vec<String>) -> Vec<String> {
    let t = thorough;
    let vals = |vs: &[&str], cs: u8| -> Vec<String> {
        let mut out = vec![];
        for v in vs {
            for c in 0..cs {
                out.push(format!("{v}@{c}"));
            }
        }
        out
    };
    match ty {
        "max" | "min" => nums(if t { 6 } else { 4 }),
        "bool" => strs(&["0", "1"]),
        "unit" => strs(&["u"]),
        "optmax" => {
            let mut v = strs(&["-"]);
            v.extend(nums(if t { 5 } else { 3 }));
            v
        }
        "red" => {
            let mut v = strs(&["R"]);
            v.extend(nums(if t { 5 } else { 3 }));
            v
        }
        "optred" => {
            let mut v = strs(&["-", "R"]);
            v.extend(nums(if t { 3 } else { 2 }));
            v
        }
        "regmax" | "regmin" | "regred" | "regopt" => {
            let vs: &[&str] = match ty {
                "regred" => &["R", "0", "1"],
                "regopt" => &["-", "0", "1"],
                _ => &["0", "1", "2"],
            };
            // second domain: scripts `new; set` of two writes
            *extra = upto2(&vals(&vs[..2], 2));
            if !t {
                extra.truncate(4 + 4);
            }
            vals(vs, if t { 4 } else { 3 })
        }
        "gmap" => products(if t { &[0, 1, 2] } else { &[0, 1] }, &|k| vec![format!("{k}=0"), format!("{k}=1")]),
        "gmapred" => products(&[0, 1], &|k| vec![format!("{k}=R"), format!("{k}=0"), format!("{k}=1")]),
        "gmapreg" => products(if t { &[0, 1] } else { &[0] }, &|k| {
            vals(&["-", "0", "1"], 2).into_iter().map(|vc| format!("{k}={vc}")).collect()
        }),
        "gset" => products(if t { &[0, 1, 2, 3] } else { &[0, 1, 2] }, &|k| vec![k.to_string()]),
        "lwwmap" => {
            let per = |k: u8, cs: u8| -> Vec<String> {
                let mut v: Vec<String> = (0..cs).map(|c| format!("!{k}@{c}")).collect();
                v.extend(vals(&["0", "1"], cs).into_iter().map(|vc| format!("+{k}={vc}")));
                v
            };
            if t {
                products(&[0, 1], &|k| per(k, 2))
            } else {
                products(&[0], &|k| per(k, 3))
            }
        }
        "lwwmapred" => {
            let cs = if t { 3 } else { 2 };
            products(&[0], &|k| {
                let mut v: Vec<String> = (0..cs).map(|c| format!("!{k}@{c}")).collect();
                v.extend(vals(&["R", "0", "1"], cs).into_iter().map(|vc| format!("+{k}={vc}")));
                v
            })
        }
        "lwwset" => {
            let cs = if t { 3 } else { 2 };
            // second domain: one key, scripts of up to two ops (insert-then-remove at equal clocks etc.)
            let ops: Vec<String> = (0..cs).flat_map(|c| [format!("!0@{c}"), format!("+0@{c}")]).collect();
            *extra = upto2(&ops);
            extra.push("-".into());
            products(&[0, 1], &|k| {
                let mut v: Vec<String> = (0..cs).map(|c| format!("!{k}@{c}")).collect();
                v.extend((0..cs).map(|c| format!("+{k}@{c}")));
                v
            })
        }
        _ => vec![],
    }
}

/// A random construction script for `ty`. `tight`: tiny key/clock/value ranges (ties are the norm).
fn gen_script(rng: &mut Rng, ty: &str, tight: bool) -> String {
    let key = |rng: &mut Rng| if tight { rng.below(3) } else { *rng.pick(&[0, 1, 2, 7, 100, 254, 255]) };
    let clock = |rng: &mut Rng, max: u64| if tight { rng.below(3) } else { rng.below(max + 1) };
    let num = |rng: &mut Rng| if tight { rng.below(3) } else { *rng.pick(&[0, 1, 2, 3, 127, 128, 254, 255]) };
    let scalar = |rng: &mut Rng, kind: &str| -> String {
        match kind {
            "red" => {
                if rng.chance(1, 4) {
                    "R".into()
                } else {
                    num(rng).to_string()
                }
            }
            "opt" => {
                if rng.chance(1, 4) {
                    "-".into()
                } else {
                    num(rng).to_string()
                }
            }
            "optred" => match rng.below(5) {
                0 => "-".into(),
                1 => "R".into(),
                _ => num(rng).to_string(),
            },
            _ => num(rng).to_string(),
        }
    };
    let n = rng.range(0, 6);
    let list = |parts: Vec<String>| show_list(parts);
    match ty {
        "max" | "min" => num(rng).to_string(),
        "bool" => rng.below(2).to_string(),
        "unit" => "u".into(),
        "optmax" => scalar(rng, "opt"),
        "red" => scalar(rng, "red"),
        "optred" => scalar(rng, "optred"),
        "regmax" | "regmin" | "regred" | "regopt" => {
            let kind = match ty {
                "regred" => "red",
                "regopt" => "opt",
                _ => "num",
            };
            (0..n.max(1)).map(|_| format!("{}@{}", scalar(rng, kind), clock(rng, 255))).collect::<Vec<_>>().join(";")
        }
        "gmap" => list((0..n).map(|_| format!("{}={}", key(rng), num(rng))).collect()),
        "gmapred" => list((0..n).map(|_| format!("{}={}", key(rng), scalar(rng, "red"))).collect()),
        "gmapreg" => list((0..n).map(|_| format!("{}={}@{}", key(rng), scalar(rng, "opt"), clock(rng, 255))).collect()),
        "gset" => list((0..n).map(|_| key(rng).to_string()).collect()),
        "lwwmap" | "lwwmapred" => {
            let kind = if ty == "lwwmap" { "num" } else { "red" };
            list(
                (0..n)
                    .map(|_| {
                        if rng.chance(2, 5) {
                            format!("!{}@{}", key(rng), clock(rng, CL as u64))
                        } else {
                            format!("+{}={}@{}", key(rng), scalar(rng, kind), clock(rng, CL as u64))
                        }
                    })
                    .collect(),
            )
        }
        "lwwset" => list(
            (0..n)
                .map(|_| format!("{}{}@{}", if rng.chance(2, 5) { '!' } else { '+' }, key(rng), clock(rng, CL as u64)))
                .collect(),
        ),
        _ => "?".into(),
    }
}

fn main() {
    let mut ctx = Ctx::from_args("C22");
    if !ctx.run_fixed(run_case) {
        let thorough = !ctx.quick();
        // 1. exhaustive: every triple over the small operand domain of every type
        let mut n_ex = 0u64;
        for ty in TYPES {
            let ds = domains(ty, thorough);
            for d in &ds {
                for a in d {
                    for b in d {
                        for c in d {
                            let input = format!("{ty} {a} {b} {c}");
                            let o = run_case(&input);
                            ctx.count("exhaustive");
                            ctx.record(&input, o);
                            n_ex += 1;
                        }
                    }
                }
            }
            ctx.note(&format!("exhaustive-domain-{ty}"), ds.iter().map(|d| d.len().to_string()).collect::<Vec<_>>().join("+"));
        }
        ctx.note("exhaustive-triples", n_ex);
        // 2. random longer scripts; composite types weighted up
        let mut rng = ctx.rng();
        let weighted: Vec<&str> = TYPES
            .iter()
            .flat_map(|t| {
                let w = if t.starts_with("lww") || t.starts_with("reg") || t.starts_with("gmap") { 4 } else { 1 };
                std::iter::repeat(*t).take(w)
            })
            .collect();
        for _ in 0..ctx.size(8_000, 400_000) {
            let ty = *rng.pick(&weighted);
            let tight = rng.chance(2, 3);
            let input = format!(
                "{ty} {} {} {}",
                gen_script(&mut rng, ty, tight),
                gen_script(&mut rng, ty, tight),
                gen_script(&mut rng, ty, tight)
            );
            let o = run_case(&input);
            ctx.count(if tight { "random-tight" } else { "random-wide" });
            ctx.record(&input, o);
        }
    }
    ctx.finish(
        "all triples over the small operand domain of each of the 18 instantiated types (keys 0..2, clocks 0..3, values 0..2; \
         sizes in notes), plus random triples of construction scripts of 0-6 operations (two thirds over keys/clocks/values 0..2 so \
         that equal-clock conflicts dominate, one third over the full u8 ranges); non-trivial = the three operands are not all \
         equal; distinct by input text",
        false,
    );
}
