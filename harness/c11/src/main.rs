//! C11 — private repositories never leak through gossip.
//!
//! Drives the real `Service` (shared engine `../c10/src/engine.rs`) with interleavings of subscriptions
//! (before and after the announcement), the node's own refs announcements, refs announcements relayed from
//! another node, restarts (`initialize` pre-loading refs announcements of repositories with fresh refs),
//! visibility changes, repositories arriving in / leaving storage, fetches, inventory changes — with a
//! delegate (peer 1), an allow-listed peer (2) and a stranger (3) connected.
//!
//! Ground truth: every repository of a case has a visibility / delegates / allow list whether or not the
//! node has it in storage (`p,…` ops); the oracle evaluates the property statement against that truth:
//!
//! * a refs announcement about a private repository written to a peer that is neither delegate nor
//!   allow-listed: `replay-private-repo-in-storage` (the defect fixed by the `fix:` commit — must not occur),
//!   `replay-private-repo-not-in-storage` (residual: the node cannot know), `relay-private-refs`,
//!   `own-private-refs-announced`, `initial-private-refs`;
//! * an inventory announcement of the node that lists a private repository:
//!   `inventory-lists-repo-made-private` (the repository was public earlier in the case and was made private
//!   while the node ran: announcements created before the next `initialize` — also when they are sent or
//!   replayed later — still list it), `inventory-lists-private-repo` (it was never public, OR the announcement
//!   was created at or after an `initialize` at which the repository was in storage and already private:
//!   `initialize` must clean the listing up).

#[path = "../../c10/src/engine.rs"]
mod engine;

use engine::*;
use std::collections::BTreeSet;
use verif_common::*;

fn creates_inventory_and_announces(op: &Op) -> bool {
    matches!(op, Op::AddInventory(_) | Op::Unseed(_) | Op::Fetched(..))
}

fn oracle(recs: &[StepRec], tags: &mut Vec<String>) -> Vec<(String, String)> {
    let mut viol: Vec<(String, String)> = vec![];
    // repositories that were public at some earlier point of the case (ground truth of the case text)
    let mut was_public: BTreeSet<u64> = BTreeSet::new();
    // highest timestamp of an announcement of the node seen (written or stored) before each step
    let mut max_own_before: Vec<u64> = vec![];
    let mut max_own = 0u64;
    // inventory announcements of the node: timestamp -> step at which it was created.
    // `add_inventory` / `unseed` / a clone create AND store it in the same step; anything first seen otherwise
    // (on connect, by the announce task, in a replay) is the cached one, created by the latest `initialize`
    // whose step precedes the observation and after which the timestamp is new (None = initial state).
    let mut created_at: std::collections::BTreeMap<u64, Option<usize>> = Default::default();
    for (j, r) in recs.iter().enumerate() {
        max_own_before.push(max_own);
        let seen_now: Vec<u64> = r.writes.iter().filter(|w| w.ann.node == 0 && w.ann.kind == 'i').map(|w| w.ann.ts)
            .chain(r.rows.iter().filter(|x| x.node == 0 && x.kind == 'i').map(|x| x.ts)).collect();
        for ts in seen_now {
            if !created_at.contains_key(&ts) {
                let c = if creates_inventory_and_announces(&r.op) {
                    Some(j)
                } else {
                    (0..j).rev().find(|k| matches!(recs[*k].op, Op::Restart) && ts > max_own_before[*k])
                };
                created_at.insert(ts, c);
            }
        }
        for ts in r.writes.iter().filter(|w| w.ann.node == 0).map(|w| w.ann.ts).chain(r.rows.iter().filter(|x| x.node == 0).map(|x| x.ts)) {
            max_own = max_own.max(ts);
        }
        for (rid, spec) in &r.repos {
            if !spec.private {
                was_public.insert(*rid);
            }
        }
        for w in &r.writes {
            if w.ann.kind == 'r' {
                let Some(spec) = r.repos.get(&w.ann.repo) else { continue };
                let own = w.ann.node == 0;
                let path = match &r.op {
                    Op::Subscribe(..) => "replay",
                    Op::Connect(..) => "initial",
                    _ if own => "own",
                    _ => "relay",
                };
                if spec.private {
                    tags.push(format!("private-refs-{path}-to-{}", if spec.visible_to(w.peer) { "allowed" } else { "STRANGER" }));
                } else {
                    tags.push(format!("public-refs-{path}"));
                }
                if spec.private && !spec.visible_to(w.peer) {
                    let class = match (path, spec.present) {
                        ("replay", true) => "replay-private-repo-in-storage",
                        ("replay", false) => "replay-private-repo-not-in-storage",
                        ("own", _) => "own-private-refs-announced",
                        ("initial", _) => "initial-private-refs",
                        (_, true) => "relay-private-refs",
                        (_, false) => "relay-private-repo-not-in-storage",
                    };
                    viol.push((
                        class.to_string(),
                        format!(
                            "op {j}: refs announcement {} about private repository {} (delegates {:?}, allow {:?}, in storage: {}) written to peer {}",
                            w.ann.show(), w.ann.repo, spec.delegates, spec.allow, spec.present, w.peer
                        ),
                    ));
                }
            }
            if w.ann.kind == 'i' && w.ann.node == 0 {
                for rid in &w.inv {
                    let private = r.repos.get(rid).map(|s| s.private).unwrap_or(false);
                    if private {
                        // Known window: the repository was listed while public and made private while the node
                        // ran — until the next `initialize` that finds it in storage. An inventory announcement
                        // created at or after an `initialize` at which the repository was in storage and already
                        // private (and stayed private until the announcement was created) must not list it:
                        // that is a violation.
                        let c = created_at.get(&w.ann.ts).cloned().flatten();
                        let after_restart = c.and_then(|c| {
                            (0..=c).rev().find(|k| matches!(recs[*k].op, Op::Restart)).filter(|k| {
                                // `initialize` can only clean up what it can see: the repository must have been
                                // in storage then (a repository that left storage keeps its local routing
                                // entry; the node cannot learn that it became private)
                                recs[*k].repos.get(rid).map(|s| s.present).unwrap_or(false)
                                    && (*k..=c).all(|m| recs[m].repos.get(rid).map(|s| s.private).unwrap_or(false))
                            })
                        });
                        let class = if after_restart.is_some() {
                            "inventory-lists-private-repo"
                        } else if was_public.contains(rid) {
                            "inventory-lists-repo-made-private"
                        } else {
                            "inventory-lists-private-repo"
                        };
                        let detail = match (c, after_restart) {
                            (Some(c), Some(k)) => format!(" (created at op {c}; the repository was already private at the initialize of op {k})"),
                            (Some(c), None) => format!(" (created at op {c})"),
                            _ => String::new(),
                        };
                        viol.push((class.to_string(), format!("op {j}: inventory announcement {} of the node lists private repository {rid}{detail}", w.show())));
                    }
                }
                if !w.inv.is_empty() {
                    tags.push("own-inventory-nonempty".into());
                }
            }
        }
        match &r.op {
            Op::Restart => tags.push("restart".into()),
            Op::SetRepo(spec) => {
                if let Some(old) = r.repos.get(&spec.rid) {
                    if old.private != spec.private {
                        tags.push(if spec.private { "made-private" } else { "made-public" }.into());
                    }
                    if old.present != spec.present {
                        tags.push(if spec.present { "repo-arrives" } else { "repo-leaves" }.into());
                    }
                }
            }
            Op::Subscribe(p, ..) => {
                let stored_private = r.rows.iter().any(|x| x.kind == 'r' && r.repos.get(&x.repo).map(|s| s.private).unwrap_or(false));
                if stored_private {
                    tags.push(format!("subscribe-after-private-stored-by-{p}"));
                }
            }
            _ => {}
        }
        if r.panicked.is_some() {
            tags.push("panic".into());
        }
    }
    viol.sort();
    viol.dedup();
    viol
}

fn run_case(input: &str) -> Outcome {
    let Some((_t0, recs)) = run(input) else { return Outcome::new("bad-case").trivial() };
    let mut o = Outcome::new(show(&recs));
    let mut tags = vec![];
    o.violations = oracle(&recs, &mut tags);
    tags.sort();
    tags.dedup();
    // non-trivial: a refs announcement about a private repository was stored or written, and a peer that
    // may not see it was connected at that time
    let private_refs = recs.iter().any(|r| {
        r.rows.iter().any(|x| x.kind == 'r' && r.repos.get(&x.repo).map(|s| s.private).unwrap_or(false))
            && r.sessions.iter().any(|p| r.repos.values().any(|s| s.private && !s.visible_to(*p)))
    });
    o.nontrivial = private_refs;
    o.tags = tags;
    o
}

const T0: u64 = 1_700_000_000_000;

/// Fixed set-up of the exhaustive part (node 4 and the stranger 3 are known nodes): repo 0 public, repo 1 private (delegates: local node and peer 1;
/// allow: peer 2), repo 2 private and NOT in storage (delegate: node 4); all seeded; node 4 known;
/// peers 1 (delegate), 2 (allow-listed), 3 (stranger) connected.
fn prefix() -> String {
    format!(
        "{T0} 1 p,0,1,0,0,-,1,1000 p,1,1,1,0+1,2,2,1000 p,2,0,1,4,-,-,0 z,0 z,1 z,2 n,4,{} n,3,{} c,1,i c,2,o c,3,i",
        T0 - 1000,
        T0 - 900
    )
}

fn alphabet() -> Vec<String> {
    vec![
        format!("s,3,*,0,{I64MAX}"),          // the stranger subscribes to everything
        format!("s,2,*,0,{I64MAX}"),          // the allow-listed peer subscribes
        "r,1".to_string(),                    // own refs announcement about the private repository
        format!("a,1,4,r,1,{},1,1", T0 + 7),  // node 4's refs announcement about private repo 1, via peer 1
        format!("a,1,4,r,2,{},1,1", T0 + 8),  // … about private repo 2, which the node does not have
        "R".to_string(),                      // restart: pre-loads refs announcements of repos with fresh refs
        "p,0,1,1,0,-,1,1000".to_string(),     // the public repository becomes private
        "p,2,1,1,4,-,-,0".to_string(),        // repository 2 arrives in storage
        "e,6000".to_string(),                 // gossip tick
        "i,0".to_string(),                    // AddInventory of the public repository
        // the stranger announces an inventory of its own listing the node's repositories: the routing table
        // now says the stranger seeds them (unverified claim; must not open the replay of private refs)
        format!("a,3,3,i,0,{},1,0+1", T0 + 9),
    ]
}

fn exhaustive(ctx: &mut Ctx, len: usize) {
    let alphabet = alphabet();
    let prefix = prefix();
    let mut idx = vec![0usize; len];
    loop {
        let mut toks = vec![prefix.clone()];
        for i in &idx {
            toks.push(alphabet[*i].clone());
        }
        // whatever happened: the stranger (re)connects and asks for everything, and a tick passes
        toks.push("d,3".into());
        toks.push("c,3,i".into());
        toks.push(format!("s,3,*,0,{I64MAX}"));
        toks.push("e,6000".into());
        let input = toks.join(" ");
        // `i,0` after repo 0 was made private is outside the environment (AddInventory is only issued for
        // public repositories): skip those sequences
        let mut private0 = false;
        let mut ok = true;
        for i in &idx {
            if *i == 6 {
                private0 = true;
            }
            if *i == 9 && private0 {
                ok = false;
            }
        }
        if ok {
            let o = run_case(&input);
            ctx.count("exhaustive-small-alphabet");
            ctx.record(&input, o);
        }
        let mut k = 0;
        loop {
            if k == len {
                return;
            }
            idx[k] += 1;
            if idx[k] < alphabet.len() {
                break;
            }
            idx[k] = 0;
            k += 1;
        }
    }
}

fn gen_case(rng: &mut Rng, max_ops: u64) -> String {
    let t0 = T0 + rng.below(1_000_000);
    let mut toks = vec![t0.to_string(), (!rng.chance(1, 6) as u8).to_string()];
    let mut clock = t0;
    let n_repos = rng.range(2, 4);
    let mut repos: Vec<RepoSpec> = vec![];
    let mut oid = 1u64;
    for rid in 0..n_repos {
        let private = rid > 0 && rng.chance(2, 3);
        let present = !rng.chance(1, 4);
        let mut delegates = vec![if rng.chance(3, 4) { 0 } else { 4 }];
        if rng.chance(1, 3) {
            delegates.push(1);
        }
        let allow = if private && rng.bool() { vec![2] } else { vec![] };
        let own = if present && rng.chance(2, 3) {
            oid += 1;
            Some((oid, if rng.bool() { 1000 } else { t0 + 5_000_000 }))
        } else {
            None
        };
        let r = RepoSpec { rid, present, private, delegates, allow, own };
        toks.push(repo_tok(&r));
        if !rng.chance(1, 6) {
            toks.push(format!("z,{rid}"));
        }
        repos.push(r);
    }
    for x in 4..=5u64 {
        if !rng.chance(1, 6) {
            toks.push(format!("n,{x},{}", t0 - rng.below(1000)));
        }
    }
    // the peers themselves are usually known nodes, so that their own inventory announcements are accepted
    for x in 1..=3u64 {
        if !rng.chance(1, 4) {
            toks.push(format!("n,{x},{}", t0 - rng.below(1000)));
        }
    }
    let mut connected: Vec<u64> = vec![];
    for p in 1..=3u64 {
        if !rng.chance(1, 5) {
            toks.push(format!("c,{p},{}", if rng.bool() { "i" } else { "o" }));
            connected.push(p);
            if rng.bool() {
                toks.push(format!("s,{p},*,0,{I64MAX}"));
            }
        }
    }
    let mut ts = t0;
    let n = rng.range(3, max_ops);
    for _ in 0..n {
        let rid = rng.below(n_repos);
        match rng.below(100) {
            0..=17 => {
                if !connected.is_empty() {
                    let p = *rng.pick(&connected);
                    let filt = match rng.below(4) {
                        0 => plus_list(&(0..n_repos).filter(|_| rng.bool()).collect::<Vec<_>>()),
                        _ => "*".to_string(),
                    };
                    let since = if rng.chance(1, 4) { clock.saturating_sub(rng.below(3000)) } else { 0 };
                    toks.push(format!("s,{p},{filt},{since},{I64MAX}"));
                }
            }
            18..=29 => toks.push(format!("r,{rid}")),
            30..=47 => {
                ts += rng.range(1, 5);
                let p = if connected.is_empty() { 1 } else { *rng.pick(&connected) };
                let a = AnnSpec { node: rng.range(4, 5), kind: Kind::Refs, repo: rid, ts, sig_ok: true, inv: vec![], flag: !rng.chance(1, 10), reuse: None };
                toks.push(ann_tok(p, &a));
            }
            48..=51 => toks.push("R".into()),
            52..=55 => {
                // a connected peer claims to seed some of the node's repositories (its own inventory
                // announcement, unverified): routing entries (rid, peer) appear
                if !connected.is_empty() {
                    let p = *rng.pick(&connected);
                    ts += rng.range(1, 5);
                    let inv: Vec<u64> = (0..n_repos).filter(|_| rng.chance(2, 3)).collect();
                    let a = AnnSpec { node: p, kind: Kind::Inv, repo: 0, ts, sig_ok: true, inv, flag: false, reuse: None };
                    toks.push(ann_tok(p, &a));
                }
            }
            56..=67 => {
                // repository change: visibility, allow list, delegates, presence, fresh own refs
                let r = &mut repos[rid as usize];
                match rng.below(6) {
                    0 | 1 => r.private = !r.private,
                    2 => r.present = !r.present,
                    3 => r.allow = if r.allow.is_empty() { vec![rng.range(2, 3)] } else { vec![] },
                    4 => {
                        if r.delegates.contains(&1) {
                            r.delegates.retain(|d| *d != 1)
                        } else {
                            r.delegates.push(1)
                        }
                    }
                    _ => {}
                }
                if !r.present {
                    r.own = None;
                } else if rng.bool() {
                    oid += 1;
                    r.own = Some((oid, if rng.bool() { 1000 } else { clock + 5_000_000 }));
                }
                toks.push(repo_tok(r));
            }
            68..=77 => {
                let dt = *rng.pick(&[6000, 6000, 1, 30_000, 3_600_000]);
                clock += dt;
                toks.push(format!("e,{dt}"));
            }
            78..=84 => {
                let p = rng.range(1, 3);
                if connected.contains(&p) {
                    toks.push(format!("d,{p}"));
                    connected.retain(|x| *x != p);
                } else {
                    toks.push(format!("c,{p},{}", if rng.bool() { "i" } else { "o" }));
                    connected.push(p);
                }
            }
            85..=88 => {
                // AddInventory: only for public repositories (what `rad` does)
                if !repos[rid as usize].private {
                    toks.push(format!("i,{rid}"));
                }
            }
            89..=92 => {
                let r = &repos[rid as usize];
                if r.present && !connected.is_empty() {
                    toks.push(format!("f,{rid},{},{},{}", rng.pick(&connected), rng.bool() as u8, rng.chance(3, 4) as u8));
                }
            }
            93..=94 => toks.push(format!("{},{rid}", if rng.bool() { "z" } else { "u" })),
            95..=97 => {
                if rng.chance(1, 3) {
                    toks.push("I".into())
                } else {
                    // a listed public repository is made private, then the node is re-initialised: nothing
                    // created from then on may list it (connect / announce task / replay observe it)
                    let r = &mut repos[rid as usize];
                    if r.present {
                        if r.private {
                            r.private = false;
                            toks.push(repo_tok(r));
                        }
                        toks.push(format!("z,{rid}"));
                        toks.push(format!("i,{rid}"));
                        r.private = true;
                        toks.push(repo_tok(r));
                        toks.push("R".into());
                        if rng.bool() {
                            clock += 3_600_000;
                            toks.push("e,3600000".into());
                        }
                        let p = rng.range(1, 3);
                        if connected.contains(&p) {
                            toks.push(format!("d,{p}"));
                        } else {
                            connected.push(p);
                        }
                        toks.push(format!("c,{p},i"));
                        toks.push(format!("s,{p},*,0,{I64MAX}"));
                    }
                }
            }
            _ => {
                ts += 1;
                let p = if connected.is_empty() { 1 } else { *rng.pick(&connected) };
                let a = AnnSpec { node: 4, kind: Kind::Inv, repo: 0, ts, sig_ok: true, inv: (0..n_repos).filter(|_| rng.bool()).collect(), flag: false, reuse: None };
                toks.push(ann_tok(p, &a));
            }
        }
    }
    // finally: the stranger asks for everything, and a tick passes
    if !connected.contains(&3) {
        toks.push("c,3,i".into());
    }
    toks.push(format!("s,3,*,0,{I64MAX}"));
    toks.push("e,6000".into());
    toks.join(" ")
}

fn main() {
    let mut ctx = Ctx::from_args("C11");
    if !ctx.run_fixed(run_case) {
        let quick = ctx.quick();
        exhaustive(&mut ctx, if quick { 3 } else { 4 });
        let mut rng = ctx.rng();
        let n = ctx.size(500, 10_000);
        let max = ctx.size(12, 20);
        for _ in 0..n {
            let input = gen_case(&mut rng, max);
            let o = run_case(&input);
            ctx.record(&input, o);
        }
    }
    ctx.finish(
        "every sequence of 3 (thorough: 4) ops over an 11-op alphabet (stranger / allow-listed peer subscribe, own refs announcement of a \
         private repo, refs announcement of another node about a private repo in storage / not in storage, restart, public repo made \
         private, repo arriving in storage, gossip tick, AddInventory, the stranger announcing an inventory that lists the node's repositories) after a fixed set-up with a delegate, an allow-listed peer and a \
         stranger connected, each followed by the stranger reconnecting and subscribing to everything; plus random interleavings (quick <= 12, \
         thorough <= 20 ops) of the same kinds with random visibility / allow-list / delegate / presence changes, fetches, (un)seeding; \
         non-trivial = a refs announcement about a private repository was stored while a peer that may not see it was connected; \
         distinct by input text",
        false,
    );
}
