import Lean
/-!
Audit script, run as `lake env lean --run Audit.lean HeartwoodModel.Props.Cxx`.

Loads the compiled module, and prints
* one line `THEOREM <name> AXIOMS <a1,a2,…>` for every theorem declared in the given module itself
  (these are the property theorems), with the axioms its proof depends on;
* `COUNT own=<n> lib=<m>`: number of theorems declared in that module and number of theorems in all
  `HeartwoodModel.*` modules it (transitively) imports — the obligations the kernel accepted;
* `BADAXIOM <thm> <axiom>` for any axiom outside {propext, Classical.choice, Quot.sound}
  used by any theorem of the `HeartwoodModel.*` modules in the import closure.
-/
open Lean

def allowed : List Name := [``propext, ``Classical.choice, ``Quot.sound]

def axiomsOf (env : Environment) (n : Name) : IO (Array Name) := do
  let ctx : Core.Context := { fileName := "<audit>", fileMap := default }
  let st : Core.State := { env }
  let (axs, _) ← (collectAxioms n : CoreM _).toIO ctx st
  return axs

unsafe def main (args : List String) : IO UInt32 := do
  let some modStr := args.head? | do IO.eprintln "usage: Audit <module>"; return 2
  let mod := modStr.toName
  enableInitializersExecution
  initSearchPath (← findSysroot)
  let env ← importModules #[{ module := mod }] {} (trustLevel := 0) (loadExts := true)
  let modNames := env.header.moduleNames
  let mut own := 0
  let mut lib := 0
  let mut bad := 0
  let mut lines : Array String := #[]
  for (n, ci) in env.constants.map₁.toList do
    match ci with
    | .thmInfo _ =>
      let some idx := env.getModuleIdxFor? n | continue
      let m := modNames[idx.toNat]!
      if (`HeartwoodModel).isPrefixOf m then
        if n.isInternal then continue
        -- only declarations written in the source (auto-generated equation lemmas have no range)
        if (declRangeExt.find? (level := .server) env n).isNone then continue
        lib := lib + 1
        let axs ← axiomsOf env n
        for a in axs do
          if !allowed.contains a then
            bad := bad + 1
            lines := lines.push s!"BADAXIOM {n} {a}"
        if m == mod then
          own := own + 1
          let axl := ",".intercalate (axs.toList.map toString)
          lines := lines.push s!"THEOREM {n} AXIOMS {if axl.isEmpty then "-" else axl}"
    | _ => pure ()
  for l in lines.qsort (· < ·) do IO.println l
  IO.println s!"COUNT own={own} lib={lib}"
  return (if bad == 0 then 0 else 1)
