/-! Driver entry for property C03 (stub: not implemented yet). -/
namespace HeartwoodModel.Driver.C03

def run (_args : List String) : String := "unimplemented"

end HeartwoodModel.Driver.C03
