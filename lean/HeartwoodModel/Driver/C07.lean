import HeartwoodModel.Model.Issue
import HeartwoodModel.Driver.Util
import HeartwoodModel.Driver.C08
/-!
Driver entry for C07.

Cases: `patch …` (syntax and output of `Driver/C08.lean`, whose wire helpers are reused) or
`issue <docs> g=<ranks>/<sigbits> <op0> <op1> …` (the abstract change graph, evaluated by the MODEL with the
generic evaluator of `Model/ChangeGraph.lean`, see `Driver/C08.lean`) with `op = author:doc:ts:tips:act|act|…` and issue actions
`as,<actors+>` `ed,<title>,<kind>` `lc,o|s|c` `lb,<labels+>` `cm,<body>,<replyTo|->` `ce,<id>,<body>`
`cr,<id>` `ca,<id>`.
Output: `init-err` / `init-panic` / …, or
`o=<evaluation order>;r=<o|e per evaluated op>;t=<title>;st=open|closed.s|closed.o;lb=…;as=…;cm=<thread>`.
-/
namespace HeartwoodModel.Driver.C07
open HeartwoodModel.Cob HeartwoodModel.Issue HeartwoodModel.Driver.Util HeartwoodModel.Driver.C08

def parseAction (s : String) : Option Action :=
  match splitOn s ',' with
  | ["as", xs] => do some (.assign (← plusNats? xs))
  | ["ed", t, k] => do some (.edit (← nat? t) (← nat? k))
  | ["lc", l] =>
    if l == "o" then some (.lifecycle .opened) else if l == "s" then some (.lifecycle (.closed true))
    else if l == "c" then some (.lifecycle (.closed false)) else none
  | ["lb", ls] => do some (.label (← plusNats? ls))
  | ["cm", b, rt] => do some (.comment (← nat? b) (← optNat? rt))
  | ["ce", c, b] => do some (.commentEdit (← nat? c) (← nat? b))
  | ["cr", c] => do some (.commentRedact (← nat? c))
  | ["ca", c] => do some (.commentReact (← nat? c))
  | _ => none

def showIState : IState → String
  | .opened => "open"
  | .closed true => "closed.s"
  | .closed false => "closed.o"

def showIssue (i : Issue) : String :=
  s!"t={i.title};st={showIState i.state};lb={showList "+" (i.labels.map toString)};" ++
  s!"as={showList "+" (i.assignees.map toString)};cm={showThread "+" "~" i.thread}"

def toOp (i : Nat) (w : WireOp Action) : Op :=
  { id := i, author := w.author, doc := w.doc, actions := w.actions }

def runIssue (args : List String) : String :=
  match args with
  | docs :: gtok :: ops =>
    match parseDocs docs with
    | some docs =>
      match ops.mapM (parseWireOp parseAction docs) with
      | some (root :: rest) =>
        let all := root :: rest
        match parseG gtok all.length with
        | none => "bad-op"
        | some (ranks, sigs) =>
          match fromRoot (toOp 0 root) with
          | .error .panic => "init-panic"
          | _ =>
            let gops := mkGOps all (·.ts) sigs
            showEval false showIssue
              (evalGraph ranks (·.tips) gops (fun e => optOk (fromRoot (toOp e.idx e.w)))
                (fun i e _ => optOk (op i (toOp e.idx e.w))))
      | _ => "bad-op"
    | none => "bad-op"
  | _ => "bad-op"

def run (args : List String) : String :=
  match args with
  | "patch" :: rest => runPatch rest
  | "issue" :: rest => runIssue rest
  | _ => "bad-op"

end HeartwoodModel.Driver.C07
