//! C29 — node-signed announcement timestamps strictly increase.
//!
//! Drives the real `Service` (through the shared engine of `../c10/src/engine.rs`) with interleavings of
//! clock moves (forward, equal, backward: `elapse`, `Service::tick`, raw `clock_mut` writes) and every
//! action that makes the node create an announcement (`initialize`, `AddInventory`, `unseed`,
//! `AnnounceRefs`, a successful fetch), with peers connected and subscribed so that what is created
//! becomes visible in the outbox and in the gossip store.
//!
//! Output (compared with the Lean model `Model/Gossip.lean`): per op, the announcement writes, session
//! disconnects and gossip-store rows, timestamps included — so `Service::timestamp` is compared value
//! by value with `Timestamp.next`.
//!
//! Oracle (the property, on what the real code did; reading fixed in DESIGN: re-sending the same cached
//! announcement is the same announcement):
//! * `own-timestamp-repeated`: two different announcements signed by the node carry the same timestamp;
//! * `own-timestamp-not-increasing`: an announcement first seen after op `j` carries a timestamp that is
//!   not greater than that of an announcement of the node seen before. Refs announcements are stored
//!   when created, so "first seen" is "created"; a cached inventory can stay invisible until the next
//!   connection, so for inventories the rule is applied with one op of slack and only while every op that
//!   can create an inventory has been followed at once by a connection (the generator does that).

#[path = "../../c10/src/engine.rs"]
mod engine;

use engine::*;
use std::collections::BTreeMap;
use verif_common::*;

fn creates_inventory(op: &Op) -> bool {
    matches!(op, Op::Restart | Op::AddInventory(_) | Op::Unseed(_) | Op::Fetched(..))
}

/// Identity of an announcement of the local node for the oracle: kind, repo, timestamp.
type Own = (char, u64, u64);

fn oracle(recs: &[StepRec]) -> Vec<(String, String)> {
    let mut viol = vec![];
    // every own announcement seen so far: content (once a write showed it) and op of first observation
    let mut seen: BTreeMap<Own, (Option<String>, usize)> = BTreeMap::new();
    let mut probed = true; // every inventory-creating op so far was followed at once by a connection
    for (j, r) in recs.iter().enumerate() {
        let mut new: Vec<Own> = vec![];
        for w in &r.writes {
            if w.ann.node == 0 {
                let k: Own = (w.ann.kind, w.ann.repo, w.ann.ts);
                match seen.get_mut(&k) {
                    Some((Some(c), at)) if *c != w.content => viol.push((
                        "own-timestamp-repeated".to_string(),
                        format!("op {j}: a different announcement {}.{}.{} than the one seen at op {at}", k.0, k.1, k.2),
                    )),
                    Some((c @ None, _)) => *c = Some(w.content.clone()),
                    Some(_) => {}
                    None => {
                        seen.insert(k.clone(), (Some(w.content.clone()), j));
                        new.push(k);
                    }
                }
            }
        }
        for row in &r.rows {
            if row.node == 0 {
                let k: Own = (row.kind, row.repo, row.ts);
                if !seen.contains_key(&k) {
                    seen.insert(k.clone(), (None, j));
                    new.push(k);
                }
            }
        }
        for k in &new {
            let desc = format!("{}.{}.{}", k.0, k.1, k.2);
            // ordering: how many ops of slack between creation and first observation
            let slack = if k.0 == 'i' {
                if probed { Some(1) } else { None }
            } else if k.0 == 'n' {
                None // the node announcement is created before the service exists
            } else {
                Some(0)
            };
            for (o, (_, at)) in seen.iter() {
                if o == k {
                    continue;
                }
                let d = format!("{}.{}.{}", o.0, o.1, o.2);
                if o.2 == k.2 {
                    if *at < j || o < k {
                        viol.push((
                            "own-timestamp-repeated".to_string(),
                            format!("announcement {desc} (op {j}) carries the timestamp of the different announcement {d} (op {at})"),
                        ));
                    }
                } else if let Some(sl) = slack {
                    // seen strictly before op `j - sl`, with a larger timestamp
                    if *at + sl < j && o.2 > k.2 {
                        viol.push((
                            "own-timestamp-not-increasing".to_string(),
                            format!("announcement {desc} first seen at op {j} is not newer than {d} seen at op {at}"),
                        ));
                    }
                }
            }
        }
        // maintain `probed`
        if j > 0 && creates_inventory(&recs[j - 1].op) && !matches!(r.op, Op::Connect(..)) {
            probed = false;
        }
    }
    viol.sort();
    viol.dedup();
    viol
}

fn run_case(input: &str) -> Outcome {
    let Some((_t0, recs)) = run(input) else { return Outcome::new("bad-case").trivial() };
    let mut o = Outcome::new(show(&recs));
    o.violations = oracle(&recs);
    let own_created: usize = {
        let mut s = std::collections::BTreeSet::new();
        for r in &recs {
            for w in &r.writes {
                if w.ann.node == 0 {
                    s.insert((w.ann.kind, w.ann.repo, w.ann.ts));
                }
            }
            for w in &r.rows {
                if w.node == 0 {
                    s.insert((w.kind, w.repo, w.ts));
                }
            }
        }
        s.len()
    };
    let mut tags = vec![];
    let mut backward = false;
    let mut stalled = false;
    // highest own timestamp seen so far (a lower estimate of `last_timestamp`) vs the clock at creation time
    let mut max_own = 0u64;
    for r in &recs {
        let new_max = r.writes.iter().filter(|w| w.ann.node == 0).map(|w| w.ann.ts)
            .chain(r.rows.iter().filter(|w| w.node == 0).map(|w| w.ts)).max().unwrap_or(0);
        if new_max > max_own {
            if max_own > 0 && !matches!(r.op, Op::Connect(..) | Op::Subscribe(..)) {
                tags.push(if r.clock_before == max_own {
                    "created-with-clock-eq-last"
                } else if r.clock_before < max_own {
                    "created-with-clock-below-last"
                } else if r.clock_before == max_own + 1 {
                    "created-with-clock-eq-last-plus-1"
                } else {
                    "created-with-clock-above-last"
                });
            }
            max_own = new_max;
        }
        if r.clock_after < r.clock_before {
            backward = true;
        }
        match &r.op {
            Op::Tick(t) if *t < r.clock_before => tags.push("tick-backward-ignored"),
            Op::Tick(t) if *t == r.clock_before => tags.push("tick-equal"),
            Op::SetClock(t) if *t < r.clock_before => tags.push("clock-set-backward"),
            Op::SetClock(t) if *t == r.clock_before => tags.push("clock-set-equal"),
            Op::Elapse(0) => {
                stalled = true;
                tags.push("elapse-zero")
            }
            Op::Restart => tags.push("restart"),
            Op::AnnounceRefs(_) => tags.push("announce-refs"),
            Op::AddInventory(_) => tags.push("add-inventory"),
            Op::Unseed(_) => tags.push("unseed"),
            Op::Fetched(..) => tags.push("fetched"),
            _ => {}
        }
        if r.panicked.is_some() {
            tags.push("panic");
        }
    }
    let _ = stalled;
    if backward {
        tags.push("clock-went-backward");
    }
    tags.push(match own_created {
        0..=2 => "own-announcements-le2",
        3..=5 => "own-announcements-3to5",
        _ => "own-announcements-ge6",
    });
    // clock below the last timestamp handed out while an announcement was created: the `+ 1` branch
    tags.sort();
    tags.dedup();
    o.tags = tags.into_iter().map(String::from).collect();
    o.nontrivial = own_created >= 4;
    o
}

fn gen_case(rng: &mut Rng, max_ops: u64) -> String {
    let t0: u64 = 1_700_000_000_000 + rng.below(1_000_000);
    let mut toks: Vec<String> = vec![t0.to_string(), (rng.bool() as u8).to_string()];
    let mut clock = t0;
    let mut hi = 0u64; // highest clock at which a message was received
    let mut made = 2u64; // upper estimate of timestamps handed out so far
    let mut oid = 1u64;
    let n_repos = rng.range(1, 3);
    let mut repos: Vec<RepoSpec> = vec![];
    for rid in 0..n_repos {
        let r = RepoSpec {
            rid,
            present: true,
            private: rng.chance(1, 4),
            delegates: vec![0],
            allow: if rng.bool() { vec![1] } else { vec![] },
            own: if rng.chance(4, 5) { Some((oid, if rng.bool() { 1000 } else { t0 + 10_000_000 })) } else { None },
        };
        oid += 1;
        toks.push(repo_tok(&r));
        repos.push(r);
        if rng.chance(5, 6) {
            toks.push(format!("z,{rid}"));
        }
    }
    let mut connected: Vec<u64> = vec![];
    // a subscribed observer
    toks.push("c,1,i".into());
    toks.push(format!("s,1,*,0,{}", I64MAX));
    connected.push(1);
    hi = hi.max(clock);
    let n = rng.range(3, max_ops);
    let mut probe = 5u64;
    for _ in 0..n {
        let extra = rng.chance(1, 8) as u64;
        let rid = rng.below(n_repos + extra);
        let c = rng.below(100);
        let mut probe_after = false;
        match c {
            // clock moves: near the last timestamp handed out (t0+2+made) to hit the `>` boundary
            0..=9 => {
                let dt = *rng.pick(&[0, 0, 1, 2, 3, 5, 6000, 5999, 1_800_000, 3_600_000]);
                clock += dt;
                toks.push(format!("e,{dt}"));
            }
            10..=19 => {
                let t = match rng.below(4) {
                    0 => clock.saturating_sub(rng.range(1, 5000)),
                    1 => clock,
                    2 => t0 + rng.below(made + 4),
                    _ => clock + rng.range(1, 10),
                };
                let t = t.max(GOSSIP_MAX_AGE);
                if t >= clock {
                    clock = t;
                }
                toks.push(format!("k,{t}"));
            }
            20..=34 => {
                let t = match rng.below(5) {
                    0 => clock.saturating_sub(rng.range(1, 100_000)),
                    1 => clock,
                    2 | 3 => t0 + rng.below(made + 4), // around last_timestamp: below, equal, just above
                    _ => clock + rng.range(1, 20),
                };
                let t = t.max(GOSSIP_MAX_AGE);
                clock = t;
                toks.push(format!("j,{t}"));
            }
            35..=49 => {
                toks.push(format!("r,{rid}"));
                made += 1;
            }
            50..=59 => {
                toks.push(format!("i,{rid}"));
                made += 1;
                probe_after = true;
            }
            60..=64 => {
                toks.push(format!("u,{rid}"));
                made += 1;
                probe_after = true;
            }
            65..=69 => toks.push(format!("z,{rid}")),
            70..=77 => {
                toks.push("R".into());
                made += n_repos + 1;
                probe_after = true;
            }
            78..=83 => {
                if let Some(r) = repos.iter_mut().find(|r| r.rid == rid) {
                    r.own = Some((oid, if rng.bool() { 1000 } else { clock + 1_000_000 }));
                    oid += 1;
                    if rng.chance(1, 5) {
                        r.private = !r.private;
                    }
                    toks.push(repo_tok(r));
                }
            }
            84..=89 => {
                if rid < n_repos && !connected.is_empty() {
                    let p = *rng.pick(&connected);
                    toks.push(format!("f,{rid},{p},{},{}", rng.bool() as u8, rng.chance(3, 4) as u8));
                    made += 2;
                    probe_after = true;
                }
            }
            90..=93 => toks.push("I".into()),
            94..=96 => {
                let p = rng.range(2, 4);
                if connected.contains(&p) {
                    toks.push(format!("d,{p}"));
                    connected.retain(|x| *x != p);
                } else {
                    toks.push(format!("c,{p},{}", if rng.bool() { "i" } else { "o" }));
                    connected.push(p);
                }
            }
            _ => {
                if clock >= hi && !connected.is_empty() {
                    let p = *rng.pick(&connected);
                    hi = clock;
                    toks.push(format!("s,{p},*,0,{}", I64MAX));
                }
            }
        }
        if probe_after {
            // make the cached inventory visible at once
            toks.push(format!("c,{probe},i"));
            toks.push(format!("d,{probe}"));
            probe = if probe == 5 { 6 } else { 5 };
        }
    }
    toks.join(" ")
}

fn main() {
    let mut ctx = Ctx::from_args("C29");
    if !ctx.run_fixed(run_case) {
        let mut rng = ctx.rng();
        let n = ctx.size(400, 12_000);
        for _ in 0..n {
            let input = gen_case(&mut rng, 16);
            let o = run_case(&input);
            ctx.record(&input, o);
        }
    }
    ctx.finish(
        "random interleavings of clock moves (elapse incl. 0, Service::tick backward/equal/forward, raw clock writes backward/equal/\
         around last_timestamp) with AnnounceRefs / AddInventory / unseed / restart / successful fetch / repository updates on 1-3 \
         repositories, one subscribed observer and probe connections after every inventory-creating op; non-trivial = the real \
         node produced at least 4 distinct announcements of its own; distinct by input text",
        false,
    );
}
