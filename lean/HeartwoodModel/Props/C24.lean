import HeartwoodModel.Model.Stores
import HeartwoodModel.Lemmas.Stores
/-!
# C24 — Node databases behave like their simple models

Property theorems about `Model/Stores.lean` (the restated SQL of the five stores).

* routing: `routing_ts_monotone` (one step, any operation, any legal prune selection),
  `routing_ts_monotone_run` (along any history while the entry exists), `routing_add_result`;
  `prune_never_removes_local` (for *every* selection the inner `SELECT` may return),
  `prune_removes_only_old_selected`, `prune_keeps_rest`, `prune_selects_oldest`, `prune_at_most_limit`;
* `sync_strictly_newer_and_different`, `refs_strictly_newer_and_different` (+ `guarded_set_result`);
* `policy_last_write_per_column` and the history forms `seed_scope_is_last_write`,
  `seed_policy_is_last_write`, `follow_alias_is_last_write`, `follow_policy_is_last_write`
  (reading fixed in DESIGN.md: "the last write" is per column);
* `gossip_replaced_only_by_newer` (same key = same node, repository and announcement type),
  `gossip_announced_fresh`, `gossip_not_newer_ignored`, `gossip_zero_timestamp_panics`.
-/
set_option linter.unusedSimpArgs false
set_option linter.unusedVariables false
set_option linter.unusedSectionVars false
namespace HeartwoodModel.Stores

/-! ## routing -/

theorem Routing.add1_find (st : Routing) (rid nid t : Nat) (k : RKey) :
    find k (Routing.add1 st rid nid t).1 =
      if k = (rid, nid) then
        (match find (rid, nid) st with
         | none => some t
         | some ts => if ts < t then some t else some ts)
      else find k st := by
  unfold Routing.add1
  cases hf : find (rid, nid) st with
  | none =>
    simp only [find_put]
  | some ts =>
    by_cases hlt : ts < t
    · simp only [hlt, if_true, find_put]
    · simp only [hlt, if_false]
      by_cases hk : k = (rid, nid)
      · subst hk; simp [hf]
      · simp [hk]

/-- **`add_inventory` result.** `SeedAdded` iff the entry was absent, `TimeUpdated` iff it was present
with a strictly older timestamp, `NotUpdated` otherwise; afterwards the entry carries the greater of the two
timestamps. -/
theorem routing_add_result (st : Routing) (rid nid t : Nat) :
    (match find (rid, nid) st with
     | none => (Routing.add1 st rid nid t).2 = .seedAdded ∧ find (rid, nid) (Routing.add1 st rid nid t).1 = some t
     | some ts =>
       (ts < t → (Routing.add1 st rid nid t).2 = .timeUpdated ∧
          find (rid, nid) (Routing.add1 st rid nid t).1 = some t) ∧
       (¬ ts < t → (Routing.add1 st rid nid t).2 = .notUpdated ∧ (Routing.add1 st rid nid t).1 = st)) := by
  cases hf : find (rid, nid) st with
  | none => simp [Routing.add1, hf, find_put_self]
  | some ts =>
    refine ⟨fun h => ?_, fun h => ?_⟩
    · simp [Routing.add1, hf, h, find_put_self]
    · simp [Routing.add1, hf, h]

theorem Routing.add1_mono (st : Routing) (rid nid t : Nat) (k : RKey) (t0 : Nat) (h : find k st = some t0) :
    ∃ t1, find k (Routing.add1 st rid nid t).1 = some t1 ∧ t0 ≤ t1 := by
  rw [Routing.add1_find]
  by_cases hk : k = (rid, nid)
  · subst hk
    simp only [if_true, h]
    by_cases hlt : t0 < t
    · exact ⟨t, by simp [hlt], Nat.le_of_lt hlt⟩
    · exact ⟨t0, by simp [hlt], Nat.le_refl _⟩
  · exact ⟨t0, by simp [hk, h], Nat.le_refl _⟩

theorem Routing.add_mono (st : Routing) (rids : List Nat) (nid t : Nat) (k : RKey) (t0 : Nat)
    (h : find k st = some t0) : ∃ t1, find k (Routing.add st rids nid t).1 = some t1 ∧ t0 ≤ t1 := by
  induction rids generalizing st t0 with
  | nil => exact ⟨t0, h, Nat.le_refl _⟩
  | cons r rs ih =>
    obtain ⟨t1, h1, hle1⟩ := Routing.add1_mono st r nid t k t0 h
    obtain ⟨t2, h2, hle2⟩ := ih (Routing.add1 st r nid t).1 t1 h1
    exact ⟨t2, h2, Nat.le_trans hle1 hle2⟩

theorem Routing.removeMany_find (st : Routing) (rids : List Nat) (nid : Nat) (k : RKey) (t : Nat)
    (h : find k (Routing.removeMany st rids nid) = some t) : find k st = some t := by
  unfold Routing.removeMany at h
  induction rids generalizing st with
  | nil => exact h
  | cons r rs ih =>
    simp only [List.foldl_cons] at h
    have := ih (del (r, nid) st) h
    rw [find_del] at this
    by_cases hk : k = (r, nid)
    · simp [hk] at this
    · simpa [hk] using this

theorem Routing.pruneWith_find (st : Routing) (ignore : Nat) (sel : List RKey) (k : RKey) :
    find k (Routing.pruneWith st ignore sel).1 =
      if !(sel.contains k && k.2 != ignore) then find k st else none :=
  find_filter_key (fun k => !(sel.contains k && k.2 != ignore)) k st

/-- **C24, routing timestamps only increase (one step).** Whatever the operation (including removals and
any legal prune), an entry that exists before and after does not go back in time. -/
theorem routing_ts_monotone (st st' : Routing) (op : ROp) (k : RKey) (t t' : Nat)
    (hstep : Routing.step st op = some st') (h : find k st = some t) (h' : find k st' = some t') :
    t ≤ t' := by
  cases op with
  | add rids nid tm =>
    simp only [Routing.step, Option.some.injEq] at hstep
    subst hstep
    obtain ⟨t1, h1, hle⟩ := Routing.add_mono st rids nid tm k t h
    rw [h1] at h'
    cases h'
    exact hle
  | remove rid nid =>
    simp only [Routing.step, Routing.remove, Option.some.injEq] at hstep
    subst hstep
    rw [find_del] at h'
    by_cases hk : k = (rid, nid)
    · simp [hk] at h'
    · simp only [hk, if_false] at h'
      rw [h] at h'; cases h'; exact Nat.le_refl _
  | removeMany rids nid =>
    simp only [Routing.step, Option.some.injEq] at hstep
    subst hstep
    have := Routing.removeMany_find st rids nid k t' h'
    rw [h] at this; cases this; exact Nat.le_refl _
  | prune oldest limit ignore sel =>
    simp only [Routing.step] at hstep
    split at hstep
    · simp only [Option.some.injEq] at hstep
      subst hstep
      rw [Routing.pruneWith_find] at h'
      split at h'
      · rw [h] at h'; cases h'; exact Nat.le_refl _
      · cases h'
    · cases hstep

/-- `k` exists after every operation of the history. -/
def Routing.presentThroughout (k : RKey) : Routing → List ROp → Prop
  | _, [] => True
  | st, op :: ops =>
    ∃ st1, Routing.step st op = some st1 ∧ (find k st1).isSome = true ∧ Routing.presentThroughout k st1 ops

/-- **C24, routing timestamps only increase (histories).** Along any history of operations during which
the entry never ceases to exist, its timestamp is non-decreasing. -/
theorem routing_ts_monotone_run (k : RKey) (ops : List ROp) (st st' : Routing) (t t' : Nat)
    (hp : Routing.presentThroughout k st ops) (hrun : Routing.run st ops = some st')
    (h : find k st = some t) (h' : find k st' = some t') : t ≤ t' := by
  induction ops generalizing st t with
  | nil =>
    simp only [Routing.run, Option.some.injEq] at hrun
    subst hrun
    rw [h] at h'; cases h'; exact Nat.le_refl _
  | cons op ops ih =>
    obtain ⟨st1, hs, hpres, hrest⟩ := hp
    simp only [Routing.run, hs] at hrun
    cases h1 : find k st1 with
    | none => rw [h1] at hpres; cases hpres
    | some t1 =>
      exact Nat.le_trans (routing_ts_monotone st st1 op k t t1 hs h h1) (ih st1 t1 hrest hrun h1)

/-- **C24, pruning never removes the local node's entries** — for every selection whatsoever of the inner
`SELECT` (legal or not), the entries of the `ignore` node are untouched. -/
theorem prune_never_removes_local (st : Routing) (ignore : Nat) (sel : List RKey) (rid : Nat) :
    find (rid, ignore) (Routing.pruneWith st ignore sel).1 = find (rid, ignore) st := by
  rw [Routing.pruneWith_find]
  simp

/-- The same, as a statement about `step`. -/
theorem prune_step_never_removes_local (st st' : Routing) (oldest : Nat) (limit : Option Nat) (ignore : Nat)
    (sel : List RKey) (h : Routing.step st (.prune oldest limit ignore sel) = some st') (rid : Nat) :
    find (rid, ignore) st' = find (rid, ignore) st := by
  simp only [Routing.step] at h
  split at h
  · simp only [Option.some.injEq] at h
    subst h
    exact prune_never_removes_local st ignore sel rid
  · cases h

theorem Routing.selectionOk_spec (st : Routing) (oldest : Nat) (limit : Option Nat) (sel : List RKey)
    (hok : Routing.selectionOk st oldest limit sel = true) :
    (∀ k ∈ sel, ∃ t, find k st = some t ∧ t < oldest) ∧
    sel.length = Routing.selSize st oldest limit ∧
    (∀ k ∈ sel, ∀ e ∈ Routing.candidates st oldest, e.1 ∉ sel → ∃ t, find k st = some t ∧ t ≤ e.2) := by
  unfold Routing.selectionOk at hok
  simp only [Bool.and_eq_true, List.all_eq_true, beq_iff_eq] at hok
  obtain ⟨⟨⟨_, h2⟩, h3⟩, h4⟩ := hok
  refine ⟨?_, h3, ?_⟩
  · intro k hk
    have := h2 k hk
    cases hf : find k st with
    | none => simp [hf] at this
    | some t => exact ⟨t, rfl, by simpa [hf] using this⟩
  · intro k hk e he hne
    have := h4 k hk e he
    simp only [Bool.or_eq_true, List.contains_iff_mem] at this
    rcases this with hm | ht
    · exact absurd hm hne
    · cases hf : find k st with
      | none => simp [hf] at ht
      | some t => exact ⟨t, rfl, by simpa [hf] using ht⟩

/-- Pruning removes only selected entries of other nodes, and those are older than `oldest`. -/
theorem prune_removes_only_old_selected (st : Routing) (oldest : Nat) (limit : Option Nat) (ignore : Nat)
    (sel : List RKey) (hok : Routing.selectionOk st oldest limit sel = true) (k : RKey) (t : Nat)
    (h : find k st = some t) (hgone : find k (Routing.pruneWith st ignore sel).1 = none) :
    t < oldest ∧ k.2 ≠ ignore ∧ k ∈ sel := by
  rw [Routing.pruneWith_find] at hgone
  cases hc : (sel.contains k && k.2 != ignore) with
  | false =>
    rw [hc] at hgone
    simp only [Bool.not_false, if_true] at hgone
    rw [h] at hgone; cases hgone
  | true =>
    simp only [Bool.and_eq_true, List.contains_iff_mem, bne_iff_ne] at hc
    obtain ⟨t1, ht1, hlt⟩ := (Routing.selectionOk_spec st oldest limit sel hok).1 k hc.1
    rw [h] at ht1; cases ht1
    exact ⟨hlt, hc.2, hc.1⟩

/-- Pruning creates or changes nothing. -/
theorem prune_keeps_rest (st : Routing) (ignore : Nat) (sel : List RKey) (k : RKey) (t : Nat)
    (h : find k (Routing.pruneWith st ignore sel).1 = some t) : find k st = some t := by
  rw [Routing.pruneWith_find] at h
  split at h
  · exact h
  · cases h

/-- The selection takes the oldest candidates: no unselected candidate is strictly older than a selected one. -/
theorem prune_selects_oldest (st : Routing) (oldest : Nat) (limit : Option Nat) (sel : List RKey)
    (hok : Routing.selectionOk st oldest limit sel = true) (k : RKey) (hk : k ∈ sel) (t : Nat)
    (ht : find k st = some t) (e : RKey × Nat) (he : e ∈ Routing.candidates st oldest) (hne : e.1 ∉ sel) :
    t ≤ e.2 := by
  obtain ⟨t1, h1, hle⟩ := (Routing.selectionOk_spec st oldest limit sel hok).2.2 k hk e he hne
  rw [ht] at h1; cases h1; exact hle

/-- At most `limit` rows are selected (hence at most `limit` removed). -/
theorem prune_at_most_limit (st : Routing) (oldest l : Nat) (sel : List RKey)
    (hok : Routing.selectionOk st oldest (some l) sel = true) : sel.length ≤ l := by
  rw [(Routing.selectionOk_spec st oldest (some l) sel hok).2.1]
  simp only [Routing.selSize]
  exact Nat.min_le_left _ _

/-- Non-vacuity: two entries tie at the cut (`limit = 1`): either may be selected, the local node (7) keeps
its entry in both executions, and selecting the younger entry is not a legal execution. -/
example :
    let st : Routing := [((1, 7), 5), ((1, 8), 5), ((2, 8), 9)]
    Routing.step st (.prune 10 (some 1) 7 [(1, 7)]) = some st ∧
    Routing.step st (.prune 10 (some 1) 7 [(1, 8)]) = some [((1, 7), 5), ((2, 8), 9)] ∧
    Routing.step st (.prune 10 (some 1) 7 [(2, 8)]) = none := by decide

example : Routing.add [((1, 7), 5)] [1, 2] 7 5 = ([((1, 7), 5), ((2, 7), 5)], [.notUpdated, .seedAdded]) ∧
    (Routing.add [((1, 7), 5)] [1] 7 6).2 = [.timeUpdated] := by decide

/-! ## `repo-sync-status` and `refs` -/

section Guarded
variable {K : Type} [DecidableEq K]

/-- **C24, sync status / cached refs only move to strictly newer timestamps with a different value.** An
existing row either stays exactly as it is, or it was overwritten by a `set` of the same key whose
timestamp is strictly greater and whose value differs. -/
theorem guarded_strictly_newer_and_different (st : Guarded K) (op : GuardedOp K) (k : K) (v0 t0 v1 t1 : Nat)
    (h : find k st = some (v0, t0)) (h' : find k (Guarded.step st op) = some (v1, t1)) :
    (v1, t1) = (v0, t0) ∨ (t0 < t1 ∧ v0 ≠ v1 ∧ op = .set k v1 t1) := by
  cases op with
  | set k2 v t =>
    simp only [Guarded.step, Guarded.set] at h'
    cases hf : find k2 st with
    | none =>
      simp only [hf] at h'
      rw [find_put] at h'
      by_cases hk : k = k2
      · subst hk; rw [hf] at h; cases h
      · simp only [hk, if_false] at h'
        rw [h] at h'; cases h'; exact Or.inl rfl
    | some r =>
      obtain ⟨v0', t0'⟩ := r
      simp only [hf] at h'
      by_cases hg : t0' < t ∧ v0' ≠ v
      · rw [if_pos hg] at h'
        simp only at h'
        rw [find_put] at h'
        by_cases hk : k = k2
        · subst hk
          rw [hf] at h; cases h
          simp only [if_true, Option.some.injEq, Prod.mk.injEq] at h'
          obtain ⟨rfl, rfl⟩ := h'
          exact Or.inr ⟨hg.1, hg.2, rfl⟩
        · simp only [hk, if_false] at h'
          rw [h] at h'; cases h'; exact Or.inl rfl
      · rw [if_neg hg] at h'
        simp only at h'
        rw [h] at h'; cases h'; exact Or.inl rfl
  | delete k2 =>
    simp only [Guarded.step, Guarded.delete] at h'
    rw [find_del] at h'
    by_cases hk : k = k2
    · simp [hk] at h'
    · simp only [hk, if_false] at h'
      rw [h] at h'; cases h'; exact Or.inl rfl

/-- What `set` returns and stores: `true` (a row changed) iff the key was absent or the guard held, and
then the row is `(v, t)`; otherwise `false` and nothing changes. -/
theorem guarded_set_result (st : Guarded K) (k : K) (v t : Nat) :
    (match find k st with
     | none => (Guarded.set st k v t).2 = true ∧ find k (Guarded.set st k v t).1 = some (v, t)
     | some (v0, t0) =>
       ((t0 < t ∧ v0 ≠ v) → (Guarded.set st k v t).2 = true ∧ find k (Guarded.set st k v t).1 = some (v, t)) ∧
       (¬ (t0 < t ∧ v0 ≠ v) → Guarded.set st k v t = (st, false))) := by
  cases hf : find k st with
  | none => simp [Guarded.set, hf, find_put_self]
  | some r =>
    obtain ⟨v0, t0⟩ := r
    refine ⟨fun h => ?_, fun h => ?_⟩
    · simp [Guarded.set, hf, h, find_put_self]
    · simp [Guarded.set, hf, h]

/-- Other keys are never affected. -/
theorem guarded_step_other (st : Guarded K) (op : GuardedOp K) (k : K)
    (hne : match op with
      | .set k2 _ _ => k ≠ k2
      | .delete k2 => k ≠ k2) : find k (Guarded.step st op) = find k st := by
  cases op with
  | set k2 v t =>
    simp only at hne
    simp only [Guarded.step, Guarded.set]
    cases hf : find k2 st with
    | none => simp [find_put, hne]
    | some r =>
      obtain ⟨v0, t0⟩ := r
      by_cases hg : t0 < t ∧ v0 ≠ v
      · simp [hg, find_put, hne]
      · simp [hg]
  | delete k2 =>
    simp only at hne
    simp [Guarded.step, Guarded.delete, find_del, hne]

end Guarded

/-- **C24, `repo-sync-status`.** -/
theorem sync_strictly_newer_and_different (st : SyncStatus) (op : GuardedOp (Nat × Nat)) (k : Nat × Nat)
    (h0 t0 h1 t1 : Nat) (h : find k st = some (h0, t0)) (h' : find k (Guarded.step st op) = some (h1, t1)) :
    (h1, t1) = (h0, t0) ∨ (t0 < t1 ∧ h0 ≠ h1 ∧ op = .set k h1 t1) :=
  guarded_strictly_newer_and_different st op k h0 t0 h1 t1 h h'

/-- **C24, `refs`.** -/
theorem refs_strictly_newer_and_different (st : RefsDb) (op : GuardedOp (Nat × Nat × Nat)) (k : Nat × Nat × Nat)
    (o0 t0 o1 t1 : Nat) (h : find k st = some (o0, t0)) (h' : find k (Guarded.step st op) = some (o1, t1)) :
    (o1, t1) = (o0, t0) ∨ (t0 < t1 ∧ o0 ≠ o1 ∧ op = .set k o1 t1) :=
  guarded_strictly_newer_and_different st op k o0 t0 o1 t1 h h'

/-- Non-vacuity: newer + different is stored; newer + same value, and older/equal + different, are not. -/
example :
    let st : SyncStatus := [((1, 2), (10, 5))]
    Guarded.set st (1, 2) 11 6 = ([((1, 2), (11, 6))], true) ∧
    Guarded.set st (1, 2) 10 6 = (st, false) ∧
    Guarded.set st (1, 2) 11 5 = (st, false) ∧
    Guarded.set st (1, 3) 10 0 = ([((1, 2), (10, 5)), ((1, 3), (10, 0))], true) := by decide

/-! ## policies -/

/-- The row an operation on the `seeding` table addresses. -/
def POp.seedTarget : POp → Option Nat
  | .seed i _ => some i
  | .setSeedPolicy i _ => some i
  | .unseed i => some i
  | .unblockRid i => some i
  | _ => none

/-- The row an operation on the `following` table addresses. -/
def POp.followTarget : POp → Option Nat
  | .follow i _ => some i
  | .setFollowPolicy i _ => some i
  | .unfollow i => some i
  | .unblockNid i => some i
  | _ => none

/-- Rows not addressed by the operation are unchanged (`seeding`). -/
theorem policy_step_seeding_other (db : PolicyDb) (op : POp) (id : Nat) (h : op.seedTarget ≠ some id) :
    find id (db.step op).1.seeding = find id db.seeding := by
  cases op with
  | follow i a => simp only [PolicyDb.step]; split <;> (try split) <;> rfl
  | setFollowPolicy i p => simp only [PolicyDb.step]; split <;> (try split) <;> rfl
  | unfollow i => rfl
  | unblockNid i => simp only [PolicyDb.step]; split <;> rfl
  | seed i s =>
    have hne : id ≠ i := fun e => h (by simp [POp.seedTarget, e])
    simp only [PolicyDb.step]
    split
    · simp [find_put, hne]
    · split
      · simp [find_put, hne]
      · rfl
  | setSeedPolicy i p =>
    have hne : id ≠ i := fun e => h (by simp [POp.seedTarget, e])
    simp only [PolicyDb.step]
    split
    · simp [find_put, hne]
    · split
      · simp [find_put, hne]
      · rfl
  | unseed i =>
    have hne : id ≠ i := fun e => h (by simp [POp.seedTarget, e])
    simp [PolicyDb.step, find_del, hne]
  | unblockRid i =>
    have hne : id ≠ i := fun e => h (by simp [POp.seedTarget, e])
    simp only [PolicyDb.step]
    split
    · simp [find_del, hne]
    · rfl

/-- Rows not addressed by the operation are unchanged (`following`). -/
theorem policy_step_following_other (db : PolicyDb) (op : POp) (id : Nat) (h : op.followTarget ≠ some id) :
    find id (db.step op).1.following = find id db.following := by
  cases op with
  | seed i a => simp only [PolicyDb.step]; split <;> (try split) <;> rfl
  | setSeedPolicy i p => simp only [PolicyDb.step]; split <;> (try split) <;> rfl
  | unseed i => rfl
  | unblockRid i => simp only [PolicyDb.step]; split <;> rfl
  | follow i s =>
    have hne : id ≠ i := fun e => h (by simp [POp.followTarget, e])
    simp only [PolicyDb.step]
    split
    · simp [find_put, hne]
    · split
      · simp [find_put, hne]
      · rfl
  | setFollowPolicy i p =>
    have hne : id ≠ i := fun e => h (by simp [POp.followTarget, e])
    simp only [PolicyDb.step]
    split
    · simp [find_put, hne]
    · split
      · simp [find_put, hne]
      · rfl
  | unfollow i =>
    have hne : id ≠ i := fun e => h (by simp [POp.followTarget, e])
    simp [PolicyDb.step, find_del, hne]
  | unblockNid i =>
    have hne : id ≠ i := fun e => h (by simp [POp.followTarget, e])
    simp only [PolicyDb.step]
    split
    · simp [find_del, hne]
    · rfl

theorem seed_row (db : PolicyDb) (id : Nat) (s : Scope) :
    find id (db.step (.seed id s)).1.seeding =
      some (match find id db.seeding with
        | none => ⟨s, .allow⟩
        | some r => { r with scope := s }) := by
  simp only [PolicyDb.step]
  cases hf : find id db.seeding with
  | none => simp [find_put_self]
  | some r =>
    by_cases hs : r.scope = s
    · simp only [hs, ne_eq, not_true_eq_false, if_false, hf]
      subst hs; rfl
    · simp [hs, find_put_self]

theorem setSeedPolicy_row (db : PolicyDb) (id : Nat) (p : Policy) :
    find id (db.step (.setSeedPolicy id p)).1.seeding =
      some (match find id db.seeding with
        | none => ⟨.followed, p⟩
        | some r => { r with policy := p }) := by
  simp only [PolicyDb.step]
  cases hf : find id db.seeding with
  | none => simp [find_put_self]
  | some r =>
    by_cases hs : r.policy = p
    · simp only [hs, ne_eq, not_true_eq_false, if_false, hf]
      subst hs; rfl
    · simp [hs, find_put_self]

theorem follow_row (db : PolicyDb) (id a : Nat) :
    find id (db.step (.follow id a)).1.following =
      some (match find id db.following with
        | none => ⟨a, .allow⟩
        | some r => { r with alias := a }) := by
  simp only [PolicyDb.step]
  cases hf : find id db.following with
  | none => simp [find_put_self]
  | some r =>
    by_cases hs : r.alias = a
    · simp only [hs, ne_eq, not_true_eq_false, if_false, hf]
      subst hs; rfl
    · simp [hs, find_put_self]

theorem setFollowPolicy_row (db : PolicyDb) (id : Nat) (p : Policy) :
    find id (db.step (.setFollowPolicy id p)).1.following =
      some (match find id db.following with
        | none => ⟨0, p⟩
        | some r => { r with policy := p }) := by
  simp only [PolicyDb.step]
  cases hf : find id db.following with
  | none => simp [find_put_self]
  | some r =>
    by_cases hs : r.policy = p
    · simp only [hs, ne_eq, not_true_eq_false, if_false, hf]
      subst hs; rfl
    · simp [hs, find_put_self]

/-- **C24, policies reflect the last write — per column.** `seed(id, scope)` writes the `scope` column (and
`policy = allow` only when it creates the row); `set_seed_policy(id, p)` writes the `policy` column (and
`scope = followed` only when it creates the row); likewise `follow` writes `alias`, `set_follow_policy`
writes `policy`. Nothing else in the row, no other row and not the other table is touched. -/
theorem policy_last_write_per_column (db : PolicyDb) (id : Nat) :
    (∀ s, ∃ r, find id (db.step (.seed id s)).1.seeding = some r ∧ r.scope = s ∧
        r.policy = (match find id db.seeding with
          | none => .allow
          | some r0 => r0.policy)) ∧
    (∀ p, ∃ r, find id (db.step (.setSeedPolicy id p)).1.seeding = some r ∧ r.policy = p ∧
        r.scope = (match find id db.seeding with
          | none => .followed
          | some r0 => r0.scope)) ∧
    (∀ a, ∃ r, find id (db.step (.follow id a)).1.following = some r ∧ r.alias = a ∧
        r.policy = (match find id db.following with
          | none => .allow
          | some r0 => r0.policy)) ∧
    (∀ p, ∃ r, find id (db.step (.setFollowPolicy id p)).1.following = some r ∧ r.policy = p ∧
        r.alias = (match find id db.following with
          | none => 0
          | some r0 => r0.alias)) ∧
    (∀ op id', op.seedTarget ≠ some id' → find id' (db.step op).1.seeding = find id' db.seeding) ∧
    (∀ op id', op.followTarget ≠ some id' → find id' (db.step op).1.following = find id' db.following) := by
  refine ⟨fun s => ?_, fun p => ?_, fun a => ?_, fun p => ?_,
    fun op id' h => policy_step_seeding_other db op id' h,
    fun op id' h => policy_step_following_other db op id' h⟩
  · rw [seed_row]; cases find id db.seeding <;> exact ⟨_, rfl, rfl, rfl⟩
  · rw [setSeedPolicy_row]; cases find id db.seeding <;> exact ⟨_, rfl, rfl, rfl⟩
  · rw [follow_row]; cases find id db.following <;> exact ⟨_, rfl, rfl, rfl⟩
  · rw [setFollowPolicy_row]; cases find id db.following <;> exact ⟨_, rfl, rfl, rfl⟩

/-- Operations that write (or delete) the `scope` column of row `id`. -/
def POp.writesScope (id : Nat) : POp → Bool
  | .seed i _ => i == id
  | .unseed i => i == id
  | .unblockRid i => i == id
  | _ => false

/-- Operations that write (or delete) the `policy` column of `seeding` row `id`. -/
def POp.writesSeedPolicy (id : Nat) : POp → Bool
  | .setSeedPolicy i _ => i == id
  | .unseed i => i == id
  | .unblockRid i => i == id
  | _ => false

def POp.writesAlias (id : Nat) : POp → Bool
  | .follow i _ => i == id
  | .unfollow i => i == id
  | .unblockNid i => i == id
  | _ => false

def POp.writesFollowPolicy (id : Nat) : POp → Bool
  | .setFollowPolicy i _ => i == id
  | .unfollow i => i == id
  | .unblockNid i => i == id
  | _ => false

theorem scope_preserved (db : PolicyDb) (op : POp) (id : Nat) (r : SeedRow)
    (hw : op.writesScope id = false) (h : find id db.seeding = some r) :
    ∃ r', find id (db.step op).1.seeding = some r' ∧ r'.scope = r.scope := by
  by_cases ht : op.seedTarget = some id
  · cases op with
    | setSeedPolicy i p =>
      simp only [POp.seedTarget, Option.some.injEq] at ht
      subst ht
      rw [setSeedPolicy_row, h]
      exact ⟨_, rfl, rfl⟩
    | seed i s => simp only [POp.seedTarget, Option.some.injEq] at ht; simp [POp.writesScope, ht] at hw
    | unseed i => simp only [POp.seedTarget, Option.some.injEq] at ht; simp [POp.writesScope, ht] at hw
    | unblockRid i => simp only [POp.seedTarget, Option.some.injEq] at ht; simp [POp.writesScope, ht] at hw
    | follow i a => simp [POp.seedTarget] at ht
    | setFollowPolicy i p => simp [POp.seedTarget] at ht
    | unfollow i => simp [POp.seedTarget] at ht
    | unblockNid i => simp [POp.seedTarget] at ht
  · exact ⟨r, by rw [policy_step_seeding_other db op id ht]; exact h, rfl⟩

theorem seedPolicy_preserved (db : PolicyDb) (op : POp) (id : Nat) (r : SeedRow)
    (hw : op.writesSeedPolicy id = false) (h : find id db.seeding = some r) :
    ∃ r', find id (db.step op).1.seeding = some r' ∧ r'.policy = r.policy := by
  by_cases ht : op.seedTarget = some id
  · cases op with
    | seed i s =>
      simp only [POp.seedTarget, Option.some.injEq] at ht
      subst ht
      rw [seed_row, h]
      exact ⟨_, rfl, rfl⟩
    | setSeedPolicy i p => simp only [POp.seedTarget, Option.some.injEq] at ht; simp [POp.writesSeedPolicy, ht] at hw
    | unseed i => simp only [POp.seedTarget, Option.some.injEq] at ht; simp [POp.writesSeedPolicy, ht] at hw
    | unblockRid i => simp only [POp.seedTarget, Option.some.injEq] at ht; simp [POp.writesSeedPolicy, ht] at hw
    | follow i a => simp [POp.seedTarget] at ht
    | setFollowPolicy i p => simp [POp.seedTarget] at ht
    | unfollow i => simp [POp.seedTarget] at ht
    | unblockNid i => simp [POp.seedTarget] at ht
  · exact ⟨r, by rw [policy_step_seeding_other db op id ht]; exact h, rfl⟩

theorem alias_preserved (db : PolicyDb) (op : POp) (id : Nat) (r : FollowRow)
    (hw : op.writesAlias id = false) (h : find id db.following = some r) :
    ∃ r', find id (db.step op).1.following = some r' ∧ r'.alias = r.alias := by
  by_cases ht : op.followTarget = some id
  · cases op with
    | setFollowPolicy i p =>
      simp only [POp.followTarget, Option.some.injEq] at ht
      subst ht
      rw [setFollowPolicy_row, h]
      exact ⟨_, rfl, rfl⟩
    | follow i s => simp only [POp.followTarget, Option.some.injEq] at ht; simp [POp.writesAlias, ht] at hw
    | unfollow i => simp only [POp.followTarget, Option.some.injEq] at ht; simp [POp.writesAlias, ht] at hw
    | unblockNid i => simp only [POp.followTarget, Option.some.injEq] at ht; simp [POp.writesAlias, ht] at hw
    | seed i a => simp [POp.followTarget] at ht
    | setSeedPolicy i p => simp [POp.followTarget] at ht
    | unseed i => simp [POp.followTarget] at ht
    | unblockRid i => simp [POp.followTarget] at ht
  · exact ⟨r, by rw [policy_step_following_other db op id ht]; exact h, rfl⟩

theorem followPolicy_preserved (db : PolicyDb) (op : POp) (id : Nat) (r : FollowRow)
    (hw : op.writesFollowPolicy id = false) (h : find id db.following = some r) :
    ∃ r', find id (db.step op).1.following = some r' ∧ r'.policy = r.policy := by
  by_cases ht : op.followTarget = some id
  · cases op with
    | follow i s =>
      simp only [POp.followTarget, Option.some.injEq] at ht
      subst ht
      rw [follow_row, h]
      exact ⟨_, rfl, rfl⟩
    | setFollowPolicy i p => simp only [POp.followTarget, Option.some.injEq] at ht; simp [POp.writesFollowPolicy, ht] at hw
    | unfollow i => simp only [POp.followTarget, Option.some.injEq] at ht; simp [POp.writesFollowPolicy, ht] at hw
    | unblockNid i => simp only [POp.followTarget, Option.some.injEq] at ht; simp [POp.writesFollowPolicy, ht] at hw
    | seed i a => simp [POp.followTarget] at ht
    | setSeedPolicy i p => simp [POp.followTarget] at ht
    | unseed i => simp [POp.followTarget] at ht
    | unblockRid i => simp [POp.followTarget] at ht
  · exact ⟨r, by rw [policy_step_following_other db op id ht]; exact h, rfl⟩

/-- Generic history argument: a column value established by one write survives any suffix of operations
that do not write that column. -/
theorem column_survives {R : Type} (tbl : PolicyDb → List (Nat × R)) (col : R → α) (w : POp → Bool)
    (id : Nat)
    (hpres : ∀ (db : PolicyDb) (op : POp) (r : R), w op = false → find id (tbl db) = some r →
      ∃ r', find id (tbl (db.step op).1) = some r' ∧ col r' = col r)
    (post : List POp) (hpost : ∀ op ∈ post, w op = false) (db : PolicyDb) (r : R)
    (h : find id (tbl db) = some r) :
    ∃ r', find id (tbl (PolicyDb.run db post)) = some r' ∧ col r' = col r := by
  induction post generalizing db r with
  | nil => exact ⟨r, h, rfl⟩
  | cons op ops ih =>
    obtain ⟨r1, h1, hc1⟩ := hpres db op r (hpost op (by simp)) h
    obtain ⟨r2, h2, hc2⟩ := ih (fun o ho => hpost o (by simp [ho])) (db.step op).1 r1 h1
    exact ⟨r2, by simpa [PolicyDb.run] using h2, hc2.trans hc1⟩

theorem PolicyDb.run_append (db : PolicyDb) (a b : List POp) :
    PolicyDb.run db (a ++ b) = PolicyDb.run (PolicyDb.run db a) b := by
  simp [PolicyDb.run, List.foldl_append]

/-- **History form, `seeding.scope`.** After any history, the scope of `id` is the one given by the last
`seed(id, _)`, provided the row was not deleted since. -/
theorem seed_scope_is_last_write (db : PolicyDb) (pre post : List POp) (id : Nat) (s : Scope)
    (hpost : ∀ op ∈ post, op.writesScope id = false) :
    ∃ r, find id (PolicyDb.run db (pre ++ [.seed id s] ++ post)).seeding = some r ∧ r.scope = s := by
  rw [PolicyDb.run_append, PolicyDb.run_append]
  obtain ⟨r, hr, hs, _⟩ := (policy_last_write_per_column (PolicyDb.run db pre) id).1 s
  obtain ⟨r', h', hc⟩ := column_survives (·.seeding) (·.scope) (POp.writesScope id) id
    (fun db op r hw h => scope_preserved db op id r hw h) post hpost
    (PolicyDb.run (PolicyDb.run db pre) [.seed id s]) r (by simpa [PolicyDb.run] using hr)
  exact ⟨r', h', hc.trans hs⟩

/-- **History form, `seeding.policy`.** -/
theorem seed_policy_is_last_write (db : PolicyDb) (pre post : List POp) (id : Nat) (p : Policy)
    (hpost : ∀ op ∈ post, op.writesSeedPolicy id = false) :
    ∃ r, find id (PolicyDb.run db (pre ++ [.setSeedPolicy id p] ++ post)).seeding = some r ∧ r.policy = p := by
  rw [PolicyDb.run_append, PolicyDb.run_append]
  obtain ⟨r, hr, hs, _⟩ := (policy_last_write_per_column (PolicyDb.run db pre) id).2.1 p
  obtain ⟨r', h', hc⟩ := column_survives (·.seeding) (·.policy) (POp.writesSeedPolicy id) id
    (fun db op r hw h => seedPolicy_preserved db op id r hw h) post hpost
    (PolicyDb.run (PolicyDb.run db pre) [.setSeedPolicy id p]) r (by simpa [PolicyDb.run] using hr)
  exact ⟨r', h', hc.trans hs⟩

/-- **History form, `following.alias`.** -/
theorem follow_alias_is_last_write (db : PolicyDb) (pre post : List POp) (id a : Nat)
    (hpost : ∀ op ∈ post, op.writesAlias id = false) :
    ∃ r, find id (PolicyDb.run db (pre ++ [.follow id a] ++ post)).following = some r ∧ r.alias = a := by
  rw [PolicyDb.run_append, PolicyDb.run_append]
  obtain ⟨r, hr, hs, _⟩ := (policy_last_write_per_column (PolicyDb.run db pre) id).2.2.1 a
  obtain ⟨r', h', hc⟩ := column_survives (·.following) (·.alias) (POp.writesAlias id) id
    (fun db op r hw h => alias_preserved db op id r hw h) post hpost
    (PolicyDb.run (PolicyDb.run db pre) [.follow id a]) r (by simpa [PolicyDb.run] using hr)
  exact ⟨r', h', hc.trans hs⟩

/-- **History form, `following.policy`.** -/
theorem follow_policy_is_last_write (db : PolicyDb) (pre post : List POp) (id : Nat) (p : Policy)
    (hpost : ∀ op ∈ post, op.writesFollowPolicy id = false) :
    ∃ r, find id (PolicyDb.run db (pre ++ [.setFollowPolicy id p] ++ post)).following = some r ∧ r.policy = p := by
  rw [PolicyDb.run_append, PolicyDb.run_append]
  obtain ⟨r, hr, hs, _⟩ := (policy_last_write_per_column (PolicyDb.run db pre) id).2.2.2.1 p
  obtain ⟨r', h', hc⟩ := column_survives (·.following) (·.policy) (POp.writesFollowPolicy id) id
    (fun db op r hw h => followPolicy_preserved db op id r hw h) post hpost
    (PolicyDb.run (PolicyDb.run db pre) [.setFollowPolicy id p]) r (by simpa [PolicyDb.run] using hr)
  exact ⟨r', h', hc.trans hs⟩

/-- Non-vacuity and the reading fixed in DESIGN.md: `seed` after `block` keeps `policy = block` (the scope
column is written, the policy column is not), and a later `allow` reveals the scope written meanwhile. -/
example :
    let db0 : PolicyDb := ⟨[], []⟩
    let db1 := PolicyDb.run db0 [.setSeedPolicy 1 .block, .seed 1 .all]
    db1.seedPolicy 1 = some .block ∧
    (PolicyDb.run db1 [.setSeedPolicy 1 .allow]).seedPolicy 1 = some (.allow .all) ∧
    (PolicyDb.run db0 [.seed 2 .all, .unblockRid 2]).seedPolicy 2 = some (.allow .all) ∧
    (PolicyDb.run db0 [.setFollowPolicy 3 .block, .follow 3 9, .unblockNid 3]).followPolicy 3 = none := by
  decide

/-! ## gossip store -/

theorem Gossip.rowid_lt_next (st : Gossip) : ∀ e ∈ st, e.2.rowid < Gossip.nextRowid st := by
  have key : ∀ (l : Gossip) (m : Nat), m ≤ l.foldl (fun m e => max m e.2.rowid) m ∧
      ∀ e ∈ l, e.2.rowid ≤ l.foldl (fun m e => max m e.2.rowid) m := by
    intro l
    induction l with
    | nil => intro m; exact ⟨Nat.le_refl _, fun e he => by cases he⟩
    | cons hd tl ih =>
      intro m
      simp only [List.foldl_cons]
      obtain ⟨h1, h2⟩ := ih (max m hd.2.rowid)
      refine ⟨Nat.le_trans (Nat.le_max_left _ _) h1, ?_⟩
      intro e he
      rcases List.mem_cons.mp he with rfl | he
      · exact Nat.le_trans (Nat.le_max_right _ _) h1
      · exact h2 e he
  intro e he
  unfold Gossip.nextRowid
  exact Nat.lt_succ_of_le ((key st 0).2 e he)

/-- Every operation keeps the `unique (node, repo, type)` invariant. -/
theorem gossip_step_wf (st st' : Gossip) (op : GOp) (out : GOut) (hwf : WF st)
    (h : Gossip.step st op = some (st', out)) : WF st' := by
  cases op with
  | announced key p ts =>
    simp only [Gossip.step] at h
    split at h
    · cases h
    · split at h
      · simp only [Option.some.injEq, Prod.mk.injEq] at h
        rw [← h.1]; exact hwf.put _ _
      · split at h
        · simp only [Option.some.injEq, Prod.mk.injEq] at h
          rw [← h.1]; exact hwf.put _ _
        · simp only [Option.some.injEq, Prod.mk.injEq] at h
          rw [← h.1]; exact hwf
  | setRelay id r =>
    simp only [Gossip.step, Option.some.injEq, Prod.mk.injEq] at h
    rw [← h.1]
    exact hwf.map_val (fun e => if e.2.rowid = id then { e.2 with relay := r } else e.2)
  | relays now =>
    simp only [Gossip.step, Option.some.injEq, Prod.mk.injEq] at h
    rw [← h.1]
    exact hwf.map_val (fun e => if e.2.relay = .relay then { e.2 with relay := .relayedAt now } else e.2)
  | prune cutoff =>
    simp only [Gossip.step, Option.some.injEq, Prod.mk.injEq] at h
    rw [← h.1]
    exact hwf.filter _

/-- **C24, a stored announcement is replaced only by a strictly newer one of the same kind.** For every
operation: a row that exists before and after keeps its rowid, and either keeps its message and timestamp
or was overwritten by `announced` for the *same* `(node, repo, type)` with a strictly greater timestamp. -/
theorem gossip_replaced_only_by_newer (st st' : Gossip) (op : GOp) (out : GOut) (key : GKey) (r r' : GRow)
    (hwf : WF st) (hstep : Gossip.step st op = some (st', out))
    (h : find key st = some r) (h' : find key st' = some r') :
    r'.rowid = r.rowid ∧
    ((r'.payload = r.payload ∧ r'.ts = r.ts) ∨ (r.ts < r'.ts ∧ op = .announced key r'.payload r'.ts)) := by
  cases op with
  | announced k2 p ts =>
    simp only [Gossip.step] at hstep
    split at hstep
    · cases hstep
    · cases hf : find k2 st with
      | none =>
        simp only [hf, Option.some.injEq, Prod.mk.injEq] at hstep
        rw [← hstep.1, find_put] at h'
        by_cases hk : key = k2
        · subst hk; rw [hf] at h; cases h
        · simp only [hk, if_false] at h'
          rw [h] at h'; cases h'; exact ⟨rfl, Or.inl ⟨rfl, rfl⟩⟩
      | some r2 =>
        simp only [hf] at hstep
        split at hstep
        · rename_i hlt
          simp only [Option.some.injEq, Prod.mk.injEq] at hstep
          rw [← hstep.1, find_put] at h'
          by_cases hk : key = k2
          · subst hk
            rw [hf] at h; cases h
            simp only [if_true, Option.some.injEq] at h'
            subst h'
            exact ⟨rfl, Or.inr ⟨hlt, rfl⟩⟩
          · simp only [hk, if_false] at h'
            rw [h] at h'; cases h'; exact ⟨rfl, Or.inl ⟨rfl, rfl⟩⟩
        · simp only [Option.some.injEq, Prod.mk.injEq] at hstep
          rw [← hstep.1, h] at h'; cases h'; exact ⟨rfl, Or.inl ⟨rfl, rfl⟩⟩
  | setRelay id rl =>
    simp only [Gossip.step, Option.some.injEq, Prod.mk.injEq] at hstep
    rw [← hstep.1] at h'
    have := find_map_val (fun e : GKey × GRow => if e.2.rowid = id then { e.2 with relay := rl } else e.2) key st
    rw [this, h] at h'
    simp only [Option.map_some, Option.some.injEq] at h'
    subst h'
    split <;> exact ⟨rfl, Or.inl ⟨rfl, rfl⟩⟩
  | relays now =>
    simp only [Gossip.step, Option.some.injEq, Prod.mk.injEq] at hstep
    rw [← hstep.1] at h'
    have := find_map_val
      (fun e : GKey × GRow => if e.2.relay = .relay then { e.2 with relay := .relayedAt now } else e.2) key st
    rw [this, h] at h'
    simp only [Option.map_some, Option.some.injEq] at h'
    subst h'
    split <;> exact ⟨rfl, Or.inl ⟨rfl, rfl⟩⟩
  | prune cutoff =>
    simp only [Gossip.step, Option.some.injEq, Prod.mk.injEq] at hstep
    rw [← hstep.1, find_filter_wf _ key r st hwf h] at h'
    split at h'
    · cases h'; exact ⟨rfl, Or.inl ⟨rfl, rfl⟩⟩
    · cases h'

/-- A new `(node, repo, type)` is stored as given, not to be relayed, under a fresh rowid. -/
theorem gossip_announced_fresh (st : Gossip) (key : GKey) (p ts : Nat) (hts : ts ≠ 0)
    (h : find key st = none) :
    Gossip.step st (.announced key p ts) =
      some (put key ⟨Gossip.nextRowid st, p, ts, .dontRelay⟩ st, .id (some (Gossip.nextRowid st))) ∧
    ∀ e ∈ st, e.2.rowid < Gossip.nextRowid st := by
  refine ⟨by simp [Gossip.step, hts, h], Gossip.rowid_lt_next st⟩

/-- An announcement that is not strictly newer than the stored one of the same kind changes nothing and
reports `None`. -/
theorem gossip_not_newer_ignored (st : Gossip) (key : GKey) (p ts : Nat) (r : GRow) (hts : ts ≠ 0)
    (h : find key st = some r) (hle : ts ≤ r.ts) :
    Gossip.step st (.announced key p ts) = some (st, .id none) := by
  have : ¬ r.ts < ts := Nat.not_lt.mpr hle
  simp [Gossip.step, hts, h, this]

/-- `announced` asserts a non-zero timestamp: the zero timestamp is the only panic of the store. -/
theorem gossip_zero_timestamp_panics (st : Gossip) (op : GOp) :
    Gossip.step st op = none ↔ ∃ key p, op = .announced key p 0 := by
  cases op with
  | announced key p ts =>
    by_cases hts : ts = 0
    · subst hts; simp [Gossip.step]
    · simp only [Gossip.step, hts, if_false]
      constructor
      · intro h
        split at h
        · cases h
        · split at h <;> cases h
      · rintro ⟨k, p', he⟩
        cases he
        exact absurd rfl hts
  | setRelay id r => simp [Gossip.step]
  | relays now => simp [Gossip.step]
  | prune cutoff => simp [Gossip.step]

/-- Non-vacuity: same node, three kinds; an older refs announcement is ignored, a newer one replaces in
place, another repository is another row, pruning removes by timestamp. -/
example :
    let run := fun (st : Gossip) (op : GOp) => (Gossip.step st op).map (·.1)
    let st1 := (run [] (.announced (1, 0, 1) 100 5)).bind (run · (.announced (1, 0, 0) 101 5))
      |>.bind (run · (.announced (1, 9, 2) 102 5))
    st1 = some [((1, 0, 1), ⟨1, 100, 5, .dontRelay⟩), ((1, 0, 0), ⟨2, 101, 5, .dontRelay⟩),
      ((1, 9, 2), ⟨3, 102, 5, .dontRelay⟩)] ∧
    (st1.bind (Gossip.step · (.announced (1, 9, 2) 103 5))).map (·.2 matches .id none) = some true ∧
    (st1.bind (run · (.announced (1, 9, 2) 103 6))).map (find (1, 9, 2)) = some (some ⟨3, 103, 6, .dontRelay⟩) ∧
    (st1.bind (run · (.prune 6))) = some [] ∧
    Gossip.step [] (.announced (1, 0, 1) 100 0) = none := by decide

end HeartwoodModel.Stores
