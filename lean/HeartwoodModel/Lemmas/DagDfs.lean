import HeartwoodModel.Lemmas.DagBasic
/-!
# The depth-first traversal `dfs` (`visit` / `visit_by` of radicle-dag)

Generic in the successor function `next`. Correctness (`dfs_post`: reverse post-order is topological
for an acyclic successor relation), no junk (`dfs_sound`), independence from fuel (`dfs_mono`,
`dfs_det`), fuel sufficiency (`dfs_fuel`), and commutation with the restriction to a set whose
complement is closed under `next` (`dfs_filter`, used by C06).
-/
set_option linter.unusedSimpArgs false
set_option linter.unusedVariables false
namespace HeartwoodModel.Dag

section
variable (next : K → List K)

/-- Reachability by one or more `next` steps. -/
inductive Reach : K → K → Prop
  | step {u v} : v ∈ next u → Reach u v
  | trans {u v w} : v ∈ next u → Reach v w → Reach u w

variable {next}

theorem Reach.snoc {u v w : K} (h : Reach next u v) (e : w ∈ next v) : Reach next u w := by
  induction h with
  | step e' => exact .trans e' (.step e)
  | trans e' _ ih => exact .trans e' (ih e)

theorem Reach.append {u v w : K} (h : Reach next u v) (h' : Reach next v w) : Reach next u w := by
  induction h with
  | step e' => exact .trans e' h'
  | trans e' _ ih => exact .trans e' (ih h')

theorem Reach.mono {next' : K → List K} (hsub : ∀ u v, v ∈ next u → v ∈ next' u) {u v : K}
    (h : Reach next u v) : Reach next' u v := by
  induction h with
  | step e => exact .step (hsub _ _ e)
  | trans e _ ih => exact .trans (hsub _ _ e) ih

/-- last step of a path -/
theorem Reach.last {u w : K} (h : Reach next u w) : ∃ v, (v = u ∨ Reach next u v) ∧ w ∈ next v := by
  induction h with
  | step e => exact ⟨_, .inl rfl, e⟩
  | trans e _ ih =>
    obtain ⟨x, hx, hw⟩ := ih
    rcases hx with rfl | hx
    · exact ⟨_, .inr (.step e), hw⟩
    · exact ⟨x, .inr (.trans e hx), hw⟩

variable (next)
def Acyclic : Prop := ∀ u, ¬ Reach next u u
variable {next}

/-- `u` occurs strictly before `v` in `l`. -/
def Before (l : List K) (u v : K) : Prop := ∃ l1 l2, l = l1 ++ u :: l2 ∧ v ∈ l2

theorem Before.cons {l : List K} {u v : K} (k : K) (h : Before l u v) : Before (k :: l) u v := by
  obtain ⟨l1, l2, rfl, hv⟩ := h
  exact ⟨k :: l1, l2, rfl, hv⟩

theorem Before.head {l : List K} {k v : K} (h : v ∈ l) : Before (k :: l) k v :=
  ⟨[], l, rfl, h⟩

theorem Before.mem_left {l : List K} {u v : K} (h : Before l u v) : u ∈ l := by
  obtain ⟨l1, l2, rfl, _⟩ := h; simp

theorem Before.mem_right {l : List K} {u v : K} (h : Before l u v) : v ∈ l := by
  obtain ⟨l1, l2, rfl, hv⟩ := h; simp [hv]

theorem Before.ne_of_nodup {l : List K} {u v : K} (hn : l.Nodup) (h : Before l u v) : u ≠ v := by
  obtain ⟨l1, l2, rfl, hv⟩ := h
  rintro rfl
  have := (List.nodup_append.mp hn).2.1
  exact (List.nodup_cons.mp this).1 hv

/-- In a duplicate-free list `Before` is asymmetric. -/
theorem Before.asymm {l : List K} {u v : K} (hn : l.Nodup) (h : Before l u v) : ¬ Before l v u := by
  obtain ⟨l1, l2, rfl, hv⟩ := h
  rintro ⟨m1, m2, heq, hu⟩
  -- v ∈ l2; u ∈ m2 where the list is m1 ++ v :: m2
  induction l1 generalizing m1 with
  | nil =>
    cases m1 with
    | nil =>
      simp at heq
      obtain ⟨rfl, rfl⟩ := heq
      exact (List.nodup_cons.mp hn).1 hv
    | cons a m1 =>
      simp at heq
      obtain ⟨rfl, rfl⟩ := heq
      have := (List.nodup_cons.mp hn).1
      exact this (by simp [hu])
  | cons a l1 ih =>
    cases m1 with
    | nil =>
      simp at heq
      obtain ⟨rfl, rfl⟩ := heq
      have := (List.nodup_cons.mp hn).1
      exact this (by simp [hv])
    | cons b m1 =>
      simp at heq
      obtain ⟨rfl, heq⟩ := heq
      exact ih (List.nodup_cons.mp hn).2 m1 heq

theorem Before.filter {l : List K} {u v : K} (p : K → Bool) (h : Before l u v) (hu : p u = true)
    (hv : p v = true) : Before (l.filter p) u v := by
  obtain ⟨l1, l2, rfl, hv'⟩ := h
  refine ⟨l1.filter p, l2.filter p, ?_, List.mem_filter.mpr ⟨hv', hv⟩⟩
  simp [List.filter_append, List.filter_cons, hu]

/-! ### correctness -/

/-- Invariant on a (visited, order) state: finished (black) nodes are closed under edges and ordered. -/
structure Inv (next : K → List K) (vis ord : List K) : Prop where
  sub : ∀ x, x ∈ ord → x ∈ vis
  nodup : ord.Nodup
  closed : ∀ u, u ∈ ord → ∀ v, v ∈ next u → Before ord u v

/-- Post-condition of a `dfs` call. -/
structure Post (next : K → List K) (ks vis ord vis' ord' : List K) : Prop where
  inv : Inv next vis' ord'
  mono : ∀ x, x ∈ vis → x ∈ vis'
  gray : ∀ x, (x ∈ vis' ∧ x ∉ ord') ↔ (x ∈ vis ∧ x ∉ ord)
  done : ∀ k, k ∈ ks → k ∈ ord'
  keep : ∀ x, x ∈ ord → x ∈ ord'
  /-- the old order is a suffix of the new one -/
  suffix : ∃ pre, ord' = pre ++ ord

theorem dfs_post (hac : Acyclic next) :
    ∀ (fuel : Nat) (ks vis ord vis' ord' : List K),
      Inv next vis ord →
      (∀ x, x ∈ vis → x ∉ ord → ∀ d, d ∈ ks → Reach next x d) →
      dfs next fuel ks (vis, ord) = some (vis', ord') →
      Post next ks vis ord vis' ord' := by
  intro fuel
  induction fuel with
  | zero => intro ks vis ord vis' ord' _ _ h; simp [dfs] at h
  | succ fuel ih =>
    intro ks vis ord vis' ord' hinv hgray h
    cases ks with
    | nil =>
      simp [dfs] at h
      obtain ⟨rfl, rfl⟩ := h
      exact ⟨hinv, fun _ hx => hx, fun _ => Iff.rfl, by simp, fun _ hx => hx, ⟨[], rfl⟩⟩
    | cons k ks =>
      simp only [dfs] at h
      by_cases hk : k ∈ vis
      · simp only [hk, if_true] at h
        have hkord : k ∈ ord := by
          by_cases hko : k ∈ ord
          · exact hko
          · exact absurd (hgray k hk hko k (by simp)) (hac k)
        have hp := ih ks vis ord vis' ord' hinv
          (fun x hx hxo d hd => hgray x hx hxo d (by simp [hd])) h
        refine ⟨hp.inv, hp.mono, hp.gray, ?_, hp.keep, hp.suffix⟩
        intro d hd
        rcases List.mem_cons.mp hd with rfl | hd
        · exact hp.keep _ hkord
        · exact hp.done d hd
      · simp only [hk, if_false] at h
        cases hsub : dfs next fuel (next k) (k :: vis, ord) with
        | none => simp [hsub] at h
        | some r =>
          obtain ⟨vis1, ord1⟩ := r
          simp only [hsub] at h
          have hkord : k ∉ ord := fun hko => hk (hinv.sub k hko)
          have hinv1 : Inv next (k :: vis) ord :=
            ⟨fun x hx => List.mem_cons_of_mem _ (hinv.sub x hx), hinv.nodup, hinv.closed⟩
          have hgray1 : ∀ x, x ∈ k :: vis → x ∉ ord → ∀ d, d ∈ next k → Reach next x d := by
            intro x hx hxo d hd
            rcases List.mem_cons.mp hx with rfl | hx
            · exact .step hd
            · exact (hgray x hx hxo k (by simp)).snoc hd
          have hp1 := ih _ _ _ _ _ hinv1 hgray1 hsub
          have hk1 : k ∈ vis1 ∧ k ∉ ord1 := (hp1.gray k).mpr ⟨by simp, hkord⟩
          have hinv2 : Inv next vis1 (k :: ord1) := by
            refine ⟨?_, ?_, ?_⟩
            · intro x hx
              rcases List.mem_cons.mp hx with rfl | hx
              · exact hk1.1
              · exact hp1.inv.sub x hx
            · exact List.nodup_cons.mpr ⟨hk1.2, hp1.inv.nodup⟩
            · intro u hu v huv
              rcases List.mem_cons.mp hu with rfl | hu
              · exact Before.head (hp1.done v huv)
              · exact (hp1.inv.closed u hu v huv).cons k
          have hgray2 : ∀ x, x ∈ vis1 → x ∉ k :: ord1 → ∀ d, d ∈ ks → Reach next x d := by
            intro x hx hxo d hd
            have hxo1 : x ∉ ord1 := fun h' => hxo (List.mem_cons_of_mem _ h')
            have hxk : x ≠ k := fun h' => hxo (by simp [h'])
            have := (hp1.gray x).mp ⟨hx, hxo1⟩
            rcases List.mem_cons.mp this.1 with rfl | hxv
            · exact absurd rfl hxk
            · exact hgray x hxv this.2 d (by simp [hd])
          have hp2 := ih ks vis1 (k :: ord1) vis' ord' hinv2 hgray2 h
          refine ⟨hp2.inv, ?_, ?_, ?_, ?_, ?_⟩
          · intro x hx
            exact hp2.mono x (hp1.mono x (List.mem_cons_of_mem _ hx))
          · intro x
            rw [hp2.gray x]
            constructor
            · rintro ⟨hx, hxo⟩
              have hxo1 : x ∉ ord1 := fun h' => hxo (List.mem_cons_of_mem _ h')
              have hxk : x ≠ k := fun h' => hxo (by simp [h'])
              have := (hp1.gray x).mp ⟨hx, hxo1⟩
              rcases List.mem_cons.mp this.1 with rfl | hxv
              · exact absurd rfl hxk
              · exact ⟨hxv, this.2⟩
            · rintro ⟨hx, hxo⟩
              have := (hp1.gray x).mpr ⟨List.mem_cons_of_mem _ hx, hxo⟩
              refine ⟨this.1, ?_⟩
              intro h'
              rcases List.mem_cons.mp h' with rfl | h'
              · exact hk hx
              · exact this.2 h'
          · intro d hd
            rcases List.mem_cons.mp hd with rfl | hd
            · exact hp2.keep _ (by simp)
            · exact hp2.done d hd
          · intro x hx
            exact hp2.keep x (List.mem_cons_of_mem _ (hp1.keep x hx))
          · obtain ⟨p1, hp1s⟩ := hp1.suffix
            obtain ⟨p2, hp2s⟩ := hp2.suffix
            exact ⟨p2 ++ k :: p1, by simp [hp2s, hp1s]⟩

/-- No junk: everything visited was already visited, or is one of the requested keys, or is
reachable from one of them. Needs no hypothesis. -/
theorem dfs_sound :
    ∀ (fuel : Nat) (ks vis ord vis' ord' : List K),
      dfs next fuel ks (vis, ord) = some (vis', ord') →
      (∀ x, x ∈ vis' → x ∈ vis ∨ ∃ k ∈ ks, x = k ∨ Reach next k x) ∧
      (∀ x, x ∈ ord' → x ∈ ord ∨ ∃ k ∈ ks, x = k ∨ Reach next k x) ∧
      (∀ x, x ∈ vis → x ∈ vis') := by
  intro fuel
  induction fuel with
  | zero => intro ks vis ord vis' ord' h; simp [dfs] at h
  | succ fuel ih =>
    intro ks vis ord vis' ord' h
    cases ks with
    | nil =>
      simp [dfs] at h
      obtain ⟨rfl, rfl⟩ := h
      exact ⟨fun _ hx => .inl hx, fun _ hx => .inl hx, fun _ hx => hx⟩
    | cons k ks =>
      simp only [dfs] at h
      by_cases hk : k ∈ vis
      · simp only [hk, if_true] at h
        obtain ⟨h1, h2, h3⟩ := ih _ _ _ _ _ h
        refine ⟨?_, ?_, h3⟩
        · intro x hx
          rcases h1 x hx with h | ⟨d, hd, h⟩
          · exact .inl h
          · exact .inr ⟨d, List.mem_cons_of_mem _ hd, h⟩
        · intro x hx
          rcases h2 x hx with h | ⟨d, hd, h⟩
          · exact .inl h
          · exact .inr ⟨d, List.mem_cons_of_mem _ hd, h⟩
      · simp only [hk, if_false] at h
        cases hsub : dfs next fuel (next k) (k :: vis, ord) with
        | none => simp [hsub] at h
        | some r =>
          obtain ⟨vis1, ord1⟩ := r
          simp only [hsub] at h
          obtain ⟨a1, a2, a3⟩ := ih _ _ _ _ _ hsub
          obtain ⟨b1, b2, b3⟩ := ih _ _ _ _ _ h
          have hdesc : ∀ x, (∃ d ∈ next k, x = d ∨ Reach next d x) → Reach next k x := by
            rintro x ⟨d, hd, rfl | hr⟩
            · exact .step hd
            · exact .trans hd hr
          refine ⟨?_, ?_, ?_⟩
          · intro x hx
            rcases b1 x hx with h | ⟨d, hd, h⟩
            · rcases a1 x h with h | h
              · rcases List.mem_cons.mp h with rfl | h
                · exact .inr ⟨x, by simp, .inl rfl⟩
                · exact .inl h
              · exact .inr ⟨k, by simp, .inr (hdesc x h)⟩
            · exact .inr ⟨d, List.mem_cons_of_mem _ hd, h⟩
          · intro x hx
            rcases b2 x hx with h | ⟨d, hd, h⟩
            · rcases List.mem_cons.mp h with rfl | h
              · exact .inr ⟨x, by simp, .inl rfl⟩
              · rcases a2 x h with h | h
                · exact .inl h
                · exact .inr ⟨k, by simp, .inr (hdesc x h)⟩
            · exact .inr ⟨d, List.mem_cons_of_mem _ hd, h⟩
          · intro x hx
            exact b3 x (a3 x (List.mem_cons_of_mem _ hx))

/-! ### fuel -/

theorem dfs_mono_succ : ∀ (fuel : Nat) (ks : List K) (st r : List K × List K),
    dfs next fuel ks st = some r → dfs next (fuel + 1) ks st = some r := by
  intro fuel
  induction fuel with
  | zero => intro ks st r h; simp [dfs] at h
  | succ fuel ih =>
    intro ks st r h
    obtain ⟨vis, ord⟩ := st
    cases ks with
    | nil => simpa [dfs] using h
    | cons k ks =>
      rw [dfs] at h
      rw [dfs]
      by_cases hk : k ∈ vis
      · simp only [hk, if_true] at h ⊢
        exact ih _ _ _ h
      · simp only [hk, if_false] at h ⊢
        cases hsub : dfs next fuel (next k) (k :: vis, ord) with
        | none => simp [hsub] at h
        | some r1 =>
          obtain ⟨vis1, ord1⟩ := r1
          simp only [hsub] at h
          rw [ih _ _ _ hsub]
          exact ih _ _ _ h

theorem dfs_mono {f f' : Nat} (hle : f ≤ f') {ks : List K} {st r : List K × List K}
    (h : dfs next f ks st = some r) : dfs next f' ks st = some r := by
  induction hle with
  | refl => exact h
  | step _ ih => exact dfs_mono_succ _ _ _ _ ih

/-- The result does not depend on the fuel (as long as it suffices). -/
theorem dfs_det {f f' : Nat} {ks : List K} {st r r' : List K × List K}
    (h : dfs next f ks st = some r) (h' : dfs next f' ks st = some r') : r = r' := by
  have h1 := dfs_mono (Nat.le_max_left f f') h
  have h2 := dfs_mono (Nat.le_max_right f f') h'
  rw [h1] at h2
  exact Option.some.inj h2

/-- Total weight of the keys of `U` not yet visited; `w u` bounds `(next u).length`. -/
def wt (w : K → Nat) : List K → List K → Nat
  | [], _ => 0
  | u :: U, vis => (if u ∈ vis then 0 else w u + 1) + wt w U vis

theorem wt_anti (w : K → Nat) (U : List K) {vis vis' : List K} (h : ∀ x, x ∈ vis → x ∈ vis') :
    wt w U vis' ≤ wt w U vis := by
  induction U with
  | nil => simp [wt]
  | cons u U ih =>
    simp only [wt]
    by_cases h1 : u ∈ vis
    · have h2 := h u h1
      simp only [h1, h2, if_true]; omega
    · by_cases h2 : u ∈ vis'
      · simp only [h1, h2, if_true, if_false]; omega
      · simp only [h1, h2, if_false]; omega

theorem wt_lt (w : K → Nat) {U vis : List K} {k : K} (hk : k ∈ U) (hv : k ∉ vis) :
    wt w U (k :: vis) + w k + 1 ≤ wt w U vis := by
  induction U with
  | nil => simp at hk
  | cons u U ih =>
    have hanti := wt_anti w U (vis := vis) (vis' := k :: vis) (fun x hx => List.mem_cons_of_mem _ hx)
    simp only [wt]
    by_cases huk : u = k
    · subst huk
      simp only [hv, List.mem_cons, true_or, if_true, if_false]
      omega
    · have hk' : k ∈ U := by
        rcases List.mem_cons.mp hk with h | h
        · exact absurd h.symm huk
        · exact h
      have := ih hk'
      by_cases h1 : u ∈ vis
      · simp only [h1, List.mem_cons, or_true, if_true]; omega
      · have : u ∉ k :: vis := by simp [huk, h1]
        simp only [h1, this, if_false]; omega

/-- Fuel sufficiency: `fuel > |ks| + Σ_{u ∈ U, not visited} (w u + 1)` where `U` contains every key
with successors and `w` bounds the number of successors. -/
theorem dfs_fuel (w : K → Nat) (U : List K) (hw : ∀ u, (next u).length ≤ w u)
    (hU : ∀ u, u ∉ U → next u = []) :
    ∀ (fuel : Nat) (ks vis ord : List K), ks.length + wt w U vis < fuel →
      ∃ r, dfs next fuel ks (vis, ord) = some r := by
  intro fuel
  induction fuel with
  | zero => intro ks vis ord h; omega
  | succ fuel ih =>
    intro ks vis ord h
    cases ks with
    | nil => exact ⟨(vis, ord), by simp [dfs]⟩
    | cons k ks =>
      simp only [List.length_cons] at h
      rw [dfs]
      by_cases hk : k ∈ vis
      · simp only [hk, if_true]
        exact ih _ _ _ (by omega)
      · simp only [hk, if_false]
        have hanti := wt_anti w U (vis := vis) (vis' := k :: vis) (fun x hx => List.mem_cons_of_mem _ hx)
        have h1 : (next k).length + wt w U (k :: vis) < fuel := by
          by_cases hkU : k ∈ U
          · have := wt_lt w hkU hk
            have := hw k
            omega
          · rw [hU k hkU]; simp; omega
        obtain ⟨r1, hr1⟩ := ih (next k) (k :: vis) ord h1
        obtain ⟨vis1, ord1⟩ := r1
        rw [hr1]
        simp only
        have hmono := (dfs_sound _ _ _ _ _ _ hr1).2.2
        have hanti2 := wt_anti w U (vis := k :: vis) (vis' := vis1) hmono
        have h2 : ks.length + wt w U vis1 < fuel := by
          by_cases hkU : k ∈ U
          · have := wt_lt w hkU hk
            omega
          · omega
        exact ih _ _ _ h2

/-! ### restriction to a set whose complement is closed under `next` (C06) -/

theorem dfs_filter {next' : K → List K} (p : K → Bool)
    (h1 : ∀ k, p k = true → next' k = (next k).filter p)
    (h2 : ∀ k, p k = false → (next k).filter p = []) :
    ∀ (fuel : Nat) (ks vis ord vis1 ord1 : List K),
      dfs next fuel ks (vis, ord) = some (vis1, ord1) →
      ∃ fuel', dfs next' fuel' (ks.filter p) (vis.filter p, ord.filter p)
        = some (vis1.filter p, ord1.filter p) := by
  intro fuel
  induction fuel with
  | zero => intro ks vis ord vis1 ord1 h; simp [dfs] at h
  | succ fuel ih =>
    intro ks vis ord vis1 ord1 h
    cases ks with
    | nil =>
      simp [dfs] at h
      obtain ⟨rfl, rfl⟩ := h
      exact ⟨1, by simp [dfs]⟩
    | cons k ks =>
      rw [dfs] at h
      by_cases hk : k ∈ vis
      · simp only [hk, if_true] at h
        obtain ⟨f', hf'⟩ := ih _ _ _ _ _ h
        by_cases hp : p k = true
        · refine ⟨f' + 1, ?_⟩
          simp only [List.filter_cons, hp, if_true]
          rw [dfs]
          have : k ∈ vis.filter p := List.mem_filter.mpr ⟨hk, hp⟩
          simp only [this, if_true]
          exact hf'
        · refine ⟨f', ?_⟩
          simp only [List.filter_cons, hp, Bool.false_eq_true, if_false]
          exact hf'
      · simp only [hk, if_false] at h
        cases hsub : dfs next fuel (next k) (k :: vis, ord) with
        | none => simp [hsub] at h
        | some r =>
          obtain ⟨v1, o1⟩ := r
          simp only [hsub] at h
          obtain ⟨f1, hf1⟩ := ih _ _ _ _ _ hsub
          obtain ⟨f2, hf2⟩ := ih _ _ _ _ _ h
          by_cases hp : p k = true
          · refine ⟨max f1 f2 + 1, ?_⟩
            simp only [List.filter_cons, hp, if_true] at hf1 hf2 ⊢
            rw [dfs]
            have : k ∉ vis.filter p := fun hm => hk (List.mem_filter.mp hm).1
            simp only [this, if_false]
            rw [h1 k hp, dfs_mono (Nat.le_max_left f1 f2) hf1]
            exact dfs_mono (Nat.le_max_right f1 f2) hf2
          · have hp' : p k = false := by simpa using hp
            refine ⟨f2, ?_⟩
            simp only [List.filter_cons, hp, Bool.false_eq_true, if_false] at hf1 hf2 ⊢
            rw [h2 k hp'] at hf1
            cases f1 with
            | zero => simp [dfs] at hf1
            | succ f1 =>
              simp [dfs] at hf1
              rw [hf1.1, hf1.2]
              exact hf2

end

end HeartwoodModel.Dag
