import HeartwoodModel.Model.Limiter
import HeartwoodModel.Driver.Util
/-! Driver entry for C17.  Case: `<bypass nids, comma> <req>…` where
`req = host,isIp,routable,nid|-,cap,num,den,now`. Output: one char per request:
`0` admitted, `1` limited, `P` panic (run stops). -/
namespace HeartwoodModel.Driver.C17
open HeartwoodModel.Limiter HeartwoodModel.Driver.Util

def parseReq (s : String) : Option Req :=
  match splitOn s ',' with
  | [h, ip, ro, nid, cap, num, den, now] => do
    let h ← nat? h; let ip ← bool? ip; let ro ← bool? ro
    let nid ← (if nid == "-" then some none else (nat? nid).map some)
    let cap ← nat? cap; let num ← nat? num; let den ← nat? den; let now ← nat? now
    some { host := h, isIp := ip, routable := ro, nid, cap, num, den, now }
  | _ => none

def go (l : Limiter) : List Req → List String → List String
  | [], acc => acc.reverse
  | r :: rs, acc =>
    match l.limit r with
    | none => ("P" :: acc).reverse
    | some (l', lim) => go l' rs (showBool lim :: acc)

def run (args : List String) : String :=
  match args with
  | byp :: reqs =>
    match nats? byp, reqs.mapM parseReq with
    | some byp, some reqs => joinWith "" (go { buckets := [], bypass := byp } reqs [])
    | _, _ => "bad-op"
  | _ => "bad-op"

end HeartwoodModel.Driver.C17
