//! C06 harness (stub: not implemented yet).
fn main() {
    eprintln!("C06: harness not implemented");
    std::process::exit(3);
}
