import HeartwoodModel.Model.Issue
import HeartwoodModel.Driver.Util
import HeartwoodModel.Driver.C08
/-!
Driver entry for C07.

Cases: `patch …` (syntax and output of `Driver/C08.lean`, whose wire helpers are reused) or
`issue <docs> <order> <op0> <op1> …` with `op = author:doc:ts:tips:act|act|…` and issue actions
`as,<actors+>` `ed,<title>,<kind>` `lc,o|s|c` `lb,<labels+>` `cm,<body>,<replyTo|->` `ce,<id>,<body>`
`cr,<id>` `ca,<id>`.
Output: `init-err` / `init-panic` / `bad-order`, or
`r=<o|e|p per applied op>;t=<title>;st=open|closed.s|closed.o;lb=…;as=…;cm=<thread>`.
-/
namespace HeartwoodModel.Driver.C07
open HeartwoodModel.Cob HeartwoodModel.Issue HeartwoodModel.Driver.Util HeartwoodModel.Driver.C08

def parseAction (s : String) : Option Action :=
  match splitOn s ',' with
  | ["as", xs] => do some (.assign (← plusNats? xs))
  | ["ed", t, k] => do some (.edit (← nat? t) (← nat? k))
  | ["lc", l] =>
    if l == "o" then some (.lifecycle .opened) else if l == "s" then some (.lifecycle (.closed true))
    else if l == "c" then some (.lifecycle (.closed false)) else none
  | ["lb", ls] => do some (.label (← plusNats? ls))
  | ["cm", b, rt] => do some (.comment (← nat? b) (← optNat? rt))
  | ["ce", c, b] => do some (.commentEdit (← nat? c) (← nat? b))
  | ["cr", c] => do some (.commentRedact (← nat? c))
  | ["ca", c] => do some (.commentReact (← nat? c))
  | _ => none

def showIState : IState → String
  | .opened => "open"
  | .closed true => "closed.s"
  | .closed false => "closed.o"

def showIssue (i : Issue) : String :=
  s!"t={i.title};st={showIState i.state};lb={showList "+" (i.labels.map toString)};" ++
  s!"as={showList "+" (i.assignees.map toString)};cm={showThread "+" "~" i.thread}"

def toOp (i : Nat) (w : WireOp Action) : Op :=
  { id := i, author := w.author, doc := w.doc, actions := w.actions }

def evalOrder (ops : List (WireOp Action)) : Issue → List Nat → List String → List Bool →
    Option (Issue × List String × List Bool)
  | s, [], rs, fs => some (s, rs.reverse, fs.reverse)
  | s, i :: rest, rs, fs =>
    match ops[i]? with
    | none => none
    | some w =>
      let r := op s (toOp i w)
      evalOrder ops (step s (toOp i w)) rest (showRes r :: rs) ((match r with | .ok _ => true | _ => false) :: fs)

def runIssue (args : List String) : String :=
  match args with
  | docs :: order :: ops =>
    match parseDocs docs, nats? order with
    | some docs, some order =>
      match ops.mapM (parseWireOp parseAction docs) with
      | some (root :: rest) =>
        let all := root :: rest
        match fromRoot (toOp 0 root) with
        | .error .panic => "init-panic"
        | .error _ => "init-err"
        | .ok i0 =>
          match evalOrder all i0 order [] [] with
          | none => "bad-op"
          | some (i, rs, fs) =>
            if orderOk (all.map (·.tips)) order fs then s!"r={dash (joinWith "" rs)};{showIssue i}"
            else "bad-order"
      | _ => "bad-op"
    | _, _ => "bad-op"
  | _ => "bad-op"

def run (args : List String) : String :=
  match args with
  | "patch" :: rest => runPatch rest
  | "issue" :: rest => runIssue rest
  | _ => "bad-op"

end HeartwoodModel.Driver.C07
