//! C22 harness (stub: not implemented yet).
fn main() {
    eprintln!("C22: harness not implemented");
    std::process::exit(3);
}
