import HeartwoodModel.Driver.Loop
import HeartwoodModel.Driver.C09
def main : IO Unit := HeartwoodModel.Driver.driverMain "C09" HeartwoodModel.Driver.C09.run
