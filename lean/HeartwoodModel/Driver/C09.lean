/-! Driver entry for property C09 (stub: not implemented yet). -/
namespace HeartwoodModel.Driver.C09

def run (_args : List String) : String := "unimplemented"

end HeartwoodModel.Driver.C09
