import HeartwoodModel.Model.Diff
/-!
Helper lemmas for C30: decimal numbers read back, `split_once` on texts produced by the encoders,
`read_line` on encoded lines, `trim_end_matches('\n')` on newline-terminated lines.
-/
set_option linter.unusedSimpArgs false
set_option linter.unusedVariables false
namespace HeartwoodModel.Diff

/-! ### text primitives -/

theorem stripPrefix_append (p t : Text) : stripPrefix p (p ++ t) = some t := by
  induction p with
  | nil => rfl
  | cons c p ih => simp [stripPrefix, ih]

theorem stripPrefix_cons_ne {p c : Char} (ps cs : Text) (h : p ≠ c) :
    stripPrefix (p :: ps) (c :: cs) = none := by
  simp [stripPrefix, h]

/-- `split_once` finds the separator right after a prefix that does not contain its first character. -/
theorem splitOnce_of_head_not_mem (p : Char) (ps a b : Text) (h : p ∉ a) :
    splitOnce (p :: ps) (a ++ (p :: ps) ++ b) = some (a, b) := by
  induction a with
  | nil =>
    have := stripPrefix_append (p :: ps) b
    cases b <;> simp_all [splitOnce]
  | cons c a ih =>
    have hc : p ≠ c := fun e => h (by simp [e])
    have ha : p ∉ a := fun e => h (by simp [e])
    have ih' := ih ha
    simp only [List.append_assoc, List.cons_append] at ih'
    simp [splitOnce, stripPrefix_cons_ne _ _ hc, ih']

theorem splitOnce_none_of_not_mem (p : Char) (t : Text) (h : p ∉ t) : splitOnce [p] t = none := by
  induction t with
  | nil => simp [splitOnce, stripPrefix]
  | cons c t ih =>
    have hc : p ≠ c := fun e => h (by simp [e])
    have ht : p ∉ t := fun e => h (by simp [e])
    simp [splitOnce, stripPrefix_cons_ne _ _ hc, ih ht]

theorem dropEndWhile_append_of_not (p : Char → Bool) (t : Text) (c : Char) (h : p c = false) :
    dropEndWhile p (t ++ [c]) = t ++ [c] := by
  simp [dropEndWhile, List.dropWhile, h]

theorem dropEndWhile_nil (p : Char → Bool) : dropEndWhile p [] = [] := rfl

theorem dropEndWhile_append_of_true (p : Char → Bool) (t : Text) (c : Char) (h : p c = true) :
    dropEndWhile p (t ++ [c]) = dropEndWhile p t := by
  simp [dropEndWhile, List.dropWhile, h]

/-- A text without `'\n'` loses nothing to `trim_end_matches('\n')`. -/
theorem trimEndNl_of_not_mem (t : Text) (h : '\n' ∉ t) : trimEndNl t = t := by
  rcases List.eq_nil_or_concat t with rfl | ⟨t', c, rfl⟩
  · rfl
  · rw [List.concat_eq_append] at h ⊢
    have hc : c ≠ '\n' := fun e => h (by simp [e])
    exact dropEndWhile_append_of_not _ _ _ (by simp [hc])

/-- `trim_end_matches('\n')` removes exactly the newline of a newline-terminated line. -/
theorem trimEndNl_line (body : Text) (h : '\n' ∉ body) : trimEndNl (body ++ ['\n']) = body := by
  unfold trimEndNl
  rw [dropEndWhile_append_of_true _ _ _ (by simp)]
  exact trimEndNl_of_not_mem body h

theorem stripSuffixNl_line (body : Text) : stripSuffixNl (body ++ ['\n']) = body := by
  simp [stripSuffixNl]

/-- `read_line` on `line ++ "\n" ++ rest` yields `line ++ "\n"` when `line` has no newline. -/
theorem splitLines_line (l rest : Text) (h : '\n' ∉ l) :
    splitLines (l ++ '\n' :: rest) = (l ++ ['\n']) :: splitLines rest := by
  induction l with
  | nil => simp [splitLines]
  | cons c l ih =>
    have hc : c ≠ '\n' := fun e => h (by simp [e])
    have hl : '\n' ∉ l := fun e => h (by simp [e])
    simp [splitLines, hc, ih hl]

theorem ofText_line (l rest : Text) (h : '\n' ∉ l) :
    Reader.ofText (l ++ '\n' :: rest) = some (l ++ ['\n']) :: Reader.ofText rest := by
  simp [Reader.ofText, splitLines_line l rest h]

/-! ### numbers -/

theorem showNat_ne_nil (n : Nat) : showNat n ≠ [] := Nat.toDigits_ne_nil

theorem showNat_isDigit (n : Nat) : ∀ c ∈ showNat n, c.isDigit = true :=
  fun c hc => Nat.isDigit_of_mem_toDigits (by decide) (by decide) hc

theorem not_mem_showNat_of_not_digit (n : Nat) (c : Char) (h : c.isDigit = false) : c ∉ showNat n := by
  intro hc
  rw [showNat_isDigit n c hc] at h
  cases h

/-- `format!("{}", n).parse::<u32>()` gives `n` back. -/
theorem parseU32_showNat (n : Nat) (h : n < 4294967296) : parseU32 (showNat n) = some n := by
  have hne := showNat_ne_nil n
  have hd := showNat_isDigit n
  have hplus : '+' ∉ showNat n := not_mem_showNat_of_not_digit n '+' (by decide)
  have hval : Nat.ofDigitChars 10 (showNat n) 0 = n := Nat.ofDigitChars_ten_toDigits
  generalize showNat n = t at hne hd hplus hval
  cases t with
  | nil => exact absurd rfl hne
  | cons c cs =>
    have hc : c ≠ '+' := fun e => hplus (by simp [e])
    have hall : (c :: cs).all Char.isDigit = true := by
      simpa [List.all_eq_true] using hd
    unfold parseU32
    split
    · rename_i r heq
      cases heq
      exact absurd rfl hc
    · simp only [List.isEmpty_cons, Bool.false_eq_true, if_false, hall, if_true, hval, h]

theorem not_mem_showRange (no size : Nat) (c : Char) (h : c.isDigit = false) (hc : c ≠ ',') :
    c ∉ showRange no size := by
  unfold showRange
  split
  · exact not_mem_showNat_of_not_digit _ _ h
  · intro hm
    rcases List.mem_append.mp hm with hm | hm
    · exact not_mem_showNat_of_not_digit _ _ h hm
    · rcases List.mem_cons.mp hm with rfl | hm
      · exact hc rfl
      · exact not_mem_showNat_of_not_digit _ _ h hm

/-- `"a,b"` / `"a"` read back. -/
theorem parseRange_showRange (no size : Nat) (hn : no < 4294967296) (hs : size < 4294967296) :
    parseRange (showRange no size) = some (no, size) := by
  have hcomma : ',' ∉ showNat no := not_mem_showNat_of_not_digit _ _ (by decide)
  have one : parseU32 ['1'] = some 1 := by decide
  by_cases h1 : size = 1
  · subst h1
    simp [parseRange, showRange, splitOnce_none_of_not_mem _ _ hcomma, parseU32_showNat no hn, one]
  · have := splitOnce_of_head_not_mem ',' [] (showNat no) (showNat size) hcomma
    simp only [List.append_assoc, List.cons_append, List.nil_append] at this
    simp [parseRange, showRange, h1, this, parseU32_showNat no hn, parseU32_showNat size hs]

end HeartwoodModel.Diff
