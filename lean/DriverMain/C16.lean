import HeartwoodModel.Driver.Loop
import HeartwoodModel.Driver.C16
def main : IO Unit := HeartwoodModel.Driver.driverMain "C16" HeartwoodModel.Driver.C16.run
