import HeartwoodModel.Driver.Loop
import HeartwoodModel.Driver.C30
def main : IO Unit := HeartwoodModel.Driver.driverMain "C30" HeartwoodModel.Driver.C30.run
