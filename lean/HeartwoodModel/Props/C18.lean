import HeartwoodModel.Model.Json
import HeartwoodModel.Lemmas.Json
/-!
# C18 — Canonical JSON has a single byte representation

Theorems about `Model/Json.lean` (`encode` mirrors `CanonicalFormatter` driven by serde_json's
serialiser; strings are UTF-8 byte lists; `nfc` is an opaque parameter).

Readings fixed in advance (see also `meta/C18.json`):
* "object keys in byte order" = the emitted key tokens (quoted, escaped, normalised — exactly the bytes
  written before each `:`) are strictly increasing in bytewise lexicographic order. This is the order the
  formatter's `BTreeMap<Vec<u8>, _>` imposes. It is *not* the order of the raw keys when one key is a
  prefix of another followed by a byte below `"` (`"a b"` sorts before `"a"`) or when escapes are involved
  (`key_order_is_of_encoded_tokens`).
* "JSON escapes for control characters" = the bytes JSON requires to be escaped (U+0000–U+001F, `"`, `\`)
  never occur raw; U+007F and the C1 controls are written raw (valid JSON).

Hypotheses on `nfc` (explicit, satisfied by real NFC, checked by the harness on every fragment it sends):
`NfcSafe` (never produces a byte that needs escaping from a string without such bytes) and `NfcIdem`.
-/
set_option linter.unusedSimpArgs false
set_option linter.unusedVariables false
namespace HeartwoodModel.Json

/-! ## Specification devices -/

mutual
/-- A floating point number occurs somewhere in the value. -/
def hasFloat : Json → Bool
  | .float => true
  | .arr xs => hasFloatList xs
  | .obj kvs => hasFloatMembers kvs
  | _ => false
def hasFloatList : List Json → Bool
  | [] => false
  | x :: xs => hasFloat x || hasFloatList xs
def hasFloatMembers : List (Bytes × Json) → Bool
  | [] => false
  | (_, v) :: rest => hasFloat v || hasFloatMembers rest
end

mutual
/-- The plain compact printer: members in the order given, strings escaped but not normalised, nothing
sorted, nothing dropped, no whitespace. (A float prints as nothing; canonical values contain none.) -/
def print : Json → Bytes
  | .null => [0x6e, 0x75, 0x6c, 0x6c]
  | .bool true => [0x74, 0x72, 0x75, 0x65]
  | .bool false => [0x66, 0x61, 0x6c, 0x73, 0x65]
  | .int i => showInt i
  | .float => []
  | .str s => encStr id s
  | .arr xs => 0x5b :: (joinComma (printList xs) ++ [0x5d])
  | .obj kvs => 0x7b :: (joinComma (printMembers kvs) ++ [0x7d])
def printList : List Json → List Bytes
  | [] => []
  | x :: xs => print x :: printList xs
def printMembers : List (Bytes × Json) → List Bytes
  | [] => []
  | (k, v) :: rest => (encStr id k ++ 0x3a :: print v) :: printMembers rest
end

mutual
/-- Canonical values: no float; every string and key is a fixed point of fragment-wise normalisation;
the members of every object are strictly increasing in the bytewise order of their encoded key tokens
(so in particular the keys are pairwise distinct). -/
def Canonical (nfc : Bytes → Bytes) : Json → Prop
  | .float => False
  | .str s => normStr nfc s = s
  | .arr xs => CanonicalList nfc xs
  | .obj kvs => CanonicalMembers nfc kvs ∧ Sorted (encStr id) kvs
  | _ => True
def CanonicalList (nfc : Bytes → Bytes) : List Json → Prop
  | [] => True
  | x :: xs => Canonical nfc x ∧ CanonicalList nfc xs
def CanonicalMembers (nfc : Bytes → Bytes) : List (Bytes × Json) → Prop
  | [] => True
  | (k, v) :: rest => normStr nfc k = k ∧ Canonical nfc v ∧ CanonicalMembers nfc rest
end

theorem canonicalMembers_append {nfc : Bytes → Bytes} {a b : List (Bytes × Json)} :
    CanonicalMembers nfc (a ++ b) ↔ CanonicalMembers nfc a ∧ CanonicalMembers nfc b := by
  induction a with
  | nil => simp [CanonicalMembers]
  | cons x t ih =>
    obtain ⟨k, v⟩ := x
    simp only [List.cons_append, CanonicalMembers, ih, and_assoc]

theorem canonicalMembers_mapInsert {nfc : Bytes → Bytes} {k : Bytes} {v : Json} {m : List (Bytes × Json)}
    (hk : normStr nfc k = k) (hv : Canonical nfc v) (hm : CanonicalMembers nfc m) :
    CanonicalMembers nfc (mapInsert (encStr id) k v m) := by
  induction m with
  | nil => exact ⟨hk, hv, trivial⟩
  | cons a t ih =>
    obtain ⟨k', v'⟩ := a
    obtain ⟨h1, h2, h3⟩ := hm
    unfold mapInsert
    split
    · exact ⟨hk, hv, h1, h2, h3⟩
    · split
      · exact ⟨h1, h2, ih h3⟩
      · exact ⟨hk, hv, h3⟩

/-! ## Floats are rejected -/

mutual
theorem encode_none_iff (nfc : Bytes → Bytes) : ∀ v : Json, encode nfc v = none ↔ hasFloat v = true
  | .null => by simp [encode, hasFloat]
  | .bool true => by simp [encode, hasFloat]
  | .bool false => by simp [encode, hasFloat]
  | .int _ => by simp [encode, hasFloat]
  | .float => by simp [encode, hasFloat]
  | .str _ => by simp [encode, hasFloat]
  | .arr xs => by
    have := encodeList_none_iff nfc xs
    simp only [encode, hasFloat]
    cases h : encodeList nfc xs <;> simp_all
  | .obj kvs => by
    have := encodeMembers_none_iff nfc kvs []
    simp only [encode, hasFloat]
    cases h : encodeMembers nfc kvs [] <;> simp_all
theorem encodeList_none_iff (nfc : Bytes → Bytes) :
    ∀ xs : List Json, encodeList nfc xs = none ↔ hasFloatList xs = true
  | [] => by simp [encodeList, hasFloatList]
  | x :: xs => by
    have h1 := encode_none_iff nfc x
    have h2 := encodeList_none_iff nfc xs
    simp only [encodeList, hasFloatList, Bool.or_eq_true]
    cases hx : encode nfc x <;> cases hxs : encodeList nfc xs <;> simp_all
theorem encodeMembers_none_iff (nfc : Bytes → Bytes) :
    ∀ (kvs : List (Bytes × Json)) (acc : List (Bytes × Bytes)),
      encodeMembers nfc kvs acc = none ↔ hasFloatMembers kvs = true
  | [], acc => by simp [encodeMembers, hasFloatMembers]
  | (k, v) :: rest, acc => by
    have h1 := encode_none_iff nfc v
    simp only [encodeMembers, hasFloatMembers, Bool.or_eq_true]
    cases hv : encode nfc v with
    | none => simp_all
    | some ev =>
      have h2 := encodeMembers_none_iff nfc rest (mapInsert id (encStr nfc k) ev acc)
      simp_all
end

/-- **C18: floating point numbers are rejected.** The encoder fails exactly on the values that contain a
float anywhere (at any depth, in arrays or object members) — for every `nfc`. -/
theorem encode_rejects_floats (nfc : Bytes → Bytes) (v : Json) :
    (encode nfc v).isNone = hasFloat v := by
  have := encode_none_iff nfc v
  cases h : encode nfc v <;> cases hf : hasFloat v <;> simp_all

/-! ## `encode = print ∘ canon` -/

mutual
theorem encode_factors_aux {nfc : Bytes → Bytes} (hs : NfcSafe nfc) :
    ∀ v : Json, encode nfc v = (canon nfc v).map print
  | .null => by simp [encode, canon, print]
  | .bool true => by simp [encode, canon, print]
  | .bool false => by simp [encode, canon, print]
  | .int _ => by simp [encode, canon, print]
  | .float => by simp [encode, canon]
  | .str s => by simp [encode, canon, print, encStr_factors hs s]
  | .arr xs => by
    have := encodeList_factors hs xs
    simp only [encode, canon, this]
    cases canonList nfc xs <;> simp [print]
  | .obj kvs => by
    have := encodeMembers_factors hs kvs []
    simp only [List.map_nil] at this
    simp only [encode, canon, this]
    cases canonMembers nfc kvs [] with
    | none => simp
    | some m =>
      simp only [Option.map_some, print, Option.some.injEq, List.cons.injEq, true_and]
      congr 2
      clear this
      induction m with
      | nil => rfl
      | cons a t ih =>
        obtain ⟨k, v⟩ := a
        simp [printMembers, memberBytes, ih]
theorem encodeList_factors {nfc : Bytes → Bytes} (hs : NfcSafe nfc) :
    ∀ xs : List Json, encodeList nfc xs = (canonList nfc xs).map printList
  | [] => by simp [encodeList, canonList, printList]
  | x :: xs => by
    have h1 := encode_factors_aux hs x
    have h2 := encodeList_factors hs xs
    simp only [encodeList, canonList, h1, h2]
    cases canon nfc x <;> cases canonList nfc xs <;> simp [printList]
theorem encodeMembers_factors {nfc : Bytes → Bytes} (hs : NfcSafe nfc) :
    ∀ (kvs : List (Bytes × Json)) (acc : List (Bytes × Json)),
      encodeMembers nfc kvs (acc.map (fun kv => (encStr id kv.1, print kv.2))) =
        (canonMembers nfc kvs acc).map (fun m => m.map (fun kv => (encStr id kv.1, print kv.2)))
  | [], acc => by simp [encodeMembers, canonMembers]
  | (k, v) :: rest, acc => by
    have h1 := encode_factors_aux hs v
    simp only [encodeMembers, canonMembers, h1]
    cases hv : canon nfc v with
    | none => simp
    | some cv =>
      simp only [Option.map_some]
      rw [encStr_factors hs k, ← mapInsert_map (encStr id) print]
      exact encodeMembers_factors hs rest _
end

/-- **C18: the canonical encoding is the plain compact print of the canonical value.** -/
theorem encode_factors {nfc : Bytes → Bytes} (hs : NfcSafe nfc) (v : Json) :
    encode nfc v = (canon nfc v).map print :=
  encode_factors_aux hs v

/-! ## What `canon` produces is canonical, and canonical values are fixed points -/

mutual
theorem canon_canonical {nfc : Bytes → Bytes} (hs : NfcSafe nfc) (hi : NfcIdem nfc) :
    ∀ (v c : Json), canon nfc v = some c → Canonical nfc c
  | .null, c, h => by simp [canon] at h; subst h; trivial
  | .bool _, c, h => by simp [canon] at h; subst h; trivial
  | .int _, c, h => by simp [canon] at h; subst h; trivial
  | .float, c, h => by simp [canon] at h
  | .str s, c, h => by
    simp [canon] at h; subst h
    exact normStr_idem hs hi s
  | .arr xs, c, h => by
    simp only [canon] at h
    cases hx : canonList nfc xs with
    | none => simp [hx] at h
    | some ys =>
      simp only [hx, Option.some.injEq] at h
      subst h
      exact canonList_canonical hs hi xs ys hx
  | .obj kvs, c, h => by
    simp only [canon] at h
    cases hx : canonMembers nfc kvs [] with
    | none => simp [hx] at h
    | some m =>
      simp only [hx, Option.some.injEq] at h
      subst h
      exact canonMembers_canonical hs hi kvs [] m hx trivial List.Pairwise.nil
theorem canonList_canonical {nfc : Bytes → Bytes} (hs : NfcSafe nfc) (hi : NfcIdem nfc) :
    ∀ (xs ys : List Json), canonList nfc xs = some ys → CanonicalList nfc ys
  | [], ys, h => by simp [canonList] at h; subst h; trivial
  | x :: xs, ys, h => by
    simp only [canonList] at h
    cases hx : canon nfc x with
    | none => simp [hx] at h
    | some y =>
      cases hxs : canonList nfc xs with
      | none => simp [hx, hxs] at h
      | some ys' =>
        simp only [hx, hxs, Option.some.injEq] at h
        subst h
        exact ⟨canon_canonical hs hi x y hx, canonList_canonical hs hi xs ys' hxs⟩
theorem canonMembers_canonical {nfc : Bytes → Bytes} (hs : NfcSafe nfc) (hi : NfcIdem nfc) :
    ∀ (kvs acc m : List (Bytes × Json)), canonMembers nfc kvs acc = some m →
      CanonicalMembers nfc acc → Sorted (encStr id) acc → CanonicalMembers nfc m ∧ Sorted (encStr id) m
  | [], acc, m, h, h1, h2 => by simp [canonMembers] at h; subst h; exact ⟨h1, h2⟩
  | (k, v) :: rest, acc, m, h, h1, h2 => by
    simp only [canonMembers] at h
    cases hv : canon nfc v with
    | none => simp [hv] at h
    | some cv =>
      simp only [hv] at h
      exact canonMembers_canonical hs hi rest _ m h
        (canonicalMembers_mapInsert (normStr_idem hs hi k) (canon_canonical hs hi v cv hv) h1)
        (mapInsert_sorted _ _ _ h2)
end

mutual
theorem canon_of_canonical {nfc : Bytes → Bytes} : ∀ (c : Json), Canonical nfc c → canon nfc c = some c
  | .null, _ => rfl
  | .bool _, _ => rfl
  | .int _, _ => rfl
  | .float, h => absurd h (by simp [Canonical])
  | .str s, h => by
    simp only [Canonical] at h
    simp [canon, h]
  | .arr xs, h => by
    simp only [Canonical] at h
    simp [canon, canonList_of_canonical xs h]
  | .obj kvs, h => by
    simp only [Canonical] at h
    have := canonMembers_of_canonical kvs [] (by simpa using h.1) (by simpa using h.2)
    simp only [List.nil_append] at this
    simp [canon, this]
theorem canonList_of_canonical {nfc : Bytes → Bytes} :
    ∀ (xs : List Json), CanonicalList nfc xs → canonList nfc xs = some xs
  | [], _ => rfl
  | x :: xs, h => by
    simp only [CanonicalList] at h
    simp [canonList, canon_of_canonical x h.1, canonList_of_canonical xs h.2]
theorem canonMembers_of_canonical {nfc : Bytes → Bytes} :
    ∀ (kvs acc : List (Bytes × Json)), CanonicalMembers nfc kvs → Sorted (encStr id) (acc ++ kvs) →
      canonMembers nfc kvs acc = some (acc ++ kvs)
  | [], acc, _, _ => by simp [canonMembers]
  | (k, v) :: rest, acc, h1, h2 => by
    obtain ⟨hk, hv, hr⟩ := h1
    have hlast : ∀ x ∈ acc, lexLt (encStr id x.1) (encStr id k) = true := by
      unfold Sorted at h2
      rw [List.pairwise_append] at h2
      exact fun x hx => h2.2.2 x hx (k, v) List.mem_cons_self
    simp only [canonMembers, canon_of_canonical v hv, hk]
    rw [mapInsert_last (encStr id) k v acc hlast]
    have : acc ++ (k, v) :: rest = (acc ++ [(k, v)]) ++ rest := by simp
    rw [this] at h2 ⊢
    exact canonMembers_of_canonical rest _ hr h2
end

/-- **C18: canonicalisation is idempotent** (given `nfc` idempotent and escape-safe). -/
theorem canon_idempotent {nfc : Bytes → Bytes} (hs : NfcSafe nfc) (hi : NfcIdem nfc) (v c : Json)
    (h : canon nfc v = some c) : canon nfc c = some c :=
  canon_of_canonical c (canon_canonical hs hi v c h)

/-- **C18: keys in byte order, NFC-normalised strings.** Whatever is encoded is the print of a value in
which every object's key tokens are strictly increasing bytewise (hence distinct) and every string and key
is normalised — at every nesting depth. -/
theorem encode_is_print_of_canonical {nfc : Bytes → Bytes} (hs : NfcSafe nfc) (hi : NfcIdem nfc) (v : Json)
    (b : Bytes) (h : encode nfc v = some b) : ∃ c, canon nfc v = some c ∧ Canonical nfc c ∧ b = print c := by
  rw [encode_factors hs] at h
  cases hc : canon nfc v with
  | none => simp [hc] at h
  | some c =>
    simp only [hc, Option.map_some, Option.some.injEq] at h
    exact ⟨c, rfl, canon_canonical hs hi v c hc, h.symm⟩

/-- **C18: object keys in byte order — on the bytes actually emitted.** The map from which `end_object`
writes `key:value` pairs is strictly increasing in the bytewise order of the emitted key tokens, for every
object at every depth (this is the statement for one object; `encode` is applied recursively to members).
Needs no hypothesis on `nfc`. -/
theorem encodeMembers_sorted (nfc : Bytes → Bytes) :
    ∀ (kvs : List (Bytes × Json)) (acc m : List (Bytes × Bytes)),
      encodeMembers nfc kvs acc = some m → Sorted id acc → Sorted id m
  | [], acc, m, h, hs => by simp [encodeMembers] at h; subst h; exact hs
  | (k, v) :: rest, acc, m, h, hs => by
    simp only [encodeMembers] at h
    cases hv : encode nfc v with
    | none => simp [hv] at h
    | some ev =>
      simp only [hv] at h
      exact encodeMembers_sorted nfc rest _ m h (mapInsert_sorted id _ _ hs)

theorem encode_keys_strictly_sorted (nfc : Bytes → Bytes) (kvs : List (Bytes × Json)) (b : Bytes)
    (h : encode nfc (.obj kvs) = some b) :
    ∃ m : List (Bytes × Bytes), b = 0x7b :: (joinComma (m.map memberBytes) ++ [0x7d]) ∧
      (m.map (·.1)).Pairwise (fun a b => lexLt a b = true) := by
  simp only [encode] at h
  cases hm : encodeMembers nfc kvs [] with
  | none => simp [hm] at h
  | some m =>
    simp only [hm, Option.some.injEq] at h
    refine ⟨m, h.symm, ?_⟩
    have := encodeMembers_sorted nfc kvs [] m hm List.Pairwise.nil
    unfold Sorted at this
    rw [List.pairwise_map]
    simpa using this

/-! ## Decoding and re-encoding -/

/-- **C18: decoding the output and encoding it again reproduces it byte for byte.** For any decoder that
reads the plain print of a canonical value back as that value (serde_json's parser into
`serde_json::Value` with `preserve_order`: members in text order, strings unescaped), every successful
encoding `b` decodes to a value whose encoding is `b` again. -/
theorem reencode_identity {nfc : Bytes → Bytes} (hs : NfcSafe nfc) (hi : NfcIdem nfc)
    (dec : Bytes → Option Json) (hdec : ∀ c, Canonical nfc c → dec (print c) = some c)
    (v : Json) (b : Bytes) (h : encode nfc v = some b) :
    ∃ v', dec b = some v' ∧ encode nfc v' = some b := by
  obtain ⟨c, _, hcan, rfl⟩ := encode_is_print_of_canonical hs hi v b h
  refine ⟨c, hdec c hcan, ?_⟩
  rw [encode_factors hs, canon_of_canonical c hcan]
  rfl

/-- Two values with the same canonical form have the same bytes. -/
theorem encode_eq_of_canon_eq {nfc : Bytes → Bytes} (hs : NfcSafe nfc) (v w : Json)
    (h : canon nfc v = canon nfc w) : encode nfc v = encode nfc w := by
  rw [encode_factors hs, encode_factors hs, h]

/-! ## A single representation: member order is irrelevant -/

/-- What the formatter sees of a member: its key token and the encoding of its value. -/
def memberEnc (nfc : Bytes → Bytes) (kv : Bytes × Json) : Bytes × Option Bytes :=
  (encStr nfc kv.1, encode nfc kv.2)

theorem encodeMembers_eq_insertAll (nfc : Bytes → Bytes) :
    ∀ (kvs : List (Bytes × Json)) (acc : List (Bytes × Bytes)),
      encodeMembers nfc kvs acc = insertAll (kvs.map (memberEnc nfc)) acc
  | [], acc => rfl
  | (k, v) :: rest, acc => by
    simp only [encodeMembers, List.map_cons, memberEnc]
    cases hv : encode nfc v with
    | none => rfl
    | some ev =>
      simp only [insertAll]
      have := encodeMembers_eq_insertAll nfc rest (mapInsert id (encStr nfc k) ev acc)
      simpa [memberEnc] using this

/-- **C18: a single byte representation.** Two objects whose members are, up to order, the same key tokens
with the same value encodings (in particular: any two orderings of the same members, with nested objects
reordered too) have the same encoding, provided no two members share a key token. For every `nfc`. -/
theorem encode_order_independent (nfc : Bytes → Bytes) (kvs kvs' : List (Bytes × Json))
    (hp : (kvs.map (memberEnc nfc)).Perm (kvs'.map (memberEnc nfc)))
    (hd : (kvs.map (fun kv => encStr nfc kv.1)).Nodup) :
    encode nfc (.obj kvs) = encode nfc (.obj kvs') := by
  have h := insertAll_perm hp (by simpa [memberEnc, List.map_map, Function.comp_def] using hd) []
    List.Pairwise.nil
  simp only [encode, encodeMembers_eq_insertAll, h]

theorem encode_perm (nfc : Bytes → Bytes) (kvs kvs' : List (Bytes × Json)) (hp : kvs.Perm kvs')
    (hd : (kvs.map (fun kv => encStr nfc kv.1)).Nodup) :
    encode nfc (.obj kvs) = encode nfc (.obj kvs') :=
  encode_order_independent nfc kvs kvs' (hp.map _) hd

/-! ## No raw control characters, no insignificant whitespace -/

theorem mem_joinComma {xs : List Bytes} {b : Nat} (h : b ∈ joinComma xs) : b = 0x2c ∨ ∃ x ∈ xs, b ∈ x := by
  induction xs with
  | nil => simp [joinComma] at h
  | cons x t ih =>
    cases t with
    | nil => exact Or.inr ⟨x, List.mem_cons_self, by simpa [joinComma] using h⟩
    | cons y t' =>
      simp only [joinComma, List.mem_append, List.mem_cons] at h
      rcases h with h | h | h
      · exact Or.inr ⟨x, List.mem_cons_self, h⟩
      · exact Or.inl h
      · rcases ih h with h | ⟨z, hz, hb⟩
        · exact Or.inl h
        · exact Or.inr ⟨z, List.mem_cons_of_mem _ hz, hb⟩

theorem hexDigit_ge (n : Nat) : 0x21 ≤ hexDigit n := by
  unfold hexDigit; split <;> omega

theorem escapeByte_bytes {e b : Nat} (h : b ∈ escapeByte e) : 0x21 ≤ b := by
  unfold escapeByte at h
  have h1 := hexDigit_ge (e / 16 % 16)
  have h2 := hexDigit_ge (e % 16)
  repeat' split at h
  all_goals simp only [List.mem_cons, List.not_mem_nil, or_false] at h
  all_goals omega

/-- Every byte of an escaped string is either a byte of the string that needs no escaping, or part of an
escape sequence (all of whose bytes are printable and not a space). -/
theorem escGo_id_bytes {acc s : Bytes} {b : Nat} (h : b ∈ escGo id acc s) :
    b ∈ acc ∨ (b ∈ s ∧ needsEsc b = false) ∨ 0x21 ≤ b := by
  induction s generalizing acc with
  | nil => simp only [escGo, flush_id] at h; exact Or.inl h
  | cons x xs ih =>
    simp only [escGo] at h
    split at h
    · simp only [flush_id, List.mem_append] at h
      rcases h with (h | h) | h
      · exact Or.inl h
      · exact Or.inr (Or.inr (escapeByte_bytes h))
      · rcases ih h with h | h | h
        · simp at h
        · exact Or.inr (Or.inl ⟨List.mem_cons_of_mem _ h.1, h.2⟩)
        · exact Or.inr (Or.inr h)
    · rename_i hx
      rcases ih h with h | h | h
      · simp only [List.mem_append, List.mem_singleton] at h
        rcases h with h | h
        · exact Or.inl h
        · subst h
          exact Or.inr (Or.inl ⟨List.mem_cons_self, by simpa using hx⟩)
      · exact Or.inr (Or.inl ⟨List.mem_cons_of_mem _ h.1, h.2⟩)
      · exact Or.inr (Or.inr h)

theorem not_needsEsc_ge {b : Nat} (h : needsEsc b = false) : 0x20 ≤ b := by
  simp only [needsEsc, Bool.or_eq_false_iff, decide_eq_false_iff_not] at h
  omega

theorem encStr_id_bytes {s : Bytes} {b : Nat} (h : b ∈ encStr id s) :
    0x21 ≤ b ∨ (b ∈ s ∧ needsEsc b = false) := by
  simp only [encStr, List.mem_cons, List.mem_append, List.not_mem_nil, or_false] at h
  rcases h with h | h | h
  · omega
  · rcases escGo_id_bytes h with h | h | h
    · simp at h
    · exact Or.inr h
    · exact Or.inl h
  · omega

theorem natDigits_bytes {n b : Nat} (h : b ∈ natDigits n) : 0x30 ≤ b ∧ b ≤ 0x39 := by
  simp only [natDigits, List.mem_map] at h
  obtain ⟨c, hc, rfl⟩ := h
  have := Nat.isDigit_of_mem_toDigits (by decide) (by decide) hc
  simp only [Char.isDigit, Bool.and_eq_true, decide_eq_true_eq] at this
  have h1 : (48 : UInt32) ≤ c.val := this.1
  have h2 : c.val ≤ (57 : UInt32) := this.2
  simp only [Char.toNat]
  rw [UInt32.le_iff_toNat_le] at h1 h2
  simpa using And.intro h1 h2

theorem showInt_bytes {i : Int} {b : Nat} (h : b ∈ showInt i) : 0x21 ≤ b := by
  unfold showInt at h
  split at h
  · have := natDigits_bytes h; omega
  · simp only [List.mem_cons] at h
    rcases h with h | h
    · omega
    · have := natDigits_bytes h; omega

mutual
/-- A space occurs in some string or key of the value. -/
def hasSpace : Json → Bool
  | .str s => s.contains 0x20
  | .arr xs => hasSpaceList xs
  | .obj kvs => hasSpaceMembers kvs
  | _ => false
def hasSpaceList : List Json → Bool
  | [] => false
  | x :: xs => hasSpace x || hasSpaceList xs
def hasSpaceMembers : List (Bytes × Json) → Bool
  | [] => false
  | (k, v) :: rest => k.contains 0x20 || hasSpace v || hasSpaceMembers rest
end

mutual
/-- Bytes of a print: printable non-space, or a space that sits inside a string / key of the value. -/
theorem print_bytes : ∀ (c : Json) (b : Nat), b ∈ print c → 0x21 ≤ b ∨ (b = 0x20 ∧ hasSpace c = true)
  | .null, b, h => by simp only [print, List.mem_cons, List.not_mem_nil, or_false] at h; omega
  | .bool true, b, h => by simp only [print, List.mem_cons, List.not_mem_nil, or_false] at h; omega
  | .bool false, b, h => by simp only [print, List.mem_cons, List.not_mem_nil, or_false] at h; omega
  | .int i, b, h => Or.inl (showInt_bytes h)
  | .float, b, h => by simp [print] at h
  | .str s, b, h => by
    rcases encStr_id_bytes h with h | ⟨h1, h2⟩
    · exact Or.inl h
    · have := not_needsEsc_ge h2
      by_cases hb : b = 0x20
      · subst hb
        exact Or.inr ⟨rfl, by simpa [hasSpace] using h1⟩
      · omega
  | .arr xs, b, h => by
    simp only [print, List.mem_cons, List.mem_append, List.not_mem_nil, or_false] at h
    rcases h with h | h | h
    · omega
    · rcases mem_joinComma h with h | ⟨x, hx, hb⟩
      · omega
      · simpa [hasSpace] using printList_bytes xs x b hx hb
    · omega
  | .obj kvs, b, h => by
    simp only [print, List.mem_cons, List.mem_append, List.not_mem_nil, or_false] at h
    rcases h with h | h | h
    · omega
    · rcases mem_joinComma h with h | ⟨x, hx, hb⟩
      · omega
      · simpa [hasSpace] using printMembers_bytes kvs x b hx hb
    · omega
theorem printList_bytes : ∀ (xs : List Json) (x : Bytes) (b : Nat), x ∈ printList xs → b ∈ x →
    0x21 ≤ b ∨ (b = 0x20 ∧ hasSpaceList xs = true)
  | [], x, b, hx, hb => by simp [printList] at hx
  | y :: ys, x, b, hx, hb => by
    simp only [printList, List.mem_cons] at hx
    rcases hx with rfl | hx
    · rcases print_bytes y b hb with h | h
      · exact Or.inl h
      · exact Or.inr ⟨h.1, by simp [hasSpaceList, h.2]⟩
    · rcases printList_bytes ys x b hx hb with h | h
      · exact Or.inl h
      · exact Or.inr ⟨h.1, by simp [hasSpaceList, h.2]⟩
theorem printMembers_bytes : ∀ (kvs : List (Bytes × Json)) (x : Bytes) (b : Nat), x ∈ printMembers kvs → b ∈ x →
    0x21 ≤ b ∨ (b = 0x20 ∧ hasSpaceMembers kvs = true)
  | [], x, b, hx, hb => by simp [printMembers] at hx
  | (k, v) :: rest, x, b, hx, hb => by
    simp only [printMembers, List.mem_cons] at hx
    rcases hx with rfl | hx
    · simp only [List.mem_append, List.mem_cons] at hb
      rcases hb with hb | hb | hb
      · rcases encStr_id_bytes hb with h | ⟨h1, h2⟩
        · exact Or.inl h
        · have := not_needsEsc_ge h2
          by_cases hb' : b = 0x20
          · subst hb'
            exact Or.inr ⟨rfl, by simp [hasSpaceMembers, h1]⟩
          · omega
      · omega
      · rcases print_bytes v b hb with h | h
        · exact Or.inl h
        · exact Or.inr ⟨h.1, by simp [hasSpaceMembers, h.2]⟩
    · rcases printMembers_bytes rest x b hx hb with h | h
      · exact Or.inl h
      · exact Or.inr ⟨h.1, by simp [hasSpaceMembers, h.2]⟩
end

/-- **C18: JSON escapes for control characters, no insignificant whitespace.** No byte below 0x20 (so no
raw control character, tab, line feed or carriage return) is ever written; and a space is written only as
part of a string or key of the canonical value — never between tokens. -/
theorem encode_no_raw_control_no_ws {nfc : Bytes → Bytes} (hs : NfcSafe nfc) (v c : Json) (b : Bytes)
    (h : encode nfc v = some b) (hc : canon nfc v = some c) :
    (∀ x ∈ b, 0x20 ≤ x) ∧ (hasSpace c = false → ∀ x ∈ b, 0x21 ≤ x) := by
  rw [encode_factors hs, hc] at h
  simp only [Option.map_some, Option.some.injEq] at h
  subst h
  constructor
  · intro x hx
    rcases print_bytes c x hx with h | h <;> omega
  · intro hsp x hx
    rcases print_bytes c x hx with h | h
    · exact h
    · rw [hsp] at h; cases h.2

/-! ## Non-vacuity, and the reading of "byte order" -/

/-- A stand-in for NFC: composes `e` + U+0301 into U+00E9. Escape-safe and idempotent. -/
def nfcDemo (s : Bytes) : Bytes := if s = [0x65, 0xcc, 0x81] then [0xc3, 0xa9] else s

theorem nfcDemo_safe : NfcSafe nfcDemo := by
  intro s h
  unfold nfcDemo
  split
  · decide
  · exact h

theorem nfcDemo_idem : NfcIdem nfcDemo := by
  intro s _
  unfold nfcDemo
  split
  · decide
  · rename_i h; simp [h]

/-- `{"b": "é\n", "a": [1, -2, null], "é": true, "é": false}` (second `é` decomposed) -/
def valDemo : Json :=
  .obj [([0x62], .str [0x65, 0xcc, 0x81, 0x0a]), ([0x61], .arr [.int 1, .int (-2), .null]),
        ([0xc3, 0xa9], .bool true), ([0x65, 0xcc, 0x81], .bool false)]

/-- Sorted, normalised, colliding keys collapsed (last wins), control character escaped:
`{"a":[1,-2,null],"b":"é\n","é":false}`. -/
example : (encode nfcDemo valDemo).map (fun b => String.fromUTF8! (ByteArray.mk (b.map Nat.toUInt8).toArray)) =
    some "{\"a\":[1,-2,null],\"b\":\"é\\n\",\"é\":false}" := by decide

example : ∃ b c, encode nfcDemo valDemo = some b ∧ canon nfcDemo valDemo = some c ∧ Canonical nfcDemo c ∧
    canon nfcDemo c = some c ∧ encode nfcDemo c = some b := by
  obtain ⟨c, hc, hcan, hb⟩ := encode_is_print_of_canonical nfcDemo_safe nfcDemo_idem valDemo _ rfl
  refine ⟨_, c, rfl, hc, hcan, canon_of_canonical c hcan, ?_⟩
  rw [encode_factors nfcDemo_safe, canon_of_canonical c hcan, hb]
  rfl

example : encode nfcDemo (.arr [.obj [([0x61], .float)]]) = none := by decide

/-- Non-vacuity of `encode_perm`: reversing the members of `{"b":1,"a":{"y":null,"x":2}}`. -/
example : encode nfcDemo (.obj [([0x62], .int 1), ([0x61], .obj [([0x79], .null), ([0x78], .int 2)])]) =
    encode nfcDemo (.obj [([0x61], .obj [([0x79], .null), ([0x78], .int 2)]), ([0x62], .int 1)]) :=
  encode_perm nfcDemo _ _ (List.Perm.swap _ _ _) (by decide)

/-- **Reading of "keys in byte order".** The order is that of the emitted key *tokens* (closing quote and
escapes included), not of the raw keys: `"a b"` and `"a!"` come before `"a"`, and the key U+0001 (written
`"\u0001"`) comes after `"A"`. -/
theorem key_order_is_of_encoded_tokens :
    lexLt [0x61] [0x61, 0x20, 0x62] = true ∧
    lexLt (encStr id [0x61, 0x20, 0x62]) (encStr id [0x61]) = true ∧
    lexLt [0x01] [0x41] = true ∧ lexLt (encStr id [0x41]) (encStr id [0x01]) = true ∧
    encode id (.obj [([0x61], .int 1), ([0x61, 0x20, 0x62], .int 2), ([0x01], .int 3), ([0x41], .int 4)]) =
      some (print (.obj [([0x41], .int 4), ([0x01], .int 3), ([0x61, 0x20, 0x62], .int 2), ([0x61], .int 1)])) := by
  decide

end HeartwoodModel.Json
