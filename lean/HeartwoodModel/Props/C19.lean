import HeartwoodModel.Model.Doc
import HeartwoodModel.Lemmas.Json
import HeartwoodModel.Props.C18
/-!
# C19 — Identity documents are always valid and bound to the repository id

Theorems about `Model/Doc.lean`.

* `verified_invariants`, `accepted_invariants`: every document `RawDoc::verified` / `Doc::from_blob` /
  `Doc::deserialize` accepts is `Doc.Valid` (1..255 distinct delegates — the order-preserving
  de-duplication of the raw list —, threshold in `1..=delegates.len()`, supported version);
  `verified_rejects_only_invalid`: nothing else is rejected at that stage.
* `verify_toRaw`: `Doc::edit` then `RawDoc::verified` is the identity on valid documents.
* `roundtrip_canon`: for every valid document, `Doc::encode` followed by decoding yields the same
  document with its payload replaced by the payload's canonical form — or an encoding error when the
  payload holds a float. `roundtrip_partial`: equal document when the payload is canonical-stable.
  `roundtrip_counterexample`: the unrestricted statement ("decoding the encoding yields an equal
  document") is FALSE for payload strings that are not NFC-normalised.
* `rid_is_blob_hash`: the id `Repository::init` computes and the one `Identity::from_root` checks are
  both `hash` of the canonical bytes.
-/
set_option linter.unusedSimpArgs false
set_option linter.unusedVariables false
namespace HeartwoodModel.Doc
open HeartwoodModel.Json

/-- The property's notion of a valid identity document. -/
structure Doc.Valid (d : Doc) : Prop where
  delegates_nonempty : 1 ≤ d.delegates.length
  delegates_max : d.delegates.length ≤ 255
  delegates_distinct : d.delegates.Nodup
  threshold_pos : 1 ≤ d.threshold
  threshold_le : d.threshold ≤ d.delegates.length
  version_pos : 1 ≤ d.version
  version_supported : d.version ≤ IDENTITY_VERSION

/-! ### `Delegates::new` -/

theorem dedupe_ok {ds acc l : List Did} (h : dedupe acc ds = .ok l) (hn : acc.Nodup) :
    l.Nodup ∧ (∀ x, x ∈ l ↔ x ∈ acc ∨ x ∈ ds) ∧ (∃ t, l = acc ++ t ∧ t.Sublist ds) ∧
    (acc.length ≤ 255 → l.length ≤ 255) := by
  induction ds generalizing acc with
  | nil =>
    simp only [dedupe, Except.ok.injEq] at h
    subst h
    exact ⟨hn, by simp, ⟨[], by simp⟩, fun h => h⟩
  | cons d rest ih =>
    unfold dedupe at h
    split at h
    · rename_i hc
      have hd : d ∈ acc := by simpa using hc
      obtain ⟨h1, h2, ⟨t, h3, h4⟩, h5⟩ := ih h hn
      refine ⟨h1, ?_, ⟨t, h3, h4.cons d⟩, h5⟩
      intro x
      rw [h2 x, List.mem_cons]
      constructor
      · rintro (h | h)
        · exact Or.inl h
        · exact Or.inr (Or.inr h)
      · rintro (h | h | h)
        · exact Or.inl h
        · exact Or.inl (h ▸ hd)
        · exact Or.inr h
    · rename_i hc
      have hd : d ∉ acc := by simpa using hc
      split at h
      · cases h
      · rename_i hlen
        simp only [MAX_DELEGATES, ge_iff_le, Nat.not_le] at hlen
        have hn' : (acc ++ [d]).Nodup := by
          rw [List.nodup_append]
          refine ⟨hn, by simp, ?_⟩
          intro a ha b hb
          simp only [List.mem_singleton] at hb
          subst hb
          intro hab
          exact hd (hab ▸ ha)
        obtain ⟨h1, h2, ⟨t, h3, h4⟩, h5⟩ := ih h hn'
        refine ⟨h1, ?_, ⟨d :: t, by simp [h3], h4.cons_cons d⟩, ?_⟩
        · intro x
          rw [h2 x]
          simp [or_assoc]
        · intro _
          apply h5
          simp only [List.length_append, List.length_singleton]
          omega

/-- `Delegates::new` fails in the fold only when 256 distinct delegates have been seen. -/
theorem dedupe_error {ds acc : List Did} {e : DocErr} (h : dedupe acc ds = .error e) (hn : acc.Nodup)
    (hl : acc.length ≤ 255) :
    e = .delegates ∧ ∃ l : List Did, l.Nodup ∧ l.length = 256 ∧ ∀ x ∈ l, x ∈ acc ∨ x ∈ ds := by
  induction ds generalizing acc with
  | nil => simp [dedupe] at h
  | cons d rest ih =>
    unfold dedupe at h
    split at h
    · obtain ⟨h1, l, h2, h3, h4⟩ := ih h hn hl
      refine ⟨h1, l, h2, h3, ?_⟩
      intro x hx
      rcases h4 x hx with h | h
      · exact Or.inl h
      · exact Or.inr (List.mem_cons_of_mem _ h)
    · rename_i hc
      have hd : d ∉ acc := by simpa using hc
      have hn' : (acc ++ [d]).Nodup := by
        rw [List.nodup_append]
        refine ⟨hn, by simp, ?_⟩
        intro a ha b hb
        simp only [List.mem_singleton] at hb
        subst hb
        intro hab
        exact hd (hab ▸ ha)
      split at h
      · rename_i hlen
        simp only [MAX_DELEGATES, ge_iff_le] at hlen
        simp only [Except.error.injEq] at h
        refine ⟨h.symm, acc ++ [d], hn', by simp; omega, ?_⟩
        intro x hx
        simp only [List.mem_append, List.mem_singleton] at hx
        rcases hx with h | h
        · exact Or.inl h
        · exact Or.inr (h ▸ List.mem_cons_self)
      · rename_i hlen
        simp only [MAX_DELEGATES, ge_iff_le, Nat.not_le] at hlen
        obtain ⟨h1, l, h2, h3, h4⟩ := ih h hn' (by simp; omega)
        refine ⟨h1, l, h2, h3, ?_⟩
        intro x hx
        rcases h4 x hx with h | h
        · simp only [List.mem_append, List.mem_singleton] at h
          rcases h with h | h
          · exact Or.inl h
          · exact Or.inr (h ▸ List.mem_cons_self)
        · exact Or.inr (List.mem_cons_of_mem _ h)

/-- A list without duplicates of at most 255 elements passes through the fold unchanged. -/
theorem dedupe_nodup {ds acc : List Did} (hn : (acc ++ ds).Nodup) (hl : (acc ++ ds).length ≤ 255) :
    dedupe acc ds = .ok (acc ++ ds) := by
  induction ds generalizing acc with
  | nil => simp [dedupe]
  | cons d rest ih =>
    have hd : d ∉ acc := by
      rw [List.nodup_append] at hn
      intro hda
      exact hn.2.2 d hda d List.mem_cons_self rfl
    unfold dedupe
    have hc : acc.contains d = false := by simpa using hd
    simp only [hc, Bool.false_eq_true, if_false]
    have hlen : ¬ acc.length ≥ MAX_DELEGATES := by
      simp only [List.length_append, List.length_cons] at hl
      simp only [MAX_DELEGATES]; omega
    simp only [hlen, if_false]
    have : acc ++ d :: rest = (acc ++ [d]) ++ rest := by simp
    rw [this] at hn hl ⊢
    exact ih hn hl

theorem delegatesNew_ok {ds l : List Did} (h : delegatesNew ds = .ok l) :
    1 ≤ l.length ∧ l.length ≤ 255 ∧ l.Nodup ∧ (∀ x, x ∈ l ↔ x ∈ ds) ∧ l.Sublist ds := by
  unfold delegatesNew at h
  split at h
  · cases h
  · rename_i l' hd
    split at h
    · cases h
    · rename_i hne
      simp only [Except.ok.injEq] at h
      subst h
      obtain ⟨h1, h2, ⟨t, h3, h4⟩, h5⟩ := dedupe_ok hd List.nodup_nil
      refine ⟨?_, h5 (by simp), h1, by simpa using h2, by simpa [h3] using h4⟩
      cases l' with
      | nil => simp at hne
      | cons a b => simp

theorem delegatesNew_error {ds : List Did} {e : DocErr} (h : delegatesNew ds = .error e) :
    e = .delegates ∧
    (ds = [] ∨ ∃ l : List Did, l.Nodup ∧ l.length = 256 ∧ ∀ x ∈ l, x ∈ ds) := by
  unfold delegatesNew at h
  split at h
  · rename_i e' hd
    simp only [Except.error.injEq] at h
    subst h
    obtain ⟨h1, l, h2, h3, h4⟩ := dedupe_error hd List.nodup_nil (by simp)
    exact ⟨h1, Or.inr ⟨l, h2, h3, by simpa using h4⟩⟩
  · rename_i l hd
    split at h
    · rename_i hem
      simp only [Except.error.injEq] at h
      refine ⟨h.symm, Or.inl ?_⟩
      obtain ⟨_, h2, _, _⟩ := dedupe_ok hd List.nodup_nil
      have hl : l = [] := by simpa using hem
      subst hl
      cases ds with
      | nil => rfl
      | cons a b => exact absurd ((h2 a).mpr (Or.inr List.mem_cons_self)) (by simp)
    · cases h

/-! ### `Threshold::new` -/

theorem thresholdNew_ok_iff (t n t' : Nat) :
    thresholdNew t n = .ok t' ↔ t' = t ∧ 1 ≤ t ∧ t ≤ n ∧ t ≤ 255 := by
  unfold thresholdNew
  have hM : MAX_DELEGATES = 255 := rfl
  by_cases h1 : t > MAX_DELEGATES
  · rw [if_pos h1]
    rw [hM] at h1
    exact Iff.intro (fun h => nomatch h) (fun h => by omega)
  · rw [if_neg h1]
    rw [hM] at h1
    by_cases h2 : t > n
    · rw [if_pos h2]
      exact Iff.intro (fun h => nomatch h) (fun h => by omega)
    · rw [if_neg h2]
      by_cases h3 : t = 0
      · rw [if_pos h3]
        exact Iff.intro (fun h => nomatch h) (fun h => by omega)
      · rw [if_neg h3]
        simp only [Except.ok.injEq]
        omega

theorem thresholdNew_error {t n : Nat} {e : DocErr} (h : thresholdNew t n = .error e) :
    e = .threshold ∧ (t = 0 ∨ n < t ∨ 255 < t) := by
  unfold thresholdNew at h
  have hM : MAX_DELEGATES = 255 := rfl
  by_cases h1 : t > MAX_DELEGATES
  · rw [if_pos h1] at h
    rw [hM] at h1
    simp only [Except.error.injEq] at h
    exact ⟨h.symm, by omega⟩
  · rw [if_neg h1] at h
    by_cases h2 : t > n
    · rw [if_pos h2] at h
      simp only [Except.error.injEq] at h
      exact ⟨h.symm, by omega⟩
    · rw [if_neg h2] at h
      by_cases h3 : t = 0
      · rw [if_pos h3] at h
        simp only [Except.error.injEq] at h
        exact ⟨h.symm, by omega⟩
      · rw [if_neg h3] at h
        cases h

/-! ### `RawDoc::verified` -/

/-- **C19 (a)**: whatever `RawDoc::verified` accepts has 1..255 distinct delegates — exactly the distinct
delegates of the raw document, in their original order —, a threshold between 1 and their number, and
the raw document's threshold, version, payload and visibility. -/
theorem verified_invariants {r : RawDoc} {d : Doc} (h : r.verified = .ok d) :
    1 ≤ d.delegates.length ∧ d.delegates.length ≤ 255 ∧ d.delegates.Nodup ∧
    (∀ x, x ∈ d.delegates ↔ x ∈ r.delegates) ∧ d.delegates.Sublist r.delegates ∧
    1 ≤ d.threshold ∧ d.threshold ≤ d.delegates.length ∧ d.threshold = r.threshold ∧
    d.version = r.version ∧ d.payload = r.payload ∧ d.visibility = r.visibility := by
  unfold RawDoc.verified at h
  split at h
  · cases h
  · rename_i ds hds
    split at h
    · cases h
    · rename_i t ht
      simp only [Except.ok.injEq] at h
      subst h
      obtain ⟨a, b, c, e, f⟩ := delegatesNew_ok hds
      obtain ⟨rfl, g1, g2, _⟩ := (thresholdNew_ok_iff _ _ _).mp ht
      exact ⟨a, b, c, e, f, g1, g2, rfl, rfl, rfl, rfl⟩

/-- `RawDoc::verified` rejects only documents that are invalid: no delegates, more than 255 distinct
delegates, or a threshold outside `1..=(number of distinct delegates)`. -/
theorem verified_rejects_only_invalid {r : RawDoc} {e : DocErr} (h : r.verified = .error e) :
    (e = .delegates ∧ (r.delegates = [] ∨
        ∃ l : List Did, l.Nodup ∧ l.length = 256 ∧ ∀ x ∈ l, x ∈ r.delegates)) ∨
    (e = .threshold ∧ ∃ ds, delegatesNew r.delegates = .ok ds ∧
        (r.threshold = 0 ∨ ds.length < r.threshold)) := by
  unfold RawDoc.verified at h
  split at h
  · rename_i e' hds
    simp only [Except.error.injEq] at h
    subst h
    exact Or.inl (delegatesNew_error hds)
  · rename_i ds hds
    split at h
    · rename_i e' ht
      simp only [Except.error.injEq] at h
      subst h
      obtain ⟨h1, h2⟩ := thresholdNew_error ht
      refine Or.inr ⟨h1, ds, hds, ?_⟩
      obtain ⟨_, hmax, _⟩ := delegatesNew_ok hds
      omega
    · cases h

/-- **C19 (b)**: `Doc::edit` followed by `RawDoc::verified` gives the document back. -/
theorem verify_toRaw (d : Doc) (hv : d.Valid) : d.toRaw.verified = .ok d := by
  obtain ⟨h1, h2, h3, h4, h5, _, _⟩ := hv
  have hdd : delegatesNew d.delegates = .ok d.delegates := by
    unfold delegatesNew
    have := dedupe_nodup (acc := []) (ds := d.delegates) (by simpa using h3) (by simpa using h2)
    simp only [List.nil_append] at this
    rw [this]
    cases hd : d.delegates with
    | nil => simp [hd] at h1
    | cons a b => simp
  have htt : thresholdNew d.threshold d.delegates.length = .ok d.threshold :=
    (thresholdNew_ok_iff _ _ _).mpr ⟨rfl, h4, h5, by omega⟩
  simp [RawDoc.verified, Doc.toRaw, hdd, htt]

/-! ### Acceptance from JSON / from a git blob -/

theorem parseVersion_some {j : Json} {n : Nat} (h : parseVersion j = some n) :
    1 ≤ n ∧ n ≤ IDENTITY_VERSION := by
  unfold parseVersion at h
  split at h
  · split at h
    · split at h
      · cases h
      · split at h
        · cases h
        · simp only [Option.some.injEq] at h; omega
    · cases h
  · cases h

theorem ofFields_version {pd : Bytes → Option Did} {ver pay del thr vis : Field} {r : RawDoc}
    (h : RawDoc.ofFields pd ver pay del thr vis = some r) : 1 ≤ r.version ∧ r.version ≤ IDENTITY_VERSION := by
  unfold RawDoc.ofFields at h
  split at h
  · cases h
  · cases h
  · rename_i ver' p dd t vis' _ _
    simp only at h
    split at h
    · rename_i version payload delegates threshold visibility hv _ _ _ _
      simp only [Option.some.injEq] at h
      subst h
      simp only
      split at hv
      · exact parseVersion_some hv
      · simp only [Option.some.injEq] at hv; subst hv; simp [IDENTITY_VERSION]
    · cases h
  · cases h

theorem ofJson_version {pd : Bytes → Option Did} {j : Json} {r : RawDoc}
    (h : RawDoc.ofJson pd j = some r) : 1 ≤ r.version ∧ r.version ≤ IDENTITY_VERSION := by
  unfold RawDoc.ofJson at h
  split at h
  · exact ofFields_version h
  · exact ofFields_version h
  · exact ofFields_version h
  · cases h

/-- **C19 (a), from JSON or from git**: every document `Doc::from_blob` / `Doc::deserialize` accepts
(`Doc.decode`: the serde layer, then `RawDoc::verified`) is valid — for every JSON value and every
`Did` parser. -/
theorem accepted_invariants (pd : Bytes → Option Did) (j : Json) (d : Doc)
    (h : Doc.decode pd j = .ok d) : d.Valid := by
  unfold Doc.decode at h
  split at h
  · cases h
  · rename_i raw hr
    obtain ⟨a, b, c, _, _, e, f, _, g, _, _⟩ := verified_invariants h
    obtain ⟨v1, v2⟩ := ofJson_version hr
    exact ⟨a, b, c, e, f, g ▸ v1, g ▸ v2⟩

/-- Acceptance is exactly: the serde layer yields a raw document and that document verifies. -/
theorem decode_ok_iff (pd : Bytes → Option Did) (j : Json) (d : Doc) :
    Doc.decode pd j = .ok d ↔ ∃ r, RawDoc.ofJson pd j = some r ∧ r.verified = .ok d := by
  unfold Doc.decode
  split
  · simp [*]
  · rename_i raw hr
    simp [hr]

/-! ### Repository id -/

/-- **C19 (c)**: the repository id computed by `Repository::init` is the blob hash of the canonical
encoding of the initial document, the stored root blob is that encoding, and the check in
`Identity::from_root` accepts exactly the ids that are the blob hash of the stored bytes. Holds for
every hash function. -/
theorem rid_is_blob_hash {Oid : Type} [DecidableEq Oid] (hash : Bytes → Oid) (nfc : Bytes → Bytes)
    (sd : Did → Bytes) (d : Doc) :
    (∀ rid stored, initRepo hash nfc sd d = some (rid, stored) →
        d.encode nfc sd = some stored ∧ rid = hash stored ∧ rootMatches hash rid stored = true) ∧
    (∀ rid stored, rootMatches hash rid stored = true ↔ rid = hash stored) := by
  constructor
  · intro rid stored h
    unfold initRepo at h
    cases he : d.encode nfc sd with
    | none => simp [he] at h
    | some b =>
      simp only [he, Option.map_some, Option.some.injEq, Prod.mk.injEq] at h
      obtain ⟨rfl, rfl⟩ := h
      simp [rootMatches]
  · intro rid stored
    simp only [rootMatches, beq_iff_eq]
    exact eq_comm

/-- An id that does not hash the stored root document is refused by `Identity::from_root`. -/
theorem from_root_rejects_foreign_id {Oid : Type} [DecidableEq Oid] (hash : Bytes → Oid) (rid : Oid)
    (stored : Bytes) (h : rid ≠ hash stored) : rootMatches hash rid stored = false := by
  simp only [rootMatches, beq_eq_false_iff_ne, ne_eq]
  exact fun h' => h h'.symm

/-! ### Encode, then decode

Hypotheses about the opaque parameters, all true of the real functions: NFC leaves printable ASCII
alone; a `Did` prints as printable ASCII without `"` and `\` (`did:key:z6Mk…`, base-58) and parses back to
itself (`Did::decode (Did::encode x) = x`, part of C21). -/

structure Params (nfc : Bytes → Bytes) (sd : Did → Bytes) (pd : Bytes → Option Did) : Prop where
  nfc_ascii : NfcFixesAscii nfc
  did_plain : ∀ x, plainAscii (sd x) = true
  did_rt : ∀ x, pd (sd x) = some x

/-- Representation invariant of the `BTreeSet<Did>`. -/
def Visibility.WF : Visibility → Prop
  | .pub => True
  | .priv allow => allow.Pairwise (· < ·)

/-- The payload map that decoding reads out of a canonical member list. -/
def payloadOf (ms : List (Bytes × Json)) : List (Bytes × Json) :=
  mapOfList id (ms.map (fun kv => (kv.1, norm kv.2)))

theorem canonList_dids {nfc : Bytes → Bytes} {sd : Did → Bytes} (hn : NfcFixesAscii nfc)
    (hs : ∀ x, plainAscii (sd x) = true) (ds : List Did) :
    canonList nfc (ds.map (fun d => Json.str (sd d))) = some (ds.map (fun d => Json.str (sd d))) := by
  induction ds with
  | nil => simp [canonList]
  | cons a t ih => simp [canonList, canon, ih, normStr_plainAscii hn (hs a)]

theorem canon_dids {nfc : Bytes → Bytes} {sd : Did → Bytes} (hn : NfcFixesAscii nfc)
    (hs : ∀ x, plainAscii (sd x) = true) (ds : List Did) :
    canon nfc (didsJson sd ds) = some (didsJson sd ds) := by
  simp [didsJson, canon, canonList_dids hn hs]

theorem parseDids_dids {sd : Did → Bytes} {pd : Bytes → Option Did} (hr : ∀ x, pd (sd x) = some x)
    (ds : List Did) : parseDids pd (didsJson sd ds) = some ds := by
  simp only [parseDids, didsJson]
  induction ds with
  | nil => simp
  | cons a t ih => simp [List.mapM_cons, parseDidJson, hr a, ih]

theorem setInsert_last (d : Did) (s : List Did) (h : ∀ x ∈ s, x < d) : setInsert d s = s ++ [d] := by
  induction s with
  | nil => rfl
  | cons a t ih =>
    have ha : a < d := h a List.mem_cons_self
    have hna : ¬ d < a := Nat.lt_asymm ha
    simp [setInsert, ha, hna, ih (fun x hx => h x (List.mem_cons_of_mem _ hx))]

theorem foldl_setInsert_sorted (acc l : List Did) (h : (acc ++ l).Pairwise (· < ·)) :
    l.foldl (fun s d => setInsert d s) acc = acc ++ l := by
  induction l generalizing acc with
  | nil => simp
  | cons a t ih =>
    simp only [List.foldl_cons]
    have hlt : ∀ x ∈ acc, x < a := by
      rw [List.pairwise_append] at h
      exact fun x hx => h.2.2 x hx a List.mem_cons_self
    rw [setInsert_last a acc hlt]
    have : acc ++ a :: t = (acc ++ [a]) ++ t := by simp
    rw [this] at h ⊢
    exact ih _ h

theorem setOfList_sorted (l : List Did) (h : l.Pairwise (· < ·)) : setOfList l = l := by
  have := foldl_setInsert_sorted [] l (by simpa using h)
  simpa [setOfList] using this

/-- Canonical form of the serialised visibility, and that it parses back. -/
theorem visibility_roundtrip {nfc : Bytes → Bytes} {sd : Did → Bytes} {pd : Bytes → Option Did}
    (hp : Params nfc sd pd) (v : Visibility) (hw : v.WF) :
    ∃ j, canon nfc (v.toJson sd) = some j ∧ parseVisibility pd j = some v := by
  have hT : normStr nfc sType = sType := normStr_plainAscii hp.nfc_ascii (by decide)
  have hA : normStr nfc sAllow = sAllow := normStr_plainAscii hp.nfc_ascii (by decide)
  have hPu : normStr nfc sPublic = sPublic := normStr_plainAscii hp.nfc_ascii (by decide)
  have hPr : normStr nfc sPrivate = sPrivate := normStr_plainAscii hp.nfc_ascii (by decide)
  cases v with
  | pub =>
    refine ⟨.obj [(sType, .str sPublic)], ?_, ?_⟩
    · simp [Visibility.toJson, canon, canonMembers, hT, hPu, mapInsert]
    · rfl
  | priv allow =>
    cases allow with
    | nil =>
      refine ⟨.obj [(sType, .str sPrivate)], ?_, ?_⟩
      · simp [Visibility.toJson, canon, canonMembers, hT, hPr, mapInsert]
      · rfl
    | cons a t =>
      refine ⟨.obj [(sAllow, didsJson sd (a :: t)), (sType, .str sPrivate)], ?_, ?_⟩
      · have hd := canon_dids hp.nfc_ascii hp.did_plain (a :: t)
        simp only [Visibility.toJson, List.isEmpty_cons, Bool.false_eq_true, if_false, canon,
          canonMembers, hd, hT, hPr, hA]
        rfl
      · have h1 : field sType [(sAllow, didsJson sd (a :: t)), (sType, Json.str sPrivate)]
            = .one (.str sPrivate) := rfl
        have h2 : field sAllow (List.filter (fun kv => !(kv.1 == sType))
            [(sAllow, didsJson sd (a :: t)), (sType, Json.str sPrivate)]) = .one (didsJson sd (a :: t)) := rfl
        have h3 : parseTag (.str sPrivate) = some true := rfl
        simp only [parseVisibility, h1, h2, h3, parseAllow, parseDids_dids hp.did_rt,
          Option.map_some, setOfList_sorted _ hw]

theorem parseThreshold_nat (t : Nat) (h : t ≤ 255) : parseThreshold (.int (t : Int)) = some t := by
  have h1 : (0 : Int) ≤ (t : Int) ∧ (t : Int) ≤ u64Max := by
    simp only [u64Max]; omega
  simp [parseThreshold, h1]

/-- **C19 (b), through JSON — exact characterisation.** For every valid document (any payload, any
delegates, threshold, visibility): encoding with the canonical formatter and decoding what was written
fails to encode iff the payload cannot be canonicalised (it holds a float), and otherwise is accepted
and yields the same document with the payload replaced by its canonical form read back as
`serde_json::Value`s. -/
theorem roundtrip_canon {nfc : Bytes → Bytes} {sd : Did → Bytes} {pd : Bytes → Option Did}
    (hp : Params nfc sd pd) (d : Doc) (hv : d.Valid) (hw : d.visibility.WF) :
    d.roundtrip nfc sd pd =
      (canonMembers nfc d.payload []).map (fun ms => .ok { d with payload := payloadOf ms }) := by
  have hver : d.version ≤ 1 := hv.version_supported
  have hver1 : d.version = 1 := by have := hv.version_pos; omega
  have hP : normStr nfc sPayload = sPayload := normStr_plainAscii hp.nfc_ascii (by decide)
  have hD : normStr nfc sDelegates = sDelegates := normStr_plainAscii hp.nfc_ascii (by decide)
  have hT : normStr nfc sThreshold = sThreshold := normStr_plainAscii hp.nfc_ascii (by decide)
  have hV : normStr nfc sVisibility = sVisibility := normStr_plainAscii hp.nfc_ascii (by decide)
  have hdids := canon_dids hp.nfc_ascii hp.did_plain d.delegates
  have hthr := parseThreshold_nat d.threshold (Nat.le_trans hv.threshold_le hv.delegates_max)
  have hpd := parseDids_dids (sd := sd) hp.did_rt d.delegates
  unfold Doc.roundtrip Doc.canonJson Doc.toJson
  cases hms : canonMembers nfc d.payload [] with
  | none =>
    simp only [hver, if_true, List.nil_append, List.cons_append, canon, canonMembers, hms,
      Option.map_none]
  | some ms =>
    have hcp : canon nfc (.obj d.payload) = some (.obj ms) := by simp [canon, hms]
    have hci : canon nfc (.int (d.threshold : Int)) = some (.int (d.threshold : Int)) := by simp [canon]
    -- the document the round trip produces, and that it verifies
    have hvalid' : ({ d with payload := payloadOf ms } : Doc).Valid :=
      ⟨hv.1, hv.2, hv.3, hv.4, hv.5, hv.6, hv.7⟩
    have hver' := verify_toRaw _ hvalid'
    simp only [Doc.toRaw] at hver'
    cases hvis : d.visibility with
    | pub =>
      simp only [hver, if_true, hvis, Visibility.isPublic, List.nil_append, List.cons_append,
        List.append_nil, canon, canonMembers, hms, hdids, hP, hD, hT, Option.map_some]
      have hsort : mapInsert (encStr id) sThreshold (Json.int ↑d.threshold)
          (mapInsert (encStr id) sDelegates (didsJson sd d.delegates)
            (mapInsert (encStr id) sPayload (Json.obj ms) [])) =
          [(sDelegates, didsJson sd d.delegates), (sPayload, Json.obj ms),
           (sThreshold, Json.int ↑d.threshold)] := rfl
      rw [hsort]
      have f1 : field sVersion [(sDelegates, didsJson sd d.delegates), (sPayload, Json.obj ms),
           (sThreshold, Json.int ↑d.threshold)] = .missing := rfl
      have f2 : field sPayload [(sDelegates, didsJson sd d.delegates), (sPayload, Json.obj ms),
           (sThreshold, Json.int ↑d.threshold)] = .one (.obj ms) := rfl
      have f3 : field sDelegates [(sDelegates, didsJson sd d.delegates), (sPayload, Json.obj ms),
           (sThreshold, Json.int ↑d.threshold)] = .one (didsJson sd d.delegates) := rfl
      have f4 : field sThreshold [(sDelegates, didsJson sd d.delegates), (sPayload, Json.obj ms),
           (sThreshold, Json.int ↑d.threshold)] = .one (.int ↑d.threshold) := rfl
      have f5 : field sVisibility [(sDelegates, didsJson sd d.delegates), (sPayload, Json.obj ms),
           (sThreshold, Json.int ↑d.threshold)] = .missing := rfl
      have hraw : RawDoc.ofJson pd (.obj [(sDelegates, didsJson sd d.delegates), (sPayload, Json.obj ms),
           (sThreshold, Json.int ↑d.threshold)]) =
          some { version := 1, payload := payloadOf ms, delegates := d.delegates,
                 threshold := d.threshold, visibility := .pub } := by
        simp only [RawDoc.ofJson, f1, f2, f3, f4, f5, RawDoc.ofFields, hpd, hthr, parsePayload,
          payloadOf, IDENTITY_VERSION]
      simp only [Doc.decode, hraw]
      rw [hvis, hver1] at hver'
      simp only [hver', hvis, hver1]
    | priv allow =>
      obtain ⟨vj, hvj, hpv⟩ := visibility_roundtrip hp (.priv allow) (by rw [hvis] at hw; exact hw)
      simp only [hver, if_true, hvis, Visibility.isPublic, List.nil_append, List.cons_append,
        List.append_nil, canon, canonMembers, hms, hdids, hP, hD, hT, hV, hvj, Bool.false_eq_true,
        if_false, Option.map_some]
      have hsort : mapInsert (encStr id) sVisibility vj
          (mapInsert (encStr id) sThreshold (Json.int ↑d.threshold)
          (mapInsert (encStr id) sDelegates (didsJson sd d.delegates)
            (mapInsert (encStr id) sPayload (Json.obj ms) []))) =
          [(sDelegates, didsJson sd d.delegates), (sPayload, Json.obj ms),
           (sThreshold, Json.int ↑d.threshold), (sVisibility, vj)] := rfl
      rw [hsort]
      have f1 : field sVersion [(sDelegates, didsJson sd d.delegates), (sPayload, Json.obj ms),
           (sThreshold, Json.int ↑d.threshold), (sVisibility, vj)] = .missing := rfl
      have f2 : field sPayload [(sDelegates, didsJson sd d.delegates), (sPayload, Json.obj ms),
           (sThreshold, Json.int ↑d.threshold), (sVisibility, vj)] = .one (.obj ms) := rfl
      have f3 : field sDelegates [(sDelegates, didsJson sd d.delegates), (sPayload, Json.obj ms),
           (sThreshold, Json.int ↑d.threshold), (sVisibility, vj)] = .one (didsJson sd d.delegates) := rfl
      have f4 : field sThreshold [(sDelegates, didsJson sd d.delegates), (sPayload, Json.obj ms),
           (sThreshold, Json.int ↑d.threshold), (sVisibility, vj)] = .one (.int ↑d.threshold) := rfl
      have f5 : field sVisibility [(sDelegates, didsJson sd d.delegates), (sPayload, Json.obj ms),
           (sThreshold, Json.int ↑d.threshold), (sVisibility, vj)] = .one vj := rfl
      have hraw : RawDoc.ofJson pd (.obj [(sDelegates, didsJson sd d.delegates), (sPayload, Json.obj ms),
           (sThreshold, Json.int ↑d.threshold), (sVisibility, vj)]) =
          some { version := 1, payload := payloadOf ms, delegates := d.delegates,
                 threshold := d.threshold, visibility := .priv allow } := by
        simp only [RawDoc.ofJson, f1, f2, f3, f4, f5, RawDoc.ofFields, hpd, hthr, parsePayload,
          payloadOf, IDENTITY_VERSION, hpv]
      simp only [Doc.decode, hraw]
      rw [hvis, hver1] at hver'
      simp only [hver', hvis, hver1]

/-- `PartialEq for Doc` (member order inside payload objects is irrelevant, see `Json.eqv`). -/
def Doc.Eqv (a b : Doc) : Prop := a.beq b = true

/-- **C19 (b), through JSON**: a valid document whose payload is canonical-stable (its canonical form
reads back as a payload equal to the original: NFC-normalised strings, no floats) decodes from its own
encoding to an equal document. -/
theorem roundtrip_partial {nfc : Bytes → Bytes} {sd : Did → Bytes} {pd : Bytes → Option Did}
    (hp : Params nfc sd pd) (d : Doc) (hv : d.Valid) (hw : d.visibility.WF)
    (ms : List (Bytes × Json)) (hms : canonMembers nfc d.payload [] = some ms)
    (hstable : payloadEqv (payloadOf ms) d.payload = true) :
    ∃ d', d.roundtrip nfc sd pd = some (.ok d') ∧ d'.Eqv d := by
  refine ⟨{ d with payload := payloadOf ms }, ?_, ?_⟩
  · rw [roundtrip_canon hp d hv hw, hms, Option.map_some]
  · simp [Doc.Eqv, Doc.beq, hstable]

/-- The bytes `Doc::encode` writes are the plain print of the value `Doc.roundtrip` decodes
(`Doc.canonJson`): C18's `encode_factors` instantiated at the serialised document. Together with the
parser assumption (serde_json reads `print c` back as `c`) this is what makes `Doc.roundtrip` the model of
"encode, then `RawDoc::from_json` on the bytes". -/
theorem encode_is_print_of_canonJson {nfc : Bytes → Bytes} (hs : NfcSafe nfc) (sd : Did → Bytes) (d : Doc) :
    d.encode nfc sd = (d.canonJson nfc sd).map print :=
  encode_factors hs _

/-- `Doc::encode` fails exactly when the payload holds a floating point number (valid documents). -/
theorem encode_fails_iff_float {nfc : Bytes → Bytes} {sd : Did → Bytes} {pd : Bytes → Option Did}
    (hp : Params nfc sd pd) (hs : NfcSafe nfc) (d : Doc) (hv : d.Valid) (hw : d.visibility.WF) :
    d.encode nfc sd = none ↔ hasFloatMembers d.payload = true := by
  have h1 := roundtrip_canon hp d hv hw
  have h2 : d.encode nfc sd = none ↔ d.roundtrip nfc sd pd = none := by
    rw [encode_is_print_of_canonJson hs, Doc.roundtrip]
    cases d.canonJson nfc sd <;> simp
  rw [h2, h1]
  have h3 : canonMembers nfc d.payload [] = none ↔ hasFloatMembers d.payload = true := by
    have e1 := encode_factors hs (.obj d.payload)
    have e2 := encode_none_iff nfc (.obj d.payload)
    simp only [canon, hasFloat] at e1 e2
    rw [← e2, e1]
    cases canonMembers nfc d.payload [] <;> simp
  rw [← h3]
  cases canonMembers nfc d.payload [] <;> simp

/-- Whatever the payload, a valid document's encoding is accepted again, and delegates, threshold,
version and visibility survive unchanged. -/
theorem roundtrip_preserves {nfc : Bytes → Bytes} {sd : Did → Bytes} {pd : Bytes → Option Did}
    (hp : Params nfc sd pd) (d : Doc) (hv : d.Valid) (hw : d.visibility.WF)
    (r : Except DocErr Doc) (h : d.roundtrip nfc sd pd = some r) :
    ∃ d', r = .ok d' ∧ d'.Valid ∧ d'.delegates = d.delegates ∧ d'.threshold = d.threshold ∧
      d'.version = d.version ∧ d'.visibility = d.visibility := by
  rw [roundtrip_canon hp d hv hw] at h
  cases hms : canonMembers nfc d.payload [] with
  | none => simp [hms] at h
  | some ms =>
    simp only [hms, Option.map_some, Option.some.injEq] at h
    exact ⟨_, h.symm, ⟨hv.1, hv.2, hv.3, hv.4, hv.5, hv.6, hv.7⟩, rfl, rfl, rfl, rfl⟩

/-! ### Accepted documents satisfy the representation invariant assumed above -/

theorem mem_setInsert {d x : Did} {s : List Did} (h : x ∈ setInsert d s) : x = d ∨ x ∈ s := by
  induction s with
  | nil => simpa [setInsert] using h
  | cons a t ih =>
    unfold setInsert at h
    split at h
    · simpa using h
    · split at h
      · rcases List.mem_cons.mp h with h | h
        · exact Or.inr (h ▸ List.mem_cons_self)
        · rcases ih h with h | h
          · exact Or.inl h
          · exact Or.inr (List.mem_cons_of_mem _ h)
      · exact Or.inr h

theorem setInsert_pairwise (d : Did) {s : List Did} (h : s.Pairwise (· < ·)) :
    (setInsert d s).Pairwise (· < ·) := by
  induction s with
  | nil => simp [setInsert]
  | cons a t ih =>
    rw [List.pairwise_cons] at h
    unfold setInsert
    split
    · rename_i hda
      rw [List.pairwise_cons]
      refine ⟨?_, List.pairwise_cons.mpr h⟩
      intro x hx
      rcases List.mem_cons.mp hx with rfl | hx
      · exact hda
      · exact Nat.lt_trans hda (h.1 x hx)
    · split
      · rename_i _ had
        rw [List.pairwise_cons]
        refine ⟨?_, ih h.2⟩
        intro x hx
        rcases mem_setInsert hx with rfl | hx
        · exact had
        · exact h.1 x hx
      · exact List.pairwise_cons.mpr h

theorem setOfList_pairwise (l : List Did) : (setOfList l).Pairwise (· < ·) := by
  unfold setOfList
  suffices ∀ acc : List Did, acc.Pairwise (· < ·) →
      (l.foldl (fun s d => setInsert d s) acc).Pairwise (· < ·) from this [] List.Pairwise.nil
  induction l with
  | nil => exact fun acc h => h
  | cons a t ih => exact fun acc h => ih _ (setInsert_pairwise a h)

theorem parseAllow_wf {pd : Bytes → Option Did} {f : Field} {l : List Did}
    (h : parseAllow pd f = some l) : l.Pairwise (· < ·) := by
  unfold parseAllow at h
  split at h
  · simp only [Option.some.injEq] at h; subst h; exact List.Pairwise.nil
  · cases h
  · rename_i v
    cases hv : parseDids pd v with
    | none => simp [hv] at h
    | some ds =>
      simp only [hv, Option.map_some, Option.some.injEq] at h
      subst h
      exact setOfList_pairwise ds

theorem parseVisibility_wf {pd : Bytes → Option Did} {j : Json} {v : Visibility}
    (h : parseVisibility pd j = some v) : v.WF := by
  unfold parseVisibility at h
  split at h
  · split at h
    · split at h
      · simp only [Option.some.injEq] at h; subst h; trivial
      · simp only [Option.map_eq_some_iff] at h
        obtain ⟨l, hl, rfl⟩ := h
        exact parseAllow_wf hl
      · cases h
    · cases h
  · split at h
    · split at h
      · simp only [Option.some.injEq] at h; subst h; trivial
      · cases h
    · split at h
      · simp only [Option.some.injEq] at h; subst h; exact List.Pairwise.nil
      · simp only [Option.map_eq_some_iff] at h
        obtain ⟨l, hl, rfl⟩ := h
        exact parseAllow_wf hl
      · cases h
    · cases h
  · cases h

theorem ofFields_wf {pd : Bytes → Option Did} {ver pay del thr vis : Field} {r : RawDoc}
    (h : RawDoc.ofFields pd ver pay del thr vis = some r) : r.visibility.WF := by
  unfold RawDoc.ofFields at h
  split at h
  · cases h
  · cases h
  · simp only at h
    split at h
    · rename_i version payload delegates threshold visibility _ _ _ _ hvis
      simp only [Option.some.injEq] at h
      subst h
      simp only
      split at hvis
      · exact parseVisibility_wf hvis
      · simp only [Option.some.injEq] at hvis; subst hvis; trivial
    · cases h
  · cases h

/-- Every accepted document keeps its allow-list as a strictly increasing list (the `BTreeSet`), so
`roundtrip_canon` applies to every document accepted from JSON. -/
theorem accepted_wf (pd : Bytes → Option Did) (j : Json) (d : Doc)
    (h : Doc.decode pd j = .ok d) : d.visibility.WF := by
  unfold Doc.decode at h
  split at h
  · cases h
  · rename_i raw hr
    obtain ⟨_, _, _, _, _, _, _, _, _, _, g⟩ := verified_invariants h
    rw [g]
    unfold RawDoc.ofJson at hr
    split at hr
    · exact ofFields_wf hr
    · exact ofFields_wf hr
    · exact ofFields_wf hr
    · cases hr

/-! ### The unrestricted round-trip statement is false; non-vacuity -/

/-- A stand-in for NFC that composes `e` + U+0301 (UTF-8 `65 cc 81`) into U+00E9 (`c3 a9`), as real NFC does. -/
def nfcDemo (s : Bytes) : Bytes := if s = [0x65, 0xcc, 0x81] then [0xc3, 0xa9] else s
/-- Toy `Did` syntax: key number `x` prints as `x+1` letters `z`. -/
def sdDemo (x : Did) : Bytes := List.replicate (x + 1) 0x7a
def pdDemo (s : Bytes) : Option Did :=
  if s ≠ [] ∧ s.all (· == 0x7a) = true then some (s.length - 1) else none

theorem params_demo : Params nfcDemo sdDemo pdDemo where
  nfc_ascii := by
    intro s h
    unfold nfcDemo
    split
    · rename_i hs; subst hs; exact absurd h (by decide)
    · rfl
  did_plain := by
    intro x
    simp only [plainAscii, sdDemo, List.all_eq_true, List.mem_replicate]
    rintro b ⟨_, rfl⟩
    decide
  did_rt := by
    intro x
    have h1 : sdDemo x ≠ [] := by simp [sdDemo]
    have h2 : (sdDemo x).all (· == 0x7a) = true := by
      simp only [sdDemo, List.all_eq_true, List.mem_replicate]
      rintro b ⟨_, rfl⟩
      rfl
    simp [pdDemo, h1, h2, sdDemo]

/-- A valid document (accepted from the JSON text
`{"payload":{"a":"é"},"delegates":["z"],"threshold":1}`) whose payload string is not NFC. -/
def docNonNfc : Doc :=
  { version := 1, payload := [([0x61], .str [0x65, 0xcc, 0x81])], delegates := [0], threshold := 1,
    visibility := .pub }

theorem docNonNfc_valid : docNonNfc.Valid :=
  ⟨by decide, by decide, by decide, by decide, by decide, by decide, by decide⟩

/-- **The full-strength round-trip statement of C19 is false of the current code**: there is a valid
document whose canonical encoding decodes to a *different* (valid) document — the payload string comes
back NFC-normalised. (Witness replayed on the real code by `corpus/C19/findings.case`; oracle class
`roundtrip-payload-not-nfc`.) -/
theorem roundtrip_counterexample :
    ∃ (nfc : Bytes → Bytes) (sd : Did → Bytes) (pd : Bytes → Option Did), Params nfc sd pd ∧
      ∃ d d' : Doc, d.Valid ∧ d.visibility.WF ∧ d.roundtrip nfc sd pd = some (.ok d') ∧ d' ≠ d := by
  refine ⟨nfcDemo, sdDemo, pdDemo, params_demo, docNonNfc,
    { docNonNfc with payload := [([0x61], .str [0xc3, 0xa9])] }, docNonNfc_valid, trivial, ?_, ?_⟩
  · rw [roundtrip_canon params_demo _ docNonNfc_valid trivial]
    rfl
  · intro h
    have := congrArg Doc.payload h
    simp [docNonNfc] at this

/-- Non-vacuity of `roundtrip_partial` / `roundtrip_canon` / `verify_toRaw`: a valid private document
with three delegates, threshold 2, a nested payload (keys not in canonical order, an escape, a negative
number) that is canonical-stable, and an allow-list. -/
def docDemo : Doc :=
  { version := 1,
    payload := [([0x61, 0x2e, 0x62], .obj [([0x6e], .str [0x78, 0x0a]), ([0x6b], .arr [.int (-5), .null, .bool true])])],
    delegates := [2, 0, 1], threshold := 2, visibility := .priv [3, 7] }

theorem docDemo_valid : docDemo.Valid :=
  ⟨by decide, by decide, by decide, by decide, by decide, by decide, by decide⟩

example : ∃ d', docDemo.roundtrip nfcDemo sdDemo pdDemo = some (.ok d') ∧ d'.Eqv docDemo :=
  roundtrip_partial params_demo docDemo docDemo_valid (by simp [docDemo, Visibility.WF]) _ rfl rfl

example : docDemo.toRaw.verified = .ok docDemo := verify_toRaw _ docDemo_valid

def rawDemo (t : Nat) : RawDoc :=
  { version := 1, payload := [], delegates := [4, 2, 4, 9, 2], threshold := t, visibility := .pub }

/-- Non-vacuity of `verified_invariants`: duplicates are dropped, order kept, threshold checked
against the de-duplicated count. -/
example : ((rawDemo 3).verified.toOption.map fun d => (d.delegates, d.threshold)) = some ([4, 2, 9], 3) := by
  decide

/-- …and a threshold that only the raw (non-de-duplicated) count would admit is refused. -/
example : ((rawDemo 4).verified.toOption.map fun d => d.threshold) = none := by decide

def jsonDemo (v : Int) : Json :=
  .obj [(sVersion, .int v), (sDelegates, .arr [.str [0x7a, 0x7a], .str [0x7a], .str [0x7a, 0x7a]]),
        (sThreshold, .int 2), (sPayload, .obj []), ([0x78], .null)]

/-- Non-vacuity of `accepted_invariants`: the JSON document
`{"version":1,"delegates":["zz","z","zz"],"threshold":2,"payload":{},"x":null}` is accepted. -/
example : ((Doc.decode pdDemo (jsonDemo 1)).toOption.map fun d => (d.delegates, d.threshold, d.version))
    = some ([1, 0], 2, 1) := by decide

/-- Versions 0 and 2 are refused by the serde layer. -/
example : ((Doc.decode pdDemo (jsonDemo 0)).toOption.map fun d => d.version) = none := by decide
example : ((Doc.decode pdDemo (jsonDemo 2)).toOption.map fun d => d.version) = none := by decide

/-- Non-vacuity of `rid_is_blob_hash` (with `hash := List.length` as a stand-in): `init` succeeds. -/
example : (initRepo (Oid := Nat) List.length nfcDemo sdDemo docDemo).isSome = true := by
  rfl

end HeartwoodModel.Doc
