import HeartwoodModel.Driver.Loop
import HeartwoodModel.Driver.C15
def main : IO Unit := HeartwoodModel.Driver.driverMain "C15" HeartwoodModel.Driver.C15.run
