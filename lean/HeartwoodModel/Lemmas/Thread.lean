import HeartwoodModel.Model.Thread
import HeartwoodModel.Lemmas.Cob
/-! Lemmas about `Model/Thread.lean`: what a thread operation can do to comments of *other* authors. -/
namespace HeartwoodModel.Cob

/-- The live comment stored under `id`, if it is not authored by `actor`. -/
def Thread.other (actor : Actor) (t : Thread) (id : Id) : Option Comment :=
  match get? id t.comments with
  | some (some c) => if c.author = actor then none else some c
  | _ => none

/-- What "edited" means for a comment: author, body versions and reply target (the `resolved` flag of a
review comment may also be flipped by the reviewer and the revision author). -/
def Comment.core (c : Comment) : Actor × List (Actor × Nat) × Option Id := (c.author, c.edits, c.replyTo)

def Thread.otherCore (actor : Actor) (t : Thread) (id : Id) :
    Option (Actor × List (Actor × Nat) × Option Id) :=
  (t.other actor id).map Comment.core

theorem Thread.other_of_comments_eq {actor : Actor} {t t' : Thread} (h : t'.comments = t.comments) (id : Id) :
    t'.other actor id = t.other actor id := by
  simp [Thread.other, h]

theorem Thread.otherCore_of_other {actor : Actor} {t t' : Thread}
    (h : ∀ id, t'.other actor id = t.other actor id) (id : Id) :
    t'.otherCore actor id = t.otherCore actor id := by
  simp [Thread.otherCore, h]

theorem Thread.comment_other {t t' : Thread} {e : Id} {actor : Actor} {body : Nat} {rt : Option Id}
    (h : t.comment e actor body rt = .ok t') (hf : t.other actor e = none) (id : Id) :
    t'.other actor id = t.other actor id := by
  unfold Thread.comment at h
  split at h
  · cases h
  · split at h
    · cases h
    · cases h
      by_cases hid : id = e
      · subst hid
        rw [hf]
        simp [Thread.other, get?_ins_self]
      · simp [Thread.other, get?_ins_ne _ _ hid]

theorem Thread.edit_other {t t' : Thread} {e : Id} {actor : Actor} {cid : Id} {body : Nat}
    (h : t.edit e actor cid body = .ok t')
    (ha : ∀ c, get? cid t.comments = some (some c) → c.author = actor) (id : Id) :
    t'.other actor id = t.other actor id := by
  unfold Thread.edit at h
  split at h
  · cases h
  · split at h
    · cases h
    · cases h; rfl
    · rename_i c hc
      cases h
      by_cases hid : id = cid
      · subst hid
        simp [Thread.other, get?_ins_self, hc, ha c hc]
      · simp [Thread.other, get?_ins_ne _ _ hid]

theorem Thread.redact_other {t t' : Thread} {e : Id} {actor : Actor} {cid : Id}
    (h : t.redact e cid = .ok t')
    (ha : ∀ c, get? cid t.comments = some (some c) → c.author = actor) (id : Id) :
    t'.other actor id = t.other actor id := by
  unfold Thread.redact at h
  split at h
  · cases h
  · rename_i x hx
    cases h
    by_cases hid : id = cid
    · subst hid
      cases x with
      | none => simp [Thread.other, get?_ins_self, hx]
      | some c => simp [Thread.other, get?_ins_self, hx, ha c hx]
    · simp [Thread.other, get?_ins_ne _ _ hid]

theorem Thread.react_comments {t t' : Thread} {e cid : Id} (h : t.react e cid = .ok t') :
    t'.comments = t.comments := by
  unfold Thread.react at h
  split at h <;> cases h <;> rfl

theorem Thread.setResolved_otherCore {t t' : Thread} {e cid : Id} {b : Bool} {actor : Actor}
    (h : t.setResolved e cid b = .ok t') (id : Id) : t'.otherCore actor id = t.otherCore actor id := by
  unfold Thread.setResolved at h
  split at h
  · cases h
  · cases h; rfl
  · rename_i c hc
    cases h
    by_cases hid : id = cid
    · subst hid
      simp only [Thread.otherCore, Thread.other, get?_ins_self, hc]
      split <;> simp [Comment.core]
    · simp [Thread.otherCore, Thread.other, get?_ins_ne _ _ hid]

/-! ### keys: an operation of entry `e` can only create the key `e` -/

theorem Thread.comment_keys {t t' : Thread} {e : Id} {actor : Actor} {body : Nat} {rt : Option Id}
    (h : t.comment e actor body rt = .ok t') (k : Id) (hk : get? k t'.comments ≠ none) :
    get? k t.comments ≠ none ∨ k = e := by
  unfold Thread.comment at h
  split at h
  · cases h
  · split at h
    · cases h
    · cases h
      by_cases hid : k = e
      · exact Or.inr hid
      · left; simpa [get?_ins_ne _ _ hid] using hk

theorem Thread.edit_keys {t t' : Thread} {e : Id} {actor : Actor} {cid : Id} {body : Nat}
    (h : t.edit e actor cid body = .ok t') (k : Id) (hk : get? k t'.comments ≠ none) :
    get? k t.comments ≠ none := by
  unfold Thread.edit at h
  split at h
  · cases h
  · split at h
    · cases h
    · cases h; exact hk
    · rename_i c hc
      cases h
      by_cases hid : k = cid
      · subst hid; simp [hc]
      · simpa [get?_ins_ne _ _ hid] using hk

theorem Thread.redact_keys {t t' : Thread} {e cid : Id}
    (h : t.redact e cid = .ok t') (k : Id) (hk : get? k t'.comments ≠ none) :
    get? k t.comments ≠ none := by
  unfold Thread.redact at h
  split at h
  · cases h
  · rename_i x hx
    cases h
    by_cases hid : k = cid
    · subst hid; simp [hx]
    · simpa [get?_ins_ne _ _ hid] using hk

end HeartwoodModel.Cob
