/-!
# Model of the fetch scheduling of `radicle-node` (property C16)

Mirrors, as of the commits `fix: ignore fetch results that don't belong to the ongoing fetch` and
`fix: fail a peer's ongoing fetches when its session is reset by a new connection`:

* `crates/radicle-node/src/service.rs`: `Service::{fetch, _fetch, fetch_refs_at, try_fetch, queue_fetch,
  fetched, dequeue_fetches, connected, disconnected, connect, fetch_missing_repositories,
  wake/maintain_persistent}` and the parts of `handle_message`/`handle_announcement` that lead from a refs
  announcement to `fetch_refs_at` and from an inventory announcement to `fetch`;
* `crates/radicle-node/src/service/session.rs`: `Session::{fetching, fetched, queue_fetch, dequeue_fetch,
  is_at_capacity, to_connected, to_disconnected}`, `MAX_FETCH_QUEUE_SIZE = 128`, the `PartialEq` of
  `QueuedFetch` (two queued fetches are equal only if neither carries a result channel);
* `crates/radicle-node/src/service/io.rs`: `Outbox::fetch` (calls `Session::fetching`, pushes `Io::Fetch`).

Abstractions. `Service.fetching : HashMap<RepoId, FetchState>` and `Sessions` are partial functions.
`Session.state` keeps what scheduling looks at: `attempted` (stands for `Initial`/`Attempted`: in the
event alphabet every `Io::Connect` is immediately followed by `Service::attempted`, as in `Wire`),
`connected fetching` and `disconnected`; the `HashSet<RepoId>` is a list (`insert` on a present key is the
`assert!` of `Session::fetching`, hence the lists never hold duplicates — part of the invariant).
A `refs_at` list is a token `Nat` (`0` = empty = fetch everything); `refs_status_of` (what of an announced
refs list is still wanted, a function of the refs cache) is the parameter `Cfg.want`. The result channel
of a fetch is the bit `chan`; subscribers are not modelled. The order in which `Sessions::shuffled()`
presents the sessions to `dequeue_fetches` is an input (`perm`) of every event that dequeues.

Ghost state, not present in the code: every `Io::Fetch` gets a fresh id `fid`; `pending` lists the
worker results not yet delivered `(fid, rid, nid)`; `misattributed` records that a delivered result
completed an entry of `fetching` that was created for another `fid`; `refetched` records that a fetch of
`(rid, nid)` was started while a result for the same `(rid, nid)` was still outstanding.

Panic sites on the modelled path: `Session::fetching` (`assert!(fetching.insert(rid))`, preceded in
debug builds by the equivalent `debug_assert!(!session.is_fetching(&rid))` of `try_fetch`; its other
`panic!`, "disconnected session", is unreachable because `try_fetch` tests `is_connected` on the same
borrow), `Session::queue_fetch` (`assert_eq!(fetch.from, self.id)`). The `unwrap` in `dequeue_fetches`
("all the keys we are iterating on exist") is the error `badPerm` here: `perm` is an input, and
`dequeueFetches` never changes the key set (`Props/C16.lean`, `dequeueFetches_keys`).
-/
namespace HeartwoodModel.FetchSched

abbrev Nid := Nat
abbrev Rid := Nat

/-- `MAX_FETCH_QUEUE_SIZE`. -/
def maxQueue : Nat := 128

inductive Link
  | inbound
  | outbound
  deriving DecidableEq, Repr

/-- `QueuedFetch` (`timeout` dropped, `refs_at` a token, `channel` a bit). -/
structure QFetch where
  rid : Rid
  frm : Nid
  refs : Nat
  chan : Bool
  deriving DecidableEq, Repr

/-- `impl PartialEq for QueuedFetch`. -/
def QFetch.same (a b : QFetch) : Bool :=
  a.rid == b.rid && a.frm == b.frm && a.refs == b.refs && !a.chan && !b.chan

inductive SState
  | attempted
  | connected (fetching : List Rid)
  | disconnected
  deriving DecidableEq, Repr

structure Session where
  id : Nid
  link : Link
  st : SState
  queue : List QFetch
  deriving DecidableEq, Repr

/-- The `fetching` set of a connected session (empty otherwise). -/
def Session.fset (x : Session) : List Rid :=
  match x.st with
  | .connected f => f
  | _ => []

def Session.isConnected (x : Session) : Bool :=
  match x.st with
  | .connected _ => true
  | _ => false

/-- `Session::to_connected`: whatever the previous state, even `connected`, the fetching set is reset. -/
def Session.toConnected (x : Session) : Session := { x with st := .connected [] }

/-- `Session::fetched`: remove the repository from the set of a connected session. -/
def Session.fetched (x : Session) (rid : Rid) : Session :=
  match x.st with
  | .connected fs => { x with st := .connected (fs.filter (fun r => r != rid)) }
  | _ => x

/-- `FetchState` plus the ghost id. -/
structure Fetch where
  frm : Nid
  refs : Nat
  fid : Nat
  deriving DecidableEq, Repr

structure Cfg where
  /-- `limits.fetch_concurrency` -/
  conc : Nat
  /-- `config.connect`: the persistent peers -/
  persist : List Nid
  /-- `refs_status_of`: the wanted part of an announced / queued refs token (`0` = nothing) -/
  want : Nat → Nat
  /-- Event-alphabet switch: `true` = a worker result is only delivered to the service while the node it
  comes from has a connected session (an approximation, at service level, of `Wire::worker_result`, which
  drops results for unknown / disconnecting peers); `false` = results are delivered unconditionally. -/
  wireFilter : Bool

/-- An `Io::Fetch` pushed on the outbox. -/
structure Emit where
  rid : Rid
  nid : Nid
  refs : Nat
  fid : Nat
  deriving DecidableEq, Repr

structure State where
  sessions : Nid → Option Session
  fetching : Rid → Option Fetch
  nextFid : Nat
  /-- ghost: worker results not yet delivered -/
  pending : List (Nat × Rid × Nid)
  /-- `Io::Fetch`es emitted during the current event -/
  emits : List Emit
  /-- ghost -/
  misattributed : Bool
  /-- ghost -/
  refetched : Bool

inductive Site
  /-- `assert!(fetching.insert(rid), "Session must not already be fetching {rid}")` -/
  | alreadyFetching
  /-- `assert_eq!(fetch.from, self.id)` in `Session::queue_fetch` -/
  | queueFrom
  deriving DecidableEq, Repr

inductive Err
  | panic (site : Site)
  /-- `perm` names a node without session: not a value `Sessions::shuffled()` can return -/
  | badPerm
  deriving DecidableEq, Repr

def upd {α : Type} (f : Nat → Option α) (k : Nat) (v : Option α) : Nat → Option α :=
  fun j => if j = k then v else f j

def setSession (s : State) (n : Nid) (x : Option Session) : State :=
  { s with sessions := upd s.sessions n x }

def init (c : Cfg) : State :=
  { sessions := fun n => if c.persist.contains n then some ⟨n, .outbound, .attempted, []⟩ else none
    fetching := fun _ => none
    nextFid := 1
    pending := []
    emits := []
    misattributed := false
    refetched := false }

/-- `Session::is_at_capacity`. -/
def atCapacity (c : Cfg) (x : Session) : Bool :=
  match x.st with
  | .connected fs => decide (c.conc ≤ fs.length)
  | _ => false

inductive TryFetch
  | started
  | already (f : Fetch)
  | capacity
  | notConnected

/-- `Service::try_fetch` (release build) including `Outbox::fetch`. -/
def tryFetch (c : Cfg) (s : State) (rid : Rid) (frm : Nid) (refs : Nat) : Except Err (State × TryFetch) :=
  match s.sessions frm with
  | none => .ok (s, .notConnected)
  | some x =>
    match s.fetching rid with
    | some f => .ok (s, .already f)
    | none =>
      match x.st with
      | .connected fs =>
        if c.conc ≤ fs.length then .ok (s, .capacity)
        else if fs.contains rid then .error (.panic .alreadyFetching)
        else
          .ok ({ s with
                  sessions := upd s.sessions frm (some { x with st := .connected (rid :: fs) })
                  fetching := upd s.fetching rid (some ⟨frm, refs, s.nextFid⟩)
                  nextFid := s.nextFid + 1
                  pending := s.pending ++ [(s.nextFid, rid, frm)]
                  emits := s.emits ++ [⟨rid, frm, refs, s.nextFid⟩]
                  refetched := s.refetched || s.pending.any (fun p => p.2.1 == rid && p.2.2 == frm) },
               .started)
      | _ => .ok (s, .notConnected)

/-- `Service::queue_fetch` + `Session::queue_fetch`. -/
def queueFetch (s : State) (q : QFetch) : Except Err State :=
  match s.sessions q.frm with
  | none => .ok s
  | some x =>
    if x.id ≠ q.frm then .error (.panic .queueFrom)
    else if maxQueue ≤ x.queue.length then .ok s
    else if x.queue.any (fun y => y.same q) then .ok s
    else .ok (setSession s q.frm (some { x with queue := x.queue ++ [q] }))

/-- `Service::_fetch`. -/
def fetch (c : Cfg) (s : State) (rid : Rid) (frm : Nid) (refs : Nat) (chan : Bool) : Except Err State :=
  match tryFetch c s rid frm refs with
  | .error e => .error e
  | .ok (s', .started) => .ok s'
  | .ok (s', .already f) =>
    if f.frm = frm ∧ f.refs = refs then .ok s' else queueFetch s' ⟨rid, frm, refs, chan⟩
  | .ok (s', .capacity) => queueFetch s' ⟨rid, frm, refs, chan⟩
  | .ok (s', .notConnected) => .ok s'

/-- `Service::fetch_refs_at`: skip if nothing is wanted. -/
def fetchRefsAt (c : Cfg) (s : State) (rid : Rid) (frm : Nid) (refs : Nat) (chan : Bool) : Except Err State :=
  if c.want refs = 0 then .ok s else fetch c s rid frm (c.want refs) chan

/-- The body of the loop of `Service::dequeue_fetches` for one session. -/
def dequeueOne (c : Cfg) (s : State) (n : Nid) : Except Err State :=
  match s.sessions n with
  | none => .error .badPerm
  | some x =>
    if !x.isConnected || atCapacity c x then .ok s
    else
      match x.queue with
      | [] => .ok s
      | q :: rest =>
        let s1 := setSession s n (some { x with queue := rest })
        if q.refs = 0 then fetch c s1 q.rid q.frm 0 q.chan
        else fetchRefsAt c s1 q.rid q.frm q.refs q.chan

def dequeueFetches (c : Cfg) : State → List Nid → Except Err State
  | s, [] => .ok s
  | s, n :: ns =>
    match dequeueOne c s n with
    | .ok s' => dequeueFetches c s' ns
    | .error e => .error e

/-- `Service::fetched` (the result value only matters for what is announced afterwards). -/
def fetched (c : Cfg) (s : State) (rid : Rid) (n : Nid) (perm : List Nid) : Except Err State :=
  match s.fetching rid with
  | none => .ok s
  | some f =>
    if f.frm = n then
      let s1 := { s with fetching := upd s.fetching rid none }
      let s2 := match s1.sessions n with
        | some x => setSession s1 n (some (x.fetched rid))
        | none => s1
      dequeueFetches c s2 perm
    else .ok s

/-- `Service::fail_fetches`: `fetching.retain(|_, fetching| fetching.from != remote)` (the subscribers
of the dropped fetches are sent a failure). -/
def dropFrom (fet : Rid → Option Fetch) (n : Nid) : Rid → Option Fetch := fun r =>
  match fet r with
  | some f => if f.frm = n then none else some f
  | none => none

/-- The reset of an existing session by a new connection: if it is in connected state its ongoing
fetches are failed first (`fix: fail a peer's ongoing fetches when its session is reset by a new
connection`), then `to_connected`. -/
def resetSession (s : State) (n : Nid) (x : Session) : State :=
  let s1 := if x.isConnected then { s with fetching := dropFrom s.fetching n } else s
  setSession s1 n (some x.toConnected)

/-- `Service::connected`. -/
def connected (s : State) (n : Nid) (link : Link) : State :=
  match link, s.sessions n with
  | .outbound, some x => resetSession s n x
  | .outbound, none => s
  | .inbound, some x => resetSession s n { x with link := .inbound }
  | .inbound, none => setSession s n (some ⟨n, .inbound, .connected [], []⟩)

/-- `Command::Connect` → `Service::connect`, then `Service::attempted`. -/
def dial (s : State) (n : Nid) : State :=
  match s.sessions n with
  | some _ => s
  | none => setSession s n (some ⟨n, .outbound, .attempted, []⟩)

/-- `Service::disconnected`. -/
def disconnected (c : Cfg) (s : State) (n : Nid) (link : Link) (perm : List Nid) : Except Err State :=
  match s.sessions n with
  | none => .ok s
  | some x =>
    if x.link ≠ link then .ok s
    else
      let s1 := { s with fetching := dropFrom s.fetching n }
      let s2 := if c.persist.contains n then setSession s1 n (some { x with st := .disconnected })
                else setSession s1 n none
      dequeueFetches c s2 perm

/-- A refs announcement of `n`, received from `n` (`handle_message` + `handle_announcement`): ignored
without session or from a disconnected one; a connecting session is moved to connected first. -/
def refsAnn (c : Cfg) (s : State) (rid : Rid) (n : Nid) (v : Nat) : Except Err State :=
  match s.sessions n with
  | none => .ok s
  | some x =>
    match x.st with
    | .disconnected => .ok s
    | .attempted => fetchRefsAt c (setSession s n (some x.toConnected)) rid n v false
    | .connected _ => fetchRefsAt c s rid n v false

/-- An inventory announcement of `n` listing `rid`, received from `n`, in the situation where
`handle_announcement` fetches: the announcement is fresh (the routing table was updated by it), `rid` is
seeded and not in the local inventory. `self.fetch(rid, announcer, FETCH_TIMEOUT, None)`. -/
def invAnn (c : Cfg) (s : State) (rid : Rid) (n : Nid) : Except Err State :=
  match s.sessions n with
  | none => .ok s
  | some x =>
    match x.st with
    | .disconnected => .ok s
    | .attempted => fetch c (setSession s n (some x.toConnected)) rid n 0 false
    | .connected _ => fetch c s rid n 0 false

/-- `Service::fetch_missing_repositories`: `plan` lists, in the order the code visits them, the seeded
repositories missing from storage with each of their connected seeds (`self.seeds(&rid)?.connected()`,
a function of the routing table and the RNG — an input here). One full fetch is requested per pair. -/
def fetchAll (c : Cfg) : State → List (Rid × Nid) → Except Err State
  | s, [] => .ok s
  | s, (rid, n) :: rest =>
    match fetch c s rid n 0 false with
    | .ok s' => fetchAll c s' rest
    | .error e => .error e

/-- `Service::maintain_persistent` (+ `Service::attempted`) when every retry time has passed. -/
def redial (c : Cfg) (ss : Nid → Option Session) : Nid → Option Session := fun n =>
  match ss n with
  | some x =>
    match x.st with
    | .disconnected => if c.persist.contains n then some { x with st := .attempted } else some x
    | _ => some x
  | none => none

/-- `Service::wake` once every interval has elapsed: the idle task dequeues; the sync task fetches the
missing repositories (`plan`); `maintain_persistent` re-dials the disconnected persistent peers. -/
def wake (c : Cfg) (s : State) (perm : List Nid) (plan : List (Rid × Nid)) : Except Err State :=
  match dequeueFetches c s perm with
  | .error e => .error e
  | .ok s1 =>
    match fetchAll c s1 plan with
    | .error e => .error e
    | .ok s2 => .ok { s2 with sessions := redial c s2.sessions }

inductive Op
  | connIn (n : Nid)
  | connOut (n : Nid)
  | dial (n : Nid)
  | disc (n : Nid) (link : Link) (perm : List Nid)
  | fetchCmd (rid : Rid) (n : Nid)
  | refsAnn (rid : Rid) (n : Nid) (v : Nat)
  | invAnn (rid : Rid) (n : Nid)
  /-- delivery of the worker result of fetch `fid` (`ok` is not looked at by the scheduling) -/
  | result (fid : Nat) (ok : Bool) (perm : List Nid)
  | wake (perm : List Nid) (plan : List (Rid × Nid))
  deriving Repr

def findPending (s : State) (fid : Nat) : Option (Nat × Rid × Nid) :=
  s.pending.find? (fun p => p.1 == fid)

/-- Does `Wire::worker_result` forward a result of node `n` to the service (service-level view)? -/
def forwards (c : Cfg) (s : State) (n : Nid) : Bool :=
  !c.wireFilter ||
    match s.sessions n with
    | some x => x.isConnected
    | none => false

/-- Delivery of the result of fetch `fid` (nothing happens if it is not outstanding; the result is
consumed without reaching the service if `Wire` does not forward it). -/
def result (c : Cfg) (s : State) (fid : Nat) (perm : List Nid) : Except Err State :=
  match findPending s fid with
  | none => .ok s
  | some (_, rid, n) =>
    if forwards c s n then
      let stale := match s.fetching rid with
        | some f => f.frm == n && f.fid != fid
        | none => false
      fetched c { s with pending := s.pending.filter (fun p => p.1 != fid)
                         misattributed := s.misattributed || stale } rid n perm
    else .ok { s with pending := s.pending.filter (fun p => p.1 != fid) }

def step (c : Cfg) (s0 : State) (op : Op) : Except Err State :=
  let s := { s0 with emits := [] }
  match op with
  | .connIn n => .ok (connected s n .inbound)
  | .connOut n => .ok (connected s n .outbound)
  | .dial n => .ok (dial s n)
  | .disc n l perm => disconnected c s n l perm
  | .fetchCmd rid n => fetch c s rid n 0 true
  | .refsAnn rid n v => refsAnn c s rid n v
  | .invAnn rid n => invAnn c s rid n
  | .result fid _ perm => result c s fid perm
  | .wake perm plan => wake c s perm plan

def runFrom (c : Cfg) : State → List Op → Except Err State
  | s, [] => .ok s
  | s, op :: ops =>
    match step c s op with
    | .ok s' => runFrom c s' ops
    | .error e => .error e

def run (c : Cfg) (ops : List Op) : Except Err State := runFrom c (init c) ops

end HeartwoodModel.FetchSched
