import HeartwoodModel.Driver.Loop
import HeartwoodModel.Driver.C02
def main : IO Unit := HeartwoodModel.Driver.driverMain "C02" HeartwoodModel.Driver.C02.run
