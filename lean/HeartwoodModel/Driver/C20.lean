/-! Driver entry for property C20 (stub: not implemented yet). -/
namespace HeartwoodModel.Driver.C20

def run (_args : List String) : String := "unimplemented"

end HeartwoodModel.Driver.C20
