/-!
# Model of `crates/radicle/src/cob/thread.rs` (comment threads) and shared COB vocabulary

Import-free. Shared by `Model/Issue.lean` and `Model/Patch.lean`.

* Actors (public keys), entry ids (commit oids of changes), labels, bodies and titles are natural-number
  tokens; the harness maps them to real keys / oids / strings. Body token `0` is the empty string.
* `BTreeMap`s are association lists with unique keys (`ins` replaces in place or appends, `lookup` reads);
  `BTreeSet`s are sorted duplicate-free lists (`canon`).
* Projection: reactions, embeds, code locations and timestamps are dropped (not mentioned by the
  properties); the *error behaviour* of the actions touching them is kept.
* `debug_assert!`s are not modelled (the harness builds in release mode, as the shipped binaries).
-/
namespace HeartwoodModel.Cob

abbrev Actor := Nat
abbrev Id := Nat

/-- Error classes (the tie only distinguishes `ok` / error / panic). -/
inductive Err
  | missing | notAuthorized | notAllowed | emptyBody | emptyReview | invalidTitle | init
  | missingIdentity | git | panic
  deriving DecidableEq, Repr

/-- `Authorization` of `cob/common.rs`. -/
inductive Auth
  | allow | deny | unknown
  deriving DecidableEq, Repr

def Auth.ofBool (b : Bool) : Auth := if b then .allow else .deny

/-- An identity document, as far as the COBs look at it. -/
structure Doc where
  delegates : List Actor
  threshold : Nat
  deriving DecidableEq, Repr

def Doc.isDelegate (d : Doc) (a : Actor) : Bool := d.delegates.contains a

/-! ### sets and maps -/

def insertSorted (x : Nat) : List Nat → List Nat
  | [] => [x]
  | y :: ys => if x < y then x :: y :: ys else if x = y then y :: ys else y :: insertSorted x ys

/-- `BTreeSet::from_iter`: sorted, duplicate-free. -/
def canon (xs : List Nat) : List Nat := xs.foldr insertSorted []

/-- `BTreeMap::insert`: replace the binding of `k` in place, or append a new one. -/
def ins {α : Type} (k : Nat) (v : α) : List (Nat × α) → List (Nat × α)
  | [] => [(k, v)]
  | (k', v') :: rest => if k' = k then (k, v) :: rest else (k', v') :: ins k v rest

/-- `BTreeMap::get`. -/
def get? {α : Type} (k : Nat) : List (Nat × α) → Option α
  | [] => none
  | (k', v) :: rest => if k' = k then some v else get? k rest

/-- `BTreeMap::remove`. -/
def del {α : Type} (k : Nat) : List (Nat × α) → List (Nat × α)
  | [] => []
  | (k', v) :: rest => if k' = k then del k rest else (k', v) :: del k rest

/-! ### threads -/

structure Comment where
  author : Actor
  /-- `(edit author, body)`, oldest first; never empty. -/
  edits : List (Actor × Nat)
  replyTo : Option Id
  resolved : Bool
  deriving DecidableEq, Repr

structure Thread where
  /-- `None` = redacted. -/
  comments : List (Id × Option Comment)
  timeline : List Id
  deriving DecidableEq, Repr

def Thread.empty : Thread := { comments := [], timeline := [] }

/-- `reply_to` names a comment id that was never seen (`!thread.comments.contains_key(&id)`). -/
def Thread.replyMissing (t : Thread) : Option Id → Bool
  | some r => (get? r t.comments).isNone
  | none => false

/-- `thread::comment`. -/
def Thread.comment (t : Thread) (id : Id) (author : Actor) (body : Nat) (replyTo : Option Id) :
    Except Err Thread :=
  if body = 0 then .error .emptyBody
  else if t.replyMissing replyTo then .error .missing
  else .ok { comments := ins id (some { author, edits := [(author, body)], replyTo, resolved := false })
               t.comments,
             timeline := t.timeline ++ [id] }

/-- `thread::edit`. -/
def Thread.edit (t : Thread) (id : Id) (author : Actor) (comment : Id) (body : Nat) : Except Err Thread :=
  if body = 0 then .error .emptyBody
  else match get? comment t.comments with
    | none => .error .missing
    | some none => .ok { t with timeline := t.timeline ++ [id] }
    | some (some c) =>
      .ok { comments := ins comment (some { c with edits := c.edits ++ [(author, body)] }) t.comments,
            timeline := t.timeline ++ [id] }

/-- `thread::redact`. -/
def Thread.redact (t : Thread) (id : Id) (comment : Id) : Except Err Thread :=
  match get? comment t.comments with
  | none => .error .missing
  | some _ => .ok { comments := ins comment none t.comments, timeline := t.timeline ++ [id] }

/-- `thread::react` (the reaction set itself is projected away). -/
def Thread.react (t : Thread) (id : Id) (comment : Id) : Except Err Thread :=
  match get? comment t.comments with
  | none => .error .missing
  | some none => .ok t
  | some (some _) => .ok { t with timeline := t.timeline ++ [id] }

/-- `thread::resolve` / `thread::unresolve`. -/
def Thread.setResolved (t : Thread) (id : Id) (comment : Id) (b : Bool) : Except Err Thread :=
  match get? comment t.comments with
  | none => .error .missing
  | some none => .ok t
  | some (some c) =>
    .ok { comments := ins comment (some { c with resolved := b }) t.comments,
          timeline := t.timeline ++ [id] }

/-- `Thread::comments().next()`: first entry of the timeline that is a live comment. -/
def Thread.firstLive (t : Thread) : Option (Id × Comment) :=
  t.timeline.findSome? fun id =>
    match get? id t.comments with
    | some (some c) => some (id, c)
    | _ => none


/-! ### the stand-alone `Thread` COB (`impl Cob for Thread`): `Thread::action`, `Thread::op`

Only used for the atomicity lemma `op_atomic_thread` (C06); it has no harness of its own — the thread
operations above are exercised through the Issue and Patch harnesses. -/

inductive TAction
  | comment (body : Nat) (replyTo : Option Id)
  | edit (id : Id) (body : Nat)
  | redact (id : Id)
  | react (to : Id)
  deriving DecidableEq, Repr

structure TOp where
  id : Id
  author : Actor
  /-- `op.identity.is_some()` (`Error::MissingIdentity` otherwise) -/
  hasIdentity : Bool
  actions : List TAction
  deriving DecidableEq, Repr

/-- `Thread::action`. -/
def Thread.action (t : Thread) (a : TAction) (entry : Id) (author : Actor) : Except Err Thread :=
  match a with
  | .comment body replyTo => t.comment entry author body replyTo
  | .edit id body => t.edit entry author id body
  | .redact id => t.redact entry id
  | .react to => t.react entry to

def Thread.applyActions (entry : Id) (author : Actor) : Thread → List TAction → Except Err Thread
  | t, [] => .ok t
  | t, a :: as =>
    match t.action a entry author with
    | .ok t' => Thread.applyActions entry author t' as
    | .error e => .error e

/-- `Thread::op` (atomic: applied to a clone, assigned back on success). -/
def Thread.op (t : Thread) (o : TOp) : Except Err Thread :=
  if !o.hasIdentity then .error .missingIdentity else Thread.applyActions o.id o.author t o.actions

/-- One evaluator step: a rejected entry leaves the thread unchanged. -/
def Thread.step (t : Thread) (o : TOp) : Thread :=
  match t.op o with
  | .ok t' => t'
  | .error _ => t

end HeartwoodModel.Cob
