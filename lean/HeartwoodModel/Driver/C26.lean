import HeartwoodModel.Model.Term
import HeartwoodModel.Driver.Util
/-! Driver entry for C26.

String token: `-` (empty) or clusters joined by `,`; a cluster is `<width>` followed by one
`:<w|n><hex>` per scalar value (`w` = `char::is_whitespace`), e.g. `ab　…` = `1:n61,1:n62,2:we38080,1:ne280a6`.

* `str <s> <width> <delim>` — `str::truncate` → `ok:<hex of the result>` | `panic` | `inside`
* `line <items> <width> <delim>` — `Line::truncate`; `<items>` is `~` (no label) or string tokens joined
  by `/` → `ok:<hex>/<hex>…` (`~` when no label is left) | `panic` | `inside` | `fuel`
-/
namespace HeartwoodModel.Driver.C26
open HeartwoodModel.Term HeartwoodModel.Driver.Util

def chr? (t : String) : Option Chr :=
  match t.toList with
  | 'w' :: h => (hexBytes? (String.ofList h)).bind fun b => if b.isEmpty then none else some ⟨b, true⟩
  | 'n' :: h => (hexBytes? (String.ofList h)).bind fun b => if b.isEmpty then none else some ⟨b, false⟩
  | _ => none

def grapheme? (t : String) : Option Grapheme :=
  match splitOn t ':' with
  | w :: cs@(_ :: _) => do
    let w ← nat? w
    let cs ← cs.mapM chr?
    some ⟨cs, w⟩
  | _ => none

def str? (t : String) : Option Str :=
  if t == "-" then some [] else (splitOn t ',').mapM grapheme?

def line? (t : String) : Option Line :=
  if t == "~" then some [] else (splitOn t '/').mapM str?

def showLine (l : Line) : String :=
  if l.isEmpty then "~" else joinWith "/" (l.map fun i => toHex (bytesOf i))

def run (args : List String) : String :=
  match args with
  | ["str", s, w, d] =>
    match str? s, nat? w, str? d with
    | some s, some w, some d =>
      match truncate s w d with
      | .ok out => "ok:" ++ toHex (bytesOf out)
      | .panic _ => "panic"
      | .cutInsideGrapheme => "inside"
    | _, _, _ => "bad-op"
  | ["line", l, w, d] =>
    match line? l, nat? w, str? d with
    | some l, some w, some d =>
      match lineTruncate (l.length + 2) l w d with
      | none => "fuel"
      | some (.ok out) => "ok:" ++ showLine out
      | some (.panic _) => "panic"
      | some .cutInsideGrapheme => "inside"
    | _, _, _ => "bad-op"
  | _ => "bad-op"

end HeartwoodModel.Driver.C26
