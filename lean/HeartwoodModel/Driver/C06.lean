/-! Driver entry for property C06 (stub: not implemented yet). -/
namespace HeartwoodModel.Driver.C06

def run (_args : List String) : String := "unimplemented"

end HeartwoodModel.Driver.C06
