import HeartwoodModel.Model.ChangeGraph
import HeartwoodModel.Driver.Util
/-! Driver entry for C05 (shared with C06). Case: `<changes> <tipsets> ord=<ranks> sig=<bits>`
(`sig` = `Entry::valid_signatures()` of every change, computed by the real code; a kind written with a
trailing `!` was stored with a forged signature).

`changes` = `;`-list, change `i` = `actor:ts:parents:kind`; `parents` = `+`-list of earlier indices,
`x` = a commit that is not a change (unloadable), `-` = none; kinds: `r` root, `c` comment, `e` edit
title (accepted iff by the issue author or the delegate, actor 0), `l` set the label set (accepted iff actor 0),
`b…` = a change the object type rejects. `tipsets` = `/`-list of `,`-lists of indices or `x`.
`ord` = for each change the rank of its oid among the oids of the case (computed by the real code; the
model's keys). Output per tip set: `R<order>|T<timeline>;t<title>;L<labels>;H<history>;P<tips>`,
joined by `/`. -/
namespace HeartwoodModel.Driver.C05
open HeartwoodModel.Dag HeartwoodModel.ChangeGraph HeartwoodModel.Driver.Util

structure Ch where
  idx : Nat
  actor : Nat
  ts : Nat
  /-- `none` = unloadable parent -/
  parents : List (Option Nat)
  kind : String
  /-- `Entry::valid_signatures()`, computed by the real code (`sig=` token) -/
  sig : Bool := true

/-- key used for every unloadable commit -/
def xKey : Nat := 1000000

def parseRefs (s : String) (sep : Char) : Option (List (Option Nat)) :=
  if s == "-" then some [] else
  (splitOn s sep).mapM fun t => if t == "x" then some none else (nat? t).map some

def parseCh (i : Nat) (s : String) : Option Ch :=
  match splitOn s ':' with
  | [a, t, ps, kind] => do
    let a ← nat? a; let t ← nat? t; let ps ← parseRefs ps '+'
    -- a trailing `!` marks a change stored with a forged signature; the model uses the `sig=` bit
    let kind := if kind.endsWith "!" then (kind.dropEnd 1).toString else kind
    if ps.all (fun p => match p with | some j => decide (j < i) | none => true) then
      some { idx := i, actor := a, ts := t, parents := ps, kind }
    else none
  | _ => none

def parseChanges (s : String) : Option (List Ch) :=
  let rec go (i : Nat) : List String → Option (List Ch)
    | [] => some []
    | t :: rest => do let c ← parseCh i t; let cs ← go (i + 1) rest; some (c :: cs)
  go 0 (splitOn s ';')

def parseOrd (s : String) (n : Nat) : Option (List Nat) :=
  match splitOn s '=' with
  | ["ord", r] => do
    let r ← nats? r
    if r.length == n then some r else none
  | _ => none

structure Case where
  chs : List Ch
  ord : List Nat

def Case.key (c : Case) : Option Nat → Nat
  | some i => match c.ord[i]? with | some k => k | none => xKey
  | none => xKey

def Case.store (c : Case) : Store Ch := fun k =>
  match c.chs.find? (fun ch => c.key (some ch.idx) == k) with
  | some ch => some (ch.parents.map c.key, ch)
  | none => none

def Case.idxOf (c : Case) (k : Nat) : Option Nat :=
  (c.chs.find? (fun ch => c.key (some ch.idx) == k)).map (·.idx)

def Case.ids (c : Case) : List Nat := c.chs.map fun ch => c.key (some ch.idx)

def rootActor (c : Case) : Nat := match c.chs with | ch :: _ => ch.actor | [] => 0

/-- `some true` accepted, `some false` rejected, `none` unknown kind -/
def accept? (c : Case) (ch : Ch) : Option Bool :=
  if ch.kind == "c" then some true
  else if ch.kind == "e" then some (ch.actor == rootActor c || ch.actor == 0)
  else if ch.kind == "l" then some (ch.actor == 0)
  else if ch.kind.startsWith "b" then some false
  else none

def showIdx (xs : List Nat) : String := if xs.isEmpty then "-" else joinWith "+" (xs.map toString)

def sortNat (xs : List Nat) : List Nat := isort (fun a b => decide (a ≤ b)) xs

def showHist (c : Case) (g : Dag Ch) : String :=
  let nodes := g.graph.map fun (_, n) =>
    let ds := n.deps.map c.idxOf
    let known := sortNat (ds.filterMap id)
    let xs := (ds.filter (fun (d : Option Nat) => d.isNone)).map fun _ => "x"
    (n.value.idx, s!"{n.value.idx}({joinWith "+" (known.map toString ++ xs)})")
  let nodes := isort (fun a b => decide (a.1 ≤ b.1)) nodes
  let tips := sortNat (g.tipsOf.filterMap c.idxOf)
  s!"H{joinWith "," (nodes.map (·.2))};P{showIdx tips}"

def showIssue (c : Case) (acc : List Nat) (g : Dag Ch) : String :=
  let kindOf (i : Nat) : String := match c.chs.find? (·.idx == i) with | some ch => ch.kind | none => "?"
  let timeline := acc.filter fun i => i == 0 || kindOf i == "c"
  let title := match (acc.filter fun i => kindOf i == "e").getLast? with | some i => i | none => 0
  let label := match (acc.filter fun i => kindOf i == "l").getLast? with | some i => toString i | none => "-"
  s!"T{showIdx timeline};t{title};L{label};{showHist c g}"

def showOut (f : List Nat → Dag Ch → String) : Option (Option (EvalOut (List Nat) Ch)) → String
  | none => "fuel"
  | some none => "none"
  | some (some .missingRoot) => "missing-root"
  | some (some .badRootSig) => "sig"
  | some (some .initErr) => "init-err"
  | some (some .fuel) => "fuel"
  | some (some (.ok s g)) => f s g

def rawApply : List Nat → K → Ch → List (K × Ch) → List Nat × Bool :=
  applyOfOption fun s _ e _ => some (s ++ [e.idx])

def issueApply (c : Case) : List Nat → K → Ch → List (K × Ch) → List Nat × Bool :=
  applyOfOption fun s _ e _ => if accept? c e == some true then some (s ++ [e.idx]) else none

def evalTips (c : Case) (apply : List Nat → K → Ch → List (K × Ch) → List Nat × Bool) (tips : List (Option Nat)) :
    Option (Option (EvalOut (List Nat) Ch)) :=
  let tks := tips.map c.key
  match load c.store (loadFuel c.store c.ids tks) tks with
  | none => none
  | some none => some none
  | some (some g) =>
    some (some (evaluate (·.sig) (·.ts) (fun _ => some [0]) apply (evalFuel g (c.key (some 0))) g (c.key (some 0))))

def parseSig (s : String) (n : Nat) : Option (List Bool) :=
  match splitOn s '=' with
  | ["sig", r] =>
    let bits := r.toList.map fun c => c == '1'
    if bits.length == n && r.toList.all (fun c => c == '0' || c == '1') then some bits else none
  | _ => none

def parseCase (changes ord sig : String) : Option Case := do
  let chs ← parseChanges changes
  let ord ← parseOrd ord chs.length
  let bits ← parseSig sig chs.length
  let chs := (chs.zip bits).map fun (c, b) => { c with sig := b }
  if chs.all (fun ch => (accept? { chs, ord } ch).isSome || ch.idx == 0) then some { chs, ord } else none

def run (args : List String) : String :=
  match args with
  | [changes, tipsets, ord, sig] =>
    match parseCase changes ord sig, (splitOn tipsets '/').mapM (fun t => parseRefs t ',') with
    | some c, some tss =>
      joinWith "/" (tss.map fun tips =>
        showOut (fun s _ => "R" ++ showIdx s) (evalTips c rawApply tips) ++ "|" ++
        showOut (showIssue c) (evalTips c (issueApply c) tips))
    | _, _ => "bad-op"
  | _ => "bad-op"

end HeartwoodModel.Driver.C05
