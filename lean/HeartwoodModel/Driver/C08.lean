/-! Driver entry for property C08 (stub: not implemented yet). -/
namespace HeartwoodModel.Driver.C08

def run (_args : List String) : String := "unimplemented"

end HeartwoodModel.Driver.C08
