import HeartwoodModel.Model.Dag
/-!
# Basic lemmas about the sorted-list sets/maps, stable insertion sort and `Dag` primitives
(`Model/Dag.lean`). Core Lean only.
-/
set_option linter.unusedSimpArgs false
set_option linter.unusedVariables false
namespace HeartwoodModel.Dag

/-- `omega` after unfolding the key type abbreviation `K := Nat`. -/
macro "komega" : tactic => `(tactic| ((try simp only [K] at *); omega))

/-! ### sets -/

def SortedK (l : List K) : Prop := l.Pairwise (· < ·)

theorem mem_ins {a x : K} {l : List K} : x ∈ ins a l ↔ x = a ∨ x ∈ l := by
  induction l with
  | nil => simp [ins]
  | cons b l ih =>
    simp only [ins]
    split
    · simp
    · split
      · rename_i h; subst h; simp
      · simp only [List.mem_cons, ih]
        constructor
        · rintro (h | h | h) <;> simp [h]
        · rintro (h | h | h) <;> simp [h]

theorem mem_del {a x : K} {l : List K} : x ∈ del a l ↔ x ∈ l ∧ x ≠ a := by
  simp [del]

theorem sorted_ins {a : K} {l : List K} (h : SortedK l) : SortedK (ins a l) := by
  induction l with
  | nil => simp [ins, SortedK]
  | cons b l ih =>
    simp only [ins]
    have hb := List.pairwise_cons.mp h
    split
    · rename_i hab
      refine List.pairwise_cons.mpr ⟨?_, h⟩
      intro x hx
      rcases List.mem_cons.mp hx with rfl | hx
      · exact hab
      · exact Nat.lt_trans hab (hb.1 x hx)
    · split
      · exact h
      · rename_i h1 h2
        refine List.pairwise_cons.mpr ⟨?_, ih hb.2⟩
        intro x hx
        rcases mem_ins.mp hx with rfl | hx
        · komega
        · exact hb.1 x hx

theorem sorted_del {a : K} {l : List K} (h : SortedK l) : SortedK (del a l) :=
  List.Pairwise.filter _ h

theorem sortedK_filter {p : K → Bool} {l : List K} (h : SortedK l) : SortedK (l.filter p) :=
  List.Pairwise.filter _ h

theorem sortedK_nodup {l : List K} (h : SortedK l) : l.Nodup :=
  List.Pairwise.imp (fun hab => Nat.ne_of_lt hab) h

theorem sortedK_ext {l l' : List K} (h : SortedK l) (h' : SortedK l')
    (hm : ∀ x, x ∈ l ↔ x ∈ l') : l = l' := by
  induction l generalizing l' with
  | nil =>
    cases l' with
    | nil => rfl
    | cons b t => exact absurd ((hm b).mpr (by simp)) (by simp)
  | cons a t ih =>
    cases l' with
    | nil => exact absurd ((hm a).mp (by simp)) (by simp)
    | cons b t' =>
      have ha := List.pairwise_cons.mp h
      have hb := List.pairwise_cons.mp h'
      have hab : a = b := by
        have h1 := (hm a).mp (by simp)
        have h2 := (hm b).mpr (by simp)
        rcases List.mem_cons.mp h1 with h1 | h1
        · exact h1
        · rcases List.mem_cons.mp h2 with h2 | h2
          · exact h2.symm
          · have := hb.1 a h1; have := ha.1 b h2; komega
      subst hab
      congr 1
      apply ih ha.2 hb.2
      intro x
      constructor
      · intro hx
        have := (hm x).mp (List.mem_cons_of_mem _ hx)
        rcases List.mem_cons.mp this with rfl | h1
        · have := ha.1 x hx; komega
        · exact h1
      · intro hx
        have := (hm x).mpr (List.mem_cons_of_mem _ hx)
        rcases List.mem_cons.mp this with rfl | h1
        · have := hb.1 x hx; komega
        · exact h1

theorem del_del_self {a : K} {l : List K} : del a (del a l) = del a l := by
  simp [del, List.filter_filter]

theorem del_filter {a : K} {p : K → Bool} {l : List K} :
    del a (l.filter p) = l.filter (fun x => p x && x != a) := by
  simp [del, List.filter_filter, Bool.and_comm]

theorem filter_congr' {α : Type} {p q : α → Bool} {l : List α} (h : ∀ x ∈ l, p x = q x) :
    l.filter p = l.filter q := by
  induction l with
  | nil => rfl
  | cons a t ih =>
    simp only [List.filter_cons]
    rw [h a (by simp), ih (fun x hx => h x (List.mem_cons_of_mem _ hx))]

/-! ### maps -/

def SortedM {α : Type} (m : List (K × α)) : Prop := m.Pairwise (fun p q => p.1 < q.1)

theorem mget_mins {α : Type} {k k' : K} {v : α} {m : List (K × α)} :
    mget k (mins k' v m) = if k = k' then some v else mget k m := by
  induction m with
  | nil => simp [mins, mget]
  | cons p m ih =>
    obtain ⟨k'', v''⟩ := p
    simp only [mins]
    split
    · simp [mget]
    · split
      · rename_i h1 h2; subst h2
        simp only [mget]
        split <;> rfl
      · rename_i h1 h2
        simp only [mget, ih]
        by_cases hk : k = k''
        · have : k ≠ k' := fun h => h2 (h ▸ hk)
          simp [hk, Ne.symm h2]
        · simp [hk]

theorem mget_mdel {α : Type} {k k' : K} {m : List (K × α)} :
    mget k (mdel k' m) = if k = k' then none else mget k m := by
  induction m with
  | nil => simp [mdel, mget]
  | cons p m ih =>
    obtain ⟨k'', v''⟩ := p
    simp only [mdel, List.filter_cons] at ih ⊢
    by_cases h : k'' = k'
    · subst h
      simp only [bne_self_eq_false, Bool.false_eq_true, if_false, ih, mget]
      by_cases hk : k = k'' <;> simp [hk]
    · have : (k'' != k') = true := by simp [h]
      simp only [this, if_true, mget, ih]
      by_cases hk : k = k''
      · subst hk; simp [h]
      · simp [hk]

theorem mget_none_of_lt {α : Type} {x : K} {m : List (K × α)} (h : ∀ p ∈ m, x < p.1) :
    mget x m = none := by
  induction m with
  | nil => rfl
  | cons p m ih =>
    obtain ⟨k, v⟩ := p
    have := h (k, v) (by simp)
    simp only [mget]
    rw [if_neg (by simp at this; komega)]
    exact ih (fun p hp => h p (List.mem_cons_of_mem _ hp))

theorem mget_isSome_iff {α : Type} {x : K} {m : List (K × α)} :
    (mget x m).isSome ↔ x ∈ m.map (·.1) := by
  induction m with
  | nil => simp [mget]
  | cons p m ih =>
    obtain ⟨k, v⟩ := p
    simp only [mget, List.map_cons, List.mem_cons]
    by_cases h : x = k
    · simp [h]
    · simp [h, ih]

theorem mget_some_mem {α : Type} {x : K} {v : α} {m : List (K × α)} (h : mget x m = some v) :
    (x, v) ∈ m := by
  induction m with
  | nil => simp [mget] at h
  | cons p m ih =>
    obtain ⟨k, w⟩ := p
    simp only [mget] at h
    split at h
    · rename_i hk; subst hk; simp at h; simp [h]
    · exact List.mem_cons_of_mem _ (ih h)

theorem mget_of_mem {α : Type} {x : K} {v : α} {m : List (K × α)} (hs : SortedM m)
    (h : (x, v) ∈ m) : mget x m = some v := by
  induction m with
  | nil => simp at h
  | cons p m ih =>
    obtain ⟨k, w⟩ := p
    have hp := List.pairwise_cons.mp hs
    simp only [mget]
    rcases List.mem_cons.mp h with h | h
    · injection h with h1 h2; subst h1 h2; simp
    · have := hp.1 _ h
      simp at this
      rw [if_neg (by komega)]
      exact ih hp.2 h

theorem sortedM_mins {α : Type} {k : K} {v : α} {m : List (K × α)} (h : SortedM m) :
    SortedM (mins k v m) := by
  induction m with
  | nil => simp [mins, SortedM]
  | cons p m ih =>
    obtain ⟨k', v'⟩ := p
    have hp := List.pairwise_cons.mp h
    simp only [mins]
    split
    · rename_i hk
      refine List.pairwise_cons.mpr ⟨?_, h⟩
      intro q hq
      rcases List.mem_cons.mp hq with rfl | hq
      · exact hk
      · exact Nat.lt_trans hk (hp.1 q hq)
    · split
      · rename_i h1 h2; subst h2
        exact List.pairwise_cons.mpr ⟨hp.1, hp.2⟩
      · rename_i h1 h2
        refine List.pairwise_cons.mpr ⟨?_, ih hp.2⟩
        intro q hq
        have : q.1 = k ∨ q ∈ m := by
          clear ih hp h
          induction m with
          | nil => simp [mins] at hq; simp [hq]
          | cons r m ihm =>
            obtain ⟨k2, v2⟩ := r
            simp only [mins] at hq
            split at hq
            · rcases List.mem_cons.mp hq with rfl | hq
              · simp
              · exact .inr hq
            · split at hq
              · rcases List.mem_cons.mp hq with rfl | hq
                · simp
                · exact .inr (List.mem_cons_of_mem _ hq)
              · rcases List.mem_cons.mp hq with rfl | hq
                · exact .inr (by simp)
                · rcases ihm hq with h | h
                  · exact .inl h
                  · exact .inr (List.mem_cons_of_mem _ h)
        rcases this with h3 | h3
        · simp only [h3]; komega
        · exact hp.1 q h3

theorem sortedM_mdel {α : Type} {k : K} {m : List (K × α)} (h : SortedM m) : SortedM (mdel k m) :=
  List.Pairwise.filter _ h

theorem sortedM_ext {α : Type} {m m' : List (K × α)} (h : SortedM m) (h' : SortedM m')
    (hg : ∀ x, mget x m = mget x m') : m = m' := by
  induction m generalizing m' with
  | nil =>
    cases m' with
    | nil => rfl
    | cons q t =>
      obtain ⟨k, v⟩ := q
      have := hg k
      simp [mget] at this
  | cons p t ih =>
    obtain ⟨k, v⟩ := p
    cases m' with
    | nil =>
      have := hg k
      simp [mget] at this
    | cons q t' =>
      obtain ⟨k', v'⟩ := q
      have hp := List.pairwise_cons.mp h
      have hq := List.pairwise_cons.mp h'
      have hkk : k = k' := by
        rcases Nat.lt_trichotomy k k' with hlt | heq | hgt
        · have h1 := hg k
          simp only [mget, if_true] at h1
          rw [if_neg (by komega)] at h1
          rw [mget_none_of_lt (fun p hp' => Nat.lt_trans hlt (hq.1 p hp'))] at h1
          simp at h1
        · exact heq
        · have h1 := hg k'
          simp only [mget, if_true] at h1
          rw [if_neg (by komega)] at h1
          rw [mget_none_of_lt (fun p hp' => Nat.lt_trans hgt (hp.1 p hp'))] at h1
          simp at h1
      subst hkk
      have hv : v = v' := by
        have h1 := hg k
        simpa [mget] using h1
      subst hv
      congr 1
      apply ih hp.2 hq.2
      intro x
      by_cases hx : x = k
      · subst hx
        rw [mget_none_of_lt hp.1, mget_none_of_lt hq.1]
      · have := hg x
        simpa [mget, hx] using this

/-! ### stable insertion sort -/

theorem mem_insertBy {α : Type} {le : α → α → Bool} {a x : α} {l : List α} :
    x ∈ insertBy le a l ↔ x = a ∨ x ∈ l := by
  induction l with
  | nil => simp [insertBy]
  | cons b l ih =>
    simp only [insertBy]
    split
    · simp
    · simp only [List.mem_cons, ih]
      constructor
      · rintro (h | h | h) <;> simp [h]
      · rintro (h | h | h) <;> simp [h]

theorem mem_isort {α : Type} {le : α → α → Bool} {x : α} {l : List α} :
    x ∈ isort le l ↔ x ∈ l := by
  induction l with
  | nil => simp [isort]
  | cons a l ih => simp [isort, mem_insertBy, ih]

theorem length_insertBy {α : Type} {le : α → α → Bool} {a : α} {l : List α} :
    (insertBy le a l).length = l.length + 1 := by
  induction l with
  | nil => simp [insertBy]
  | cons b l ih =>
    simp only [insertBy]
    split <;> simp [ih]

theorem length_isort {α : Type} {le : α → α → Bool} {l : List α} :
    (isort le l).length = l.length := by
  induction l with
  | nil => simp [isort]
  | cons a l ih => simp [isort, length_insertBy, ih]

/-- `le` is a total preorder. -/
structure TotalPreorder {α : Type} (le : α → α → Bool) : Prop where
  total : ∀ a b, le a b = true ∨ le b a = true
  trans : ∀ a b c, le a b = true → le b c = true → le a c = true

def SortedBy {α : Type} (le : α → α → Bool) (l : List α) : Prop := l.Pairwise (fun a b => le a b = true)

theorem sortedBy_insertBy {α : Type} {le : α → α → Bool} (hle : TotalPreorder le) {a : α} {l : List α}
    (h : SortedBy le l) : SortedBy le (insertBy le a l) := by
  induction l with
  | nil => simp [insertBy, SortedBy]
  | cons b l ih =>
    have hb := List.pairwise_cons.mp h
    simp only [insertBy]
    split
    · rename_i hab
      refine List.pairwise_cons.mpr ⟨?_, h⟩
      intro x hx
      rcases List.mem_cons.mp hx with rfl | hx
      · exact hab
      · exact hle.trans _ _ _ hab (hb.1 x hx)
    · rename_i hab
      refine List.pairwise_cons.mpr ⟨?_, ih hb.2⟩
      intro x hx
      rcases mem_insertBy.mp hx with rfl | hx
      · rcases hle.total x b with h1 | h1
        · exact absurd h1 hab
        · exact h1
      · exact hb.1 x hx

theorem sortedBy_isort {α : Type} {le : α → α → Bool} (hle : TotalPreorder le) (l : List α) :
    SortedBy le (isort le l) := by
  induction l with
  | nil => simp [isort, SortedBy]
  | cons a l ih => exact sortedBy_insertBy hle ih

theorem insertBy_filter {α : Type} {le : α → α → Bool} (hle : TotalPreorder le) (p : α → Bool)
    {a : α} {l : List α} (h : SortedBy le l) :
    (insertBy le a l).filter p = if p a then insertBy le a (l.filter p) else l.filter p := by
  induction l with
  | nil => simp [insertBy]; split <;> simp [*, insertBy]
  | cons b l ih =>
    have hb := List.pairwise_cons.mp h
    simp only [insertBy]
    by_cases hab : le a b = true
    · simp only [hab, if_true]
      by_cases hpa : p a = true
      · simp only [List.filter_cons, hpa, if_true]
        by_cases hpb : p b = true
        · simp [hpb, insertBy, hab]
        · simp only [hpb, Bool.false_eq_true, if_false]
          -- head of the filtered tail is above `a`
          cases hf : l.filter p with
          | nil => simp [insertBy]
          | cons c t =>
            have hc : c ∈ l := by
              have : c ∈ l.filter p := by rw [hf]; simp
              exact (List.mem_filter.mp this).1
            have : le a c = true := hle.trans _ _ _ hab (hb.1 c hc)
            simp [insertBy, this]
      · simp [List.filter_cons, hpa]
    · simp only [hab, Bool.false_eq_true, if_false]
      rw [List.filter_cons, ih hb.2]
      by_cases hpa : p a = true
      · simp only [hpa, if_true]
        by_cases hpb : p b = true
        · simp [List.filter_cons, hpb, insertBy, hab]
        · simp [List.filter_cons, hpb]
      · simp only [hpa, Bool.false_eq_true, if_false]
        simp [List.filter_cons]

theorem isort_filter {α : Type} {le : α → α → Bool} (hle : TotalPreorder le) (p : α → Bool)
    (l : List α) : (isort le l).filter p = isort le (l.filter p) := by
  induction l with
  | nil => simp [isort]
  | cons a l ih =>
    simp only [isort, List.filter_cons]
    rw [insertBy_filter hle p (sortedBy_isort hle l), ih]
    split <;> simp [isort]

/-! ### `Dag` primitives -/

variable {V : Type}

theorem Dag.contains_iff {g : Dag V} {k : K} : g.contains k = true ↔ ∃ n, g.get k = some n := by
  simp [Dag.contains, Option.isSome_iff_exists]

theorem Dag.not_contains_iff {g : Dag V} {k : K} : g.contains k = false ↔ g.get k = none := by
  simp [Dag.contains]

theorem Dag.mem_keys_iff {g : Dag V} {k : K} : k ∈ g.keys ↔ g.contains k = true := by
  simp only [Dag.keys, Dag.contains, Dag.get]
  exact mget_isSome_iff.symm

theorem Dag.dependentsOf_of_get {g : Dag V} {k : K} {n : Node V} (h : g.get k = some n) :
    g.dependentsOf k = n.dependents := by simp [Dag.dependentsOf, h]

theorem Dag.depsOf_of_get {g : Dag V} {k : K} {n : Node V} (h : g.get k = some n) :
    g.depsOf k = n.deps := by simp [Dag.depsOf, h]

theorem Dag.dependentsOf_of_none {g : Dag V} {k : K} (h : g.get k = none) :
    g.dependentsOf k = [] := by simp [Dag.dependentsOf, h]

theorem Dag.depsOf_of_none {g : Dag V} {k : K} (h : g.get k = none) :
    g.depsOf k = [] := by simp [Dag.depsOf, h]

theorem Dag.contains_of_mem_dependentsOf {g : Dag V} {u v : K} (h : v ∈ g.dependentsOf u) :
    g.contains u = true := by
  cases hg : g.get u with
  | none => simp [Dag.dependentsOf, hg] at h
  | some n => exact Dag.contains_iff.mpr ⟨n, hg⟩

theorem Dag.contains_of_mem_depsOf {g : Dag V} {u v : K} (h : v ∈ g.depsOf u) :
    g.contains u = true := by
  cases hg : g.get u with
  | none => simp [Dag.depsOf, hg] at h
  | some n => exact Dag.contains_iff.mpr ⟨n, hg⟩

/-- All ordered containers of the structure are strictly ascending (the `BTreeMap`/`BTreeSet`
representation invariant). -/
structure Dag.Sorted (g : Dag V) : Prop where
  graph : SortedM g.graph
  tips : SortedK g.tips
  roots : SortedK g.roots
  nodes : ∀ k n, g.get k = some n → SortedK n.deps ∧ SortedK n.dependents

/-- Well-formed graph: representation invariant, every edge is recorded at both of its ends (which
makes the graph *closed*: both ends of an edge are nodes), `tips`/`roots` are exactly the nodes
without dependents / dependencies. -/
structure Dag.Wf (g : Dag V) : Prop extends Dag.Sorted g where
  sym : ∀ u v, v ∈ g.dependentsOf u ↔ u ∈ g.depsOf v
  tips_iff : ∀ k, k ∈ g.tips ↔ g.contains k = true ∧ g.dependentsOf k = []
  roots_iff : ∀ k, k ∈ g.roots ↔ g.contains k = true ∧ g.depsOf k = []

theorem Node.ext' {a b : Node V} (h1 : a.value = b.value) (h2 : a.deps = b.deps)
    (h3 : a.dependents = b.dependents) : a = b := by
  cases a; cases b; simp_all

/-- Extensionality on the canonical representation. -/
theorem Dag.ext_sorted {g g' : Dag V} (h : g.Sorted) (h' : g'.Sorted)
    (hget : ∀ k, g.get k = g'.get k) (ht : ∀ k, k ∈ g.tips ↔ k ∈ g'.tips)
    (hr : ∀ k, k ∈ g.roots ↔ k ∈ g'.roots) : g = g' := by
  cases g with | mk gr ti ro =>
  cases g' with | mk gr' ti' ro' =>
  have h1 : gr = gr' := sortedM_ext h.graph h'.graph hget
  have h2 : ti = ti' := sortedK_ext h.tips h'.tips ht
  have h3 : ro = ro' := sortedK_ext h.roots h'.roots hr
  subst h1 h2 h3; rfl

end HeartwoodModel.Dag
