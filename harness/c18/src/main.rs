//! C18 harness (stub: not implemented yet).
fn main() {
    eprintln!("C18: harness not implemented");
    std::process::exit(3);
}
