/-! Driver entry for property C14 (stub: not implemented yet). -/
namespace HeartwoodModel.Driver.C14

def run (_args : List String) : String := "unimplemented"

end HeartwoodModel.Driver.C14
