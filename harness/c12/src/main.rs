//! C12 harness (stub: not implemented yet).
fn main() {
    eprintln!("C12: harness not implemented");
    std::process::exit(3);
}
