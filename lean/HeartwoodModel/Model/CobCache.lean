/-!
# Model of the COB cache (C09)

Rust: `crates/radicle/src/cob/{cache.rs, patch/cache.rs, issue/cache.rs, patch.rs, issue.rs}` and
`crates/radicle-node/src/worker/fetch.rs` (`cache_cobs`, `update_or_remove`).

* **Truth** — what evaluating the objects directly from the repository yields: a table `Id ⇀ Obj`
  (`Patches::get/all`, `Issues::get/all`; `cob::list` iterates a `BTreeMap<ObjectId, _>`, i.e. in id
  order, and silently skips objects that fail to load).
* **Cache** — the rows of the SQLite tables `patches` / `issues`, ONE database shared by all the
  repositories of a storage: `Id ⇀ (repo, Json)`, written by `Update::update` (`INSERT … ON CONFLICT DO
  UPDATE`, the JSON is `serde_json::to_string(object)`), `Remove::remove` (`DELETE … WHERE id = ?`) and
  `remove_all` (`DELETE … WHERE repo = ?`); a handle of repository `r` reads the rows `WHERE repo = r`.
* **Queries** on the cache are restated over the JSON tree exactly as the SQL reads it
  (`json_each` = the direct members of an object, `->`/`->>` path extraction, `GROUP BY`, `ORDER BY id`);
  queries on the truth are the Rust of the direct path (`Cache<_, NoCache>`).
* **Operations**: every write path of the code, each followed by the cache write that the code performs.
  COB evaluation itself (git, signatures, `apply`) is opaque: an operation carries the result of the
  direct evaluation *after* it (`after`), computed by the real code and sent by the harness.

Modelled, not verified: SQLite's JSON functions and row order; `serde`'s encoding of `Patch`/`Issue`
(a parameter of the model: any `Codec` satisfying the `Lawful` hypotheses; the harness checks the
round-trip on every object); that `Transaction::commit` returns the object a fresh evaluation returns
(checked by the harness after every operation).

Both tables are kept as association lists sorted by id: `ORDER BY id` on the SQL side, `BTreeMap` order on
the direct side.
-/
namespace HeartwoodModel.CobCache

abbrev Id := String

/-! ## JSON as SQLite's JSON1 functions see it

Arrays and objects are cons-lists (`anil`/`acons`, `onil`/`ocons`) so that the type is a plain inductive
(decidable equality, structural recursion). A tail that is not of the same list kind ends the list. -/

inductive Json where
  | null
  | bool (b : Bool)
  | num (n : Nat)
  | str (s : String)
  | anil
  | acons (hd : Json) (tl : Json)
  | onil
  | ocons (k : String) (v : Json) (tl : Json)
  deriving DecidableEq, Repr

namespace Json

/-- Build an object from its members. -/
def ofObj : List (String × Json) → Json
  | [] => onil
  | (k, v) :: t => ocons k v (ofObj t)

/-- Build an array. -/
def ofArr : List Json → Json
  | [] => anil
  | v :: t => acons v (ofArr t)

/-- Members of an object, in document order (`json_each` on an object: one row per member with
`key` = member name, `value`, `type`). Anything else has no members *with a text key*: `json_each` on an
array yields integer keys and on a scalar a single row with a `NULL` key; neither ever equals a text
parameter. -/
def members : Json → List (String × Json)
  | ocons k v t => (k, v) :: members t
  | _ => []

/-- `j -> '$.k'`: the member `k` of an object (first one if repeated), `none` (SQL `NULL`) otherwise. -/
def get? (k : String) : Json → Option Json
  | ocons k' v t => if k' = k then some v else get? k t
  | _ => none

/-- `j -> '$.a.b…'`. -/
def path? : List String → Json → Option Json
  | [], j => some j
  | k :: ks, j => (j.get? k).bind (path? ks)

/-- `->>` as far as a comparison with a TEXT parameter can see: a JSON string yields its text; numbers and
booleans yield SQL INTEGERs (never equal to TEXT), `null` yields `NULL`, containers yield their JSON text,
which starts with `{` or `[` and is not a status name. -/
def text? : Json → Option String
  | str s => some s
  | _ => none

/-- `json_tree`: every `(key, value)` pair at any depth (used only to document the pre-fix query). -/
def tree : Json → List (String × Json)
  | ocons k v t => (k, v) :: (tree v ++ tree t)
  | acons v t => tree v ++ tree t
  | _ => []

end Json

/-! ## Sorted tables -/

abbrev Table (α : Type) := List (Id × α)

namespace Table
variable {α β : Type}

def lookup (k : Id) : Table α → Option α
  | [] => none
  | (k', v) :: t => if k' = k then some v else lookup k t

/-- Insert or replace, keeping id order (`INSERT … ON CONFLICT DO UPDATE` on the primary key `id`;
`BTreeMap::insert`). -/
def upsert (k : Id) (v : α) : Table α → Table α
  | [] => [(k, v)]
  | (k', v') :: t =>
    if k' = k then (k, v) :: t
    else if k < k' then (k, v) :: (k', v') :: t
    else (k', v') :: upsert k v t

/-- `DELETE … WHERE id = k`. -/
def erase (k : Id) : Table α → Table α
  | [] => []
  | (k', v') :: t => if k' = k then erase k t else (k', v') :: erase k t

/-- Set or delete. -/
def set (k : Id) : Option α → Table α → Table α
  | some v, t => upsert k v t
  | none, t => erase k t

/-- The image of a table under a function on the values. -/
def image (f : α → β) (t : Table α) : Table β := t.map (fun kv => (kv.1, f kv.2))

end Table

/-! ## Abstract objects -/

inductive PStatus where
  | draft | open | archived | merged
  deriving DecidableEq, Repr

/-- `Status::to_string()` = the `status` tag serde writes for `State`. -/
def PStatus.name : PStatus → String
  | .draft => "draft"
  | .open => "open"
  | .archived => "archived"
  | .merged => "merged"

/-- `patch::State`: the status and (a digest of) the payload of the variant (`conflicts`, merged
`revision`/`commit`). -/
structure PState where
  status : PStatus
  extra : String
  deriving DecidableEq, Repr

structure Review where
  id : Id
  /-- ids of the review comments (`comments.comments` keys) -/
  comments : List Id
  deriving DecidableEq, Repr

structure Revision where
  /-- digest of everything else -/
  digest : String
  /-- comment ids: keys of `discussion.comments` -/
  discussion : List Id
  /-- `reviews: BTreeMap<ActorId, Review>` -/
  reviews : List (String × Review)
  deriving DecidableEq, Repr

structure Patch where
  state : PState
  /-- `revisions: BTreeMap<RevisionId, Option<Revision>>`; `none` = redacted -/
  revisions : List (Id × Option Revision)
  digest : String
  deriving DecidableEq, Repr

/-- `Patch::revision`: `self.revisions.get(id).and_then(|o| o.as_ref())`. -/
def Patch.revision (p : Patch) (rid : Id) : Option Revision :=
  (Table.lookup rid p.revisions).bind id

inductive CloseReason where
  | other | solved
  deriving DecidableEq, Repr

inductive IState where
  | open
  | closed (reason : CloseReason)
  deriving DecidableEq, Repr

/-- `issue::State::to_string()` = the serde `status` tag. -/
def IState.name : IState → String
  | .open => "open"
  | .closed _ => "closed"

/-- serde's name of the close reason (`$.state.reason`); an open issue has none. -/
def IState.reasonName : IState → Option String
  | .open => none
  | .closed .solved => some "solved"
  | .closed .other => some "other"

structure Issue where
  state : IState
  comments : List Id
  digest : String
  deriving DecidableEq, Repr

/-! ## The JSON encoding (serde) as a parameter -/

structure PatchCodec where
  enc : Patch → Json
  dec : Json → Option Patch
  encRev : Revision → Json
  decRev : Json → Option Revision
  decState : Json → Option PState

/-- `Option<Revision>` in the `revisions` map: `null` for a redacted revision. -/
def PatchCodec.encRevOpt (c : PatchCodec) : Option Revision → Json
  | none => .null
  | some r => c.encRev r

/-- What the theorems assume about serde's encoding of `Patch`. -/
structure PatchCodec.Lawful (c : PatchCodec) : Prop where
  dec_enc : ∀ p, c.dec (c.enc p) = some p
  decRev_encRev : ∀ r, c.decRev (c.encRev r) = some r
  encRev_ne_null : ∀ r, c.encRev r ≠ .null
  /-- `$.revisions` is the object `{ <revision id>: null | <revision> }` -/
  revisions_at : ∀ p, (c.enc p).get? "revisions" =
      some (Json.ofObj (p.revisions.map fun kv => (kv.1, c.encRevOpt kv.2)))
  /-- `$.state` decodes to the state and carries the status name under `status` -/
  state_at : ∀ p, ∃ st, (c.enc p).get? "state" = some st ∧ c.decState st = some p.state ∧
      st.get? "status" = some (.str p.state.status.name)

structure IssueCodec where
  enc : Issue → Json
  dec : Json → Option Issue
  decState : Json → Option IState

structure IssueCodec.Lawful (c : IssueCodec) : Prop where
  dec_enc : ∀ i, c.dec (c.enc i) = some i
  /-- `$.state` decodes to the state, carries the status name under `status` and the close reason (if
  any) under `reason` -/
  state_at : ∀ i, ∃ st, (c.enc i).get? "state" = some st ∧ c.decState st = some i.state ∧
      st.get? "status" = some (.str i.state.name) ∧
      st.get? "reason" = i.state.reasonName.map Json.str

/-! ### A concrete encoding with serde's shape (used by the driver; proved lawful in `Props/C09.lean`) -/

def encIds (ids : List Id) : Json := Json.ofObj (ids.map fun i => (i, Json.onil))
def decIds (j : Json) : List Id := j.members.map (·.1)

def encReview (r : Review) : Json :=
  Json.ofObj [("id", .str r.id), ("comments", Json.ofObj [("comments", encIds r.comments)])]

def decReview (j : Json) : Option Review :=
  match j.get? "id", j.path? ["comments", "comments"] with
  | some (.str id), some cs => some { id, comments := decIds cs }
  | _, _ => none

def encRevision (r : Revision) : Json :=
  Json.ofObj [("digest", .str r.digest),
    ("discussion", Json.ofObj [("comments", encIds r.discussion)]),
    ("reviews", Json.ofObj (r.reviews.map fun ar => (ar.1, encReview ar.2)))]

def decReviews : List (String × Json) → Option (List (String × Review))
  | [] => some []
  | (a, j) :: t =>
    match decReview j, decReviews t with
    | some r, some rs => some ((a, r) :: rs)
    | _, _ => none

def decRevision (j : Json) : Option Revision :=
  match j.get? "digest", j.path? ["discussion", "comments"], j.get? "reviews" with
  | some (.str digest), some cs, some rv =>
    match decReviews rv.members with
    | some reviews => some { digest, discussion := decIds cs, reviews }
    | none => none
  | _, _, _ => none

def encPState (s : PState) : Json := Json.ofObj [("status", .str s.status.name), ("extra", .str s.extra)]

def PStatus.ofName (s : String) : Option PStatus :=
  if s = "draft" then some .draft else if s = "open" then some .open
  else if s = "archived" then some .archived else if s = "merged" then some .merged else none

def decPState (j : Json) : Option PState :=
  match j.get? "status", j.get? "extra" with
  | some (.str s), some (.str extra) => (PStatus.ofName s).map fun status => { status, extra }
  | _, _ => none

def decRevOpt : Json → Option (Option Revision)
  | .null => some none
  | j => (decRevision j).map some

def decRevisions : List (String × Json) → Option (List (Id × Option Revision))
  | [] => some []
  | (k, j) :: t =>
    match decRevOpt j, decRevisions t with
    | some r, some rs => some ((k, r) :: rs)
    | _, _ => none

/-- `Option<Revision>`: `null` for a redacted revision. -/
def encRevisionOpt : Option Revision → Json
  | none => .null
  | some r => encRevision r

def encPatch (p : Patch) : Json :=
  Json.ofObj [("digest", .str p.digest), ("state", encPState p.state),
    ("revisions", Json.ofObj (p.revisions.map fun kv => (kv.1, encRevisionOpt kv.2)))]

def decPatch (j : Json) : Option Patch :=
  match j.get? "digest", j.get? "state", j.get? "revisions" with
  | some (.str digest), some st, some revs =>
    match decPState st, decRevisions revs.members with
    | some state, some revisions => some { state, revisions, digest }
    | _, _ => none
  | _, _, _ => none

def stdPatchCodec : PatchCodec :=
  { enc := encPatch, dec := decPatch, encRev := encRevision, decRev := decRevision, decState := decPState }

def encIState : IState → Json
  | .open => Json.ofObj [("status", .str "open")]
  | .closed .solved => Json.ofObj [("status", .str "closed"), ("reason", .str "solved")]
  | .closed .other => Json.ofObj [("status", .str "closed"), ("reason", .str "other")]

def decIState (j : Json) : Option IState :=
  match j.get? "status", j.get? "reason" with
  | some (.str s), r =>
    if s = "open" then some .open
    else if s = "closed" then
      match r with
      | some (.str x) => if x = "solved" then some (.closed .solved)
                         else if x = "other" then some (.closed .other) else none
      | _ => none
    else none
  | _, _ => none

def encIssue (i : Issue) : Json :=
  Json.ofObj [("digest", .str i.digest), ("state", encIState i.state),
    ("thread", Json.ofObj [("comments", encIds i.comments)])]

def decIssue (j : Json) : Option Issue :=
  match j.get? "digest", j.get? "state", j.path? ["thread", "comments"] with
  | some (.str digest), some st, some cs =>
    (decIState st).map fun state => { state, comments := decIds cs, digest }
  | _, _, _ => none

def stdIssueCodec : IssueCodec := { enc := encIssue, dec := decIssue, decState := decIState }

/-! ## Store state and operations

The cache database is ONE file shared by every repository of the node's storage; the tables `patches` /
`issues` have the columns `id` (PRIMARY KEY), `repo` and the JSON. Every repository has its own truth. -/

abbrev Repo := String

/-- A row of `patches` / `issues` (the table key is the `id` column). -/
structure Row where
  repo : Repo
  json : Json
  deriving DecidableEq, Repr

/-- Truth of every repository and the shared cache table, for one object type. -/
structure Store (α : Type) where
  /-- direct evaluation of every object of each repository -/
  truth : Repo → Table α
  /-- the rows of the shared SQLite table, keyed by `id` -/
  cache : Table Row

def setTruth {α : Type} (truth : Repo → Table α) (r : Repo) (t : Table α) : Repo → Table α :=
  fun r' => if r' = r then t else truth r'

/-- `Update::update`: `INSERT INTO t (id, repo, obj) VALUES (?1, ?2, ?3) ON CONFLICT DO UPDATE SET obj = (?3)`.
The primary key is `id` alone: on conflict only the JSON column is replaced, the row keeps its `repo`. -/
def cacheUpdate (r : Repo) (id : Id) (j : Json) (c : Table Row) : Table Row :=
  c.upsert id ⟨match c.lookup id with | some row => row.repo | none => r, j⟩

/-- `Remove::remove`: `DELETE FROM t WHERE id = ?1` — whatever the repository of the row. -/
def cacheRemove (id : Id) (c : Table Row) : Table Row := c.erase id

/-- `Remove::remove_all`: `DELETE FROM t WHERE repo = ?1`. -/
def cacheRemoveAll (r : Repo) (c : Table Row) : Table Row := c.filter fun kv => kv.2.repo ≠ r

/-- The rows a cache handle of repository `r` reads: every query has `WHERE repo = ?` (`get`:
`WHERE id = ?1 AND repo = ?2`, i.e. `lookup id` in this view). -/
def view (r : Repo) (c : Table Row) : Table Json :=
  Table.image Row.json (c.filter fun kv => kv.2.repo = r)

/-- A reference update handed to `cache_cobs` (already restricted to this object type). -/
structure RefUpd where
  id : Id
  /-- `RefUpdate::Skipped` -/
  skipped : Bool
  deriving DecidableEq, Repr

/-- Operations on ONE repository (the repository is given to `Store.step`). -/
inductive Op (α : Type) where
  /-- `Cache::create/draft`, any `PatchMut`/`IssueMut` transaction of the local signer that succeeded:
  the repository now evaluates `id` to `after`; the code calls `cache.update(rid, id, after)`. -/
  | write (id : Id) (after : α)
  /-- `Cache::remove(id, signer)`: the signer's own reference is deleted (`Store::remove`; nothing
  happens if there is none), then the row is deleted (`cache.remove(id)`). `after` is what the repository
  evaluates `id` to afterwards: `none` when no other reference of the object remains. -/
  | remove (id : Id) (after : Option α)
  /-- A fetch changed references: the objects in `changes` now evaluate to the given values; then
  `cache_cobs(refs)` runs `update_or_remove` for every non-skipped reference update. -/
  | fetched (changes : List (Id × Option α)) (refs : List RefUpd)
  /-- The repository changes without any cache write: another program wrote to storage with the cache
  disabled (`NoCache`), a cache write failed, the cache database is older than the storage… Not an
  operation of the property's histories; it is what `write_all` exists to repair. -/
  | external (changes : List (Id × Option α))
  /-- `Cache::write(id)`: re-read one object from the repository into the cache (error, nothing
  written, when the object does not exist). -/
  | rewrite (id : Id)
  /-- `Cache::write_all`: `remove_all(rid)`, then one `update` per object of `all()`. -/
  | rewriteAll

/-- `update_or_remove`: `store.get(id)` is `Some` ⇒ `cache.update`, otherwise `cache.remove`. -/
def updateOrRemove {α : Type} (enc : α → Json) (truth : Table α) (r : Repo) (cache : Table Row) (id : Id) :
    Table Row :=
  match truth.lookup id with
  | some o => cacheUpdate r id (enc o) cache
  | none => cacheRemove id cache

/-- `cache_cobs`. -/
def cacheCobs {α : Type} (enc : α → Json) (truth : Table α) (r : Repo) : Table Row → List RefUpd → Table Row
  | cache, [] => cache
  | cache, u :: us =>
    if u.skipped then cacheCobs enc truth r cache us
    else cacheCobs enc truth r (updateOrRemove enc truth r cache u.id) us

def applyChanges {α : Type} : Table α → List (Id × Option α) → Table α
  | t, [] => t
  | t, (id, o) :: cs => applyChanges (t.set id o) cs

/-- The `update`s of `write_all`, one per object of `all()`. -/
def writeRows {α : Type} (enc : α → Json) (r : Repo) : Table Row → Table α → Table Row
  | c, [] => c
  | c, (id, o) :: t => writeRows enc r (cacheUpdate r id (enc o) c) t

/-- One operation on repository `r`. -/
def Store.step {α : Type} (enc : α → Json) (s : Store α) (r : Repo) : Op α → Store α
  | .write id after =>
    { truth := setTruth s.truth r ((s.truth r).upsert id after), cache := cacheUpdate r id (enc after) s.cache }
  | .remove id after =>
    { truth := setTruth s.truth r ((s.truth r).set id after), cache := cacheRemove id s.cache }
  | .fetched changes refs =>
    let t := applyChanges (s.truth r) changes
    { truth := setTruth s.truth r t, cache := cacheCobs enc t r s.cache refs }
  | .external changes => { s with truth := setTruth s.truth r (applyChanges (s.truth r) changes) }
  | .rewrite id =>
    match (s.truth r).lookup id with
    | some o => { s with cache := cacheUpdate r id (enc o) s.cache }
    | none => s
  | .rewriteAll => { s with cache := writeRows enc r (cacheRemoveAll r s.cache) (s.truth r) }

/-- A history: operations tagged with the repository they are performed on. -/
def Store.run {α : Type} (enc : α → Json) (s : Store α) : List (Repo × Op α) → Store α
  | [] => s
  | (r, op) :: ops => Store.run enc (s.step enc r op) ops

def Store.empty {α : Type} : Store α := { truth := fun _ => [], cache := [] }

/-! ## Query results -/

/-- Outcome of a cached query: `err` = a JSON decode error returned by the query, `panic` = the `sqlite`
crate panics when a `NULL` column is read as a string. -/
inductive Res (α : Type) where
  | ok (a : α)
  | err
  | panic
  deriving DecidableEq, Repr

def Res.bind {α β : Type} : Res α → (α → Res β) → Res β
  | .ok a, f => f a
  | .err, _ => .err
  | .panic, _ => .panic

def Res.ofOption {α : Type} : Option α → Res α
  | some a => .ok a
  | none => .err

/-- Decode every row (`PatchesIter` / `IssuesIter` collected into a `Result<Vec<_>, _>`). -/
def decodeRows {α : Type} (dec : Json → Option α) : Table Json → Res (Table α)
  | [] => .ok []
  | (id, j) :: t =>
    match dec j with
    | none => .err
    | some a => (decodeRows dec t).bind fun rest => .ok ((id, a) :: rest)

/-! ## Patch queries: cached (SQL over the JSON rows) -/

/-- `query::get`: `SELECT patch FROM patches WHERE id = ?1 AND repo = ?2`. -/
def cachedGet (c : PatchCodec) (t : Table Json) (id : Id) : Res (Option Patch) :=
  match t.lookup id with
  | none => .ok none
  | some j => (Res.ofOption (c.dec j)).bind fun p => .ok (some p)

/-- `query::list`: `SELECT id, patch FROM patches WHERE repo = ?1 ORDER BY id`. -/
def cachedList (c : PatchCodec) (t : Table Json) : Res (Table Patch) := decodeRows c.dec t

/-- `patch->>'$.state.status' = ?2`. -/
def statusIs (name : String) (j : Json) : Bool :=
  (j.path? ["state", "status"]).bind Json.text? = some name

/-- `query::list_by_status`: `… AND patch->>'$.state.status' = ?2 ORDER BY id` with `?2 = status.to_string()`. -/
def cachedListByStatus (c : PatchCodec) (t : Table Json) (st : PStatus) : Res (Table Patch) :=
  decodeRows c.dec (t.filter fun kv => statusIs st.name kv.2)

structure PatchCounts where
  open_ : Nat := 0
  draft : Nat := 0
  archived : Nat := 0
  merged : Nat := 0
  deriving DecidableEq, Repr

def PatchCounts.add (c : PatchCounts) (s : PStatus) (n : Nat) : PatchCounts :=
  match s with
  | .draft => { c with draft := c.draft + n }
  | .open => { c with open_ := c.open_ + n }
  | .archived => { c with archived := c.archived + n }
  | .merged => { c with merged := c.merged + n }

/-- Groups of a `GROUP BY`: the key and the rows of each group. -/
abbrev Groups := List (Option Json × List Json)

/-- Put a row into the group with its key (a new group if there is none). -/
def addToGroups (k : Option Json) (j : Json) : Groups → Groups
  | [] => [(k, [j])]
  | (k', rows) :: gs => if k' = k then (k', j :: rows) :: gs else (k', rows) :: addToGroups k j gs

/-- `GROUP BY key(row)`. (SQL `NULL` keys — `none` — form one group, too. The order of the groups does
not matter to the callers: they add up per-group counts.) -/
def groupBy (key : Json → Option Json) : List Json → Groups
  | [] => []
  | j :: t => addToGroups (key j) j (groupBy key t)

/-- `j -> '$.state.status'`. -/
def statusKey (j : Json) : Option Json := j.path? ["state", "status"]

/-- The fold of `query::counts` over the groups of
`SELECT obj->'$.state' AS state, COUNT(*) AS count FROM … WHERE repo = ?1 GROUP BY obj->'$.state.status'`.
`state` is a bare column: SQLite takes it from an arbitrary row of the group — `pick`. A `NULL` state
panics in `row.read::<&str, _>`; otherwise it is decoded as `State` and `count` is added to the bucket of
its variant. -/
def countsGo {σ κ : Type} (decState : Json → Option σ) (add : κ → σ → Nat → κ)
    (pick : List Json → Option Json) : Groups → κ → Res κ
  | [], acc => .ok acc
  | (_, rows) :: gs, acc =>
    match (pick rows).bind (Json.get? "state") with
    | none => .panic
    | some st =>
      match decState st with
      | none => .err
      | some s => countsGo decState add pick gs (add acc s rows.length)

/-- `patch::cache::query::counts`. -/
def cachedCounts (c : PatchCodec) (pick : List Json → Option Json) (t : Table Json) : Res PatchCounts :=
  countsGo c.decState (fun acc s n => acc.add s.status n) pick (groupBy statusKey (t.map (·.2))) {}

/-- Rows of `patches, json_each(patches.patch, '$.revisions') AS revisions WHERE revisions.key = ?2 AND
revisions.type <> 'null'`, in table order. -/
def revisionRows (t : Table Json) (rid : Id) : List (Id × Json × Json) :=
  t.flatMap fun kv =>
    match kv.2.get? "revisions" with
    | none => []
    | some revs => (revs.members.filter fun m => m.1 = rid ∧ m.2 ≠ Json.null).map fun m => (kv.1, kv.2, m.2)

/-- `query::find_by_revision`: first row, then decode `patch` and `revision` (`revisions.value`). -/
def cachedFindByRevision (c : PatchCodec) (t : Table Json) (rid : Id) :
    Res (Option (Id × Patch × Revision)) :=
  match (revisionRows t rid).head? with
  | none => .ok none
  | some (id, pj, rj) =>
    (Res.ofOption (c.dec pj)).bind fun p =>
    (Res.ofOption (c.decRev rj)).bind fun r => .ok (some (id, p, r))

/-- The query before the fix `08c943d` (`json_tree(patches.patch, '$.revisions')`, no `type` filter):
every key at any depth below `$.revisions` matches, and a `null` value read as a string panics. -/
def preFixFindByRevision (c : PatchCodec) (t : Table Json) (rid : Id) :
    Res (Option (Id × Patch × Revision)) :=
  let rows := t.flatMap fun kv =>
    match kv.2.get? "revisions" with
    | none => []
    | some revs => (revs.tree.filter fun m => m.1 = rid).map fun m => (kv.1, kv.2, m.2)
  match rows.head? with
  | none => .ok none
  | some (id, pj, rj) =>
    if rj = Json.null then .panic
    else
      (Res.ofOption (c.dec pj)).bind fun p =>
      (Res.ofOption (c.decRev rj)).bind fun r => .ok (some (id, p, r))

/-! ## Patch queries: direct (`Cache<Patches, NoCache>`) -/

def directGet (t : Table Patch) (id : Id) : Option Patch := t.lookup id

def directList (t : Table Patch) : Table Patch := t

/-- `status == Status::from(&patch.state)`. -/
def directListByStatus (t : Table Patch) (st : PStatus) : Table Patch :=
  t.filter fun kv => kv.2.state.status = st

def directCounts (t : Table Patch) : PatchCounts :=
  t.foldl (fun acc kv => acc.add kv.2.state.status 1) {}

/-- `Patches::find_by_revision`: first `get` the patch whose id is the revision id (a patch's first
revision has the patch's id) and answer from it alone; otherwise scan `all()`. -/
def directFindByRevision (t : Table Patch) (rid : Id) : Option (Id × Patch × Revision) :=
  match t.lookup rid with
  | some p => (p.revision rid).map fun r => (rid, p, r)
  | none => t.findSome? fun kv => (kv.2.revision rid).map fun r => (kv.1, kv.2, r)

/-! ## Issue queries -/

def icachedGet (c : IssueCodec) (t : Table Json) (id : Id) : Res (Option Issue) :=
  match t.lookup id with
  | none => .ok none
  | some j => (Res.ofOption (c.dec j)).bind fun p => .ok (some p)

/-- `SELECT id, issue FROM issues WHERE repo = ?1` (no `ORDER BY`: compared as a set by the harness). -/
def icachedList (c : IssueCodec) (t : Table Json) : Res (Table Issue) := decodeRows c.dec t

/-- `v IS ?` for `v = j ->> path` and a parameter that is `NULL` or TEXT: with a `NULL` parameter the
value must be SQL `NULL` (path missing, or JSON `null`); with a TEXT parameter it must be that JSON string. -/
def sqlIs (v : Option Json) (param : Option String) : Bool :=
  match param with
  | none => v = none ∨ v = some Json.null
  | some s => v = some (Json.str s)

/-- `issue->>'$.state.reason' IS ?3` with `?3` = the close reason of the filter (`NULL` for `Open`). -/
def reasonIs (f : IState) (j : Json) : Bool := sqlIs (j.path? ["state", "reason"]) f.reasonName

/-- `issue::cache::query::list_by_status`:
`… AND issue->>'$.state.status' = ?2 AND issue->>'$.state.reason' IS ?3 ORDER BY id`
with `?2 = filter.to_string()` and `?3` the close reason. -/
def icachedListByStatus (c : IssueCodec) (t : Table Json) (f : IState) : Res (Table Issue) :=
  decodeRows c.dec (t.filter fun kv => statusIs f.name kv.2 && reasonIs f kv.2)

/-- The query before the fix `6cbb486`: only the status string was compared. -/
def preFixIcachedListByStatus (c : IssueCodec) (t : Table Json) (f : IState) : Res (Table Issue) :=
  decodeRows c.dec (t.filter fun kv => statusIs f.name kv.2)

structure IssueCounts where
  open_ : Nat := 0
  closed : Nat := 0
  deriving DecidableEq, Repr

def IssueCounts.add (c : IssueCounts) (s : IState) (n : Nat) : IssueCounts :=
  match s with
  | .open => { c with open_ := c.open_ + n }
  | .closed _ => { c with closed := c.closed + n }

/-- `issue::cache::query::counts`. -/
def icachedCounts (c : IssueCodec) (pick : List Json → Option Json) (t : Table Json) : Res IssueCounts :=
  countsGo c.decState IssueCounts.add pick (groupBy statusKey (t.map (·.2))) {}

def idirectGet (t : Table Issue) (id : Id) : Option Issue := t.lookup id
def idirectList (t : Table Issue) : Table Issue := t

/-- `status == issue.state`: the whole state, including the close reason. -/
def idirectListByStatus (t : Table Issue) (f : IState) : Table Issue :=
  t.filter fun kv => kv.2.state = f

def idirectCounts (t : Table Issue) : IssueCounts :=
  t.foldl (fun acc kv => acc.add kv.2.state 1) {}

end HeartwoodModel.CobCache
