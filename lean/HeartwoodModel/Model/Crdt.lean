/-!
# Model of `radicle-crdt` (C22)

Every `Semilattice` implementation of the crate, composed exactly as the Rust composes them:

* `lib.rs`      : `Option<T>`, `()`, `bool`
* `ord.rs`      : `Max<T>`, `Min<T>`
* `redactable.rs`: `Redactable<T>`
* `lwwreg.rs`   : `LWWReg<T, C>` (`set`, `merge = set other.value other.clock`)
* `gmap.rs`     : `GMap<K, V>` (`insert` = `BTreeMap::entry` occupied → merge / vacant → insert,
                  `merge` = `for (k, v) in other { self.insert(k, v) }`)
* `gset.rs`     : `GSet<K>` = `GMap<K, ()>`
* `lwwmap.rs`   : `LWWMap<K, V, C>` = `GMap<K, LWWReg<Option<V>, C>>`
* `lwwset.rs`   : `LWWSet<T, C>` = `LWWMap<T, (), C>`

`Immutable<T>` is not modelled (its `merge` panics by design; the property does not list it).

Rust's `PartialEq`/`PartialOrd`/`Ord` on clocks, keys and values is the class `Ordered` (a strict
order as a `Bool` function) together with `DecidableEq`; the laws a Rust `Ord` promises are the
Prop-class `LawfulOrdered`. A `BTreeMap<K, V>` is a key-sorted association list (`GMap.entries`
together with the proof that keys are strictly ascending, which is the `BTreeMap` invariant), so that
Lean's `=` on `GMap` is Rust's (extensional) `==` on `BTreeMap`; `GMap.get` is the functional view.
-/
namespace HeartwoodModel.Crdt

/-! ## orders and semilattices -/

/-- Rust `PartialOrd::lt` (`a < b`; `a > b` is `lt b a`). -/
class Ordered (α : Type) where
  lt : α → α → Bool

/-- What `Ord` promises: a strict linear order (consistent with `==`). -/
class LawfulOrdered (α : Type) [Ordered α] : Prop where
  irrefl : ∀ a : α, Ordered.lt a a = false
  trans : ∀ {a b c : α}, Ordered.lt a b = true → Ordered.lt b c = true → Ordered.lt a c = true
  total : ∀ a b : α, Ordered.lt a b = true ∨ a = b ∨ Ordered.lt b a = true

instance : Ordered Nat := ⟨fun a b => decide (a < b)⟩

instance : LawfulOrdered Nat where
  irrefl a := by simp [Ordered.lt]
  trans := by
    intro a b c h1 h2
    simp only [Ordered.lt, decide_eq_true_eq] at *
    omega
  total a b := by
    simp only [Ordered.lt, decide_eq_true_eq]
    omega

/-- `trait Semilattice { fn merge(&mut self, other: Self) }` as `merge self other = self'`. -/
class Semilattice (α : Type) where
  merge : α → α → α

export Semilattice (merge)

/-- The semilattice laws (`test::assert_laws`). -/
class LawfulSemilattice (α : Type) [Semilattice α] : Prop where
  assoc : ∀ a b c : α, merge (merge a b) c = merge a (merge b c)
  comm : ∀ a b : α, merge a b = merge b a
  idem : ∀ a : α, merge a a = a

/-! ## `ord.rs` -/

/-- `Max<T>` -/
structure MaxV (α : Type) where
  val : α
  deriving DecidableEq, Repr

/-- `Min<T>` -/
structure MinV (α : Type) where
  val : α
  deriving DecidableEq, Repr

/-- derived `PartialOrd` of `Max<T>` -/
instance [Ordered α] : Ordered (MaxV α) := ⟨fun a b => Ordered.lt a.val b.val⟩

/-- `if other.0 > self.0 { self.0 = other.0 }` -/
instance [Ordered α] : Semilattice (MaxV α) :=
  ⟨fun self other => if Ordered.lt self.val other.val then ⟨other.val⟩ else self⟩

/-- `if other.0 < self.0 { self.0 = other.0 }` -/
instance [Ordered α] : Semilattice (MinV α) :=
  ⟨fun self other => if Ordered.lt other.val self.val then ⟨other.val⟩ else self⟩

/-! ## `lib.rs` -/

instance : Semilattice Unit := ⟨fun _ _ => ()⟩

instance : Semilattice Bool :=
  ⟨fun self other =>
    match self, other with
    | false, true => true
    | true, false => true
    | false, false => false
    | true, true => true⟩

instance [Semilattice α] : Semilattice (Option α) :=
  ⟨fun self other =>
    match self, other with
    | none, some b => some b
    | some a, some b => some (merge a b)
    | some a, none => some a
    | none, none => none⟩

/-! ## `redactable.rs` -/

inductive Redactable (α : Type) where
  | present (a : α)
  | redacted
  deriving DecidableEq, Repr

instance [DecidableEq α] : Semilattice (Redactable α) :=
  ⟨fun self other =>
    match self, other with
    | .redacted, _ => .redacted
    | .present _, .redacted => .redacted
    | .present a, .present b => if a ≠ b then .redacted else .present a⟩

/-! ## `lwwreg.rs` -/

structure LWWReg (T C : Type) where
  clock : MaxV C
  value : T
  deriving DecidableEq, Repr

/-- `LWWReg::new` -/
def LWWReg.new (value : T) (clock : C) : LWWReg T C := { clock := ⟨clock⟩, value }

/-- `LWWReg::set` -/
def LWWReg.set [DecidableEq C] [Ordered C] [Semilattice T] (self : LWWReg T C) (value : T) (clock : C) :
    LWWReg T C :=
  let clock : MaxV C := ⟨clock⟩
  if clock = self.clock then { self with value := merge self.value value }
  else if Ordered.lt self.clock clock then { clock := merge self.clock clock, value := value }
  else self

/-- `self.set(other.value, other.clock.into_inner())` -/
instance [DecidableEq C] [Ordered C] [Semilattice T] : Semilattice (LWWReg T C) :=
  ⟨fun self other => self.set other.value other.clock.val⟩

/-! ## `gmap.rs` -/

/-- `BTreeMap` invariant: keys strictly ascending. -/
def Sorted [Ordered K] (l : List (K × V)) : Prop :=
  l.Pairwise (fun a b => Ordered.lt a.1 b.1 = true)

/-- `BTreeMap::get` -/
def lookup [DecidableEq K] (k : K) : List (K × V) → Option V
  | [] => none
  | (k', v) :: rest => if k = k' then some v else lookup k rest

/-- `GMap::insert` on the sorted entries: occupied → merge into the old value, vacant → insert. -/
def insertEntries [Ordered K] [DecidableEq K] [Semilattice V] (k : K) (v : V) :
    List (K × V) → List (K × V)
  | [] => [(k, v)]
  | (k', v') :: rest =>
    if k = k' then (k', merge v' v) :: rest
    else if Ordered.lt k k' then (k, v) :: (k', v') :: rest
    else (k', v') :: insertEntries k v rest

theorem insertEntries_keys [Ordered K] [DecidableEq K] [Semilattice V] (k : K) (v : V)
    (l : List (K × V)) : ∀ p ∈ insertEntries k v l, p.1 = k ∨ ∃ q ∈ l, q.1 = p.1 := by
  induction l with
  | nil => intro p hp; simp [insertEntries] at hp; simp [hp]
  | cons hd tl ih =>
    obtain ⟨k', v'⟩ := hd
    intro p hp
    unfold insertEntries at hp
    split at hp
    · rcases List.mem_cons.mp hp with rfl | hp
      · exact Or.inr ⟨(k', v'), by simp, rfl⟩
      · exact Or.inr ⟨p, by simp [hp], rfl⟩
    · split at hp
      · rcases List.mem_cons.mp hp with rfl | hp
        · exact Or.inl rfl
        · exact Or.inr ⟨p, hp, rfl⟩
      · rcases List.mem_cons.mp hp with rfl | hp
        · exact Or.inr ⟨(k', v'), by simp, rfl⟩
        · rcases ih p hp with h | ⟨q, hq, hqe⟩
          · exact Or.inl h
          · exact Or.inr ⟨q, by simp [hq], hqe⟩

theorem insertEntries_sorted [Ordered K] [LawfulOrdered K] [DecidableEq K] [Semilattice V] (k : K) (v : V)
    (l : List (K × V)) (h : Sorted l) : Sorted (insertEntries k v l) := by
  induction l with
  | nil => simp [insertEntries, Sorted]
  | cons hd tl ih =>
    obtain ⟨k', v'⟩ := hd
    unfold Sorted at h
    rw [List.pairwise_cons] at h
    obtain ⟨h1, h2⟩ := h
    unfold insertEntries
    split
    · unfold Sorted
      rw [List.pairwise_cons]
      exact ⟨h1, h2⟩
    · rename_i hne
      split
      · rename_i hlt
        unfold Sorted
        rw [List.pairwise_cons, List.pairwise_cons]
        refine ⟨?_, h1, h2⟩
        intro p hp
        rcases List.mem_cons.mp hp with rfl | hp
        · exact hlt
        · exact LawfulOrdered.trans hlt (h1 p hp)
      · rename_i hnlt
        unfold Sorted
        rw [List.pairwise_cons]
        refine ⟨?_, ih h2⟩
        intro p hp
        rcases insertEntries_keys k v tl p hp with hk | ⟨q, hq, hqe⟩
        · rcases LawfulOrdered.total k k' with h | h | h
          · exact absurd h hnlt
          · exact absurd h hne
          · rw [hk]; exact h
        · have := h1 q hq
          rw [hqe] at this
          exact this

/-- `GMap<K, V>`: a `BTreeMap` (sorted association list). -/
structure GMap (K V : Type) [Ordered K] where
  entries : List (K × V)
  sorted : Sorted entries

theorem GMap.eq_of_entries [Ordered K] {a b : GMap K V} (h : a.entries = b.entries) : a = b := by
  cases a; cases b; simp only at h; subst h; rfl

instance [Ordered K] [DecidableEq K] [DecidableEq V] : DecidableEq (GMap K V) :=
  fun a b => decidable_of_iff (a.entries = b.entries) ⟨GMap.eq_of_entries, fun h => by rw [h]⟩

/-- `GMap::default` -/
def GMap.empty [Ordered K] : GMap K V := ⟨[], List.Pairwise.nil⟩

/-- `BTreeMap::get` through `Deref` -/
def GMap.get [Ordered K] [DecidableEq K] (m : GMap K V) (k : K) : Option V := lookup k m.entries

/-- `GMap::insert` -/
def GMap.insert [Ordered K] [LawfulOrdered K] [DecidableEq K] [Semilattice V] (m : GMap K V) (k : K) (v : V) :
    GMap K V :=
  ⟨insertEntries k v m.entries, insertEntries_sorted k v m.entries m.sorted⟩

/-- `for (k, v) in other.into_iter() { self.insert(k, v) }` (ascending key order) -/
instance [Ordered K] [LawfulOrdered K] [DecidableEq K] [Semilattice V] : Semilattice (GMap K V) :=
  ⟨fun self other => other.entries.foldl (fun m kv => m.insert kv.1 kv.2) self⟩

/-! ## `gset.rs` -/

structure GSet (K : Type) [Ordered K] where
  inner : GMap K Unit

instance [Ordered K] [DecidableEq K] : DecidableEq (GSet K) :=
  fun a b => decidable_of_iff (a.inner = b.inner)
    ⟨fun h => by cases a; cases b; simp only at h; subst h; rfl, fun h => by rw [h]⟩

def GSet.empty [Ordered K] : GSet K := ⟨GMap.empty⟩

/-- `GSet::insert` -/
def GSet.insert [Ordered K] [LawfulOrdered K] [DecidableEq K] (s : GSet K) (k : K) : GSet K :=
  ⟨s.inner.insert k ()⟩

def GSet.contains [Ordered K] [DecidableEq K] (s : GSet K) (k : K) : Bool := (s.inner.get k).isSome

/-- `GSet::iter` -/
def GSet.keys [Ordered K] (s : GSet K) : List K := s.inner.entries.map (·.1)

/-- `for k in other.into_iter() { self.insert(k) }` -/
instance [Ordered K] [LawfulOrdered K] [DecidableEq K] : Semilattice (GSet K) :=
  ⟨fun self other => other.keys.foldl (fun s k => s.insert k) self⟩

/-! ## `lwwmap.rs` -/

structure LWWMap (K V C : Type) [Ordered K] where
  inner : GMap K (LWWReg (Option V) C)

instance [Ordered K] [DecidableEq K] [DecidableEq V] [DecidableEq C] : DecidableEq (LWWMap K V C) :=
  fun a b => decidable_of_iff (a.inner = b.inner)
    ⟨fun h => by cases a; cases b; simp only at h; subst h; rfl, fun h => by rw [h]⟩

section LWWMap
variable {K V C : Type} [Ordered K] [LawfulOrdered K] [DecidableEq K] [DecidableEq C] [Ordered C] [Semilattice V]

def LWWMap.empty : LWWMap K V C := ⟨GMap.empty⟩

/-- `LWWMap::insert` -/
def LWWMap.insert (m : LWWMap K V C) (k : K) (v : V) (c : C) : LWWMap K V C :=
  ⟨m.inner.insert k (LWWReg.new (some v) c)⟩

/-- `LWWMap::remove` -/
def LWWMap.remove (m : LWWMap K V C) (k : K) (c : C) : LWWMap K V C :=
  ⟨m.inner.insert k (LWWReg.new none c)⟩

/-- `LWWMap::get` -/
def LWWMap.get (m : LWWMap K V C) (k : K) : Option V :=
  match m.inner.get k with
  | none => none
  | some r => r.value

/-- `LWWMap::contains_key` -/
def LWWMap.containsKey (m : LWWMap K V C) (k : K) : Bool :=
  match m.inner.get k with
  | none => false
  | some r => r.value.isSome

/-- `self.inner.merge(other.inner)` -/
instance : Semilattice (LWWMap K V C) := ⟨fun self other => ⟨merge self.inner other.inner⟩⟩

/-! ## writes (operation scripts on an `LWWMap`) -/

/-- One write: `val = some v` is `insert(key, v, clock)`, `val = none` is `remove(key, clock)`. -/
structure Write (K V C : Type) where
  key : K
  val : Option V
  clock : C

/-- Apply one write with the map's own API. -/
def LWWMap.apply (m : LWWMap K V C) (w : Write K V C) : LWWMap K V C :=
  match w.val with
  | some v => m.insert w.key v w.clock
  | none => m.remove w.key w.clock

/-- The state of a replica that has seen the writes `ws` (in this order). -/
def LWWMap.applyAll (ws : List (Write K V C)) : LWWMap K V C := ws.foldl LWWMap.apply LWWMap.empty

end LWWMap

/-! ## `lwwset.rs` -/

structure LWWSet (T C : Type) [Ordered T] where
  inner : LWWMap T Unit C

instance [Ordered T] [DecidableEq T] [DecidableEq C] : DecidableEq (LWWSet T C) :=
  fun a b => decidable_of_iff (a.inner = b.inner)
    ⟨fun h => by cases a; cases b; simp only at h; subst h; rfl, fun h => by rw [h]⟩

section LWWSet
variable {T C : Type} [Ordered T] [LawfulOrdered T] [DecidableEq T] [DecidableEq C] [Ordered C]

def LWWSet.empty : LWWSet T C := ⟨LWWMap.empty⟩
def LWWSet.insert (s : LWWSet T C) (t : T) (c : C) : LWWSet T C := ⟨s.inner.insert t () c⟩
def LWWSet.remove (s : LWWSet T C) (t : T) (c : C) : LWWSet T C := ⟨s.inner.remove t c⟩
def LWWSet.contains (s : LWWSet T C) (t : T) : Bool := s.inner.containsKey t

instance : Semilattice (LWWSet T C) := ⟨fun self other => ⟨merge self.inner other.inner⟩⟩

end LWWSet

end HeartwoodModel.Crdt
