//! C11 harness (stub: not implemented yet).
fn main() {
    eprintln!("C11: harness not implemented");
    std::process::exit(3);
}
