import HeartwoodModel.Model.Quorum
/-!
# Helper lemmas for C03 (`Canonical::quorum`)

Specification-side functions (`wt`, `sup`, `supx`, `dsc`) and the loop invariants of the two phases.
-/
set_option linter.unusedSimpArgs false
set_option linter.unusedVariables false
namespace HeartwoodModel.Quorum

/-- The assumptions on git ancestry: `le` (ancestor-or-equal) is a partial order. -/
structure PartialOrderB (le : Nat → Nat → Bool) : Prop where
  refl : ∀ a, le a a = true
  trans : ∀ a b c, le a b = true → le b c = true → le a c = true
  antisymm : ∀ a b, le a b = true → le b a = true → a = b

def keys (m : List (Nat × Nat)) : List Nat := m.map (·.1)

/-- Keys strictly ascending: the `BTreeMap` invariant. -/
def Sorted (m : List (Nat × Nat)) : Prop := (keys m).Pairwise (· < ·)

/-- Total weight stored under key `k`. -/
def wt : List (Nat × Nat) → Nat → Nat
  | [], _ => 0
  | (o, v) :: rest, k => (if o = k then v else 0) + wt rest k

/-- Weight of all keys that are `c` or descend from `c`. -/
def sup (le : Nat → Nat → Bool) : List (Nat × Nat) → Nat → Nat
  | [], _ => 0
  | (o, v) :: rest, c => (if le c o = true then v else 0) + sup le rest c

/-- Weight of all keys that strictly descend from `c`. -/
def supx (le : Nat → Nat → Bool) : List (Nat × Nat) → Nat → Nat
  | [], _ => 0
  | (o, v) :: rest, c => (if o ≠ c ∧ le c o = true then v else 0) + supx le rest c

/-- What the inner loop for `head` adds to a *later* key `k` (the `base == other` branch). -/
def dsc (le : Nat → Nat → Bool) (head votes : Nat) : List (Nat × Nat) → Nat → Nat
  | [], _ => 0
  | (o, _) :: rest, k =>
    (if o = k ∧ le head o = false ∧ le o head = true then votes else 0) + dsc le head votes rest k

@[simp] theorem keys_nil : keys [] = [] := rfl
@[simp] theorem keys_cons (p : Nat × Nat) (m : List (Nat × Nat)) : keys (p :: m) = p.1 :: keys m := rfl

/-! ### `bump` -/

theorem wt_bump (o n : Nat) (m : List (Nat × Nat)) (k : Nat) :
    wt (bump o n m) k = wt m k + (if o = k then n else 0) := by
  induction m with
  | nil => simp [bump, wt]
  | cons p rest ih =>
    obtain ⟨a, v⟩ := p
    simp only [bump]
    by_cases h1 : o < a
    · simp only [h1, if_true, wt]; omega
    · by_cases h2 : o = a
      · subst h2
        simp only [Nat.lt_irrefl, if_false, if_true, wt]
        by_cases h3 : o = k <;> simp [h3] <;> omega
      · simp only [h1, h2, if_false, wt, ih]; omega

theorem sup_bump (le : Nat → Nat → Bool) (o n : Nat) (m : List (Nat × Nat)) (c : Nat) :
    sup le (bump o n m) c = sup le m c + (if le c o = true then n else 0) := by
  induction m with
  | nil => simp [bump, sup]
  | cons p rest ih =>
    obtain ⟨a, v⟩ := p
    simp only [bump]
    by_cases h1 : o < a
    · simp only [h1, if_true, sup]; omega
    · by_cases h2 : o = a
      · subst h2
        simp only [Nat.lt_irrefl, if_false, if_true, sup]
        by_cases h3 : le c o = true <;> simp [h3] <;> omega
      · simp only [h1, h2, if_false, sup, ih]; omega

theorem mem_keys_bump (o n : Nat) (m : List (Nat × Nat)) (k : Nat) :
    k ∈ keys (bump o n m) ↔ k = o ∨ k ∈ keys m := by
  induction m with
  | nil => simp [bump]
  | cons p rest ih =>
    obtain ⟨a, v⟩ := p
    simp only [bump]
    by_cases h1 : o < a
    · simp [h1]
    · by_cases h2 : o = a
      · subst h2; simp
      · simp only [h1, h2, if_false, keys_cons, List.mem_cons, ih]
        constructor
        · rintro (h | h | h) <;> simp [h]
        · rintro (h | h | h) <;> simp [h]

theorem sorted_bump (o n : Nat) (m : List (Nat × Nat)) (h : Sorted m) : Sorted (bump o n m) := by
  induction m with
  | nil => simp [bump, Sorted]
  | cons p rest ih =>
    obtain ⟨a, v⟩ := p
    unfold Sorted at h ih ⊢
    simp only [keys_cons, List.pairwise_cons] at h
    simp only [bump]
    by_cases h1 : o < a
    · simp only [h1, if_true, keys_cons, List.pairwise_cons, List.mem_cons]
      refine ⟨?_, h.1, h.2⟩
      rintro x (rfl | hx)
      · exact h1
      · exact Nat.lt_trans h1 (h.1 x hx)
    · by_cases h2 : o = a
      · subst h2
        simp only [Nat.lt_irrefl, if_false, if_true, keys_cons, List.pairwise_cons]
        exact h
      · simp only [h1, h2, if_false, keys_cons, List.pairwise_cons]
        refine ⟨?_, ih h.2⟩
        intro x hx
        rcases (mem_keys_bump o n rest x).mp hx with rfl | hx
        · omega
        · exact h.1 x hx

theorem wt_not_mem (m : List (Nat × Nat)) (k : Nat) (h : k ∉ keys m) : wt m k = 0 := by
  induction m with
  | nil => rfl
  | cons p rest ih =>
    obtain ⟨a, v⟩ := p
    simp only [keys_cons, List.mem_cons, not_or] at h
    have : ¬ a = k := fun e => h.1 e.symm
    simp [wt, this, ih h.2]

/-- In a sorted map the entry stored under a key is the key's total weight. -/
theorem wt_of_mem (m : List (Nat × Nat)) (hs : Sorted m) (k v : Nat) (h : (k, v) ∈ m) : wt m k = v := by
  induction m with
  | nil => simp at h
  | cons p rest ih =>
    obtain ⟨a, w⟩ := p
    unfold Sorted at hs ih
    simp only [keys_cons, List.pairwise_cons] at hs
    rcases List.mem_cons.mp h with h | h
    · simp only [Prod.mk.injEq] at h
      obtain ⟨rfl, rfl⟩ := h
      have hn : k ∉ keys rest := fun hk => Nat.lt_irrefl _ (hs.1 k hk)
      simp [wt, wt_not_mem rest k hn]
    · have hk : k ∈ keys rest := List.mem_map.mpr ⟨(k, v), h, rfl⟩
      have : ¬ a = k := by have := hs.1 k hk; omega
      simp [wt, this, ih hs.2 h]

theorem nodup_of_sorted (m : List (Nat × Nat)) (hs : Sorted m) : (keys m).Nodup := by
  unfold Sorted at hs
  exact hs.imp (fun h => Nat.ne_of_lt h)

/-! ### `direct` -/

theorem foldl_bump_sup (le : Nat → Nat → Bool) (tips m : List (Nat × Nat)) (c : Nat) :
    sup le (tips.foldl (fun m p => bump p.2 1 m) m) c =
      sup le m c + (tips.filter (fun p => le c p.2)).length := by
  induction tips generalizing m with
  | nil => simp
  | cons p rest ih =>
    simp only [List.foldl_cons, ih, sup_bump, List.filter_cons]
    by_cases h : le c p.2 = true <;> simp [h] <;> omega

theorem foldl_bump_sorted (tips m : List (Nat × Nat)) (h : Sorted m) :
    Sorted (tips.foldl (fun m p => bump p.2 1 m) m) := by
  induction tips generalizing m with
  | nil => exact h
  | cons p rest ih => exact ih _ (sorted_bump _ _ _ h)

theorem foldl_bump_mem (tips m : List (Nat × Nat)) (k : Nat) :
    k ∈ keys (tips.foldl (fun m p => bump p.2 1 m) m) ↔ k ∈ keys m ∨ k ∈ tips.map (·.2) := by
  induction tips generalizing m with
  | nil => simp
  | cons p rest ih =>
    simp only [List.foldl_cons, ih, mem_keys_bump, List.map_cons, List.mem_cons]
    constructor
    · rintro ((h | h) | h) <;> simp [h]
    · rintro (h | h | h) <;> simp [h]

theorem direct_sup (le : Nat → Nat → Bool) (tips : List (Nat × Nat)) (c : Nat) :
    sup le (direct tips) c = (tips.filter (fun p => le c p.2)).length := by
  simp [direct, foldl_bump_sup, sup]

theorem direct_sorted (tips : List (Nat × Nat)) : Sorted (direct tips) :=
  foldl_bump_sorted tips [] (by simp [Sorted])

theorem direct_mem (tips : List (Nat × Nat)) (k : Nat) :
    k ∈ keys (direct tips) ↔ k ∈ tips.map (·.2) := by
  simp [direct, foldl_bump_mem]

/-! ### spec-side sums -/

theorem dsc_not_mem (le : Nat → Nat → Bool) (h v : Nat) (m : List (Nat × Nat)) (k : Nat)
    (hk : k ∉ keys m) : dsc le h v m k = 0 := by
  induction m with
  | nil => rfl
  | cons p rest ih =>
    obtain ⟨a, w⟩ := p
    simp only [keys_cons, List.mem_cons, not_or] at hk
    have : ¬ a = k := fun e => hk.1 e.symm
    simp [dsc, this, ih hk.2]

theorem dsc_mem (le : Nat → Nat → Bool) (h v : Nat) (m : List (Nat × Nat)) (k : Nat)
    (hnd : (keys m).Nodup) (hk : k ∈ keys m) :
    dsc le h v m k = if le h k = false ∧ le k h = true then v else 0 := by
  induction m with
  | nil => simp at hk
  | cons p rest ih =>
    obtain ⟨a, w⟩ := p
    simp only [keys_cons, List.nodup_cons] at hnd
    simp only [keys_cons, List.mem_cons] at hk
    by_cases hak : a = k
    · subst hak
      simp [dsc, dsc_not_mem le h v rest a hnd.1]
    · have hk' : k ∈ keys rest := by
        rcases hk with hk | hk
        · exact absurd hk.symm hak
        · exact hk
      simp [dsc, hak, ih hnd.2 hk']

theorem sup_eq_supx_of_not_mem (le : Nat → Nat → Bool) (m : List (Nat × Nat)) (c : Nat)
    (hc : c ∉ keys m) : sup le m c = supx le m c := by
  induction m with
  | nil => rfl
  | cons p rest ih =>
    obtain ⟨a, w⟩ := p
    simp only [keys_cons, List.mem_cons, not_or] at hc
    have : a ≠ c := fun e => hc.1 e.symm
    simp [sup, supx, this, ih hc.2]

theorem sup_eq_wt_add_supx (le : Nat → Nat → Bool) (m : List (Nat × Nat)) (c : Nat)
    (hr : le c c = true) : sup le m c = wt m c + supx le m c := by
  induction m with
  | nil => rfl
  | cons p rest ih =>
    obtain ⟨a, w⟩ := p
    simp only [sup, wt, supx, ih]
    by_cases hac : a = c
    · subst hac; simp [hr]; omega
    · by_cases hl : le c a = true <;> simp [hac, hl] <;> omega

/-! ### phase one -/

theorem mergeBase_err {le rel : Nat → Nat → Bool} {a b : Nat} (h : mergeBase le rel a b = .err) :
    le a b = false ∧ le b a = false ∧ rel a b = false := by
  unfold mergeBase at h
  split at h
  · simp at h
  · rename_i hc
    simpa [Bool.or_eq_true, not_or, and_assoc] using hc

theorem mergeBase_base {le rel : Nat → Nat → Bool} {a b : Nat} {x y : Bool}
    (h : mergeBase le rel a b = .base x y) : x = le a b ∧ y = le b a := by
  unfold mergeBase at h
  split at h
  · simp only [MB.base.injEq] at h; exact ⟨h.1.symm, h.2.symm⟩
  · simp at h

theorem inner_spec (le rel : Nat → Nat → Bool) (head votes : Nat) (rest cands c' : List (Nat × Nat))
    (h : inner le rel head votes cands rest = .ok c') :
    (∀ k, wt c' k = wt cands k + (if head = k then sup le rest head else 0) + dsc le head votes rest k) ∧
    (Sorted cands → Sorted c') ∧
    (∀ k, k ∈ keys cands → k ∈ keys c') ∧
    (∀ k, k ∈ keys c' → k ∈ keys cands ∨ k = head ∨ k ∈ keys rest) := by
  induction rest generalizing cands with
  | nil =>
    simp only [inner, Except.ok.injEq] at h
    subst h
    exact ⟨by simp [sup, dsc], id, fun _ h => h, fun _ h => Or.inl h⟩
  | cons p rest ih =>
    obtain ⟨o, ov⟩ := p
    simp only [inner] at h
    cases hmb : mergeBase le rel head o with
    | err => simp [hmb] at h
    | base x y =>
      obtain ⟨rfl, rfl⟩ := mergeBase_base hmb
      simp only [hmb] at h
      cases hA : le head o with
      | true =>
        simp only [hA, if_true] at h
        obtain ⟨i1, i2, i3, i4⟩ := ih _ h
        refine ⟨?_, ?_, ?_, ?_⟩
        · intro k
          rw [i1 k, wt_bump]
          by_cases hk : head = k
          · subst hk; simp [sup, dsc, hA]; omega
          · simp [hk, sup, dsc, hA]
        · intro hs; exact i2 (sorted_bump _ _ _ hs)
        · intro k hk; exact i3 k ((mem_keys_bump _ _ _ _).mpr (Or.inr hk))
        · intro k hk
          rcases i4 k hk with h' | h' | h'
          · rcases (mem_keys_bump _ _ _ _).mp h' with h'' | h''
            · exact Or.inr (Or.inl h'')
            · exact Or.inl h''
          · exact Or.inr (Or.inl h')
          · exact Or.inr (Or.inr (by simp [h']))
      | false =>
        simp only [hA, Bool.false_eq_true, if_false] at h
        cases hB : le o head with
        | true =>
          simp only [hB, if_true] at h
          obtain ⟨i1, i2, i3, i4⟩ := ih _ h
          refine ⟨?_, ?_, ?_, ?_⟩
          · intro k
            rw [i1 k, wt_bump]
            by_cases hk : o = k
            · subst hk; simp [sup, dsc, hA, hB]; omega
            · simp [hk, sup, dsc, hA, hB]
          · intro hs; exact i2 (sorted_bump _ _ _ hs)
          · intro k hk; exact i3 k ((mem_keys_bump _ _ _ _).mpr (Or.inr hk))
          · intro k hk
            rcases i4 k hk with h' | h' | h'
            · rcases (mem_keys_bump _ _ _ _).mp h' with h'' | h''
              · exact Or.inr (Or.inr (by simp [h'']))
              · exact Or.inl h''
            · exact Or.inr (Or.inl h')
            · exact Or.inr (Or.inr (by simp [h']))
        | false =>
          simp only [hB, Bool.false_eq_true, if_false] at h
          obtain ⟨i1, i2, i3, i4⟩ := ih _ h
          refine ⟨?_, i2, i3, ?_⟩
          · intro k
            rw [i1 k]
            simp [sup, dsc, hA, hB]
          · intro k hk
            rcases i4 k hk with h' | h' | h'
            · exact Or.inl h'
            · exact Or.inr (Or.inl h')
            · exact Or.inr (Or.inr (by simp [h']))

/-- The only error of the inner loop is the git error, caused by an unrelated pair. -/
theorem inner_error (le rel : Nat → Nat → Bool) (head votes : Nat) (rest cands : List (Nat × Nat))
    (e : QErr) (h : inner le rel head votes cands rest = .error e) :
    e = .git ∧ ∃ o ∈ keys rest, le head o = false ∧ le o head = false ∧ rel head o = false := by
  induction rest generalizing cands with
  | nil => simp [inner] at h
  | cons p rest ih =>
    obtain ⟨o, ov⟩ := p
    simp only [inner] at h
    cases hmb : mergeBase le rel head o with
    | err =>
      simp only [hmb, Except.error.injEq] at h
      exact ⟨h.symm, o, by simp, mergeBase_err hmb⟩
    | base x y =>
      simp only [hmb] at h
      have key : ∀ cands', inner le rel head votes cands' rest = .error e →
          e = .git ∧ ∃ o' ∈ keys ((o, ov) :: rest),
            le head o' = false ∧ le o' head = false ∧ rel head o' = false := by
        intro cands' h'
        obtain ⟨e1, o', ho', hh⟩ := ih _ h'
        exact ⟨e1, o', by simp [ho'], hh⟩
      split at h
      · exact key _ h
      · split at h
        · exact key _ h
        · exact key _ h

/-- If every pair is related, the inner loop succeeds. -/
theorem inner_total (le rel : Nat → Nat → Bool) (head votes : Nat) (rest cands : List (Nat × Nat))
    (hrel : ∀ o ∈ keys rest, le head o = true ∨ le o head = true ∨ rel head o = true) :
    ∃ c', inner le rel head votes cands rest = .ok c' := by
  induction rest generalizing cands with
  | nil => exact ⟨cands, rfl⟩
  | cons p rest ih =>
    obtain ⟨o, ov⟩ := p
    have hrest : ∀ o' ∈ keys rest, le head o' = true ∨ le o' head = true ∨ rel head o' = true :=
      fun o' ho' => hrel o' (by simp [ho'])
    have ho := hrel o (by simp)
    have hmb : mergeBase le rel head o = .base (le head o) (le o head) := by
      unfold mergeBase
      have : (le head o || le o head || rel head o) = true := by
        rcases ho with h | h | h <;> simp [h]
      simp [this]
    simp only [inner, hmb]
    split
    · exact ih _ hrest
    · split
      · exact ih _ hrest
      · exact ih _ hrest

theorem outer_spec (le rel : Nat → Nat → Bool) (po : PartialOrderB le) (l cands c' : List (Nat × Nat))
    (hnd : (keys l).Nodup) (h : outer le rel cands l = .ok c') :
    (∀ k, wt c' k = wt cands k + (if k ∈ keys l then supx le l k else 0)) ∧
    (Sorted cands → Sorted c') ∧
    (∀ k, k ∈ keys cands → k ∈ keys c') ∧
    (∀ k, k ∈ keys c' → k ∈ keys cands ∨ k ∈ keys l) := by
  induction l generalizing cands with
  | nil =>
    simp only [outer, Except.ok.injEq] at h
    subst h
    simp
  | cons p rest ih =>
    obtain ⟨hd, hv⟩ := p
    simp only [keys_cons, List.nodup_cons] at hnd
    simp only [outer] at h
    cases hin : inner le rel hd hv cands rest with
    | error e => simp [hin] at h
    | ok c1 =>
      simp only [hin] at h
      obtain ⟨j1, j2, j3, j4⟩ := inner_spec le rel hd hv rest cands c1 hin
      obtain ⟨i1, i2, i3, i4⟩ := ih c1 hnd.2 h
      refine ⟨?_, fun hs => i2 (j2 hs), fun k hk => i3 k (j3 k hk), ?_⟩
      · intro k
        rw [i1 k, j1 k]
        by_cases hk : hd = k
        · subst hk
          have hn : hd ∉ keys rest := hnd.1
          simp [hn, supx, dsc_not_mem le hd hv rest hd hn, sup_eq_supx_of_not_mem le rest hd hn]
        · by_cases hkr : k ∈ keys rest
          · rw [dsc_mem le hd hv rest k hnd.2 hkr]
            have hk' : ¬ k = hd := fun e => hk e.symm
            simp only [hk, if_false, hkr, if_true, keys_cons, List.mem_cons, hk', false_or, supx]
            by_cases hle : le k hd = true
            · have hnle : le hd k = false := by
                cases hh : le hd k with
                | false => rfl
                | true => exact absurd (po.antisymm _ _ hh hle) hk
              simp [hle, hnle, hk]; omega
            · simp [hle, hk]
          · have hk' : ¬ k = hd := fun e => hk e.symm
            simp [hk, hkr, hk', dsc_not_mem le hd hv rest k hkr]
      · intro k hk
        rcases i4 k hk with h' | h'
        · rcases j4 k h' with h'' | h'' | h''
          · exact Or.inl h''
          · exact Or.inr (by simp [h''])
          · exact Or.inr (by simp [h''])
        · exact Or.inr (by simp [h'])

theorem outer_error (le rel : Nat → Nat → Bool) (l cands : List (Nat × Nat)) (e : QErr)
    (h : outer le rel cands l = .error e) :
    e = .git ∧ ∃ a ∈ keys l, ∃ b ∈ keys l, le a b = false ∧ le b a = false ∧ rel a b = false := by
  induction l generalizing cands with
  | nil => simp [outer] at h
  | cons p rest ih =>
    obtain ⟨hd, hv⟩ := p
    simp only [outer] at h
    cases hin : inner le rel hd hv cands rest with
    | error e' =>
      simp only [hin, Except.error.injEq] at h
      subst h
      obtain ⟨e1, o, ho, hh⟩ := inner_error le rel hd hv rest cands e' hin
      exact ⟨e1, hd, by simp, o, by simp [ho], hh⟩
    | ok c1 =>
      simp only [hin] at h
      obtain ⟨e1, a, ha, b, hb, hh⟩ := ih _ h
      exact ⟨e1, a, by simp [ha], b, by simp [hb], hh⟩

theorem outer_total (le rel : Nat → Nat → Bool) (l cands : List (Nat × Nat))
    (hrel : ∀ a ∈ keys l, ∀ b ∈ keys l, le a b = true ∨ le b a = true ∨ rel a b = true) :
    ∃ c', outer le rel cands l = .ok c' := by
  induction l generalizing cands with
  | nil => exact ⟨cands, rfl⟩
  | cons p rest ih =>
    obtain ⟨hd, hv⟩ := p
    obtain ⟨c1, hc1⟩ := inner_total le rel hd hv rest cands
      (fun o ho => hrel hd (by simp) o (by simp [ho]))
    simp only [outer, hc1]
    exact ih c1 (fun a ha b hb => hrel a (by simp [ha]) b (by simp [hb]))

/-- Phase one, as a whole: the vote total of every distinct tip is the number of delegates whose tip
is that commit or a descendant of it. -/
theorem phase1_votes (le rel : Nat → Nat → Bool) (po : PartialOrderB le) (tips cands : List (Nat × Nat))
    (h : outer le rel (direct tips) (direct tips) = .ok cands) :
    Sorted cands ∧ (∀ k, k ∈ keys cands ↔ k ∈ tips.map (·.2)) ∧
    (∀ k, k ∈ keys cands → wt cands k = (tips.filter (fun p => le k p.2)).length) := by
  have hs := direct_sorted tips
  obtain ⟨i1, i2, i3, i4⟩ := outer_spec le rel po (direct tips) (direct tips) cands
    (nodup_of_sorted _ hs) h
  have hmem : ∀ k, k ∈ keys cands ↔ k ∈ keys (direct tips) := by
    intro k
    constructor
    · intro hk; rcases i4 k hk with h' | h' <;> exact h'
    · exact i3 k
  refine ⟨i2 hs, fun k => (hmem k).trans (direct_mem tips k), ?_⟩
  intro k hk
  have hk' := (hmem k).mp hk
  rw [i1 k, ← direct_sup, sup_eq_wt_add_supx le (direct tips) k (po.refl k)]
  simp [hk']

/-- Membership in the retained candidate list. -/
theorem mem_retained (t : Nat) (cands : List (Nat × Nat)) (hs : Sorted cands) (c : Nat) :
    c ∈ retained t cands ↔ c ∈ keys cands ∧ t ≤ wt cands c := by
  unfold retained
  simp only [List.mem_map, List.mem_filter, decide_eq_true_eq]
  constructor
  · rintro ⟨⟨k, v⟩, ⟨hm, ht⟩, rfl⟩
    refine ⟨List.mem_map.mpr ⟨(k, v), hm, rfl⟩, ?_⟩
    rw [wt_of_mem cands hs k v hm]; exact ht
  · rintro ⟨hk, ht⟩
    obtain ⟨⟨k, v⟩, hm, rfl⟩ := List.mem_map.mp hk
    refine ⟨(k, v), ⟨hm, ?_⟩, rfl⟩
    rw [wt_of_mem cands hs k v hm] at ht; exact ht

/-! ### phase two -/

theorem fold2_ok (le rel : Nat → Nat → Bool) (po : PartialOrderB le) (longest : Nat) (l : List Nat)
    (c : Nat) (h : fold2 le rel longest l = .ok c) :
    le longest c = true ∧ (∀ x ∈ l, le x c = true) ∧ (c = longest ∨ c ∈ l) := by
  induction l generalizing longest with
  | nil =>
    simp only [fold2, Except.ok.injEq] at h
    subst h
    simp [po.refl]
  | cons x rest ih =>
    simp only [fold2] at h
    cases hmb : mergeBase le rel x longest with
    | err => simp [hmb] at h
    | base a b =>
      obtain ⟨rfl, rfl⟩ := mergeBase_base hmb
      simp only [hmb] at h
      cases hL : le longest x with
      | true =>
        simp only [hL, if_true] at h
        obtain ⟨i1, i2, i3⟩ := ih x h
        refine ⟨po.trans _ _ _ hL i1, ?_, ?_⟩
        · intro y hy
          rcases List.mem_cons.mp hy with rfl | hy
          · exact i1
          · exact i2 y hy
        · rcases i3 with rfl | i3
          · exact Or.inr (by simp)
          · exact Or.inr (by simp [i3])
      | false =>
        simp only [hL, Bool.false_eq_true, if_false] at h
        split at h
        · rename_i hc
          obtain ⟨i1, i2, i3⟩ := ih longest h
          refine ⟨i1, ?_, ?_⟩
          · intro y hy
            rcases List.mem_cons.mp hy with rfl | hy
            · simp only [Bool.or_eq_true, beq_iff_eq] at hc
              rcases hc with hc | hc
              · exact po.trans _ _ _ hc i1
              · subst hc; exact i1
            · exact i2 y hy
          · rcases i3 with rfl | i3
            · exact Or.inl rfl
            · exact Or.inr (by simp [i3])
        · simp at h

theorem fold2_error (le rel : Nat → Nat → Bool) (longest : Nat) (l : List Nat) (e : QErr)
    (h : fold2 le rel longest l = .error e) :
    (e = .diverging ∧ ∃ a ∈ longest :: l, ∃ b ∈ longest :: l, le a b = false ∧ le b a = false) ∨
    (e = .git ∧ ∃ a ∈ longest :: l, ∃ b ∈ longest :: l,
      le a b = false ∧ le b a = false ∧ rel a b = false) := by
  induction l generalizing longest with
  | nil => simp [fold2] at h
  | cons x rest ih =>
    have lift : ∀ y, (y = longest ∨ y = x) →
        ((e = .diverging ∧ ∃ a ∈ y :: rest, ∃ b ∈ y :: rest, le a b = false ∧ le b a = false) ∨
        (e = .git ∧ ∃ a ∈ y :: rest, ∃ b ∈ y :: rest,
          le a b = false ∧ le b a = false ∧ rel a b = false)) →
        ((e = .diverging ∧ ∃ a ∈ longest :: x :: rest, ∃ b ∈ longest :: x :: rest,
          le a b = false ∧ le b a = false) ∨
        (e = .git ∧ ∃ a ∈ longest :: x :: rest, ∃ b ∈ longest :: x :: rest,
          le a b = false ∧ le b a = false ∧ rel a b = false)) := by
      intro y hy hh
      have sub : ∀ z, z ∈ y :: rest → z ∈ longest :: x :: rest := by
        intro z hz
        rcases List.mem_cons.mp hz with rfl | hz
        · rcases hy with rfl | rfl <;> simp
        · simp [hz]
      rcases hh with ⟨e1, a, ha, b, hb, hab⟩ | ⟨e1, a, ha, b, hb, hab⟩
      · exact Or.inl ⟨e1, a, sub a ha, b, sub b hb, hab⟩
      · exact Or.inr ⟨e1, a, sub a ha, b, sub b hb, hab⟩
    simp only [fold2] at h
    cases hmb : mergeBase le rel x longest with
    | err =>
      simp only [hmb, Except.error.injEq] at h
      exact Or.inr ⟨h.symm, x, by simp, longest, by simp, mergeBase_err hmb⟩
    | base a b =>
      obtain ⟨rfl, rfl⟩ := mergeBase_base hmb
      simp only [hmb] at h
      cases hL : le longest x with
      | true =>
        simp only [hL, if_true] at h
        exact lift x (Or.inr rfl) (ih x h)
      | false =>
        simp only [hL, Bool.false_eq_true, if_false] at h
        split at h
        · exact lift longest (Or.inl rfl) (ih longest h)
        · rename_i hc
          simp only [Bool.or_eq_true, beq_iff_eq, not_or] at hc
          simp only [Except.error.injEq] at h
          have hx : le x longest = false := by
            cases hh : le x longest with
            | false => rfl
            | true => exact absurd hh hc.1
          exact Or.inl ⟨h.symm, x, by simp, longest, by simp, hx, hL⟩

/-- On a chain (all candidates pairwise comparable) phase two succeeds. -/
theorem fold2_chain (le rel : Nat → Nat → Bool) (longest : Nat) (l : List Nat)
    (hch : ∀ a ∈ longest :: l, ∀ b ∈ longest :: l, le a b = true ∨ le b a = true) :
    ∃ c, fold2 le rel longest l = .ok c := by
  induction l generalizing longest with
  | nil => exact ⟨longest, rfl⟩
  | cons x rest ih =>
    have hx := hch x (by simp) longest (by simp)
    have hmb : mergeBase le rel x longest = .base (le x longest) (le longest x) := by
      unfold mergeBase
      have : (le x longest || le longest x || rel x longest) = true := by
        rcases hx with h | h <;> simp [h]
      simp [this]
    simp only [fold2, hmb]
    cases hL : le longest x with
    | true =>
      simp only [if_true]
      exact ih x (fun a ha b hb => hch a (by
        rcases List.mem_cons.mp ha with rfl | ha <;> simp [*]) b (by
        rcases List.mem_cons.mp hb with rfl | hb <;> simp [*]))
    | false =>
      have hxl : le x longest = true := by
        rcases hx with h | h
        · exact h
        · rw [hL] at h; exact absurd h (by simp)
      simp only [Bool.false_eq_true, if_false, hxl, Bool.true_or, if_true]
      exact ih longest (fun a ha b hb => hch a (by
        rcases List.mem_cons.mp ha with rfl | ha <;> simp [*]) b (by
        rcases List.mem_cons.mp hb with rfl | hb <;> simp [*]))

end HeartwoodModel.Quorum
