//! C03 — canonical head by delegate quorum. Runs the real `Canonical::quorum` on real commit graphs.
//!
//! Case input (the same tokens the Lean driver reads):
//!   `<mode> <parents> <salt> <ord> <le> <rel> <tips> <threshold>`
//! * `mode`: `v` = empty `Canonical::reference` + one `modify_vote` per delegate; `f` = the delegates' tips
//!   are written as `refs/namespaces/<did>/refs/heads/master` and read back by `Canonical::reference`.
//! * `parents`: per commit `r` (root) or `i+j` (earlier commits); `salt` varies the commit messages and
//!   hence the oid order (which the `BTreeMap<Oid, _>` folds of the code follow). In corpus files (and inside
//!   the generator) the salt may be written `o<i><<j><…`: "the first salt for which the oids of commits
//!   i, j, … sort in this order"; the harness resolves it and records the numeric salt. The oid order of
//!   the sufficiently supported tips is a generated dimension: whenever they are not a chain, every
//!   relative order of them (all 2 / 6 / 24; 24 sampled beyond four tips) is produced this way.
//! * `ord`, `le`, `rel`: the opaque git facts, computed by the real libgit2 on the real graph: rank of
//!   each commit in oid order; `le[i][j]` = `merge_base(i, j) == i` (cross-checked against
//!   `graph_descendant_of`); `rel[i][j]` = `merge_base(i, j)` succeeds. In corpus files they may be
//!   written `?`: the harness fills them in and records the completed line. A line whose facts differ
//!   from what git says yields `env-mismatch` (a disagreement).
//! * `tips`: per delegate a commit index or `x`.
//! Output: `ok:<commit index>` | `none` | `diverging` | `git` | `panic`.

use std::cell::RefCell;
use std::collections::{BTreeMap, BTreeSet, HashMap};

use nonempty::NonEmpty;
use radicle::crypto::test::signer::MockSigner;
use radicle::crypto::Signer as _;
use radicle::git;
use radicle::git::canonical::{Canonical, QuorumError};
use radicle::identity::{Did, RepoId};
use radicle::storage::git::Repository;
use radicle::test::fixtures;
use verif_common::*;

/// One real repository per DAG shape; it holds every salted variant of the shape (same ancestry, other
/// commit messages, hence other oids and another oid order).
struct Shape {
    _tmp: tempfile::TempDir,
    repo: Repository,
    parents: Vec<Vec<usize>>,
    text: String,
    le: String,
    rel: String,
    lem: Vec<Vec<bool>>,
    salts: RefCell<HashMap<u64, std::rc::Rc<Salted>>>,
}

struct Salted {
    oids: Vec<git::raw::Oid>,
    /// rank of each commit in oid order
    rank: Vec<u64>,
    verified: std::cell::Cell<bool>,
}

/// A shape together with one salted variant.
struct Graph {
    shape: std::rc::Rc<Shape>,
    oids: Vec<git::raw::Oid>,
    ord: String,
}

thread_local! {
    static SHAPES: RefCell<HashMap<String, std::rc::Rc<Shape>>> = RefCell::new(HashMap::new());
    static SALT_FOR_ORDER: RefCell<HashMap<(String, Vec<usize>), Option<u64>>> = RefCell::new(HashMap::new());
}

fn parse_parents(s: &str) -> Option<Vec<Vec<usize>>> {
    let mut out = vec![];
    for (i, row) in s.split(',').enumerate() {
        if row == "r" {
            out.push(vec![]);
        } else {
            let ps: Vec<usize> = row.split('+').map(|p| p.parse().ok()).collect::<Option<_>>()?;
            if ps.is_empty() || ps.iter().any(|p| *p >= i) {
                return None;
            }
            out.push(ps);
        }
    }
    if out.is_empty() {
        None
    } else {
        Some(out)
    }
}

fn did(i: usize) -> Did {
    let mut seed = [0x33u8; 32];
    seed[0] = i as u8;
    seed[1] = (i >> 8) as u8;
    Did::from(*MockSigner::from_seed(seed).public_key())
}

fn bits(m: &[Vec<bool>]) -> String {
    m.iter()
        .map(|r| r.iter().map(|b| if *b { '1' } else { '0' }).collect::<String>())
        .collect::<Vec<_>>()
        .join(",")
}

fn facts(raw: &git::raw::Repository, oids: &[git::raw::Oid], what: &str) -> (Vec<Vec<bool>>, Vec<Vec<bool>>) {
    let n = oids.len();
    let mut lem = vec![vec![false; n]; n];
    let mut relm = vec![vec![false; n]; n];
    for i in 0..n {
        for j in 0..n {
            let mb = raw.merge_base(oids[i], oids[j]);
            relm[i][j] = mb.is_ok();
            lem[i][j] = matches!(mb, Ok(b) if b == oids[i]);
            // cross-check the assumed reading of merge_base against git's own ancestry test
            let anc = i == j || raw.graph_descendant_of(oids[j], oids[i]).unwrap_or(false);
            if anc != lem[i][j] {
                panic!("harness: merge_base and graph_descendant_of disagree on {what} ({i},{j})");
            }
        }
    }
    (lem, relm)
}

fn make_commits(repo: &Repository, parents: &[Vec<usize>], salt: u64) -> Option<Vec<git::raw::Oid>> {
    let raw = &repo.backend;
    let sig = git::raw::Signature::new("anonymous", "anonymous@radicle.xyz", &git::raw::Time::new(1514817556, 0)).ok()?;
    let tree = {
        let tb = raw.treebuilder(None).ok()?;
        raw.find_tree(tb.write().ok()?).ok()?
    };
    let mut oids: Vec<git::raw::Oid> = vec![];
    for (i, ps) in parents.iter().enumerate() {
        let pcs: Vec<git::raw::Commit> = ps.iter().map(|p| raw.find_commit(oids[*p]).unwrap()).collect();
        let prefs: Vec<&git::raw::Commit> = pcs.iter().collect();
        let oid = raw.commit(None, &sig, &sig, &format!("c{i} salt {salt}"), &tree, &prefs).ok()?;
        oids.push(oid);
    }
    Some(oids)
}

fn shape(parents_txt: &str) -> Option<std::rc::Rc<Shape>> {
    if let Some(s) = SHAPES.with(|c| c.borrow().get(parents_txt).cloned()) {
        return Some(s);
    }
    let parents = parse_parents(parents_txt)?;
    let tmp = tempfile::tempdir().ok()?;
    let rid = RepoId::from(git::raw::Oid::from_bytes(&[7u8; 20]).ok()?);
    let repo = Repository::create(tmp.path().join("repo"), rid, &fixtures::user()).ok()?;
    let oids = make_commits(&repo, &parents, 0)?;
    let (lem, relm) = facts(&repo.backend, &oids, parents_txt);
    let s = std::rc::Rc::new(Shape {
        _tmp: tmp,
        repo,
        parents,
        text: parents_txt.to_string(),
        le: bits(&lem),
        rel: bits(&relm),
        lem,
        salts: RefCell::new(HashMap::new()),
    });
    SHAPES.with(|c| {
        let mut c = c.borrow_mut();
        if c.len() > 48 {
            c.clear();
        }
        c.insert(parents_txt.to_string(), s.clone())
    });
    Some(s)
}

fn salted(s: &Shape, salt: u64, verify: bool) -> Option<std::rc::Rc<Salted>> {
    let got = s.salts.borrow().get(&salt).cloned();
    let v = match got {
        Some(v) => v,
        None => {
            let oids = make_commits(&s.repo, &s.parents, salt)?;
            let mut sorted = oids.clone();
            sorted.sort();
            let rank: Vec<u64> = oids.iter().map(|o| sorted.iter().position(|x| x == o).unwrap() as u64).collect();
            let v = std::rc::Rc::new(Salted { oids, rank, verified: std::cell::Cell::new(false) });
            s.salts.borrow_mut().insert(salt, v.clone());
            v
        }
    };
    if verify && !v.verified.get() {
        // the ancestry facts do not depend on the salt: check it on the real commits of this variant
        let (lem, relm) = facts(&s.repo.backend, &v.oids, &s.text);
        if bits(&lem) != s.le || bits(&relm) != s.rel {
            panic!("harness: ancestry of {} differs between salts", s.text);
        }
        v.verified.set(true);
    }
    Some(v)
}

fn graph(parents_txt: &str, salt: u64) -> Option<Graph> {
    let s = shape(parents_txt)?;
    let v = salted(&s, salt, true)?;
    Some(Graph { oids: v.oids.clone(), ord: nats(&v.rank), shape: s })
}

/// The first salt for which the oids of the listed commits sort in the listed order.
fn find_salt(parents_txt: &str, order: &[usize]) -> Option<u64> {
    let key = (parents_txt.to_string(), order.to_vec());
    if let Some(r) = SALT_FOR_ORDER.with(|c| c.borrow().get(&key).cloned()) {
        return r;
    }
    let s = shape(parents_txt)?;
    let mut found = None;
    if order.iter().all(|c| *c < s.parents.len()) {
        for salt in 0..20_000u64 {
            let v = salted(&s, salt, false)?;
            if order.windows(2).all(|w| v.rank[w[0]] < v.rank[w[1]]) {
                found = Some(salt);
                break;
            }
        }
    }
    SALT_FOR_ORDER.with(|c| c.borrow_mut().insert(key, found));
    found
}

/// Salt token: a number, or `o<i><<j><…` = "the first salt whose oids sort commit i before j before …".
fn resolve_salt(parents_txt: &str, tok: &str) -> Option<u64> {
    if let Some(o) = tok.strip_prefix('o') {
        let order: Vec<usize> = o.split('<').map(|x| x.parse().ok()).collect::<Option<_>>()?;
        find_salt(parents_txt, &order)
    } else {
        tok.parse().ok()
    }
}

/// Fill in `?` facts; returns the completed case line.
fn normalize(input: &str) -> String {
    let f: Vec<&str> = input.split(' ').collect();
    if f.len() != 8 {
        return input.to_string();
    }
    let Some(salt) = resolve_salt(f[1], f[2]) else { return input.to_string() };
    let Some(g) = graph(f[1], salt) else { return input.to_string() };
    let pick = |t: &str, real: &str| if t == "?" { real.to_string() } else { t.to_string() };
    format!("{} {} {} {} {} {} {} {}", f[0], f[1], salt, pick(f[3], &g.ord), pick(f[4], &g.shape.le), pick(f[5], &g.shape.rel), f[6], f[7])
}

fn run_case(input: &str) -> Outcome {
    let bad = || Outcome::new("bad-case").trivial().tag("bad-case");
    let f: Vec<&str> = input.split(' ').collect();
    if f.len() != 8 || (f[0] != "v" && f[0] != "f") {
        return bad();
    }
    let (Ok(salt), Ok(threshold)) = (f[2].parse::<u64>(), f[7].parse::<usize>()) else { return bad() };
    let Some(g) = graph(f[1], salt) else { return bad() };
    let n = g.oids.len();
    if f[3] != g.ord || f[4] != g.shape.le || f[5] != g.shape.rel {
        return Outcome::new("env-mismatch").trivial().tag("env-mismatch");
    }
    let mut tips: Vec<Option<usize>> = vec![];
    for t in f[6].split(',') {
        if t == "x" {
            tips.push(None);
        } else {
            match t.parse::<usize>() {
                Ok(c) if c < n => tips.push(Some(c)),
                _ => return bad(),
            }
        }
    }
    if tips.is_empty() {
        return bad();
    }
    let dids: Vec<Did> = (0..tips.len()).map(|i| did(i + 1)).collect();
    let delegates = NonEmpty::from_vec(dids.clone()).unwrap();
    let master = git::RefString::try_from("master").unwrap();
    let refname = git::refs::branch(&master);
    let raw = &g.shape.repo.backend;

    // --- run the real code -------------------------------------------------------------------
    let res = catch(|| {
        let canonical = if f[0] == "f" {
            for (d, t) in dids.iter().zip(&tips) {
                let name = refname.with_namespace(git::Component::from(d.as_key()));
                match t {
                    Some(c) => {
                        raw.reference(name.as_str(), g.oids[*c], true, "verif").unwrap();
                    }
                    None => {
                        if let Ok(mut r) = raw.find_reference(name.as_str()) {
                            r.delete().unwrap();
                        }
                    }
                }
            }
            let c = Canonical::reference(&g.shape.repo, &refname, &delegates, threshold).unwrap();
            // leave no refs behind for the next case on this graph
            for d in dids.iter() {
                let name = refname.with_namespace(git::Component::from(d.as_key()));
                if let Ok(mut r) = raw.find_reference(name.as_str()) {
                    r.delete().unwrap();
                }
            }
            c
        } else {
            let mut c = Canonical::reference(&g.shape.repo, &refname, &delegates, threshold).unwrap();
            assert!(c.is_empty());
            for (d, t) in dids.iter().zip(&tips) {
                if let Some(t) = t {
                    c.modify_vote(*d, g.oids[*t].into());
                }
            }
            c
        };
        let seen: BTreeMap<Did, git::Oid> = canonical.tips().map(|(d, o)| (*d, *o)).collect();
        (seen, canonical.quorum(raw))
    });
    let (seen, result) = match res {
        Ok(r) => r,
        Err(msg) => return Outcome::new("panic").tag("panic").violation("quorum-panic", msg),
    };
    let idx_of = |o: git::Oid| g.oids.iter().position(|x| *x == *o);
    let output = match &result {
        Ok(o) => match idx_of(*o) {
            Some(i) => format!("ok:{i}"),
            None => "ok:unknown".to_string(),
        },
        Err(QuorumError::NoCandidates(_)) => "none".to_string(),
        Err(QuorumError::Diverging(_)) => "diverging".to_string(),
        Err(QuorumError::Git(_)) => "git".to_string(),
    };
    let mut o = Outcome::new(output.clone());

    // --- oracle: the property statement on what the real code did -------------------------------
    // One tip per delegate must have been collected.
    let expect_seen: BTreeMap<Did, git::Oid> =
        dids.iter().zip(&tips).filter_map(|(d, t)| t.map(|c| (*d, git::Oid::from(g.oids[c])))).collect();
    if seen != expect_seen {
        o = o.violation("tips-not-one-per-delegate", format!("Canonical holds {} tips, expected {}", seen.len(), expect_seen.len()));
    }
    let desc = |tip: usize, c: usize| tip == c || raw.graph_descendant_of(g.oids[tip], g.oids[c]).unwrap_or(false);
    let tipset: BTreeSet<usize> = tips.iter().flatten().copied().collect();
    let support = |c: usize| tips.iter().flatten().filter(|t| desc(**t, c)).count();
    let supported: Vec<usize> = tipset.iter().copied().filter(|c| support(*c) >= threshold).collect();
    let has_max = supported.iter().any(|m| supported.iter().all(|c| desc(*m, *c)));
    if let Ok(h) = &result {
        match idx_of(*h) {
            None => o = o.violation("head-not-a-tip", "returned head is not a commit of the graph"),
            Some(h) => {
                if !tipset.contains(&h) {
                    o = o.violation("head-not-a-tip", format!("head c{h} is no delegate's tip"));
                }
                if support(h) < threshold {
                    o = o.violation(
                        "head-below-threshold",
                        format!("head c{h} is in the history of only {} distinct delegates, threshold {threshold}", support(h)),
                    );
                }
                if let Some(c) = supported.iter().find(|c| **c != h && desc(**c, h)) {
                    o = o.violation("head-not-latest", format!("supported tip c{c} descends from the returned head c{h}"));
                }
                if !supported.is_empty() && !has_max {
                    o = o.violation("head-despite-divergence", format!("supported tips {supported:?} have no common descendant among them, yet head c{h} returned"));
                }
            }
        }
    }
    // --- distribution ---------------------------------------------------------------------------
    o = o.tag(format!("out-{}", output.split(':').next().unwrap()));
    o = o.tag(format!("mode-{}", f[0]));
    let maxsup = tipset.iter().map(|c| support(*c)).max().unwrap_or(0);
    if maxsup == threshold {
        o = o.tag("boundary-support-eq-threshold");
    }
    if maxsup + 1 == threshold {
        o = o.tag("boundary-support-eq-threshold-minus-1");
    }
    let counts: BTreeMap<usize, usize> = tips.iter().flatten().fold(BTreeMap::new(), |mut m, t| {
        *m.entry(*t).or_default() += 1;
        m
    });
    if counts.iter().any(|(c, k)| *k >= 2 && tipset.iter().any(|d| d != c && g.shape.lem[*c][*d])) {
        o = o.tag("shared-tip-with-descendant-tip");
    }
    if supported.len() >= 2 && has_max && supported.iter().any(|a| supported.iter().any(|b| !desc(*a, *b) && !desc(*b, *a))) {
        o = o.tag("supported-nonchain-with-max");
    }
    if supported.len() >= 2 && !has_max {
        o = o.tag("supported-divergent");
    }
    if tips.iter().any(|t| t.is_none()) {
        o = o.tag("delegate-without-tip");
    }
    if f[1].contains('+') {
        o = o.tag("graph-has-merge");
    }
    o.nontrivial = tipset.len() >= 2;
    o
}

fn permutations(xs: &[usize]) -> Vec<Vec<usize>> {
    if xs.len() <= 1 {
        return vec![xs.to_vec()];
    }
    let mut out = vec![];
    for i in 0..xs.len() {
        let mut rest = xs.to_vec();
        let x = rest.remove(i);
        for mut p in permutations(&rest) {
            p.insert(0, x);
            out.push(p);
        }
    }
    out
}

fn all_assignments(n: usize, k: usize) -> Vec<Vec<usize>> {
    let mut out = vec![vec![]];
    for _ in 0..k {
        out = out.into_iter().flat_map(|a| (0..n).map(move |c| { let mut b = a.clone(); b.push(c); b })).collect();
    }
    out
}

fn main() {
    let mut ctx = Ctx::from_args("C03");
    let (fixed, is_replay) = ctx.fixed_inputs();
    for i in fixed {
        let line = normalize(&i);
        let o = run_case(&line);
        ctx.count("corpus-or-replay");
        ctx.record(&line, o);
    }
    if !is_replay {
        // shapes: linear / fork (the witness shape) / diamond+child / two branches + merge / two roots /
        // criss-cross / three-way fork / the repository's own test graph
        let quick_shapes: &[&str] = &["r,0,1,0", "r,0,0,1+2,3", "r,0,1,0,3,2+4", "r,r,0,1"];
        let thorough_shapes: &[&str] = &[
            "r,0,1,2",
            "r,0,1,0",
            "r,0,0,1+2,3",
            "r,0,1,0,3,2+4",
            "r,r,0,1",
            "r,r,0+1,2",
            "r,0,0,1+2,1+2",
            "r,0,0,0,1,2",
            "r,0,1,0,0,4,4,5+6,1+6",
        ];
        let shapes = if ctx.quick() { quick_shapes } else { thorough_shapes };
        let salts: u64 = ctx.size(2, 3);
        let max_k: usize = ctx.size(4, 5) as usize;
        let mut count = 0u64;
        for shape in shapes {
            let n = shape.split(',').count();
            for salt in 0..salts {
                let k_max = if n >= 9 { 4.min(max_k) } else if n >= 6 && !ctx.quick() { max_k.min(5) } else { max_k };
                for k in 1..=k_max {
                    for a in all_assignments(n, k) {
                        // delegates are interchangeable for `quorum` (only the multiset of tips matters):
                        // enumerate every sequence only for k <= 3, sorted sequences beyond
                        if k > 3 && a.windows(2).any(|w| w[0] > w[1]) {
                            continue;
                        }
                        for t in 1..=k {
                            count += 1;
                            let mode = if count % 40 == 0 { "f" } else { "v" };
                            let tips = a.iter().map(|c| c.to_string()).collect::<Vec<_>>().join(",");
                            let line = normalize(&format!("{mode} {shape} {salt} ? ? ? {tips} {t}"));
                            let o = run_case(&line);
                            ctx.record(&line, o);
                        }
                    }
                }
            }
        }
        // k-way forks (k = 3, 4) with merges of subsets of the branches (2 and 3 parents), chains hanging off
        // forks and merges; delegates are interchangeable, so multisets of tips; every threshold; and the oid
        // ORDER of the sufficiently supported tips as a dimension whenever they are not a chain.
        let fork_quick: &[&str] = &[
            "r,0,0,0,1+2",
            "r,0,0,0,1+2+3",
            "r,0,0,0,1+2,2+3",
            "r,0,0,0,1+2,3",
            "r,0,0,0,0,1+2",
            "r,0,0,0,0,1+2,3+4",
        ];
        let fork_thorough: &[&str] = &[
            "r,0,0,0,1+2",
            "r,0,0,0,1+2+3",
            "r,0,0,0,1+2,2+3",
            "r,0,0,0,1+2,3",
            "r,0,0,0,1+2,4",
            "r,0,0,0,1+2,1+2+3",
            "r,0,0,0,1,2,4+5",
            "r,0,0,0,0,1+2",
            "r,0,0,0,0,1+2+3",
            "r,0,0,0,0,1+2,3+4",
            "r,0,0,0,0,1+2,2+3",
            "r,0,0,0,0,1+2,2+3,3+4",
            "r,0,0,0,0,1+2+3,2+3+4",
            "r,0,0,0,0,1+2,3,5+6",
        ];
        let mut base_rng = ctx.rng();
        let mut prng = base_rng.fork();
        for shape_txt in if ctx.quick() { fork_quick } else { fork_thorough } {
            let Some(sh) = shape(shape_txt) else { continue };
            let n = sh.parents.len();
            let lem = sh.lem.clone();
            let k_max = if ctx.quick() { 4 } else if n <= 6 { 6 } else { 5 };
            for k in 1..=k_max {
                for a in all_assignments(n, k) {
                    if a.windows(2).any(|w| w[0] > w[1]) {
                        continue;
                    }
                    let tipset: BTreeSet<usize> = a.iter().copied().collect();
                    for t in 1..=k {
                        let supported: Vec<usize> =
                            tipset.iter().copied().filter(|c| a.iter().filter(|d| lem[*c][**d]).count() >= t).collect();
                        let nonchain = supported.iter().any(|x| supported.iter().any(|y| !lem[*x][*y] && !lem[*y][*x]));
                        let salts: Vec<String> = if nonchain {
                            let perms: Vec<Vec<usize>> = if supported.len() <= 4 {
                                permutations(&supported)
                            } else {
                                (0..24)
                                    .map(|_| {
                                        let mut p = supported.clone();
                                        for i in (1..p.len()).rev() {
                                            p.swap(i, prng.below(i as u64 + 1) as usize);
                                        }
                                        p
                                    })
                                    .collect()
                            };
                            perms.iter().map(|p| format!("o{}", p.iter().map(|c| c.to_string()).collect::<Vec<_>>().join("<"))).collect()
                        } else {
                            vec!["0".to_string(), "1".to_string()]
                        };
                        for salt in salts {
                            count += 1;
                            let mode = if count % 60 == 0 { "f" } else { "v" };
                            let tips = a.iter().map(|c| c.to_string()).collect::<Vec<_>>().join(",");
                            let line = normalize(&format!("{mode} {shape_txt} {salt} ? ? ? {tips} {t}"));
                            let mut o = run_case(&line);
                            if nonchain {
                                o = o.tag(format!("order-enumerated-{}-supported", supported.len().min(5)));
                            }
                            ctx.record(&line, o);
                        }
                    }
                }
            }
        }
        // random graphs, delegates without a tip, thresholds 0..k+1
        let mut rng = base_rng;
        for _ in 0..ctx.size(1_500, 8_000) {
            let n = rng.range(1, 8) as usize;
            let mut rows = vec!["r".to_string()];
            for i in 1..n {
                let np = match rng.below(10) { 0 => 0, 1..=6 => 1, _ => 2 };
                let mut ps: Vec<usize> = (0..np).map(|_| rng.below(i as u64) as usize).collect();
                ps.sort();
                ps.dedup();
                rows.push(if ps.is_empty() { "r".into() } else { ps.iter().map(|p| p.to_string()).collect::<Vec<_>>().join("+") });
            }
            let shape = rows.join(",");
            let salt = rng.below(4);
            for _ in 0..8 {
                let k = rng.range(1, 6) as usize;
                let tips: Vec<String> = (0..k)
                    .map(|_| if rng.chance(1, 8) { "x".to_string() } else { rng.below(n as u64).to_string() })
                    .collect();
                let t = rng.range(0, k as u64 + 1);
                let mode = if rng.chance(1, 10) { "f" } else { "v" };
                let line = normalize(&format!("{mode} {shape} {salt} ? ? ? {} {t}", tips.join(",")));
                let o = run_case(&line);
                ctx.record(&line, o);
            }
        }
    }
    ctx.finish(
        "exhaustive: every assignment of 1..3 delegates (every sorted assignment of 4..5) to the commits of fixed small DAG shapes \
         (linear, fork, diamond, two branches + merge, two roots, criss-cross, 3-way fork, the repo's own test graph) x every threshold 1..k \
         x several oid orders (salts); every multiset of 1..4 (thorough 5..6) tips on 3- and 4-way forks with merges of subsets of the branches \
         (2 and 3 parents) and chains x every threshold x EVERY relative oid order of the sufficiently supported tips when they are not a chain \
         (2/6/24 orders, 24 sampled beyond four tips; salts searched so that the real oids sort that way); plus random DAGs (<= 8 commits, merges, several roots) with delegates lacking a tip and thresholds 0..k+1; \
         ancestry facts computed by the real libgit2 per graph; non-trivial = at least two distinct tips; distinct by input text",
        false,
    );
}
