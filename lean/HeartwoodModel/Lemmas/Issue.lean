import HeartwoodModel.Model.Issue
import HeartwoodModel.Lemmas.Thread
/-! Per-action lemmas for `Model/Issue.lean`. -/
namespace HeartwoodModel.Issue
open HeartwoodModel.Cob

theorem liftThread_ok {i i' : Issue} {r : Except Err Thread} (h : liftThread i r = .ok i') :
    ∃ t, r = .ok t ∧ i' = { i with thread := t } := by
  unfold liftThread at h
  split at h
  · cases h; exact ⟨_, rfl, rfl⟩
  · cases h

/-- The root comment `rid` is the head of the timeline, live, and authored by `A`. -/
def RootLive (A : Actor) (rid : Id) (i : Issue) : Prop :=
  ∃ c rest, i.thread.timeline = rid :: rest ∧ get? rid i.thread.comments = some (some c) ∧ c.author = A

theorem RootLive.firstLive {A : Actor} {rid : Id} {i : Issue} (h : RootLive A rid i) :
    ∃ c, i.thread.firstLive = some (rid, c) ∧ c.author = A := by
  obtain ⟨c, rest, ht, hc, ha⟩ := h
  exact ⟨c, by simp [Thread.firstLive, ht, hc], ha⟩

theorem RootLive.author {A : Actor} {rid : Id} {i : Issue} (h : RootLive A rid i) : i.author = some A := by
  obtain ⟨c, hf, ha⟩ := h.firstLive
  simp [Issue.author, hf, ha]

/-- Non-delegates: what `authorization = allow` implies, per action. -/
theorem auth_allow_nondelegate {i : Issue} {a : Action} {actor : Actor} {doc : Doc}
    (hnd : doc.isDelegate actor = false) (h : authorization i a actor doc = .ok .allow) :
    ∃ author, i.author = some author ∧
      match a with
      | .assign as => canon as = i.assignees
      | .edit _ _ => actor = author
      | .lifecycle _ => actor = author
      | .label ls => canon ls = i.labels
      | .commentEdit id _ => ∃ c, get? id i.thread.comments = some (some c) ∧ actor = c.author
      | .commentRedact id => ∃ c, get? id i.thread.comments = some (some c) ∧ actor = c.author
      | _ => True := by
  unfold authorization at h
  rw [if_neg (by simp [hnd])] at h
  split at h
  · cases h
  · rename_i author hau
    refine ⟨author, hau, ?_⟩
    cases a <;> simp only [] at h ⊢
    case assign as => split at h <;> simp_all
    case edit t k => simpa [Auth.ofBool] using h
    case lifecycle s => simpa [Auth.ofBool] using h
    case label ls => split at h <;> simp_all
    case commentEdit id b =>
      split at h
      · rename_i c hc; exact ⟨c, hc, by simpa [Auth.ofBool] using h⟩
      · cases h
      · cases h
    case commentRedact id =>
      split at h
      · rename_i c hc; exact ⟨c, hc, by simpa [Auth.ofBool] using h⟩
      · cases h
      · cases h


/-- Frame: which fields an applied action touches. -/
theorem action_frame {i i' : Issue} {a : Action} {e : Id} {actor : Actor} (h : action i a e actor = .ok i') :
    (i'.assignees = i.assignees ∨ ∃ as, a = .assign as ∧ i'.assignees = canon as) ∧
    (i'.labels = i.labels ∨ ∃ ls, a = .label ls ∧ i'.labels = canon ls) ∧
    (i'.title = i.title ∨ ∃ t k, a = .edit t k) ∧
    (i'.state = i.state ∨ ∃ s, a = .lifecycle s) := by
  cases a <;> simp only [action] at h
  case assign as => cases h; exact ⟨Or.inr ⟨as, rfl, rfl⟩, Or.inl rfl, Or.inl rfl, Or.inl rfl⟩
  case edit t k =>
    split at h
    · cases h; exact ⟨Or.inl rfl, Or.inl rfl, Or.inr ⟨t, k, rfl⟩, Or.inl rfl⟩
    · cases h
  case lifecycle s => cases h; exact ⟨Or.inl rfl, Or.inl rfl, Or.inl rfl, Or.inr ⟨s, rfl⟩⟩
  case label ls => cases h; exact ⟨Or.inl rfl, Or.inr ⟨ls, rfl, rfl⟩, Or.inl rfl, Or.inl rfl⟩
  case comment b rt =>
    obtain ⟨t, _, rfl⟩ := liftThread_ok h; exact ⟨Or.inl rfl, Or.inl rfl, Or.inl rfl, Or.inl rfl⟩
  case commentEdit id b =>
    obtain ⟨t, _, rfl⟩ := liftThread_ok h; exact ⟨Or.inl rfl, Or.inl rfl, Or.inl rfl, Or.inl rfl⟩
  case commentRedact id =>
    split at h
    · cases h
    · split at h
      · cases h
      · obtain ⟨t, _, rfl⟩ := liftThread_ok h; exact ⟨Or.inl rfl, Or.inl rfl, Or.inl rfl, Or.inl rfl⟩
  case commentReact id =>
    obtain ⟨t, _, rfl⟩ := liftThread_ok h; exact ⟨Or.inl rfl, Or.inl rfl, Or.inl rfl, Or.inl rfl⟩

/-- An applied action of a non-delegate leaves the live comments of other authors untouched
(`e` is fresh: nothing by another author is stored under the op's own id). -/
theorem action_other {i i' : Issue} {a : Action} {e : Id} {actor : Actor} {doc : Doc}
    (hnd : doc.isDelegate actor = false) (hauth : authorization i a actor doc = .ok .allow)
    (hf : i.thread.other actor e = none) (h : action i a e actor = .ok i') (id : Id) :
    i'.thread.other actor id = i.thread.other actor id := by
  obtain ⟨author, _, hm⟩ := auth_allow_nondelegate hnd hauth
  cases a <;> simp only [action] at h <;> simp only [] at hm
  case assign as => cases h; rfl
  case edit t k => split at h <;> cases h; rfl
  case lifecycle s => cases h; rfl
  case label ls => cases h; rfl
  case comment b rt =>
    obtain ⟨t, ht, rfl⟩ := liftThread_ok h
    exact Thread.comment_other ht hf id
  case commentEdit cid b =>
    obtain ⟨t, ht, rfl⟩ := liftThread_ok h
    obtain ⟨c, hc, hac⟩ := hm
    exact Thread.edit_other ht (fun c' hc' => by rw [hc] at hc'; cases hc'; exact hac.symm) id
  case commentRedact cid =>
    obtain ⟨c, hc, hac⟩ := hm
    split at h
    · cases h
    · split at h
      · cases h
      · obtain ⟨t, ht, rfl⟩ := liftThread_ok h
        exact Thread.redact_other ht (fun c' hc' => by rw [hc] at hc'; cases hc'; exact hac.symm) id
  case commentReact cid =>
    obtain ⟨t, ht, rfl⟩ := liftThread_ok h
    exact Thread.other_of_comments_eq (Thread.react_comments ht) id

/-- Keys: an applied action of entry `e` creates at most the comment key `e`. -/
theorem action_keys {i i' : Issue} {a : Action} {e : Id} {actor : Actor} (h : action i a e actor = .ok i')
    (k : Id) (hk : get? k i'.thread.comments ≠ none) : get? k i.thread.comments ≠ none ∨ k = e := by
  cases a <;> simp only [action] at h
  case assign as => cases h; exact Or.inl hk
  case edit t kd => split at h <;> cases h; exact Or.inl hk
  case lifecycle s => cases h; exact Or.inl hk
  case label ls => cases h; exact Or.inl hk
  case comment b rt =>
    obtain ⟨t, ht, rfl⟩ := liftThread_ok h
    exact Thread.comment_keys ht k hk
  case commentEdit cid b =>
    obtain ⟨t, ht, rfl⟩ := liftThread_ok h
    exact Or.inl (Thread.edit_keys ht k hk)
  case commentRedact cid =>
    split at h
    · cases h
    · split at h
      · cases h
      · obtain ⟨t, ht, rfl⟩ := liftThread_ok h
        exact Or.inl (Thread.redact_keys ht k hk)
  case commentReact cid =>
    obtain ⟨t, ht, rfl⟩ := liftThread_ok h
    rw [Thread.react_comments ht] at hk
    exact Or.inl hk

theorem Thread.timeline_append {t t' : Thread} (h : t'.timeline = t.timeline ∨ ∃ e, t'.timeline = t.timeline ++ [e])
    {rid : Id} {rest : List Id} (ht : t.timeline = rid :: rest) : ∃ rest', t'.timeline = rid :: rest' := by
  rcases h with h | ⟨e, h⟩
  · exact ⟨rest, h ▸ ht⟩
  · exact ⟨rest ++ [e], by rw [h, ht]; rfl⟩

/-- The root comment stays the live head of the timeline under any applied action of a later entry. -/
theorem action_rootLive {A : Actor} {rid : Id} {i i' : Issue} {a : Action} {e : Id} {actor : Actor}
    (hr : RootLive A rid i) (hne : e ≠ rid) (h : action i a e actor = .ok i') : RootLive A rid i' := by
  obtain ⟨c, rest, htl, hc, ha⟩ := hr
  have hfl : i.thread.firstLive = some (rid, c) := by simp [Thread.firstLive, htl, hc]
  cases a <;> simp only [action] at h
  case assign as => cases h; exact ⟨c, rest, htl, hc, ha⟩
  case edit t kd => split at h <;> cases h; exact ⟨c, rest, htl, hc, ha⟩
  case lifecycle s => cases h; exact ⟨c, rest, htl, hc, ha⟩
  case label ls => cases h; exact ⟨c, rest, htl, hc, ha⟩
  case comment b rt =>
    obtain ⟨t, ht, rfl⟩ := liftThread_ok h
    unfold Thread.comment at ht
    split at ht
    · cases ht
    · split at ht
      · cases ht
      · cases ht
        exact ⟨c, rest ++ [e], by simp [htl], by simp [get?_ins_ne _ _ (Ne.symm hne), hc], ha⟩
  case commentEdit cid b =>
    obtain ⟨t, ht, rfl⟩ := liftThread_ok h
    unfold Thread.edit at ht
    split at ht
    · cases ht
    · split at ht
      · cases ht
      · cases ht; exact ⟨c, rest ++ [e], by simp [htl], hc, ha⟩
      · rename_i c1 hc1
        cases ht
        by_cases hid : rid = cid
        · subst hid
          rw [hc] at hc1; cases hc1
          exact ⟨{ c with edits := c.edits ++ [(actor, b)] }, rest ++ [e], by simp [htl],
            by simp [get?_ins_self], ha⟩
        · exact ⟨c, rest ++ [e], by simp [htl], by simp [get?_ins_ne _ _ hid, hc], ha⟩
  case commentRedact cid =>
    rw [hfl] at h
    simp only at h
    split at h
    · cases h
    · rename_i hid
      obtain ⟨t, ht, rfl⟩ := liftThread_ok h
      unfold Thread.redact at ht
      split at ht
      · cases ht
      · cases ht
        exact ⟨c, rest ++ [e], by simp [htl], by simp [get?_ins_ne _ _ (Ne.symm hid), hc], ha⟩
  case commentReact cid =>
    obtain ⟨t, ht, rfl⟩ := liftThread_ok h
    refine ⟨c, ?_⟩
    unfold Thread.react at ht
    split at ht
    · cases ht
    · cases ht; exact ⟨rest, htl, hc, ha⟩
    · cases ht; exact ⟨rest ++ [e], by simp [htl], hc, ha⟩

end HeartwoodModel.Issue
