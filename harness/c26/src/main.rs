//! C26 harness (stub: not implemented yet).
fn main() {
    eprintln!("C26: harness not implemented");
    std::process::exit(3);
}
