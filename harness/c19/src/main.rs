//! C19 harness (stub: not implemented yet).
fn main() {
    eprintln!("C19: harness not implemented");
    std::process::exit(3);
}
