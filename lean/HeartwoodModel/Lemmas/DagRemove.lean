import HeartwoodModel.Lemmas.DagDfs
/-!
# `Dag::remove` removes exactly the node and its transitive dependents

`Rel g0 R g`: the graph `g` is the well-formed graph `g0` with the keys of `R` cut out (map entries
removed, surviving `dependents` sets restricted, `tips`/`roots` adjusted). `removeL` maintains `Rel`
while `R` grows to the descendant closure of the removed keys.
-/
set_option linter.unusedSimpArgs false
set_option linter.unusedVariables false
namespace HeartwoodModel.Dag
variable {V : Type}

/-- Reachability along `dependents` edges of `g`. -/
abbrev Dag.Desc (g : Dag V) (u v : K) : Prop := Reach g.dependentsOf u v

/-- The node with its dependents restricted to keys outside `R`. -/
def Node.strip (R : List K) (n : Node V) : Node V :=
  { n with dependents := n.dependents.filter fun y => decide (y ∉ R) }

@[simp] theorem Node.strip_value (R : List K) (n : Node V) : (n.strip R).value = n.value := rfl
@[simp] theorem Node.strip_deps (R : List K) (n : Node V) : (n.strip R).deps = n.deps := rfl
@[simp] theorem Node.strip_dependents (R : List K) (n : Node V) :
    (n.strip R).dependents = n.dependents.filter fun y => decide (y ∉ R) := rfl

theorem Node.strip_nil (n : Node V) : n.strip [] = n := by
  cases n; simp [Node.strip]

structure Rel (g0 : Dag V) (R : List K) (g : Dag V) : Prop where
  get : ∀ x, g.get x = if x ∈ R then none else (g0.get x).map (Node.strip R)
  tips : ∀ x, x ∈ g.tips ↔ x ∉ R ∧ g0.contains x = true ∧ ∀ y ∈ g0.dependentsOf x, y ∈ R
  roots : ∀ x, x ∈ g.roots ↔ x ∉ R ∧ x ∈ g0.roots
  sortedG : SortedM g.graph
  sortedT : SortedK g.tips
  sortedR : SortedK g.roots

theorem Rel.refl {g : Dag V} (h : g.Wf) : Rel g [] g := by
  refine ⟨?_, ?_, ?_, h.graph, h.tips, h.roots⟩
  · intro x
    cases hx : g.get x with
    | none => simp
    | some n => simp [Node.strip_nil]
  · intro x
    rw [h.tips_iff]
    simp only [List.not_mem_nil, not_false_eq_true, true_and, and_congr_right_iff]
    intro _
    cases g.dependentsOf x with
    | nil => simp
    | cons a t =>
      simp only [reduceCtorEq, false_iff]
      intro hc
      exact hc a (by simp)
  · intro x; simp

theorem Rel.get_some {g0 g : Dag V} {R : List K} (h : Rel g0 R g) {x : K} {n : Node V}
    (hx : g.get x = some n) : x ∉ R ∧ ∃ n0, g0.get x = some n0 ∧ n = n0.strip R := by
  have := h.get x
  rw [hx] at this
  by_cases hr : x ∈ R
  · simp [hr] at this
  · simp only [hr, if_false] at this
    cases h0 : g0.get x with
    | none => simp [h0] at this
    | some n0 =>
      simp [h0] at this
      exact ⟨hr, n0, rfl, this⟩

theorem Rel.get_none {g0 g : Dag V} {R : List K} (h : Rel g0 R g) {x : K}
    (hx : g.get x = none) : x ∈ R ∨ g0.get x = none := by
  have := h.get x
  rw [hx] at this
  by_cases hr : x ∈ R
  · exact .inl hr
  · simp only [hr, if_false] at this
    cases h0 : g0.get x with
    | none => exact .inr rfl
    | some n0 => simp [h0] at this

/-! ### `detachDep`, `detach` -/

def Node.stripk (key : K) (n : Node V) : Node V := { n with dependents := del key n.dependents }

theorem Node.stripk_idem (key : K) (n : Node V) : (n.stripk key).stripk key = n.stripk key := by
  simp [Node.stripk, del_del_self]

theorem detachDep_get (key : K) (g : Dag V) (k x : K) :
    (Dag.detachDep key g k).get x = if x = k then (g.get k).map (Node.stripk key) else g.get x := by
  unfold Dag.detachDep
  cases hk : g.get k with
  | none =>
    by_cases hx : x = k
    · subst hx; simp [hk]
    · simp [hx]
  | some n =>
    simp only [Dag.get, mget_mins, Option.map_some]
    by_cases hx : x = k
    · simp [hx, Node.stripk]
    · simp [hx]

theorem detachDep_tips (key : K) (g : Dag V) (k x : K) :
    x ∈ (Dag.detachDep key g k).tips ↔
      x ∈ g.tips ∨ (x = k ∧ ∃ n, g.get k = some n ∧ del key n.dependents = []) := by
  unfold Dag.detachDep
  cases hk : g.get k with
  | none => simp
  | some n =>
    simp only [Option.some.injEq, exists_eq_left']
    by_cases he : del key n.dependents = []
    · simp [he, mem_ins, or_comm]
    · have : (del key n.dependents).isEmpty = false := by
        cases hd : del key n.dependents with
        | nil => exact absurd hd he
        | cons a t => rfl
      simp [this, he]

theorem detachDep_roots (key : K) (g : Dag V) (k : K) : (Dag.detachDep key g k).roots = g.roots := by
  unfold Dag.detachDep
  cases g.get k <;> rfl

theorem detachDep_sorted (key : K) (g : Dag V) (k : K)
    (h : SortedM g.graph ∧ SortedK g.tips) :
    SortedM (Dag.detachDep key g k).graph ∧ SortedK (Dag.detachDep key g k).tips := by
  unfold Dag.detachDep
  cases hk : g.get k with
  | none => exact h
  | some n =>
    refine ⟨sortedM_mins h.1, ?_⟩
    simp only
    split
    · exact sorted_ins h.2
    · exact h.2

theorem detach_fold_get (key : K) (x : K) : ∀ (ds : List K) (b : Dag V),
    (ds.foldl (Dag.detachDep key) b).get x =
      if x ∈ ds then (b.get x).map (Node.stripk key) else b.get x := by
  intro ds
  induction ds with
  | nil => intro b; simp
  | cons d ds ih =>
    intro b
    simp only [List.foldl_cons, ih, detachDep_get]
    by_cases hxd : x = d
    · subst hxd
      by_cases hxs : x ∈ ds
      · simp [hxs]
        cases b.get x with
        | none => rfl
        | some n => simp [Node.stripk_idem]
      · simp [hxs]
    · by_cases hxs : x ∈ ds
      · simp [hxs, hxd]
      · simp [hxs, hxd]

theorem detach_fold_tips (key : K) (x : K) : ∀ (ds : List K) (b : Dag V),
    x ∈ (ds.foldl (Dag.detachDep key) b).tips ↔
      x ∈ b.tips ∨ (x ∈ ds ∧ ∃ n, b.get x = some n ∧ del key n.dependents = []) := by
  intro ds
  induction ds with
  | nil => intro b; simp
  | cons d ds ih =>
    intro b
    simp only [List.foldl_cons, ih, detachDep_tips, detachDep_get]
    by_cases hxd : x = d
    · subst hxd
      cases hb : b.get x with
      | none => simp
      | some n =>
        simp [Node.stripk, del_del_self]
        intro _ h
        exact .inr h
    · simp [hxd]

theorem detach_fold_roots (key : K) : ∀ (ds : List K) (b : Dag V),
    (ds.foldl (Dag.detachDep key) b).roots = b.roots := by
  intro ds
  induction ds with
  | nil => intro b; rfl
  | cons d ds ih => intro b; simp [List.foldl_cons, ih, detachDep_roots]

theorem detach_fold_sorted (key : K) : ∀ (ds : List K) (b : Dag V),
    SortedM b.graph ∧ SortedK b.tips →
    SortedM (ds.foldl (Dag.detachDep key) b).graph ∧ SortedK (ds.foldl (Dag.detachDep key) b).tips := by
  intro ds
  induction ds with
  | nil => intro b h; exact h
  | cons d ds ih => intro b h; exact ih _ (detachDep_sorted key b d h)

theorem filter_notin_cons (k : K) (R l : List K) :
    del k (l.filter fun y => decide (y ∉ R)) = l.filter fun y => decide (y ∉ k :: R) := by
  rw [del_filter]
  apply filter_congr'
  intro x _
  by_cases h1 : x ∈ R <;> by_cases h2 : x = k <;> simp [h1, h2]

theorem detach_rel {g0 g : Dag V} {R : List K} (hwf : g0.Wf) (h : Rel g0 R g) {k : K} {n : Node V}
    (hk : g.get k = some n) : Rel g0 (k :: R) (g.detach k n) := by
  obtain ⟨hkR, n0, hn0, rfl⟩ := h.get_some hk
  have hdeps : ∀ x, x ∈ n0.deps ↔ k ∈ g0.dependentsOf x := by
    intro x
    rw [hwf.sym x k, Dag.depsOf_of_get hn0]
  have hbase : ∀ x, (Dag.get { graph := mdel k g.graph, tips := del k g.tips, roots := del k g.roots } x)
      = if x = k then none else g.get x := by
    intro x; simp [Dag.get, mget_mdel]
  refine ⟨?_, ?_, ?_, ?_, ?_, ?_⟩
  · intro x
    unfold Dag.detach
    rw [detach_fold_get, hbase]
    simp only [Node.strip_deps]
    by_cases hxk : x = k
    · subst hxk; simp
    · simp only [hxk, if_false, List.mem_cons, false_or]
      rw [h.get x]
      by_cases hxR : x ∈ R
      · simp [hxR]
      · simp only [hxR, if_false]
        cases hx0 : g0.get x with
        | none => simp
        | some nx =>
          simp only [Option.map_some]
          by_cases hxd : x ∈ n0.deps
          · simp only [hxd, if_true, Option.map_some]
            congr 1
            apply Node.ext'
            · rfl
            · rfl
            · simp only [Node.stripk, Node.strip_dependents]
              exact filter_notin_cons k R nx.dependents
          · simp only [hxd, if_false]
            congr 1
            apply Node.ext'
            · rfl
            · rfl
            · simp only [Node.strip_dependents]
              apply filter_congr'
              intro y hy
              have : y ≠ k := by
                rintro rfl
                exact hxd ((hdeps x).mpr (by rw [Dag.dependentsOf_of_get hx0]; exact hy))
              simp [this]
  · intro x
    unfold Dag.detach
    rw [detach_fold_tips, hbase]
    simp only [Node.strip_deps, mem_del, h.tips x]
    constructor
    · rintro (⟨⟨h1, h2, h3⟩, h4⟩ | ⟨h1, nb, h2, h3⟩)
      · exact ⟨by simp [h4, h1], h2, fun y hy => List.mem_cons_of_mem _ (h3 y hy)⟩
      · by_cases hxk : x = k
        · simp [hxk] at h2
        · simp only [hxk, if_false] at h2
          obtain ⟨hxR, nx, hnx, rfl⟩ := h.get_some h2
          refine ⟨by simp [hxk, hxR], Dag.contains_iff.mpr ⟨nx, hnx⟩, ?_⟩
          intro y hy
          rw [Dag.dependentsOf_of_get hnx] at hy
          simp only [Node.strip_dependents, filter_notin_cons] at h3
          have := List.filter_eq_nil_iff.mp h3 y hy
          simp only [decide_eq_true_eq, Decidable.not_not] at this
          exact this
    · rintro ⟨h1, h2, h3⟩
      have hxk : x ≠ k := fun e => h1 (by simp [e])
      have hxR : x ∉ R := fun e => h1 (by simp [e])
      by_cases hall : ∀ y ∈ g0.dependentsOf x, y ∈ R
      · exact .inl ⟨⟨hxR, h2, hall⟩, hxk⟩
      · right
        have hkx : k ∈ g0.dependentsOf x := by
          apply Classical.byContradiction
          intro hc
          apply hall
          intro y hy
          rcases List.mem_cons.mp (h3 y hy) with e | e
          · subst e; exact absurd hy hc
          · exact e
        obtain ⟨nx, hnx⟩ := Dag.contains_iff.mp h2
        refine ⟨(hdeps x).mpr hkx, nx.strip R, ?_, ?_⟩
        · simp [hxk, h.get x, hxR, hnx]
        · simp only [Node.strip_dependents, filter_notin_cons]
          apply List.filter_eq_nil_iff.mpr
          intro y hy
          have := h3 y (by rw [Dag.dependentsOf_of_get hnx]; exact hy)
          simp only [decide_eq_true_eq, Decidable.not_not]
          exact this
  · intro x
    unfold Dag.detach
    rw [detach_fold_roots]
    simp only [mem_del, h.roots x]
    constructor
    · rintro ⟨⟨h1, h2⟩, h3⟩
      exact ⟨by simp [h1, h3], h2⟩
    · rintro ⟨h1, h2⟩
      exact ⟨⟨fun e => h1 (by simp [e]), h2⟩, fun e => h1 (by simp [e])⟩
  · exact (detach_fold_sorted k _ _ ⟨sortedM_mdel h.sortedG, sorted_del h.sortedT⟩).1
  · exact (detach_fold_sorted k _ _ ⟨sortedM_mdel h.sortedG, sorted_del h.sortedT⟩).2
  · unfold Dag.detach
    rw [detach_fold_roots]
    exact sorted_del h.sortedR

/-! ### `removeL` -/

/-- What a `removeL` call establishes. -/
structure RemPost (g0 : Dag V) (R : List K) (ks : List K) (g' : Dag V) (R' : List K) : Prop where
  rel : Rel g0 R' g'
  mono : ∀ x, x ∈ R → x ∈ R'
  sound : ∀ x, x ∈ R' → x ∈ R ∨ (g0.contains x = true ∧ ∃ k ∈ ks, x = k ∨ g0.Desc k x)
  done : ∀ k, k ∈ ks → g0.contains k = true → k ∈ R'
  closed : ∀ x, x ∈ R' → x ∈ R ∨ ∀ y ∈ g0.dependentsOf x, y ∈ R'

theorem removeL_post {g0 : Dag V} (hwf : g0.Wf) :
    ∀ (fuel : Nat) (g : Dag V) (R ks : List K) (g' : Dag V),
      Rel g0 R g → Dag.removeL fuel g ks = some g' → ∃ R', RemPost g0 R ks g' R' := by
  intro fuel
  induction fuel with
  | zero => intro g R ks g' _ h; simp [Dag.removeL] at h
  | succ fuel ih =>
    intro g R ks g' hrel h
    cases ks with
    | nil =>
      simp [Dag.removeL] at h
      subst h
      exact ⟨R, hrel, fun _ hx => hx, fun _ hx => .inl hx, by simp, fun _ hx => .inl hx⟩
    | cons k ks =>
      rw [Dag.removeL] at h
      cases hk : g.get k with
      | none =>
        simp only [hk] at h
        obtain ⟨R', hp⟩ := ih _ _ _ _ hrel h
        refine ⟨R', hp.rel, hp.mono, ?_, ?_, hp.closed⟩
        · intro x hx
          rcases hp.sound x hx with h1 | ⟨hc, d, hd, h1⟩
          · exact .inl h1
          · exact .inr ⟨hc, d, List.mem_cons_of_mem _ hd, h1⟩
        · intro d hd hc
          rcases List.mem_cons.mp hd with rfl | hd
          · rcases hrel.get_none hk with h1 | h1
            · exact hp.mono _ h1
            · rw [Dag.contains_iff] at hc
              obtain ⟨n, hn⟩ := hc
              rw [hn] at h1; simp at h1
          · exact hp.done d hd hc
      | some n =>
        simp only [hk] at h
        cases h1 : Dag.removeL fuel (g.detach k n) n.dependents with
        | none => simp [h1] at h
        | some g1 =>
          simp only [h1] at h
          obtain ⟨hkR, n0, hn0, hn⟩ := hrel.get_some hk
          have hkc : g0.contains k = true := Dag.contains_iff.mpr ⟨n0, hn0⟩
          obtain ⟨R1, hp1⟩ := ih _ _ _ _ (detach_rel hwf hrel hk) h1
          obtain ⟨R', hp2⟩ := ih _ _ _ _ hp1.rel h
          -- every dependent of k (in g0) ends up in R1
          have hdep : ∀ y ∈ g0.dependentsOf k, y ∈ R1 := by
            intro y hy
            by_cases hyR : y ∈ R
            · exact hp1.mono y (List.mem_cons_of_mem _ hyR)
            · apply hp1.done y
              · rw [hn]
                simp only [Node.strip_dependents]
                rw [Dag.dependentsOf_of_get hn0] at hy
                exact List.mem_filter.mpr ⟨hy, by simpa using hyR⟩
              · exact Dag.contains_of_mem_depsOf ((hwf.sym k y).mp hy)
          have hsub : ∀ y, y ∈ n.dependents → y ∈ g0.dependentsOf k := by
            intro y hy
            rw [hn] at hy
            rw [Dag.dependentsOf_of_get hn0]
            exact (List.mem_filter.mp hy).1
          refine ⟨R', hp2.rel, ?_, ?_, ?_, ?_⟩
          · intro x hx
            exact hp2.mono x (hp1.mono x (List.mem_cons_of_mem _ hx))
          · intro x hx
            rcases hp2.sound x hx with h2 | ⟨hc, d, hd, h2⟩
            · rcases hp1.sound x h2 with h3 | ⟨hc, d, hd, h3⟩
              · rcases List.mem_cons.mp h3 with rfl | h3
                · exact .inr ⟨hkc, x, by simp, .inl rfl⟩
                · exact .inl h3
              · refine .inr ⟨hc, k, by simp, .inr ?_⟩
                rcases h3 with rfl | h3
                · exact .step (hsub _ hd)
                · exact .trans (hsub _ hd) h3
            · exact .inr ⟨hc, d, List.mem_cons_of_mem _ hd, h2⟩
          · intro d hd hc
            rcases List.mem_cons.mp hd with rfl | hd
            · exact hp2.mono _ (hp1.mono _ (by simp))
            · exact hp2.done d hd hc
          · intro x hx
            rcases hp2.closed x hx with h2 | h2
            · rcases hp1.closed x h2 with h3 | h3
              · rcases List.mem_cons.mp h3 with rfl | h3
                · exact .inr (fun y hy => hp2.mono y (hdep y hy))
                · exact .inl h3
              · exact .inr (fun y hy => hp2.mono y (h3 y hy))
            · exact .inr h2

/-- A descendant-closed `R` containing a key contains everything reachable from it. -/
theorem closed_desc {g0 : Dag V} {R : List K} (hcl : ∀ x, x ∈ R → ∀ y ∈ g0.dependentsOf x, y ∈ R)
    {u v : K} (hu : u ∈ R) (h : g0.Desc u v) : v ∈ R := by
  induction h with
  | step e => exact hcl _ hu _ e
  | trans e _ ih => exact ih (hcl _ hu _ e)

/-- Cutting a descendant-closed set out of a well-formed graph leaves a well-formed graph. -/
theorem Rel.wf {g0 g : Dag V} {R : List K} (hwf : g0.Wf) (h : Rel g0 R g)
    (hcl : ∀ x, x ∈ R → ∀ y ∈ g0.dependentsOf x, y ∈ R) : g.Wf := by
  have hdependents : ∀ u, g.dependentsOf u =
      if u ∈ R then [] else (g0.dependentsOf u).filter fun y => decide (y ∉ R) := by
    intro u
    simp only [Dag.dependentsOf, h.get u]
    by_cases hu : u ∈ R
    · simp [hu]
    · simp only [hu, if_false]
      cases g0.get u <;> simp
  have hdeps : ∀ u, g.depsOf u = if u ∈ R then [] else g0.depsOf u := by
    intro u
    simp only [Dag.depsOf, h.get u]
    by_cases hu : u ∈ R
    · simp [hu]
    · simp only [hu, if_false]
      cases g0.get u <;> simp
  have hcont : ∀ u, g.contains u = true ↔ u ∉ R ∧ g0.contains u = true := by
    intro u
    simp only [Dag.contains, h.get u]
    by_cases hu : u ∈ R
    · simp [hu]
    · simp [hu]
  refine { graph := h.sortedG, tips := h.sortedT, roots := h.sortedR, nodes := ?_, sym := ?_,
           tips_iff := ?_, roots_iff := ?_ }
  · intro k n hk
    obtain ⟨_, n0, hn0, rfl⟩ := h.get_some hk
    have := hwf.nodes k n0 hn0
    exact ⟨this.1, sortedK_filter this.2⟩
  · intro u v
    rw [hdependents, hdeps]
    by_cases hu : u ∈ R
    · simp only [hu, if_true, List.not_mem_nil, false_iff]
      by_cases hv : v ∈ R
      · simp [hv]
      · simp only [hv, if_false]
        intro huv
        exact hv (hcl u hu v ((hwf.sym u v).mpr huv))
    · by_cases hv : v ∈ R
      · simp [hu, hv]
      · simp [hu, hv, hwf.sym u v]
  · intro k
    rw [h.tips k, hcont, hdependents]
    by_cases hk : k ∈ R
    · simp [hk]
    · simp only [hk, not_false_eq_true, true_and, if_false, and_congr_right_iff]
      intro _
      rw [List.filter_eq_nil_iff]
      simp
  · intro k
    rw [h.roots k, hcont, hdeps, hwf.roots_iff k]
    by_cases hk : k ∈ R
    · simp [hk]
    · simp [hk]

/-- **`Dag::remove` on a well-formed graph.** The result is well-formed; a key survives iff it is
neither `k` nor a transitive dependent of `k`; surviving nodes keep their value and dependencies and
lose exactly the removed keys from their dependents. -/
theorem remove_spec {g g' : Dag V} (hwf : g.Wf) {fuel : Nat} {k : K}
    (h : g.remove fuel k = some g') :
    g'.Wf ∧
    (∀ x, g'.contains x = true ↔ g.contains x = true ∧ ¬ (g.contains k = true ∧ (x = k ∨ g.Desc k x))) ∧
    (∀ x n', g'.get x = some n' → ∃ n, g.get x = some n ∧ n'.value = n.value ∧ n'.deps = n.deps ∧
        ∀ y, y ∈ n'.dependents ↔ y ∈ n.dependents ∧ g'.contains y = true) := by
  obtain ⟨R, hp⟩ := removeL_post hwf fuel g [] [k] g' (Rel.refl hwf) h
  have hcl : ∀ x, x ∈ R → ∀ y ∈ g.dependentsOf x, y ∈ R := by
    intro x hx
    rcases hp.closed x hx with h1 | h1
    · simp at h1
    · exact h1
  have hR : ∀ x, x ∈ R ↔ g.contains k = true ∧ (x = k ∨ g.Desc k x) := by
    intro x
    constructor
    · intro hx
      rcases hp.sound x hx with h1 | ⟨hc, d, hd, h1⟩
      · simp at h1
      · simp at hd; subst hd
        rcases h1 with rfl | h1
        · exact ⟨hc, .inl rfl⟩
        · refine ⟨?_, .inr h1⟩
          cases h1 with
          | step e => exact Dag.contains_of_mem_dependentsOf e
          | trans e _ => exact Dag.contains_of_mem_dependentsOf e
    · rintro ⟨hc, rfl | hd⟩
      · exact hp.done _ (by simp) hc
      · exact closed_desc hcl (hp.done _ (by simp) hc) hd
  have hcont : ∀ x, g'.contains x = true ↔ x ∉ R ∧ g.contains x = true := by
    intro u
    simp only [Dag.contains, hp.rel.get u]
    by_cases hu : u ∈ R
    · simp [hu]
    · simp [hu]
  refine ⟨hp.rel.wf hwf hcl, ?_, ?_⟩
  · intro x
    rw [hcont, hR]
    exact And.comm
  · intro x n' hx
    obtain ⟨hxR, n0, hn0, rfl⟩ := hp.rel.get_some hx
    refine ⟨n0, hn0, rfl, rfl, ?_⟩
    intro y
    simp only [Node.strip_dependents, List.mem_filter, decide_eq_true_eq, hcont]
    constructor
    · rintro ⟨h1, h2⟩
      refine ⟨h1, h2, ?_⟩
      have : y ∈ g.dependentsOf x := by rw [Dag.dependentsOf_of_get hn0]; exact h1
      exact Dag.contains_of_mem_depsOf ((hwf.sym x y).mp this)
    · rintro ⟨h1, h2, _⟩
      exact ⟨h1, h2⟩

end HeartwoodModel.Dag
