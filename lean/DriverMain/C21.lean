import HeartwoodModel.Driver.Loop
import HeartwoodModel.Driver.C21
def main : IO Unit := HeartwoodModel.Driver.driverMain "C21" HeartwoodModel.Driver.C21.run
