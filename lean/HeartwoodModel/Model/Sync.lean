/-!
# Model of the sync state machines (C25)

`crates/radicle/src/node/sync.rs` (`ReplicationFactor`), `sync/announce.rs` (`Announcer`) and
`sync/fetch.rs` (`Fetcher`, including the `fix:` "ignore local node and repeated results in
`Fetcher::fetch_complete`").

Node ids are naturals. `BTreeSet<NodeId>` / the keys of `BTreeMap<NodeId, _>` are duplicate-free lists
(the order is never observed by the code; the driver sorts before printing); `VecDeque`s and the
`FetchResults` vector are lists in order. Of a `FetchResult` only `is_success` is kept, of a `Ready`
entry only the node.
-/
namespace HeartwoodModel.Sync

/-! ## finite sets as duplicate-free lists -/

/-- `BTreeSet::insert` -/
def sins (x : Nat) (s : List Nat) : List Nat := if s.contains x then s else s ++ [x]

/-- `BTreeSet::remove` -/
def srm (x : Nat) (s : List Nat) : List Nat := s.filter (· != x)

/-- `BTreeSet::extend` -/
def sunion (s t : List Nat) : List Nat := t.foldl (fun acc x => sins x acc) s

/-- `BTreeSet::difference` -/
def sdiff (s t : List Nat) : List Nat := s.filter (fun x => !t.contains x)

/-- `s.intersection(t).count()` -/
def sinterCount (s t : List Nat) : Nat := (s.filter (t.contains ·)).length

/-! ## `ReplicationFactor` -/

inductive Repl where
  | mustReach (n : Nat)
  | range (lo hi : Nat)
  deriving Repr, DecidableEq

/-- `ReplicationFactor::range` -/
def Repl.mkRange (lo hi : Nat) : Repl := if hi ≤ lo then .mustReach lo else .range lo hi

def Repl.lower : Repl → Nat
  | .mustReach n => n
  | .range lo _ => lo

def Repl.upper : Repl → Option Nat
  | .mustReach _ => none
  | .range _ hi => some hi

/-- `ReplicationFactor::min` -/
def Repl.min (r : Repl) (n : Nat) : Repl :=
  match r with
  | .mustReach m => .mustReach (Nat.min m n)
  | .range lo hi => Repl.mkRange lo (Nat.min hi n)

/-- The replica count that decides success: the upper end of a range, else the minimum. -/
def Repl.bound (r : Repl) : Nat :=
  match r.upper with
  | none => r.lower
  | some hi => hi

/-! ## `Announcer` -/

structure AnnCfg where
  me : Nat
  repl : Repl
  preferred : List Nat
  synced : List Nat
  unsynced : List Nat

structure Ann where
  me : Nat
  preferred : List Nat
  repl : Repl
  /-- keys of the `synced` map -/
  synced : List Nat
  toSync : List Nat
  deriving Repr, DecidableEq

inductive AnnOutcome where
  | minRepl (preferred synced : Nat)
  | maxRepl (preferred synced : Nat)
  deriving Repr, DecidableEq

inductive AnnErr where
  | noSeeds
  | alreadySynced (preferred synced : Nat)
  | target
  deriving Repr, DecidableEq

/-- `success_counts().preferred` -/
def Ann.prefCount (a : Ann) : Nat := (a.synced.filter (a.preferred.contains ·)).length

/-- `Announcer::is_target_reached` -/
def Ann.reached (a : Ann) : Option AnnOutcome :=
  let p := a.prefCount
  let s := a.synced.length
  let rp := a.preferred.isEmpty || decide (a.preferred.length ≤ p)
  match a.repl.upper with
  | none => if rp && decide (a.repl.lower ≤ s) then some (.minRepl p s) else none
  | some mx => if rp && decide (mx ≤ s) then some (.maxRepl p s) else none

/-- `Announcer::new` -/
def Ann.new (c : AnnCfg) : Except AnnErr Ann :=
  let preferred := srm c.me c.preferred
  let synced := srm c.me c.synced
  let unsynced := srm c.me c.unsynced
  if synced.isEmpty && unsynced.isEmpty then .error .noSeeds
  else if unsynced.isEmpty then .error (.alreadySynced (sinterCount synced preferred) synced.length)
  else
    let unsynced := sunion unsynced (sdiff preferred synced)
    let repl := c.repl.min unsynced.length
    if repl.lower == 0 && preferred.isEmpty then .error .target
    else
      let a : Ann := { me := c.me, preferred, repl, synced, toSync := unsynced }
      match a.reached with
      | none => .ok a
      | some (.minRepl p s) => .error (.alreadySynced p s)
      | some (.maxRepl p s) => .error (.alreadySynced p s)

inductive AnnStep where
  /-- `ControlFlow::Continue(progress)`: `progress.preferred`, `progress.synced` -/
  | cont (preferred synced : Nat)
  /-- `ControlFlow::Break(success)` -/
  | brk (o : AnnOutcome)
  deriving Repr, DecidableEq

/-- `Announcer::synced_with` -/
def Ann.syncedWith (a : Ann) (n : Nat) : Ann × AnnStep :=
  if n = a.me then (a, .cont a.prefCount a.synced.length)
  else
    let a' : Ann := { a with toSync := srm n a.toSync, synced := sins n a.synced }
    match a'.reached with
    | none => (a', .cont a'.prefCount a'.synced.length)
    | some o => (a', .brk o)

inductive AnnResult where
  | success (o : AnnOutcome) (synced : List Nat)
  | timedOut (synced timedOut : List Nat)
  | noNodes (synced : List Nat)
  deriving Repr, DecidableEq

/-- `Announcer::timed_out` -/
def Ann.timedOut (a : Ann) : AnnResult :=
  match a.reached with
  | none => .timedOut a.synced a.toSync
  | some o => .success o a.synced

/-- `Announcer::can_continue`: `some` = `Break(NoNodes)`. -/
def Ann.canContinue (a : Ann) : Option AnnResult :=
  if a.toSync.isEmpty then some (.noNodes a.synced) else none

/-- `Announcer::to_sync` -/
def Ann.toSyncOut (a : Ann) : List Nat := a.toSync.filter (· != a.me)

/-! ## `Fetcher` -/

structure FetCfg where
  me : Nat
  repl : Repl
  seeds : List Nat
  candidates : List Nat

/-- `FetcherConfig::public` / `::private` (the allowed set plays the role of `seeds`). -/
def FetCfg.public (seeds : List Nat) (repl : Repl) (me : Nat) : FetCfg :=
  { me, repl, seeds, candidates := seeds.filter (· != me) }

/-- `FetcherConfig::with_candidates` -/
def FetCfg.withCandidates (c : FetCfg) (extra : List Nat) : FetCfg :=
  { c with candidates := c.candidates ++ extra.filter (· != c.me) }

structure Fet where
  me : Nat
  seeds : List Nat
  repl : Repl
  fetchFrom : List Nat
  candidates : List Nat
  /-- `FetchResults`: `(node, is_success)` in push order -/
  results : List (Nat × Bool)
  deriving Repr, DecidableEq

inductive FetErr where
  | noCandidates
  | target
  deriving Repr, DecidableEq

/-- `Fetcher::new` -/
def Fet.new (c : FetCfg) : Except FetErr Fet :=
  if c.candidates.isEmpty then .error .noCandidates
  else
    let repl := c.repl.min c.candidates.length
    if repl.lower == 0 && c.seeds.isEmpty then .error .target
    else .ok { me := c.me, seeds := c.seeds, repl, fetchFrom := [], candidates := c.candidates, results := [] }

/-- `FetchResults::get`: the first entry of the node. -/
def getResult (rs : List (Nat × Bool)) (n : Nat) : Option Bool :=
  match rs with
  | [] => none
  | (k, r) :: rest => if k = n then some r else getResult rest n

/-- `Fetcher::include_node` -/
def Fet.includeNode (f : Fet) (n : Nat) : Bool := (getResult f.results n).isNone && f.me != n

/-- The `from_fn(pop_front).find_map(..)` of `next_node`: pops until a candidate passes the filter. -/
def popCandidate (f : Fet) : List Nat → Option Nat × List Nat
  | [] => (none, [])
  | c :: cs => if f.includeNode c then (some c, cs) else popCandidate f cs

/-- `Fetcher::next_node` -/
def Fet.nextNode (f : Fet) : Fet × Option Nat :=
  let (r, cs) := popCandidate f f.candidates
  ({ f with candidates := cs }, r)

/-- `Fetcher::ready_to_fetch` -/
def Fet.readyToFetch (f : Fet) (n : Nat) : Fet := { f with fetchFrom := f.fetchFrom ++ [n] }

/-- `Fetcher::next_fetch` -/
def Fet.nextFetch (f : Fet) : Fet × Option Nat :=
  match f.fetchFrom with
  | [] => (f, none)
  | n :: rest => ({ f with fetchFrom := rest }, if f.includeNode n then some n else none)

/-- `Fetcher::fetch_failed` (not guarded by `include_node`). -/
def Fet.fetchFailed (f : Fet) (n : Nat) : Fet := { f with results := f.results ++ [(n, false)] }

/-- The nodes of `results.success()`, in order (with repetitions, if there were any). -/
def succNodes (rs : List (Nat × Bool)) : List Nat := (rs.filter (·.2)).map (·.1)

/-- `success_counts()`: `(preferred, succeeded)` -/
def Fet.counts (f : Fet) : Nat × Nat :=
  (((succNodes f.results).filter (f.seeds.contains ·)).length, (succNodes f.results).length)

inductive FetOutcome where
  | preferredNodes (preferred : Nat)
  | minReplicas (succeeded : Nat)
  | maxReplicas (succeeded min max : Nat)
  deriving Repr, DecidableEq

/-- `Fetcher::is_target_reached` -/
def Fet.reached (f : Fet) : Option FetOutcome :=
  let (p, s) := f.counts
  if !f.seeds.isEmpty && decide (f.seeds.length ≤ p) then some (.preferredNodes f.seeds.length)
  else
    match f.repl.upper with
    | none => if f.repl.lower ≤ s then some (.minReplicas s) else none
    | some mx => if mx ≤ s then some (.maxReplicas s f.repl.lower mx) else none

inductive FetStep where
  /-- `Continue(progress)`: `progress.preferred`, `progress.succeeded` -/
  | cont (preferred succeeded : Nat)
  /-- `Break(success)`: outcome and the same two counters -/
  | brk (o : FetOutcome) (preferred succeeded : Nat)
  deriving Repr, DecidableEq

/-- `Fetcher::fetch_complete` -/
def Fet.fetchComplete (f : Fet) (n : Nat) (ok : Bool) : Fet × FetStep :=
  let f' : Fet := if f.includeNode n then { f with results := f.results ++ [(n, ok)] } else f
  match f'.reached with
  | none => (f', .cont f'.counts.1 f'.counts.2)
  | some o => (f', .brk o f'.counts.1 f'.counts.2)

/-- `Fetcher::missing_seeds` -/
def Fet.missing (f : Fet) : List Nat :=
  f.seeds.filter (fun n => match getResult f.results n with
    | some true => false
    | _ => true)

inductive FetResult where
  | targetReached (o : FetOutcome) (preferred succeeded : Nat)
  /-- `TargetMissed`: missed preferred seeds, `required` more replicas, counters -/
  | targetError (missing : List Nat) (required preferred succeeded : Nat)
  deriving Repr, DecidableEq

/-- `Fetcher::finish` -/
def Fet.finish (f : Fet) : FetResult :=
  match f.reached with
  | none => .targetError f.missing (f.repl.lower - f.counts.2) f.counts.1 f.counts.2
  | some o => .targetReached o f.counts.1 f.counts.2

end HeartwoodModel.Sync
