/-! Driver entry for property C07 (stub: not implemented yet). -/
namespace HeartwoodModel.Driver.C07

def run (_args : List String) : String := "unimplemented"

end HeartwoodModel.Driver.C07
