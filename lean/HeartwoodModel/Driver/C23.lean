/-! Driver entry for property C23 (stub: not implemented yet). -/
namespace HeartwoodModel.Driver.C23

def run (_args : List String) : String := "unimplemented"

end HeartwoodModel.Driver.C23
