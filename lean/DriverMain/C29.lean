import HeartwoodModel.Driver.Loop
import HeartwoodModel.Driver.C29
def main : IO Unit := HeartwoodModel.Driver.driverMain "C29" HeartwoodModel.Driver.C29.run
