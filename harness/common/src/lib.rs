//! Shared plumbing for the per-property harness binaries.
//!
//! Every harness binary is invoked as
//!   `cNN --tier quick|thorough --seed N --out DIR [--replay FILE] [--corpus DIR]`
//! and writes, into `DIR`:
//!   * `cases.txt`  — one line per case: `<PROP> <id> <input tokens…>` (fed to the Lean driver)
//!   * `impl.txt`   — one line per case: `<PROP> <id> => <canonical output of the REAL code>`
//!   * `oracle.txt` — one line per property-oracle failure: `<PROP> <id> <class> <free text>`
//!   * `stats.json` — counts, distribution, samples (copied into the evidence file)
//!
//! A case is always executed from its textual input form (`run_case(&str)`), so that generated
//! cases, corpus cases and replay files all take the same path.

use std::collections::{BTreeMap, HashSet};
use std::fs::File;
use std::hash::{Hash, Hasher};
use std::io::{BufWriter, Write};
use std::path::PathBuf;

#[derive(Clone, Copy, PartialEq, Eq, Debug)]
pub enum Tier {
    Quick,
    Thorough,
}

/// SplitMix64: every random choice of a harness derives from this one state.
#[derive(Clone)]
pub struct Rng(pub u64);

impl Rng {
    pub fn new(seed: u64) -> Self {
        Rng(seed ^ 0x9e3779b97f4a7c15)
    }
    pub fn next(&mut self) -> u64 {
        self.0 = self.0.wrapping_add(0x9e3779b97f4a7c15);
        let mut z = self.0;
        z = (z ^ (z >> 30)).wrapping_mul(0xbf58476d1ce4e5b9);
        z = (z ^ (z >> 27)).wrapping_mul(0x94d049bb133111eb);
        z ^ (z >> 31)
    }
    /// Uniform in `0..n` (`n > 0`).
    pub fn below(&mut self, n: u64) -> u64 {
        self.next() % n
    }
    /// Uniform in `lo..=hi`.
    pub fn range(&mut self, lo: u64, hi: u64) -> u64 {
        lo + self.below(hi - lo + 1)
    }
    pub fn bool(&mut self) -> bool {
        self.next() & 1 == 1
    }
    /// True with probability `num/den`.
    pub fn chance(&mut self, num: u64, den: u64) -> bool {
        self.below(den) < num
    }
    pub fn pick<'a, T>(&mut self, xs: &'a [T]) -> &'a T {
        &xs[self.below(xs.len() as u64) as usize]
    }
    pub fn bytes(&mut self, n: usize) -> Vec<u8> {
        (0..n).map(|_| self.next() as u8).collect()
    }
    pub fn fork(&mut self) -> Rng {
        Rng(self.next())
    }
}

pub fn hex(bytes: &[u8]) -> String {
    if bytes.is_empty() {
        return "-".to_string();
    }
    let mut s = String::with_capacity(bytes.len() * 2);
    for b in bytes {
        s.push_str(&format!("{:02x}", b));
    }
    s
}

pub fn unhex(s: &str) -> Option<Vec<u8>> {
    if s == "-" {
        return Some(vec![]);
    }
    if s.len() % 2 != 0 {
        return None;
    }
    (0..s.len() / 2)
        .map(|i| u8::from_str_radix(&s[2 * i..2 * i + 2], 16).ok())
        .collect()
}

pub fn nats(xs: &[u64]) -> String {
    if xs.is_empty() {
        "-".into()
    } else {
        xs.iter().map(|x| x.to_string()).collect::<Vec<_>>().join(",")
    }
}

thread_local! {
    static IN_CATCH: std::cell::Cell<u32> = const { std::cell::Cell::new(0) };
}

/// Run `f`, turning a panic into `Err(message)`. Panics inside `catch` are silent; panics outside
/// (bugs of the harness itself) are still printed.
pub fn catch<T>(f: impl FnOnce() -> T) -> Result<T, String> {
    static ONCE: std::sync::Once = std::sync::Once::new();
    ONCE.call_once(|| {
        let default = std::panic::take_hook();
        std::panic::set_hook(Box::new(move |info| {
            if IN_CATCH.with(|c| c.get()) == 0 {
                default(info);
            }
        }));
    });
    IN_CATCH.with(|c| c.set(c.get() + 1));
    let r = std::panic::catch_unwind(std::panic::AssertUnwindSafe(f));
    IN_CATCH.with(|c| c.set(c.get() - 1));
    match r {
        Ok(v) => Ok(v),
        Err(e) => {
            let msg = if let Some(s) = e.downcast_ref::<&str>() {
                s.to_string()
            } else if let Some(s) = e.downcast_ref::<String>() {
                s.clone()
            } else {
                "panic".to_string()
            };
            Err(msg)
        }
    }
}

/// What the real code did on one case.
pub struct Outcome {
    /// Canonical output, compared with the model's output.
    pub output: String,
    /// Property-oracle failures: `(class, message)`. `class` is a short stable tag naming the kind
    /// of failing input (matched against `known-findings.json`).
    pub violations: Vec<(String, String)>,
    /// Whether this case is non-trivial by the property's stated rule.
    pub nontrivial: bool,
    /// Distribution tags (branches / error kinds hit) to count.
    pub tags: Vec<String>,
}

impl Outcome {
    pub fn new(output: impl Into<String>) -> Self {
        Outcome { output: output.into(), violations: vec![], nontrivial: true, tags: vec![] }
    }
    pub fn trivial(mut self) -> Self {
        self.nontrivial = false;
        self
    }
    pub fn tag(mut self, t: impl Into<String>) -> Self {
        self.tags.push(t.into());
        self
    }
    pub fn violation(mut self, class: impl Into<String>, msg: impl Into<String>) -> Self {
        self.violations.push((class.into(), msg.into()));
        self
    }
}

pub struct Ctx {
    pub prop: String,
    pub tier: Tier,
    pub seed: u64,
    pub out: PathBuf,
    pub replay: Option<PathBuf>,
    pub corpus: Option<PathBuf>,
    cases: BufWriter<File>,
    impls: BufWriter<File>,
    oracle: BufWriter<File>,
    n: u64,
    n_viol: u64,
    distinct: HashSet<u64>,
    samples: Vec<String>,
    dist: BTreeMap<String, u64>,
    extra: BTreeMap<String, String>,
}

impl Ctx {
    pub fn from_args(prop: &str) -> Ctx {
        let mut tier = Tier::Quick;
        let mut seed = 1u64;
        let mut out = PathBuf::from(".");
        let mut replay = None;
        let mut corpus = None;
        let args: Vec<String> = std::env::args().collect();
        let mut i = 1;
        while i < args.len() {
            match args[i].as_str() {
                "--tier" => {
                    tier = if args[i + 1] == "thorough" { Tier::Thorough } else { Tier::Quick };
                    i += 1;
                }
                "--seed" => {
                    seed = args[i + 1].parse().expect("seed");
                    i += 1;
                }
                "--out" => {
                    out = PathBuf::from(&args[i + 1]);
                    i += 1;
                }
                "--replay" => {
                    replay = Some(PathBuf::from(&args[i + 1]));
                    i += 1;
                }
                "--corpus" => {
                    corpus = Some(PathBuf::from(&args[i + 1]));
                    i += 1;
                }
                other => panic!("unknown argument {other}"),
            }
            i += 1;
        }
        std::fs::create_dir_all(&out).expect("out dir");
        let mk = |name: &str| BufWriter::new(File::create(out.join(name)).expect("create"));
        Ctx {
            prop: prop.to_string(),
            tier,
            seed,
            cases: mk("cases.txt"),
            impls: mk("impl.txt"),
            oracle: mk("oracle.txt"),
            out,
            replay,
            corpus,
            n: 0,
            n_viol: 0,
            distinct: HashSet::new(),
            samples: vec![],
            dist: BTreeMap::new(),
            extra: BTreeMap::new(),
        }
    }

    pub fn quick(&self) -> bool {
        self.tier == Tier::Quick
    }

    /// `q` in the quick tier, `t` in the thorough tier.
    pub fn size(&self, q: u64, t: u64) -> u64 {
        if self.quick() { q } else { t }
    }

    pub fn rng(&self) -> Rng {
        Rng::new(self.seed)
    }

    /// Input lines (without the `<PROP> <id>` prefix) that must run before anything generated:
    /// the replay file if given (then *only* it), else every `*.case` file of the corpus directory.
    /// Lines may carry the `<PROP> <id>` prefix (as in cases.txt / replay files); it is stripped.
    pub fn fixed_inputs(&self) -> (Vec<String>, bool) {
        let strip = |l: &str| -> Option<String> {
            let l = l.trim();
            if l.is_empty() || l.starts_with('#') {
                return None;
            }
            let mut it = l.splitn(3, ' ');
            let a = it.next().unwrap_or("");
            if a == self.prop {
                let _id = it.next();
                Some(it.next().unwrap_or("").to_string())
            } else {
                Some(l.to_string())
            }
        };
        if let Some(r) = &self.replay {
            let txt = std::fs::read_to_string(r).expect("replay file");
            return (txt.lines().filter_map(strip).collect(), true);
        }
        let mut v = vec![];
        if let Some(c) = &self.corpus {
            if let Ok(rd) = std::fs::read_dir(c) {
                let mut files: Vec<_> = rd.filter_map(|e| e.ok()).map(|e| e.path()).collect();
                files.sort();
                for f in files {
                    if f.extension().map(|e| e == "case").unwrap_or(false) {
                        if let Ok(txt) = std::fs::read_to_string(&f) {
                            v.extend(txt.lines().filter_map(strip));
                        }
                    }
                }
            }
        }
        (v, false)
    }

    /// Record one executed case.
    pub fn record(&mut self, input: &str, o: Outcome) -> u64 {
        self.n += 1;
        let id = self.n;
        writeln!(self.cases, "{} {} {}", self.prop, id, input).unwrap();
        writeln!(self.impls, "{} {} => {}", self.prop, id, o.output).unwrap();
        for (class, msg) in &o.violations {
            self.n_viol += 1;
            writeln!(self.oracle, "{} {} {} {}", self.prop, id, class, msg.replace('\n', " ")).unwrap();
        }
        if o.nontrivial {
            let mut h = std::collections::hash_map::DefaultHasher::new();
            input.hash(&mut h);
            self.distinct.insert(h.finish());
        }
        for t in o.tags {
            *self.dist.entry(t).or_insert(0) += 1;
        }
        if self.samples.len() < 5 || (self.samples.len() < 12 && id % 997 == 0) {
            let mut s = format!("{} => {}", input, o.output);
            if s.len() > 400 {
                s.truncate(400);
                s.push('…');
            }
            self.samples.push(s);
        }
        id
    }

    /// Run every fixed input (corpus or replay) through `f`; returns true if a replay file was given
    /// (in which case the caller must not generate anything else).
    pub fn run_fixed(&mut self, mut f: impl FnMut(&str) -> Outcome) -> bool {
        let (inputs, is_replay) = self.fixed_inputs();
        for i in inputs {
            let o = f(&i);
            self.count("corpus-or-replay");
            self.record(&i, o);
        }
        is_replay
    }

    pub fn count(&mut self, key: &str) {
        *self.dist.entry(key.to_string()).or_insert(0) += 1;
    }

    pub fn note(&mut self, key: &str, val: impl ToString) {
        self.extra.insert(key.to_string(), val.to_string());
    }

    pub fn finish(mut self, rule: &str, exhaustive: bool) {
        self.cases.flush().unwrap();
        self.impls.flush().unwrap();
        self.oracle.flush().unwrap();
        let esc = |s: &str| -> String {
            let mut o = String::new();
            for c in s.chars() {
                match c {
                    '"' => o.push_str("\\\""),
                    '\\' => o.push_str("\\\\"),
                    '\n' => o.push_str("\\n"),
                    '\t' => o.push_str("\\t"),
                    c if (c as u32) < 0x20 => o.push_str(&format!("\\u{:04x}", c as u32)),
                    c => o.push(c),
                }
            }
            o
        };
        let mut j = String::from("{\n");
        j.push_str(&format!("  \"evaluations\": {},\n", self.n));
        j.push_str(&format!("  \"distinct_nontrivial\": {},\n", self.distinct.len()));
        j.push_str(&format!("  \"oracle_violations\": {},\n", self.n_viol));
        j.push_str(&format!("  \"exhaustive\": {},\n", exhaustive));
        j.push_str(&format!("  \"rule\": \"{}\",\n", esc(rule)));
        j.push_str("  \"samples\": [");
        j.push_str(&self.samples.iter().map(|s| format!("\"{}\"", esc(s))).collect::<Vec<_>>().join(", "));
        j.push_str("],\n  \"distribution\": {");
        j.push_str(&self.dist.iter().map(|(k, v)| format!("\"{}\": {}", esc(k), v)).collect::<Vec<_>>().join(", "));
        j.push_str("},\n  \"notes\": {");
        j.push_str(&self.extra.iter().map(|(k, v)| format!("\"{}\": \"{}\"", esc(k), esc(v))).collect::<Vec<_>>().join(", "));
        j.push_str("}\n}\n");
        std::fs::write(self.out.join("stats.json"), j).unwrap();
    }
}
