//! History injector shared by the C04 / C07 / C08 harnesses (included with `#[path]`).
//!
//! A `World` is a real radicle storage in a temp dir with one real repository, a fixed set of actors
//! (real Ed25519 keys), a small fixed commit graph for default-branch ancestry checks, and helpers to
//! * store identity-document commits (`Doc::load_at` resolves them, exactly like `op.identity_doc`),
//! * store arbitrary COB change commits with explicit tips / resource / timestamp
//!   (`radicle_cob::change::Storage::store`), as a remote peer's changes would arrive,
//! * point namespace refs at them (`object::Storage::update`),
//! * evaluate with the REAL `radicle_cob::get`, through a tracing wrapper type that records the order
//!   in which `ChangeGraph::evaluate` applied the entries, each result, the number of concurrent
//!   entries it was given and the state after each application.
#![allow(dead_code)]

use std::collections::BTreeMap;

use nonempty::NonEmpty;
use radicle::cob;
use radicle::cob::change::Storage as _;
use radicle::cob::object::Storage as _;
use radicle::crypto::test::signer::MockSigner;
use radicle::crypto::PublicKey;
use radicle::git::Oid;
use radicle::identity::doc::{Doc, RawDoc, Visibility};
use radicle::identity::{Did, Project};
use radicle::node::device::Device;
use radicle::node::Alias;
use radicle::storage::git::{Repository, Storage};
use radicle::storage::{ReadRepository, WriteRepository};

pub const N_ACTORS: usize = 6;
/// Commit graph: 0 ← 1 ← 2 ← 3 (main line), 4 child of 0, 5 child of 1 (side commits).
pub const N_COMMITS: usize = 6;

pub struct World {
    pub tmp: tempfile::TempDir,
    pub storage: Storage,
    pub repo: Repository,
    pub actors: Vec<Device<MockSigner>>,
    pub commits: Vec<Oid>,
    pub project: Project,
    pub identity_root: Oid,
    doc_commits: BTreeMap<String, Oid>,
    pub counter: u64,
    /// number of cases run in this world (callers recreate the world now and then)
    pub used: u64,
}

pub fn fake_oid(n: u64) -> Oid {
    let mut b = [0xeeu8; 20];
    b[12..20].copy_from_slice(&n.to_be_bytes());
    Oid::try_from(&b[..]).unwrap()
}

impl World {
    pub fn new() -> World {
        let tmp = tempfile::tempdir().unwrap();
        let actors: Vec<Device<MockSigner>> = (0..N_ACTORS)
            .map(|i| Device::from(MockSigner::from_seed([(i as u8) + 1; 32])))
            .collect();
        let storage = Storage::open(
            tmp.path().join("storage"),
            radicle::git::UserInfo { alias: Alias::new("verif"), key: *actors[0].public_key() },
        )
        .unwrap();
        let project = Project::new(
            "acme".try_into().unwrap(),
            "verification fixture".to_string(),
            radicle::git::RefString::try_from("master").unwrap(),
        )
        .unwrap();
        let doc = Doc::initial(project.clone(), Did::from(*actors[0].public_key()), Visibility::Public);
        let (repo, identity_root) = Repository::init(&doc, &storage, &actors[0]).unwrap();
        // Fixed commit graph.
        let raw = repo.raw();
        let sig = git2::Signature::new("verif", "verif@example.com", &git2::Time::new(1514817556, 0)).unwrap();
        let tree = raw.find_tree(raw.treebuilder(None).unwrap().write().unwrap()).unwrap();
        let mut commits: Vec<Oid> = vec![];
        for (i, parent) in [None, Some(0usize), Some(1), Some(2), Some(0), Some(1)].iter().enumerate() {
            let parents: Vec<git2::Commit> =
                parent.iter().map(|p| raw.find_commit(*commits[*p]).unwrap()).collect();
            let prefs: Vec<&git2::Commit> = parents.iter().collect();
            let oid = raw.commit(None, &sig, &sig, &format!("commit {i}"), &tree, &prefs).unwrap();
            commits.push(oid.into());
        }
        drop(tree);
        World {
            tmp,
            storage,
            repo,
            actors,
            commits,
            project,
            identity_root,
            doc_commits: BTreeMap::new(),
            counter: 0,
            used: 0,
        }
    }

    pub fn key(&self, actor: usize) -> PublicKey {
        *self.actors[actor].public_key()
    }

    pub fn did(&self, actor: usize) -> Did {
        Did::from(self.key(actor))
    }

    /// Index of the actor with this key, in any of its textual forms (`z6Mk…`, `did:key:z6Mk…`).
    pub fn actor_of(&self, s: &str) -> Option<usize> {
        let s = s.strip_prefix("did:key:").unwrap_or(s);
        (0..self.actors.len()).find(|i| self.key(*i).to_string() == s)
    }

    pub fn commit(&self, i: usize) -> Oid {
        if i < self.commits.len() {
            self.commits[i]
        } else {
            fake_oid(1_000_000 + i as u64)
        }
    }

    pub fn commit_index(&self, oid: &Oid) -> Option<usize> {
        self.commits.iter().position(|c| c == oid)
    }

    /// Build a verified identity document with the given delegates / threshold (project payload with
    /// default branch `master`). `salt` makes otherwise equal documents differ (visibility allow-list).
    pub fn make_doc(&self, delegates: &[usize], threshold: usize, salt: Option<usize>) -> Result<Doc, String> {
        let vis = match salt {
            None => Visibility::Public,
            Some(a) => Visibility::private([self.did(a)]),
        };
        RawDoc::new(self.project.clone(), delegates.iter().map(|d| self.did(*d)).collect(), threshold, vis)
            .verified()
            .map_err(|e| e.to_string())
    }

    /// Write the document blob into the repository; returns `(blob oid, embed)`.
    pub fn write_doc_blob(&self, doc: &Doc) -> (Oid, cob::Embed<Oid>) {
        let (oid, bytes) = doc.encode().unwrap();
        let written = self.repo.raw().blob(&bytes).unwrap();
        assert_eq!(written, *oid);
        (oid, cob::Embed { name: "radicle.json".to_string(), content: oid })
    }

    /// A commit of the identity COB type that embeds `doc` (what `Op::identity_doc` /
    /// `Doc::load_at` resolve). Cached per document.
    pub fn doc_commit(&mut self, delegates: &[usize], threshold: usize) -> Result<Oid, String> {
        let key = format!("{delegates:?}/{threshold}");
        if let Some(o) = self.doc_commits.get(&key) {
            return Ok(*o);
        }
        let doc = self.make_doc(delegates, threshold, None)?;
        let (blob, embed) = self.write_doc_blob(&doc);
        let signer = &self.actors[0];
        use radicle::crypto::signature::Signer as _;
        let signature = signer.sign(blob.as_bytes());
        let action = cob::identity::Action::Revision {
            title: format!("doc {key}"),
            description: String::new(),
            blob,
            parent: Some(self.identity_root),
            signature,
        };
        let contents = NonEmpty::new(cob::store::encoding::encode(action).unwrap());
        let entry = self
            .store_raw(
                0,
                None,
                cob::identity::TYPENAME.clone(),
                vec![self.identity_root],
                1_000,
                vec![embed],
                contents,
                format!("doc {key}"),
            )
            .map_err(|e| e.to_string())?;
        self.doc_commits.insert(key, entry);
        Ok(entry)
    }

    /// Store a change commit: arbitrary tips, resource, timestamp and action blobs.
    #[allow(clippy::too_many_arguments)]
    pub fn store_raw(
        &mut self,
        actor: usize,
        resource: Option<Oid>,
        type_name: cob::TypeName,
        tips: Vec<Oid>,
        timestamp: u64,
        embeds: Vec<cob::Embed<Oid>>,
        contents: NonEmpty<Vec<u8>>,
        message: String,
    ) -> Result<Oid, String> {
        self.counter += 1;
        std::env::set_var("GIT_COMMITTER_DATE", timestamp.to_string());
        let r = self.repo.store(
            resource,
            vec![],
            &self.actors[actor],
            cob::change::Template { type_name, tips, embeds, contents, message: format!("{message} #{}", self.counter) },
        );
        std::env::remove_var("GIT_COMMITTER_DATE");
        r.map(|e| e.id).map_err(|e| e.to_string())
    }

    /// Point `refs/namespaces/<holder>/refs/cobs/<type>/<object>` at `entry`.
    pub fn set_ref(&self, holder: &PublicKey, type_name: &cob::TypeName, object: &cob::ObjectId, entry: &Oid) {
        self.repo.update(holder, type_name, object, entry).unwrap();
    }

    pub fn remove_ref(&self, holder: &PublicKey, type_name: &cob::TypeName, object: &cob::ObjectId) {
        let _ = cob::object::Storage::remove(&self.repo, holder, type_name, object);
    }

    /// Set (or delete) the default-branch head of an actor.
    pub fn set_head(&self, actor: usize, commit: Option<usize>) {
        let name = format!("refs/namespaces/{}/refs/heads/master", self.key(actor));
        match commit {
            Some(c) => {
                self.repo.raw().reference(&name, *self.commit(c), true, "verif").unwrap();
            }
            None => {
                if let Ok(mut r) = self.repo.raw().find_reference(&name) {
                    r.delete().unwrap();
                }
            }
        }
    }

    /// The default-branch ancestry check, computed by the same repository functions `Patch::action`
    /// calls: `n` = no such ref or not an ancestor, `y` = on the branch, `e` = the ancestry query failed.
    pub fn ancestry(&self, actor: usize, commit: Oid) -> char {
        let branch = radicle::git::refs::branch(self.project.default_branch());
        let Ok(head) = self.repo.reference_oid(&self.key(actor), &branch) else {
            return 'n';
        };
        if commit == head {
            return 'y';
        }
        match self.repo.is_ancestor_of(commit, head) {
            Ok(true) => 'y',
            Ok(false) => 'n',
            Err(_) => 'e',
        }
    }

    /// Independent ancestry check for the oracle (plain libgit2 on the raw repository).
    pub fn on_branch_raw(&self, actor: usize, commit: Oid) -> bool {
        let name = format!("refs/namespaces/{}/refs/heads/master", self.key(actor));
        let Ok(head) = self.repo.raw().refname_to_id(&name) else {
            return false;
        };
        head == *commit || self.repo.raw().graph_descendant_of(head, *commit).unwrap_or(false)
    }
}

/// Tracing wrapper: `cob::get::<Traced<T>, _>` runs the real evaluator and the real `T::apply`.
#[derive(Debug)]
pub struct Traced<T> {
    pub init: T,
    pub inner: T,
    pub trace: Vec<TraceStep<T>>,
}

#[derive(Debug)]
pub struct TraceStep<T> {
    pub id: Oid,
    pub ok: bool,
    pub concurrent: usize,
    pub after: T,
}

impl<R, T> cob::Evaluate<R> for Traced<T>
where
    T: cob::Evaluate<R> + Clone,
{
    type Error = T::Error;

    fn init(entry: &cob::Entry, store: &R) -> Result<Self, Self::Error> {
        let inner = T::init(entry, store)?;
        Ok(Traced { init: inner.clone(), inner, trace: vec![] })
    }

    fn apply<'a, I: Iterator<Item = (&'a Oid, &'a cob::Entry)>>(
        &mut self,
        entry: &cob::Entry,
        concurrent: I,
        store: &R,
    ) -> Result<(), Self::Error> {
        let conc: Vec<(&Oid, &cob::Entry)> = concurrent.collect();
        let n = conc.len();
        let r = self.inner.apply(entry, conc.into_iter(), store);
        self.trace.push(TraceStep { id: *entry.id(), ok: r.is_ok(), concurrent: n, after: self.inner.clone() });
        r
    }
}

/// Split helpers for the case text.
pub fn split<'a>(s: &'a str, c: char) -> Vec<&'a str> {
    s.split(c).collect()
}

pub fn nat(s: &str) -> Option<u64> {
    if s.is_empty() || !s.bytes().all(|b| b.is_ascii_digit()) {
        return None;
    }
    s.parse().ok()
}

pub fn nat_list(s: &str, sep: char) -> Option<Vec<u64>> {
    if s == "-" {
        return Some(vec![]);
    }
    s.split(sep).map(nat).collect()
}

pub fn show_list(xs: &[String], sep: &str) -> String {
    if xs.is_empty() {
        "-".to_string()
    } else {
        xs.join(sep)
    }
}

/// Random DAG shape + timestamps for a history of `n` further ops (op 0 is the root): returns, for each
/// op `1..=n`, its tips (parents) and timestamp. Mostly linear, with concurrent branches, joins, equal
/// and decreasing timestamps; the number of simultaneous DAG tips stays below the number of actors
/// (one ref per tip is needed).
pub fn gen_dag(rng: &mut verif_common::Rng, n: usize, ts0: u64) -> Vec<(Vec<usize>, u64)> {
    let mut out = vec![];
    let mut dag_tips: Vec<usize> = vec![0];
    let mut ts = ts0;
    for i in 1..=n {
        ts = match rng.below(8) {
            0 | 1 => ts,
            2 => ts.saturating_sub(rng.below(3)),
            _ => ts + rng.range(1, 5),
        };
        let mut tips: Vec<usize> = if rng.chance(2, 3) {
            dag_tips.clone()
        } else {
            let mut t = vec![rng.below(i as u64) as usize];
            if rng.chance(1, 3) {
                let u = rng.below(i as u64) as usize;
                if !t.contains(&u) {
                    t.push(u);
                }
            }
            t
        };
        for t in &tips {
            dag_tips.retain(|x| x != t);
        }
        dag_tips.push(i);
        if dag_tips.len() > N_ACTORS - 1 {
            for t in dag_tips.drain(..) {
                if t != i && !tips.contains(&t) {
                    tips.push(t);
                }
            }
            dag_tips.push(i);
        }
        tips.sort();
        out.push((tips, ts));
    }
    out
}

/// Incremental DAG generator that keeps histories mostly valid: ops the generator expects to be rejected
/// ("suspect": deliberately invalid or unauthorised attempts) stay leaves, so that their rejection does
/// not prune the rest of the history; targets can be chosen among the ancestors of the new op.
pub struct DagGen {
    pub anc: Vec<std::collections::BTreeSet<usize>>,
    pub suspect: Vec<bool>,
    good_tips: Vec<usize>,
    ts: u64,
}

impl DagGen {
    pub fn new(ts0: u64) -> DagGen {
        DagGen { anc: vec![Default::default()], suspect: vec![false], good_tips: vec![0], ts: ts0 }
    }
    /// Tips, timestamp and ancestor set (including the tips) for the next op.
    pub fn next(&mut self, rng: &mut verif_common::Rng) -> (Vec<usize>, u64, std::collections::BTreeSet<usize>) {
        self.ts = match rng.below(8) {
            0 | 1 => self.ts,
            2 => self.ts.saturating_sub(rng.below(3)),
            _ => self.ts + rng.range(1, 5),
        };
        let good: Vec<usize> = (0..self.anc.len()).filter(|i| !self.suspect[*i]).collect();
        let mut tips: Vec<usize> = if rng.chance(2, 3) {
            self.good_tips.clone()
        } else {
            let mut t = vec![*rng.pick(&good)];
            if rng.chance(1, 3) {
                let u = *rng.pick(&good);
                if !t.contains(&u) {
                    t.push(u);
                }
            }
            t
        };
        if rng.chance(1, 25) {
            // rarely build on top of a suspect op (exercises pruning of descendants)
            let all = self.anc.len();
            let u = rng.below(all as u64) as usize;
            if !tips.contains(&u) {
                tips.push(u);
            }
        }
        tips.sort();
        let mut anc = std::collections::BTreeSet::new();
        for t in &tips {
            anc.insert(*t);
            anc.extend(self.anc[*t].iter().cloned());
        }
        (tips, self.ts, anc)
    }
    pub fn push(&mut self, tips: &[usize], anc: std::collections::BTreeSet<usize>, suspect: bool) {
        let i = self.anc.len();
        let bad_parent = tips.iter().any(|t| self.suspect[*t]);
        self.anc.push(anc);
        self.suspect.push(suspect || bad_parent);
        if !(suspect || bad_parent) {
            self.good_tips.retain(|t| !tips.contains(t));
            self.good_tips.push(i);
        }
    }
}

/// `g=<ranks>/<sigbits>`: for each stored change the rank of its oid among the oids of the case (the keys of
/// the model's evaluator, ordered like the `Oid`s) and `Entry::valid_signatures()` as computed by the real code.
pub fn graph_token(repo: &Repository, ids: &[Oid]) -> String {
    use radicle::cob::change::Storage as _;
    let mut sorted: Vec<Oid> = ids.to_vec();
    sorted.sort();
    let ranks: Vec<String> = ids.iter().map(|i| sorted.iter().position(|s| s == i).unwrap().to_string()).collect();
    let bits: String = ids
        .iter()
        .map(|i| match repo.load(*i) {
            Ok(e) => {
                if e.valid_signatures() {
                    '1'
                } else {
                    '0'
                }
            }
            Err(_) => '0',
        })
        .collect();
    format!("g={}/{}", ranks.join(","), bits)
}
