//! C07 — issue and patch actions obey the authorization rules.
//!
//! Each case is a whole issue or patch history (`issue …` / `patch …`, syntax in
//! `lean/HeartwoodModel/Driver/C07.lean` and `Driver/C08.lean`). The harness stores the ops as real change
//! commits of a real COB in a real repository (arbitrary DAG, authors, identity documents per op,
//! timestamps), evaluates with the real `radicle_cob::get` → `Issue::apply` / `Patch::apply`, and prints
//! the projected final state plus, per applied entry, whether it was accepted. Facts the model takes as
//! parameters (evaluation `order`, `anc` of merges) are computed by the real code.
//!
//! Oracle (the property statement on what the real code did): the state before and after every applied
//! entry is compared; if the entry's author is not a delegate of the REAL document the entry refers to,
//! then assignees, labels and merges must be unchanged; title and lifecycle must be unchanged unless the
//! author is the object author; every comment / review / revision owned by somebody else must still be
//! there with the same content (author, body versions, reply target; summary, verdict, labels;
//! description) unless a container it lives in (revision, review) was redacted by that container's own
//! author; nothing may appear in another author's name. A rejected entry must change nothing.

#[path = "../../c08/src/inject.rs"]
mod inject;
mod issuerun;
#[path = "../../c08/src/patchrun.rs"]
mod patchrun;

use std::collections::BTreeMap;

use inject::*;
use issuerun::{to_json, IAct, ICase, IOp};
use patchrun::{doc_delegates, PAct, PCase, POp, FAKE_ID_BASE};
use serde_json::Value;
use verif_common::*;

/// Totals over all cases (reported in the evidence notes): entries applied / rejected by the real evaluation.
static OPS_APPLIED: std::sync::atomic::AtomicU64 = std::sync::atomic::AtomicU64::new(0);
static OPS_REJECTED: std::sync::atomic::AtomicU64 = std::sync::atomic::AtomicU64::new(0);
static OPS_TOTAL: std::sync::atomic::AtomicU64 = std::sync::atomic::AtomicU64::new(0);

fn count_ops(total: usize, applied: usize, rejected: usize) {
    use std::sync::atomic::Ordering::Relaxed;
    OPS_TOTAL.fetch_add(total as u64, Relaxed);
    OPS_APPLIED.fetch_add(applied as u64, Relaxed);
    OPS_REJECTED.fetch_add(rejected as u64, Relaxed);
}

/// An owned item of a COB state: `path ↦ (owner, core, owners of the containers it lives in)`.
type Items = BTreeMap<String, (String, String, Vec<(String, String)>)>;

fn comment_items(prefix: &str, thread: &Value, containers: &[(String, String)], out: &mut Items) {
    if let Some(m) = thread["comments"].as_object() {
        for (id, c) in m {
            if c.is_null() {
                continue;
            }
            let owner = c["author"].as_str().unwrap_or("?").to_string();
            let edits: Vec<String> = c["edits"]
                .as_array()
                .map(|a| a.iter().map(|e| format!("{}:{}", e["author"], e["body"])).collect())
                .unwrap_or_default();
            let core = format!("{owner}|{}|{}", edits.join(","), c.get("replyTo").map(|r| r.to_string()).unwrap_or_default());
            out.insert(format!("{prefix}c:{id}"), (owner, core, containers.to_vec()));
        }
    }
}

fn issue_items(v: &Value) -> Items {
    let mut out = Items::new();
    comment_items("", &v["thread"], &[], &mut out);
    out
}

fn author_of(v: &Value) -> String {
    // `Author` serialises as {"id": "did:key:…"}; comment authors as "z6Mk…"
    let s = match v {
        Value::String(s) => s.clone(),
        Value::Object(o) => o.get("id").and_then(|x| x.as_str()).unwrap_or("?").to_string(),
        _ => "?".into(),
    };
    s.strip_prefix("did:key:").unwrap_or(&s).to_string()
}

fn patch_items(v: &Value) -> Items {
    let mut out = Items::new();
    if let Some(m) = v["revisions"].as_object() {
        for (rid, r) in m {
            if r.is_null() {
                continue;
            }
            let rowner = author_of(&r["author"]);
            let desc: Vec<String> = r["description"]
                .as_array()
                .map(|a| a.iter().map(|e| format!("{}:{}", e["author"], e["body"])).collect())
                .unwrap_or_default();
            let rpath = format!("rev:{rid}");
            out.insert(rpath.clone(), (rowner.clone(), format!("{rowner}|{}", desc.join(",")), vec![]));
            let rcont = vec![(rpath.clone(), rowner.clone())];
            comment_items(&format!("{rpath}/disc/"), &r["discussion"], &rcont, &mut out);
            if let Some(rm) = r["reviews"].as_object() {
                for (k, rv) in rm {
                    let vowner = author_of(&rv["author"]);
                    let vpath = format!("{rpath}/review:{k}");
                    let core = format!("{}|{vowner}|{}|{}|{}", rv["id"], rv["summary"], rv["verdict"], rv["labels"]);
                    out.insert(vpath.clone(), (vowner.clone(), core, rcont.clone()));
                    let mut vcont = rcont.clone();
                    vcont.push((vpath.clone(), vowner.clone()));
                    comment_items(&format!("{vpath}/"), &rv["comments"], &vcont, &mut out);
                }
            }
        }
    }
    out
}

/// The ownership rule: what an applied op by the non-delegate `actor` may do to owned items.
fn check_items(before: &Items, after: &Items, actor: &str, op: usize, o: &mut Outcome) {
    for (path, (owner, core, containers)) in before {
        if owner == actor {
            continue;
        }
        match after.get(path) {
            Some((_, core2, _)) => {
                if core2 != core {
                    o.violations.push((
                        "unauth-item-changed".into(),
                        format!("op {op} by non-delegate changed {path} owned by somebody else"),
                    ));
                }
            }
            None => {
                // allowed only if a container owned by the actor disappeared
                let excused = containers.iter().any(|(cp, cowner)| cowner == actor && !after.contains_key(cp));
                if !excused {
                    o.violations.push((
                        "unauth-item-removed".into(),
                        format!("op {op} by non-delegate removed {path} owned by somebody else"),
                    ));
                }
            }
        }
    }
    for (path, (owner, _, _)) in after {
        if !before.contains_key(path) && owner != actor {
            o.violations.push((
                "unauth-item-forged".into(),
                format!("op {op} created {path} in the name of somebody else"),
            ));
        }
    }
}

fn run_issue(w: &mut World, input: &str) -> (String, Outcome) {
    let Some(mut case) = issuerun::parse(input) else {
        return (input.to_string(), Outcome::new("bad-case").trivial().tag("bad-case"));
    };
    let run = match issuerun::run(w, &mut case) {
        Ok(r) => r,
        Err(e) => return (input.to_string(), Outcome::new(format!("harness-error:{e}")).trivial().tag("harness-error")),
    };
    let text = issuerun::render(&case);
    count_ops(case.ops.len() - 1, run.steps.iter().filter(|s| s.ok).count(), run.steps.iter().filter(|s| !s.ok).count());
    let mut o = Outcome::new(run.output.clone());
    o.tags = run.tags.clone();
    o.tags.push("issue".into());
    let mut unauth_applied = 0;
    for s in &run.steps {
        let op = &case.ops[s.op];
        if !s.ok {
            o.tags.push("op-rejected".into());
            if s.before != s.after {
                o.violations.push(("rejected-op-changed-state".into(), format!("op {} was rejected but changed the issue", s.op)));
            }
            continue;
        }
        let Some(d) = op.doc else { continue };
        let actor_key = w.key(op.author).to_string();
        let is_delegate = doc_delegates(w, &run.docs[d]).contains(&op.author);
        o.tags.push(if is_delegate { "applied-by-delegate" } else { "applied-by-non-delegate" }.into());
        if is_delegate {
            continue;
        }
        unauth_applied += 1;
        let (b, a) = (to_json(&s.before), to_json(&s.after));
        if b["assignees"] != a["assignees"] || b["labels"] != a["labels"] {
            o.violations.push((
                "unauth-assign-label".into(),
                format!("op {} by non-delegate {} changed assignees/labels", s.op, op.author),
            ));
        }
        let is_author = s.before.author().id().as_key().to_string() == actor_key;
        o.tags.push(if is_author { "non-delegate-author" } else { "stranger" }.into());
        if !is_author && (b["title"] != a["title"] || b["state"] != a["state"]) {
            o.violations.push((
                "unauth-title-lifecycle".into(),
                format!("op {} by {} (neither delegate nor author) changed title/state", s.op, op.author),
            ));
        }
        check_items(&issue_items(&b), &issue_items(&a), &actor_key, s.op, &mut o);
        for act in &op.actions {
            match act {
                IAct::Assign(_) | IAct::Label(_) => o.tags.push("noop-assign-label-by-non-delegate".into()),
                IAct::CommentEdit(..) | IAct::CommentRedact(_) => o.tags.push("comment-edit-redact-by-non-delegate".into()),
                _ => {}
            }
        }
    }
    if let Some(last) = &run.last {
        let v = to_json(last);
        if v["thread"]["comments"].as_object().map(|m| m.values().any(|c| c.is_null())).unwrap_or(false) {
            o.tags.push("has-redacted-comment".into());
        }
    }
    if case.docs.len() > 1 {
        o.tags.push("multi-doc".into());
    }
    o.nontrivial = run.init.is_some() && unauth_applied > 0;
    o.tags.sort();
    o.tags.dedup();
    (text, o)
}

fn run_patch(w: &mut World, input: &str) -> (String, Outcome) {
    let Some(mut case) = patchrun::parse(input) else {
        return (input.to_string(), Outcome::new("bad-case").trivial().tag("bad-case"));
    };
    let run = match patchrun::run(w, &mut case) {
        Ok(r) => r,
        Err(e) => return (input.to_string(), Outcome::new(format!("harness-error:{e}")).trivial().tag("harness-error")),
    };
    let text = patchrun::render(&case);
    count_ops(case.ops.len() - 1, run.steps.iter().filter(|s| s.ok).count(), run.steps.iter().filter(|s| !s.ok).count());
    let mut o = Outcome::new(run.output.clone());
    o.tags = run.tags.clone();
    o.tags.push("patch".into());
    let mut unauth_applied = 0;
    for s in &run.steps {
        let op = &case.ops[s.op];
        if !s.ok {
            o.tags.push("op-rejected".into());
            if s.before != s.after {
                o.violations.push(("rejected-op-changed-state".into(), format!("op {} was rejected but changed the patch", s.op)));
            }
            continue;
        }
        let Some(d) = op.doc else { continue };
        let actor_key = w.key(op.author).to_string();
        let is_delegate = doc_delegates(w, &run.docs[d]).contains(&op.author);
        o.tags.push(if is_delegate { "applied-by-delegate" } else { "applied-by-non-delegate" }.into());
        if is_delegate {
            continue;
        }
        unauth_applied += 1;
        let b = serde_json::to_value(&s.before).unwrap_or(Value::Null);
        let a = serde_json::to_value(&s.after).unwrap_or(Value::Null);
        if b["assignees"] != a["assignees"] || b["labels"] != a["labels"] || b["merges"] != a["merges"] {
            o.violations.push((
                "unauth-assign-label-merge".into(),
                format!("op {} by non-delegate {} changed assignees/labels/merges", s.op, op.author),
            ));
        }
        let is_author = s.before.author().id().as_key().to_string() == actor_key;
        o.tags.push(if is_author { "non-delegate-author" } else { "stranger" }.into());
        if !is_author && (b["title"] != a["title"] || b["state"] != a["state"] || b["target"] != a["target"]) {
            o.violations.push((
                "unauth-title-lifecycle".into(),
                format!("op {} by {} (neither delegate nor author) changed title/state", s.op, op.author),
            ));
        }
        check_items(&patch_items(&b), &patch_items(&a), &actor_key, s.op, &mut o);
        for act in &op.actions {
            let t = match act {
                PAct::Label(_) => "noop-label-by-non-delegate",
                PAct::ReviewEdit { .. } | PAct::ReviewRedact(_) => "review-edit-redact-by-non-delegate",
                PAct::ReviewCommentEdit { .. } | PAct::ReviewCommentRedact { .. } => "review-comment-edit-redact-by-non-delegate",
                PAct::ReviewCommentResolve { .. } | PAct::ReviewCommentUnresolve { .. } => "resolve-by-non-delegate",
                PAct::RevisionEdit { .. } | PAct::RevisionRedact(_) => "revision-edit-redact-by-non-delegate",
                PAct::RevisionCommentEdit { .. } | PAct::RevisionCommentRedact { .. } => "revision-comment-edit-redact-by-non-delegate",
                _ => continue,
            };
            o.tags.push(t.into());
        }
    }
    if let Some(last) = &run.last {
        let v = serde_json::to_value(last).unwrap_or(Value::Null);
        if v["revisions"].as_object().map(|m| m.values().any(|c| c.is_null())).unwrap_or(false) {
            o.tags.push("has-redacted-revision".into());
        }
        if v["reviews"].as_object().map(|m| m.values().any(|c| c.is_null())).unwrap_or(false) {
            o.tags.push("has-redacted-review".into());
        }
    }
    if case.docs.len() > 1 {
        o.tags.push("multi-doc".into());
    }
    o.nontrivial = run.init.is_some() && unauth_applied > 0;
    o.tags.sort();
    o.tags.dedup();
    (text, o)
}

fn elaborate(w: &mut World, input: &str) -> (String, Outcome) {
    if input.starts_with("issue ") {
        run_issue(w, input)
    } else if input.starts_with("patch ") {
        run_patch(w, input)
    } else {
        (input.to_string(), Outcome::new("bad-case").trivial().tag("bad-case"))
    }
}

fn gen_docs(rng: &mut Rng) -> Vec<(Vec<usize>, usize)> {
    let n_docs = if rng.chance(1, 3) { 2 } else { 1 };
    (0..n_docs)
        .map(|_| {
            let n = rng.range(1, 3) as usize;
            let mut ds: Vec<usize> = vec![];
            while ds.len() < n {
                let d = rng.below(4) as usize;
                if !ds.contains(&d) {
                    ds.push(d);
                }
            }
            let t = rng.range(1, n as u64) as usize;
            (ds, t)
        })
        .collect()
}

fn small_set(rng: &mut Rng, max: u64) -> Vec<u64> {
    match rng.below(4) {
        0 => vec![],
        1 => vec![1],
        2 => vec![1, 2],
        _ => vec![rng.range(1, max)],
    }
}

fn pick_id(rng: &mut Rng, known: &[u64]) -> u64 {
    if known.is_empty() || rng.chance(1, 20) {
        FAKE_ID_BASE + rng.below(3)
    } else {
        *rng.pick(known)
    }
}

/// A known item: id (= index of the op that created it), owner, and the id of its container if any.
#[derive(Clone, Copy)]
struct Item {
    id: u64,
    owner: usize,
    parent: u64,
}

/// Pick an item visible from the new op (created by one of its ancestors): mostly one owned by `author`
/// when `own` is set. `None` if there is none.
fn pick_item(rng: &mut Rng, items: &[Item], anc: &std::collections::BTreeSet<usize>, author: usize, own: bool) -> Option<Item> {
    let visible: Vec<Item> = items.iter().filter(|i| anc.contains(&(i.id as usize))).cloned().collect();
    if visible.is_empty() {
        return None;
    }
    let mine: Vec<Item> = visible.iter().filter(|i| i.owner == author).cloned().collect();
    if own && !mine.is_empty() && rng.chance(4, 5) {
        Some(*rng.pick(&mine))
    } else {
        Some(*rng.pick(&visible))
    }
}

fn gen_issue(rng: &mut Rng) -> String {
    let docs = gen_docs(rng);
    let n_docs = docs.len();
    let root_author = if rng.bool() { *rng.pick(&docs[0].0) } else { rng.below(N_ACTORS as u64) as usize };
    let root_doc = if docs[0].0.contains(&root_author) { 0 } else { rng.below(n_docs as u64) as usize };
    let root_is_delegate = docs[root_doc].0.contains(&root_author);
    let mut root_actions = vec![IAct::Comment(if rng.chance(1, 40) { 0 } else { rng.range(1, 9) }, None), IAct::Edit(rng.range(1, 9), 0)];
    if rng.chance(1, 5) {
        root_actions.push(IAct::Label(if root_is_delegate || rng.chance(1, 8) { small_set(rng, 3) } else { vec![] }));
    }
    if rng.chance(1, 8) {
        root_actions.push(IAct::Assign(if root_is_delegate || rng.chance(1, 8) { small_set(rng, 3) } else { vec![] }));
    }
    let n = rng.range(2, 12) as usize;
    let mut dag = DagGen::new(1000 + rng.below(20));
    let mut ops = vec![IOp { author: root_author, doc: Some(root_doc), ts: 1000, tips: vec![], actions: root_actions }];
    let mut comments: Vec<Item> = vec![Item { id: 0, owner: root_author, parent: 0 }];
    for i in 1..=n {
        let (tips, ts, anc) = dag.next(rng);
        let mut tries = 0;
        // mostly valid ops: an op the generator expects to be rejected is kept with probability 1/3
        let (author, doc, actions, makes_comment, suspect) = loop {
        let author = rng.below(N_ACTORS as u64) as usize;
        let mut suspect = false;
        let doc = if rng.chance(1, 60) {
            suspect = true;
            None
        } else {
            Some(rng.below(n_docs as u64) as usize)
        };
        let is_delegate = doc.map(|d| docs[d].0.contains(&author)).unwrap_or(false);
        let privileged = is_delegate || author == root_author;
        let n_act = if rng.chance(1, 7) { 2 } else { 1 };
        let mut actions = vec![];
        let mut makes_comment = false;
        for _ in 0..n_act {
            let mut k = rng.below(16);
            if k <= 6 && !privileged && rng.chance(1, 2) {
                k = rng.range(7, 15);
            }
            let body = |rng: &mut Rng, suspect: &mut bool| {
                if rng.chance(1, 40) {
                    *suspect = true;
                    0
                } else {
                    rng.range(1, 9)
                }
            };
            let a = match k {
                0 | 1 => {
                    let v = small_set(rng, 3);
                    if !is_delegate {
                        suspect = true; // denied unless it happens to be a no-op
                    }
                    IAct::Assign(v)
                }
                2 | 3 => {
                    let v = small_set(rng, 3);
                    if !is_delegate {
                        suspect = true;
                    }
                    IAct::Label(v)
                }
                4 => {
                    let kind = if rng.chance(1, 8) { rng.range(1, 2) } else { 0 };
                    if kind != 0 || !privileged {
                        suspect = true;
                    }
                    IAct::Edit(rng.range(1, 9), kind)
                }
                5 | 6 => {
                    if !privileged {
                        suspect = true;
                    }
                    IAct::Lifecycle(*rng.pick(&['o', 's', 'c']))
                }
                7..=9 => {
                    makes_comment = true;
                    let reply = if rng.chance(1, 10) {
                        None
                    } else if rng.chance(1, 30) {
                        suspect = true;
                        Some(FAKE_ID_BASE + rng.below(3))
                    } else {
                        pick_item(rng, &comments, &anc, author, false).map(|c| c.id)
                    };
                    IAct::Comment(body(rng, &mut suspect), reply)
                }
                10..=14 => {
                    let target = if rng.chance(1, 30) {
                        None
                    } else if rng.chance(1, 12) {
                        // any comment, visible or not (concurrent branches: Missing / Unknown outcomes)
                        Some(*rng.pick(&comments))
                    } else {
                        pick_item(rng, &comments, &anc, author, !is_delegate)
                    };
                    let (id, owner) = match target {
                        Some(c) => {
                            if !anc.contains(&(c.id as usize)) {
                                suspect = true;
                            }
                            (c.id, Some(c.owner))
                        }
                        None => {
                            suspect = true;
                            (FAKE_ID_BASE + rng.below(3), None)
                        }
                    };
                    if !is_delegate && owner != Some(author) {
                        suspect = true;
                    }
                    if k <= 12 {
                        IAct::CommentEdit(id, body(rng, &mut suspect))
                    } else {
                        if id == 0 {
                            suspect = true;
                        }
                        IAct::CommentRedact(id)
                    }
                }
                _ => match pick_item(rng, &comments, &anc, author, false) {
                    Some(c) => IAct::CommentReact(c.id),
                    None => {
                        suspect = true;
                        IAct::CommentReact(FAKE_ID_BASE)
                    }
                },
            };
            actions.push(a);
        }
        tries += 1;
        if !suspect || tries >= 4 || rng.chance(1, 3) {
            break (author, doc, actions, makes_comment, suspect);
        }
        };
        if makes_comment {
            comments.push(Item { id: i as u64, owner: author, parent: 0 });
        }
        dag.push(&tips, anc, suspect);
        ops.push(IOp { author, doc, ts, tips, actions });
    }
    issuerun::render(&ICase { docs, order: vec![], g: "?".into(), ops })
}

fn gen_patch(rng: &mut Rng) -> String {
    let docs = gen_docs(rng);
    let n_docs = docs.len();
    let heads: Vec<Option<usize>> = (0..N_ACTORS).map(|_| if rng.chance(1, 8) { None } else { Some(3) }).collect();
    let root_author = if rng.bool() { *rng.pick(&docs[0].0) } else { rng.below(N_ACTORS as u64) as usize };
    let root_doc = if docs[0].0.contains(&root_author) { 0 } else { rng.below(n_docs as u64) as usize };
    let root_is_delegate = docs[root_doc].0.contains(&root_author);
    let mut root_actions = vec![PAct::Revision(rng.range(1, 9)), PAct::Edit(rng.range(1, 9))];
    if rng.chance(1, 6) {
        root_actions.push(PAct::Lifecycle('d'));
    }
    if rng.chance(1, 8) {
        root_actions.push(PAct::Label(if root_is_delegate || rng.chance(1, 8) { small_set(rng, 3) } else { vec![] }));
    }
    let n = rng.range(3, 16) as usize;
    let mut dag = DagGen::new(1000 + rng.below(20));
    let mut ops = vec![POp { author: root_author, doc: Some(root_doc), ts: 1000, tips: vec![], actions: root_actions }];
    let mut revisions: Vec<Item> = vec![Item { id: 0, owner: root_author, parent: 0 }];
    let mut reviews: Vec<Item> = vec![]; // parent = revision
    let mut disc: Vec<Item> = vec![]; // parent = revision
    let mut rcom: Vec<Item> = vec![]; // parent = review
    for i in 1..=n {
        let (tips, ts, anc) = dag.next(rng);
        let mut tries = 0;
        let (author, doc, actions, made, suspect) = loop {
        let author = rng.below(N_ACTORS as u64) as usize;
        let mut suspect = false;
        let doc = if rng.chance(1, 60) {
            suspect = true;
            None
        } else {
            Some(rng.below(n_docs as u64) as usize)
        };
        let is_delegate = doc.map(|d| docs[d].0.contains(&author)).unwrap_or(false);
        let is_author = author == root_author;
        let own = !is_delegate;
        let n_act = if rng.chance(1, 7) { 2 } else { 1 };
        let mut actions = vec![];
        let mut made: Vec<(u8, u64)> = vec![]; // (kind, parent)
        for _ in 0..n_act {
            let mut k = rng.below(30);
            if !is_delegate && rng.chance(1, 2) && (matches!(k, 1 | 2 | 4 | 5) || (matches!(k, 0) && !is_author)) {
                k = rng.range(6, 29);
            }
            // assignee sets are changed by delegates and probed (mostly with subsets: [] / [1] / [1,2]) by everybody
            if rng.chance(1, 10) {
                k = 4;
            }
            // keep the review / review-comment flows populated
            let visible_reviews = reviews.iter().any(|v| anc.contains(&(v.id as usize)));
            let visible_rcom = rcom.iter().any(|c| anc.contains(&(c.id as usize)));
            if visible_reviews && !visible_rcom && rng.chance(1, 3) {
                k = 12;
            } else if visible_rcom && rng.chance(1, 5) {
                k = rng.range(15, 19);
            }
            let body = |rng: &mut Rng, suspect: &mut bool| {
                if rng.chance(1, 40) {
                    *suspect = true;
                    0
                } else {
                    rng.range(1, 9)
                }
            };
            // a target among `items`, mostly visible and (for owners) owned; `None` ⇒ nonexistent id
            let target = |rng: &mut Rng, items: &[Item], own: bool, suspect: &mut bool| -> Item {
                let t = if items.is_empty() || rng.chance(1, 30) {
                    None
                } else if rng.chance(1, 12) {
                    Some(*rng.pick(items))
                } else {
                    pick_item(rng, items, &anc, author, own)
                };
                match t {
                    Some(t) => {
                        if !anc.contains(&(t.id as usize)) {
                            *suspect = true;
                        }
                        t
                    }
                    None => {
                        *suspect = true;
                        Item { id: FAKE_ID_BASE + rng.below(3), owner: usize::MAX, parent: FAKE_ID_BASE }
                    }
                }
            };
            let a = match k {
                0 => {
                    if !(is_delegate || is_author) {
                        suspect = true;
                    }
                    PAct::Edit(rng.range(1, 9))
                }
                1 | 2 => {
                    if !is_delegate {
                        suspect = true;
                    }
                    PAct::Label(small_set(rng, 3))
                }
                3 => {
                    if !(is_delegate || is_author) {
                        suspect = true;
                    }
                    PAct::Lifecycle(*rng.pick(&['o', 'd', 'a']))
                }
                4 => {
                    if !is_delegate {
                        suspect = true;
                    }
                    PAct::Assign(small_set(rng, 3))
                }
                5 => {
                    if !is_delegate {
                        suspect = true;
                    }
                    PAct::Merge { rev: target(rng, &revisions, false, &mut suspect).id, commit: rng.below(4), anc: '?' }
                }
                6..=8 => {
                    let r = target(rng, &revisions, false, &mut suspect);
                    made.push((1, r.id));
                    PAct::Review {
                        rev: r.id,
                        summary: if rng.bool() { Some(rng.range(1, 5)) } else { None },
                        verdict: *rng.pick(&['a', 'r', '-']),
                        labels: small_set(rng, 3),
                    }
                }
                9 | 10 => {
                    let v = target(rng, &reviews, own, &mut suspect);
                    if !is_delegate && v.owner != author {
                        suspect = true;
                    }
                    let summary = if rng.chance(4, 5) { Some(rng.range(1, 5)) } else { None };
                    let verdict = *rng.pick(&['a', 'r', '-']);
                    if summary.is_none() && verdict == '-' {
                        suspect = true;
                    }
                    PAct::ReviewEdit { review: v.id, summary, verdict, labels: small_set(rng, 3) }
                }
                11 => {
                    let v = target(rng, &reviews, own, &mut suspect);
                    if !is_delegate && v.owner != author {
                        suspect = true;
                    }
                    PAct::ReviewRedact(v.id)
                }
                12..=14 => {
                    let v = target(rng, &reviews, false, &mut suspect);
                    made.push((3, v.id));
                    let known: Vec<Item> = rcom.iter().filter(|c| c.parent == v.id).cloned().collect();
                    let reply = if known.is_empty() || rng.bool() { None } else { pick_item(rng, &known, &anc, author, false).map(|c| c.id) };
                    PAct::ReviewComment { review: v.id, body: body(rng, &mut suspect), reply }
                }
                15..=19 => {
                    let c = target(rng, &rcom, own, &mut suspect);
                    let (review, comment) = (c.parent, c.id);
                    let sub = rng.below(5);
                    if !is_delegate && c.owner != author && sub <= 2 {
                        suspect = true;
                    }
                    match sub {
                        0 | 1 => PAct::ReviewCommentEdit { review, comment, body: body(rng, &mut suspect) },
                        2 => PAct::ReviewCommentRedact { review, comment },
                        3 => PAct::ReviewCommentResolve { review, comment },
                        _ => {
                            if rng.bool() {
                                PAct::ReviewCommentUnresolve { review, comment }
                            } else {
                                PAct::ReviewCommentReact { review, comment }
                            }
                        }
                    }
                }
                20 | 21 => {
                    made.push((0, 0));
                    PAct::Revision(rng.range(1, 9))
                }
                22 => {
                    let r = target(rng, &revisions, own, &mut suspect);
                    if !is_delegate && r.owner != author {
                        suspect = true;
                    }
                    PAct::RevisionEdit { rev: r.id, desc: rng.range(1, 9) }
                }
                23 => {
                    let r = target(rng, &revisions, own, &mut suspect);
                    if (!is_delegate && r.owner != author) || r.id == 0 {
                        suspect = true;
                    }
                    PAct::RevisionRedact(r.id)
                }
                24 => PAct::RevisionReact(target(rng, &revisions, false, &mut suspect).id),
                25 | 26 => {
                    let r = target(rng, &revisions, false, &mut suspect);
                    made.push((2, r.id));
                    let known: Vec<Item> = disc.iter().filter(|c| c.parent == r.id).cloned().collect();
                    let reply = if known.is_empty() || rng.bool() { None } else { pick_item(rng, &known, &anc, author, false).map(|c| c.id) };
                    PAct::RevisionComment { rev: r.id, body: body(rng, &mut suspect), reply }
                }
                _ => {
                    let c = target(rng, &disc, own, &mut suspect);
                    let (rev, comment) = (c.parent, c.id);
                    let sub = rng.below(4);
                    if !is_delegate && c.owner != author && sub <= 2 {
                        suspect = true;
                    }
                    match sub {
                        0 | 1 => PAct::RevisionCommentEdit { rev, comment, body: body(rng, &mut suspect) },
                        2 => PAct::RevisionCommentRedact { rev, comment },
                        _ => PAct::RevisionCommentReact { rev, comment },
                    }
                }
            };
            actions.push(a);
        }
        tries += 1;
        if !suspect || tries >= 4 || rng.chance(1, 3) {
            break (author, doc, actions, made, suspect);
        }
        };
        for (kind, parent) in made {
            let it = Item { id: i as u64, owner: author, parent };
            match kind {
                0 => revisions.push(it),
                1 => reviews.push(it),
                2 => disc.push(it),
                _ => rcom.push(it),
            }
        }
        dag.push(&tips, anc, suspect);
        ops.push(POp { author, doc, ts, tips, actions });
    }
    patchrun::render(&PCase { docs, heads, order: vec![], g: "?".into(), ops })
}

fn main() {
    let mut ctx = Ctx::from_args("C07");
    let mut world = World::new();
    let (fixed, is_replay) = ctx.fixed_inputs();
    for i in fixed {
        let (text, o) = elaborate(&mut world, &i);
        ctx.count("corpus-or-replay");
        ctx.record(&text, o);
    }
    if !is_replay {
        let mut rng = ctx.rng();
        for k in 0..ctx.size(600, 10_000) {
            let input = if k % 2 == 0 { gen_issue(&mut rng) } else { gen_patch(&mut rng) };
            let (text, o) = elaborate(&mut world, &input);
            ctx.record(&text, o);
            if world.used > 400 {
                world = World::new();
            }
        }
    }
    {
        use std::sync::atomic::Ordering::Relaxed;
        ctx.note("entries_total_non_root", OPS_TOTAL.load(Relaxed));
        ctx.note("entries_applied", OPS_APPLIED.load(Relaxed));
        ctx.note("entries_rejected", OPS_REJECTED.load(Relaxed));
    }
    ctx.finish(
        "whole issue / patch histories on a real repository: 1-2 identity documents (1-3 delegates out of 4 \
         of the 6 actors, each op refers to one of them or to none), every action kind of the two COB types \
         (issues: assign/label incl. no-op sets, edit incl. invalid titles, lifecycle, comment, comment \
         edit/redact/react incl. root, redacted and missing targets; patches: all 22 actions incl. reviews, \
         review comments, resolve, revisions, redactions, merges), authors drawn uniformly from delegates, \
         object authors, comment/review authors and strangers, multi-action ops, random DAG shapes with \
         concurrent branches and equal / decreasing timestamps; non-trivial = valid root and at least one \
         applied entry whose author is not a delegate of the document it refers to; distinct by input text",
        false,
    );
}
