/-! Driver entry for property C04 (stub: not implemented yet). -/
namespace HeartwoodModel.Driver.C04

def run (_args : List String) : String := "unimplemented"

end HeartwoodModel.Driver.C04
