//! C05 harness (stub: not implemented yet).
fn main() {
    eprintln!("C05: harness not implemented");
    std::process::exit(3);
}
