import HeartwoodModel.Lemmas.Frame
import HeartwoodModel.Lemmas.Wire
/-!
# C14 — Frame decoding is memory-bounded and chunking-independent

Property theorems about `Model/Codec.lean` (stream deserializer), `Model/Varint.lean`, `Model/Frame.lean`,
instantiated with the message codec of `Model/Wire.lean`.

* `alloc_bounded` — in every state of a deserializer reachable by any history of `input`s and
  `deserialize_next`s, the largest buffer the next `deserialize_next` asks for is at most
  `K + 2·received` (`K = 65 568`), whatever lengths the bytes declare. "Requested size" is modelled as:
  for `varint::payload::decode`, the capacity of a `Vec` that grew (amortised doubling, +32 slack) to hold
  the payload bytes actually present, `2·min(declared, present) + 32`; for everything allocated from a
  declared length while decoding the message of a complete payload (`String` ≤ 255, filter ≤ 16 KiB,
  `Vec::with_capacity(len ≤ limit)`), the constant `Wire.allocMax = 65 536`.
* `chunking_independent` — feeding the encoding of any sequence of encodable frames, split at arbitrary
  boundaries, to a deserializer with ANY inbox bound yields exactly those frames in order, an empty buffer
  and no error, provided each chunk fits the inbox together with the undecoded remainder (`FitsInbox`).
* `complete_invalid_is_error` — a gossip frame whose outer length is satisfied but whose inner message is
  malformed or truncated is `invalid`, never `incomplete`; no frame with a complete envelope is ever
  reported incomplete (`complete_never_incomplete`).
-/
set_option linter.unusedVariables false
namespace HeartwoodModel.C14
open HeartwoodModel.Codec HeartwoodModel.Frame

variable {M : Type}

/-! ## Memory -/

/-- The constant of the bound. -/
def K : Nat := Wire.allocMax + 32

/-- States of a `Deserializer<B, Frame<M>>` reachable from the empty one, with the number of bytes
received so far: any interleaving of `input` (accepted or not) and `deserialize_next`. -/
inductive Reach (decM : Dec M) (B : Nat) : Deser → Nat → Prop where
  | init : Reach decM B ⟨[]⟩ 0
  | input {s s' : Deser} {n : Nat} {c : Bytes} :
      Reach decM B s n → s.input B c = some s' → Reach decM B s' (n + c.length)
  | rejected {s : Deser} {n : Nat} {c : Bytes} :
      Reach decM B s n → s.input B c = none → Reach decM B s (n + c.length)
  | next {s s' : Deser} {n : Nat} {f : Frame M} :
      Reach decM B s n → s.next (Frame.decode decM) = .item f s' → Reach decM B s' n

/-- The buffer never holds more than was received. -/
theorem reach_buf_le {decM : Dec M} {B : Nat} {s : Deser} {n : Nat} (h : Reach decM B s n) :
    s.buf.length ≤ n := by
  induction h with
  | init => simp
  | input _ hin ih => rw [input_length hin]; omega
  | rejected _ _ ih => omega
  | @next s s' n f _ hn ih =>
    unfold Deser.next at hn
    cases hd : Frame.decode decM s.buf with
    | ok a r =>
      rw [hd] at hn
      cases hn
      have := Frame.decode_progress hd
      simp; omega
    | incomplete => rw [hd] at hn; cases hn
    | invalid => rw [hd] at hn; cases hn
    | panic site => rw [hd] at hn; cases hn

/-- **alloc_bounded.** Whatever was received and however it was chunked, the next `deserialize_next`
requests at most `K + 2·received` bytes — in particular nothing proportional to a declared length. -/
theorem alloc_bounded {decM : Dec M} {B : Nat} {s : Deser} {received : Nat}
    (h : Reach decM B s received) :
    Frame.alloc Wire.msgAlloc s.buf ≤ K + 2 * received := by
  have h1 := Frame.alloc_le (allocM := Wire.msgAlloc) (KM := Wire.allocMax) (fun _ => Nat.le_refl _) s.buf
  have h2 := reach_buf_le h
  unfold K; omega

/-- Pointwise form: for every byte string. -/
theorem alloc_bounded_bytes (b : Bytes) : Frame.alloc Wire.msgAlloc b ≤ K + 2 * b.length := by
  have := Frame.alloc_le (allocM := Wire.msgAlloc) (KM := Wire.allocMax) (fun _ => Nat.le_refl _) b
  unfold K; omega

/-- What the `fix:` commit 1c20c28 repaired: with the buffer allocated from the DECLARED length
(`vec![0; size]`), a 13-byte input requests 2^62 − 1 bytes. -/
theorem alloc_declared_unbounded :
    ∃ b : Bytes, b.length = 13 ∧ Frame.allocDeclared b = 2 ^ 62 - 1 ∧ ¬ Frame.allocDeclared b ≤ K + 2 * b.length :=
  ⟨[0x72, 0x61, 0x64, 0x01, 0x05, 0xff, 0xff, 0xff, 0xff, 0xff, 0xff, 0xff, 0xff], by decide, by decide, by decide⟩

/-- Non-vacuity / the same witness on the current model: 32 bytes are requested. -/
example : Frame.alloc Wire.msgAlloc
    [0x72, 0x61, 0x64, 0x01, 0x05, 0xff, 0xff, 0xff, 0xff, 0xff, 0xff, 0xff, 0xff] = 32 := by decide

/-! ## Chunking -/

/-- **chunking_independent.** `fxs` is any list of frames with their encodings (`Frame::encode` succeeded,
the stream kind matches the data as in `Frame::git/control/gossip`, and the inner message round-trips
through the message codec). Feed the concatenated encodings in ANY chunking (`chunks.flatten` is the
stream; empty chunks allowed) to an empty deserializer with ANY inbox bound `B`, draining after every
chunk. Provided every chunk fits the inbox together with the UNDECODED remainder it is appended to
(`FitsInbox`: bytes received so far minus the frames complete in them — never the bytes already
decoded), no `input` is refused, the result is exactly the frames, in order (`groups` = what came out
after each chunk), the buffer ends empty and no error is reported. In particular the outcome does not
depend on the chunking. -/
theorem chunking_independent (encM : M → Option Bytes) (decM : Dec M)
    (fxs : List (Frame M × Bytes))
    (henc : ∀ p ∈ fxs, Frame.encode? encM p.1 = some p.2 ∧ p.1.kindOk ∧
      ∀ m, p.1.data = .gossip m → Frame.MsgRoundTrip encM decM m)
    (chunks : List Bytes) (hc : chunks.flatten = (fxs.map (·.2)).flatten)
    (B : Nat) (hB : FitsInbox B (fxs.map (·.2.length)) 0 chunks) :
    ∃ groups, Deser.feed (Frame.decode decM) B ⟨[]⟩ chunks = some (groups, ⟨[]⟩, .more) ∧
      groups.flatten = fxs.map (·.1) ∧ groups.length = chunks.length := by
  let e : Frame M → Bytes := fun f => (Frame.encode? encM f).getD []
  have he : ∀ p ∈ fxs, e p.1 = p.2 := by
    intro p hp; simp [e, (henc p hp).1]
  have hmap : (fxs.map (·.1)).map e = fxs.map (·.2) := by
    rw [List.map_map]
    apply List.map_congr_left
    intro p hp; exact he p hp
  have hlens : ((fxs.map (·.1)).map fun a => (e a).length) = fxs.map (·.2.length) := by
    rw [List.map_map]
    apply List.map_congr_left
    intro p hp; simp only [Function.comp]; rw [he p hp]
  have hall : encAll e (fxs.map (·.1)) = (fxs.map (·.2)).flatten := by
    simp only [encAll, hmap]
  apply feed_chunks_bounded (e := e) (Frame.decode_nil decM) (fxs.map (·.1)) ?_ chunks
    (by rw [hall]; exact hc) B (by rw [hlens]; exact hB)
  intro f hf
  obtain ⟨p, hp, rfl⟩ := List.mem_map.mp hf
  obtain ⟨h1, h2, h3⟩ := henc p hp
  rw [he p hp]
  exact ⟨Frame.encode?_enc h1 h2 h3, Frame.encode?_ne_nil h1⟩

/-- Special case: an inbox that can hold the whole stream accepts every chunking. -/
theorem chunking_independent_large_inbox (encM : M → Option Bytes) (decM : Dec M)
    (fxs : List (Frame M × Bytes))
    (henc : ∀ p ∈ fxs, Frame.encode? encM p.1 = some p.2 ∧ p.1.kindOk ∧
      ∀ m, p.1.data = .gossip m → Frame.MsgRoundTrip encM decM m)
    (chunks : List Bytes) (hc : chunks.flatten = (fxs.map (·.2)).flatten)
    (B : Nat) (hB : (fxs.map (·.2)).flatten.length ≤ B) :
    ∃ groups, Deser.feed (Frame.decode decM) B ⟨[]⟩ chunks = some (groups, ⟨[]⟩, .more) ∧
      groups.flatten = fxs.map (·.1) ∧ groups.length = chunks.length := by
  let e : Frame M → Bytes := fun f => (Frame.encode? encM f).getD []
  have he : ∀ p ∈ fxs, e p.1 = p.2 := by
    intro p hp; simp [e, (henc p hp).1]
  have hmap : (fxs.map (·.1)).map e = fxs.map (·.2) := by
    rw [List.map_map]
    apply List.map_congr_left
    intro p hp; exact he p hp
  have hall : encAll e (fxs.map (·.1)) = (fxs.map (·.2)).flatten := by
    simp only [encAll, hmap]
  apply feed_chunks (e := e) (Frame.decode_nil decM) (fxs.map (·.1)) ?_ chunks (by rw [hall]; exact hc) B
    (by rw [hall]; exact hB)
  intro f hf
  obtain ⟨p, hp, rfl⟩ := List.mem_map.mp hf
  obtain ⟨h1, h2, h3⟩ := henc p hp
  rw [he p hp]
  exact ⟨Frame.encode?_enc h1 h2 h3, Frame.encode?_ne_nil h1⟩

/-- The two facts `chunking_independent` rests on (`decode_prefix_stable` in DESIGN.md): a frame's
encoding decodes to the frame whatever follows it, and every strict prefix of it is `incomplete`. -/
theorem decode_prefix_stable (encM : M → Option Bytes) (decM : Dec M) (f : Frame M) (x : Bytes)
    (h : Frame.encode? encM f = some x) (hk : f.kindOk)
    (hm : ∀ m, f.data = .gossip m → Frame.MsgRoundTrip encM decM m) :
    (∀ r, Frame.decode decM (x ++ r) = .ok f r) ∧
    (∀ p, p <+: x → p ≠ x → Frame.decode decM p = .incomplete) :=
  Frame.encode?_enc h hk hm

/-- Draining never runs out of the fuel the driver uses (`buffer length + 1`). -/
theorem drain_fuel_sufficient (decM : Dec M) (s : Deser) :
    (Deser.drain (Frame.decode decM) (drainFuel s) s).isSome := Frame.drain_fuel decM s

/-! ## Complete but invalid -/

/-- The envelope of a payload frame is complete in `b`: version, a stream id of kind gossip or git, a
length prefix (any of the four varint widths), and at least that many bytes after it. -/
def EnvelopeComplete (b : Bytes) : Prop :=
  ∃ u r1 sid r2 n r3, Frame.version b = .ok u r1 ∧ Varint.decode r1 = .ok sid r2 ∧
    (kindOf sid = some .gossip ∨ kindOf sid = some .git) ∧ Varint.decode r2 = .ok n r3 ∧ n ≤ r3.length

/-- **complete_invalid_is_error.** Once the outer length of a gossip frame is satisfied, the inner message
is decoded from exactly the declared bytes: a message that is malformed OR runs out of payload bytes makes
the frame `invalid` (a `wire::Error` that is not EOF: the peer is disconnected) — not `incomplete`. -/
theorem complete_invalid_is_error {decM : Dec M} {b r1 r2 r3 : Bytes} {u : Unit} {sid n : Nat}
    (hv : Frame.version b = .ok u r1) (hs : Varint.decode r1 = .ok sid r2)
    (hk : kindOf sid = some .gossip) (hl : Varint.decode r2 = .ok n r3) (hn : n ≤ r3.length)
    (hbad : decM (r3.take n) = .incomplete ∨ decM (r3.take n) = .invalid) :
    Frame.decode decM b = .invalid := by
  rw [Frame.decode_gossip_complete hv hs hk hl hn]
  rcases hbad with h | h <;> rw [h]

/-- …and a well-formed one is delivered, whatever follows the frame and whatever the payload holds after
the message. -/
theorem complete_valid_is_ok {decM : Dec M} {b r1 r2 r3 r' : Bytes} {u : Unit} {sid n : Nat} {m : M}
    (hv : Frame.version b = .ok u r1) (hs : Varint.decode r1 = .ok sid r2)
    (hk : kindOf sid = some .gossip) (hl : Varint.decode r2 = .ok n r3) (hn : n ≤ r3.length)
    (hok : decM (r3.take n) = .ok m r') :
    Frame.decode decM b = .ok ⟨sid, .gossip m⟩ (r3.drop n) := by
  rw [Frame.decode_gossip_complete hv hs hk hl hn, hok]

/-- No byte string with a complete envelope is ever reported as incomplete data. -/
theorem complete_never_incomplete {decM : Dec M} {b : Bytes} (h : EnvelopeComplete b) :
    Frame.decode decM b ≠ .incomplete := by
  obtain ⟨u, r1, sid, r2, n, r3, hv, hs, hk, hl, hn⟩ := h
  rcases hk with hk | hk
  · rw [Frame.decode_gossip_complete hv hs hk hl hn]
    cases decM (List.take n r3) <;> simp
  · rw [Frame.decode_git_complete hv hs hk hl hn]; simp

/-- The deserializer therefore reports it (`Err`), instead of waiting for more bytes forever with the
frames queued behind it stuck in the inbox. -/
theorem complete_invalid_next_is_err {decM : Dec M} (hnp : NoPanic decM) {s : Deser}
    (h : EnvelopeComplete s.buf) :
    (∃ f s', s.next (Frame.decode decM) = .item f s') ∨ s.next (Frame.decode decM) = .err := by
  have h1 := complete_never_incomplete (decM := decM) h
  have h2 := Frame.decode_no_panic hnp s.buf
  unfold Deser.next
  cases hd : Frame.decode decM s.buf with
  | ok a r => left; exact ⟨a, ⟨r⟩, rfl⟩
  | incomplete => exact absurd hd h1
  | invalid => right; rfl
  | panic site => exact absurd hd (h2 site)

/-! ## Instance: `Frame<Message>` -/

open HeartwoodModel.Wire in
/-- Every well-formed message (`Wire.Wf`: what the node can construct) round-trips inside a frame. -/
theorem msg_round_trip (env : Env) (m : Msg) (hm : Wf env m) :
    Frame.MsgRoundTrip Msg.serialize? (decodeMsg env) m := by
  intro pm hpm
  unfold Msg.serialize? at hpm
  split at hpm
  · cases hpm
    refine ⟨[], ?_⟩
    have := decodeMsg_encode env m hm []
    simpa using this
  · cases hpm

open HeartwoodModel.Wire in
/-- **chunking_independent for `Frame<Message>`**: any sequence of frames whose gossip messages are
well-formed, encoded by the real encoder, fed in any chunking, comes out unchanged. -/
theorem chunking_independent_message (env : Env) (fxs : List (Frame Msg × Bytes))
    (henc : ∀ p ∈ fxs, Frame.encode? Msg.serialize? p.1 = some p.2 ∧ p.1.kindOk ∧
      ∀ m, p.1.data = .gossip m → Wf env m)
    (chunks : List Bytes) (hc : chunks.flatten = (fxs.map (·.2)).flatten)
    (B : Nat) (hB : FitsInbox B (fxs.map (·.2.length)) 0 chunks) :
    ∃ groups, Deser.feed (Frame.decode (decodeMsg env)) B ⟨[]⟩ chunks = some (groups, ⟨[]⟩, .more) ∧
      groups.flatten = fxs.map (·.1) ∧ groups.length = chunks.length :=
  chunking_independent Msg.serialize? (decodeMsg env) fxs
    (fun p hp => ⟨(henc p hp).1, (henc p hp).2.1, fun m hm => msg_round_trip env m ((henc p hp).2.2 m hm)⟩)
    chunks hc B hB

/-- Frame decoding of `Frame<Message>` never panics (C13a uses the same fact). -/
theorem decode_no_panic (env : Wire.Env) : NoPanic (Frame.decode (Wire.decodeMsg env)) :=
  Frame.decode_no_panic (Wire.decodeMsg_no_panic env)

/-! ## Non-vacuity -/

/-- A concrete stream: control `Open{4}` on stream 0, then a git frame with 3 bytes on stream 4. -/
def exFrames : List (Frame Wire.Msg × Bytes) :=
  [(⟨0, .control (.open 4)⟩, [0x72, 0x61, 0x64, 0x01, 0x00, 0x00, 0x04]),
   (⟨4, .git [1, 2, 3]⟩, [0x72, 0x61, 0x64, 0x01, 0x04, 0x03, 1, 2, 3])]

example : ∀ p ∈ exFrames, Frame.encode? Wire.Msg.serialize? p.1 = some p.2 ∧ p.1.kindOk ∧
    ∀ m, p.1.data = .gossip m → Wire.Wf ⟨fun _ => false⟩ m := by
  intro p hp
  simp only [exFrames, List.mem_cons, List.mem_nil_iff, or_false] at hp
  rcases hp with rfl | rfl
  · refine ⟨by decide, by decide, ?_⟩; intro m h; cases h
  · refine ⟨by decide, by decide, ?_⟩; intro m h; cases h

/-- The inbox bound looks at the undecoded remainder only: with `B = 10` the 16-byte stream of `exFrames` is
accepted when cut as 7 + 9 (after the first frame nothing is pending), and the hypothesis `FitsInbox` holds. -/
example : FitsInbox 10 (exFrames.map (·.2.length)) 0
    [[0x72, 0x61, 0x64, 0x01, 0x00, 0x00, 0x04], [0x72, 0x61, 0x64, 0x01, 0x04, 0x03, 1, 2, 3]] := by
  simp [FitsInbox, pendingLen, exFrames]

/-- Fed one byte short and then the rest: both frames, nothing left. -/
example : Deser.feed (Frame.decode (Wire.decodeMsg ⟨fun _ => false⟩)) 64 ⟨[]⟩
    [[0x72, 0x61, 0x64], [0x01, 0x00, 0x00, 0x04, 0x72, 0x61, 0x64, 0x01, 0x04, 0x03, 1, 2], [3]] =
    some ([[], [⟨0, .control (.open 4)⟩], [⟨4, .git [1, 2, 3]⟩]], ⟨[]⟩, .more) := by decide

/-- The pre-fix witness of `complete_invalid_is_error`: a complete gossip frame (stream 3, 4 payload bytes)
holding a ping cut after `ponglen`, with a valid frame queued behind it: `invalid`, not `incomplete`. -/
example : Frame.decode (Wire.decodeMsg ⟨fun _ => false⟩)
    [0x72, 0x61, 0x64, 0x01, 0x03, 0x04, 0x00, 0x0a, 0x00, 0x07,
     0x72, 0x61, 0x64, 0x01, 0x00, 0x00, 0x04] = .invalid := by decide

example : EnvelopeComplete
    [0x72, 0x61, 0x64, 0x01, 0x03, 0x04, 0x00, 0x0a, 0x00, 0x07, 0x72, 0x61, 0x64, 0x01, 0x00, 0x00, 0x04] :=
  ⟨(), [0x03, 0x04, 0x00, 0x0a, 0x00, 0x07, 0x72, 0x61, 0x64, 0x01, 0x00, 0x00, 0x04], 3,
    [0x04, 0x00, 0x0a, 0x00, 0x07, 0x72, 0x61, 0x64, 0x01, 0x00, 0x00, 0x04], 4,
    [0x00, 0x0a, 0x00, 0x07, 0x72, 0x61, 0x64, 0x01, 0x00, 0x00, 0x04],
    by decide, by decide, Or.inl (by decide), by decide, by decide⟩

end HeartwoodModel.C14
