import HeartwoodModel.Model.Frame
import HeartwoodModel.Model.Wire
import HeartwoodModel.Model.ServiceInput
import HeartwoodModel.Model.Streams
import HeartwoodModel.Driver.C12
import HeartwoodModel.Driver.Util
/-! Driver entry for C13. First token selects the sub-model:

* `a <stream hex> <onion set>` — the byte string is put into a `Deserializer<_, Frame<Message>>` and drained
  (`Model/Codec`, `Varint`, `Frame`, `Wire`). `onion set`: raw Tor addresses of the stream accepted by the
  real `OnionAddrV3::from_raw_bytes` (opaque function). Output `n=<frames> kinds=<g|c|t…|-> end=<more|err|panic>
  left=<unparsed bytes>`; `fuel` if the drain ran out of fuel.
* `b <sessions> <seeded> <op>…` — a history of the service (`Model/ServiceInput`). `sessions`: comma list of
  `<peer><state>`, state `c` connected (inbound), `o` connected (outbound), `i` initial, `a` attempted,
  `d` disconnected (peers 4 and 5 are the persistent ones); `seeded`: repositories seeded by the node (not
  needed to predict the outcome class). Ops: `r<peer>:<msg>` receive, `x<peer>` the connection to the peer was
  dropped, `c<peer>` inbound connection. Messages: `n,<announcer>,<sig>,<ts>,<seed>` node announcement,
  `i,<announcer>,<sig>,<ts>,<rid;…|->` inventory, `f,<announcer>,<sig>,<ts>,<rid>,<remote@at;…|->` refs,
  `s,<since>,<until>[,<filter KiB 1|4|16>,<fill>]` subscribe, `p,<ponglen>` ping, `q,<len>` pong, `o` info. Announcer 9 is the node itself.
  Output: one char per op — `o` handled without error, `m` peer disconnected for misbehaviour, `t` peer
  disconnected for an invalid timestamp, `P` panic (run stops), `-` for `x`/`c` ops; for a ping the char is
  followed by `+` if a pong is sent.
  `R` restarts the node (new service over the same database); `<seeded>` may carry `/<known peers>`: the
  peers that have a row in the address book. After a panicking connection event the char is `P`.
* `c <stream hex> <chunk> <graph>` — git request header, same as C12's `h` cases.
* `d <o|i> <op>…` — stream table of the wire protocol for one connected peer (`Model/Streams`): `O<id>`/`C<id>`/
  `E<id>` control frames from the peer, `G<id>` git frame, `F` our fetch, `W<id>` worker result.
  Output per op: `<op>:<events>`, events `Tr<id>`/`Ti<id>` worker task (responder/initiator), `So<id>`/`Sc<id>`
  control frame sent, `-` nothing, `P` panic (run stops).

`serviceCode` / `streamsCode`: the version of the code the driver mirrors: `/repo` main, including the repairs
614904d (stream pre-open) and 192a092 (subscribe backlog).
-/
namespace HeartwoodModel.Driver.C13
open HeartwoodModel.Driver.Util

/-- Version of `service.rs` mirrored by the driver. -/
def serviceCode : HeartwoodModel.ServiceInput.Code := HeartwoodModel.ServiceInput.Code.current
/-- Version of `wire/protocol.rs` mirrored by the driver. -/
def streamsCode : HeartwoodModel.Streams.Code := HeartwoodModel.Streams.Code.current

/-! ### (a) -/
section A
open HeartwoodModel.Codec HeartwoodModel.Frame HeartwoodModel.Wire

def toBytes (l : List Nat) : Bytes := l.map UInt8.ofNat

def parseSet (s : String) : Option (List Bytes) :=
  if s == "-" then some [] else ((splitOn s ',').mapM hexBytes?).map (·.map toBytes)

def kindChar (f : Frame Msg) : String :=
  match f.data with
  | .control _ => "c"
  | .git _ => "t"
  | .gossip _ => "g"

def runA (stream : Bytes) (onions : List Bytes) : String :=
  let env : Env := ⟨fun raw => onions.contains raw⟩
  let d := Frame.decode (decodeMsg env)
  let s : Deser := ⟨stream⟩
  match Deser.drain d (drainFuel s) s with
  | none => "fuel"
  | some (items, s', st) =>
    let kinds := if items.isEmpty then "-" else joinWith "" (items.map kindChar)
    let e := match st with
      | .more => "more"
      | .err => "err"
      | .panic _ => "panic"
    s!"n={items.length} kinds={kinds} end={e} left={s'.buf.length}"
end A

/-! ### (b) -/
section B
open HeartwoodModel.ServiceInput

/-- The clock of the test node (fixed by the harness), milliseconds. -/
def NOW : Nat := 1700000000000
/-- `Timestamp::MAX` -/
def TS_MAX : Nat := 9223372036854775807

def peer? (s : String) : Option Nat :=
  match nat? s with
  | some n => if n ≤ 9 then some n else none
  | none => none

def parseSessions (s : String) : Option (List (Nat × SessState)) :=
  if s == "-" then some [] else
  (splitOn s ',').mapM fun e =>
    match e.toList with
    | [p, st] => do
      let p ← peer? (String.singleton p)
      let st ← (match st with
        | 'c' => some (SessState.connected [] none)
        | 'o' => some (SessState.connected [] none)
        | 'i' => some SessState.initial
        | 'a' => some SessState.attempted
        | 'd' => if p = 4 ∨ p = 5 then some SessState.disconnected else none
        | _ => none)
      some (p, st)
    | _ => none

def persistent (p : Nat) : Bool := p = 4 || p = 5

/-- The configured (persistent) peers of a case: 4 and 5 when they are listed in the session token. -/
def configured (ss : List (Nat × SessState)) : List (Nat × Nat × Bool) :=
  (ss.filter fun e => persistent e.1).map fun e => (e.1, e.1, true)

def mkSession (p : Nat) (st : SessState) : Session :=
  { id := p, host := p, routable := true, persistent := persistent p, state := st, queue := [], subscribed := false }

def initState (ss : List (Nat × SessState)) (known : List Nat) : State :=
  { self := 9, now := NOW, fetchConcurrency := 1,
    sessions := fun k => (ss.find? (·.1 == k)).map fun (p, st) => mkSession p st,
    fetching := fun _ => none,
    buckets := fun _ => none,
    gossip := fun _ => none, gossipMax := none, lastOnline := none,
    known := fun k => known.contains k }

/-- `<seeded>[/<known>]` -/
def parseKnown (s : String) : Option (List Nat) :=
  match splitOn s '/' with
  | [_] => some []
  | [_, k] => nats? k
  | _ => none

def ts? (s : String) : Option Nat :=
  match nat? s with
  | some n => if n ≤ TS_MAX then some n else none
  | none => none

def parseRefs (s : String) : Option (List RefAt) :=
  if s == "-" then some [] else
  (splitOn s ';').mapM fun e =>
    match splitOn e '@' with
    | [r, a] => do let r ← peer? r; let a ← nat? a; some (r, a)
    | _ => none

def parseRids (s : String) : Option (List Nat) :=
  if s == "-" then some [] else (splitOn s ';').mapM nat?

def parseMsg (s : String) : Option Msg :=
  match splitOn s ',' with
  | ["n", an, sig, ts, seed] => do
    let an ← peer? an; let sig ← bool? sig; let ts ← ts? ts; let seed ← bool? seed
    some (.announcement { announcer := an, sigOk := sig, timestamp := ts, kind := .node seed })
  | ["i", an, sig, ts, rids] => do
    let an ← peer? an; let sig ← bool? sig; let ts ← ts? ts; let rids ← parseRids rids
    some (.announcement { announcer := an, sigOk := sig, timestamp := ts, kind := .inventory rids })
  | ["f", an, sig, ts, rid, refs] => do
    let an ← peer? an; let sig ← bool? sig; let ts ← ts? ts; let rid ← nat? rid; let refs ← parseRefs refs
    some (.announcement { announcer := an, sigOk := sig, timestamp := ts, kind := .refs rid refs })
  | ["s", since, until_] => do
    let since ← ts? since; let until_ ← ts? until_
    some (.subscribe since until_)
  -- `s,<since>,<until>,<filter KiB 1|4|16>,<fill 0..255 | r<seed>>`: the peer's bloom filter (size and contents
  -- are not part of the model: no assertion site depends on them)
  | ["s", since, until_, kib, _fill] => do
    let since ← ts? since; let until_ ← ts? until_; let k ← nat? kib
    if k = 1 ∨ k = 4 ∨ k = 16 then some (.subscribe since until_) else none
  | ["p", n] => do let n ← nat? n; if n < 65536 then some (.ping n) else none
  | ["q", n] => do let n ← nat? n; if n < 65536 then some (.pong n) else none
  | ["o"] => some .info
  | _ => none

def parseOp (cfg : List (Nat × Nat × Bool)) (s : String) : Option Op :=
  match s.toList with
  | ['R'] => some (.restart cfg)
  | 'x' :: p => do let p ← peer? (String.ofList p); some (.disconnect p)
  | 'c' :: p => do let p ← peer? (String.ofList p); some (.connectIn p p true (cfg.any (·.1 == p)))
  | 'r' :: rest =>
    match splitOn (String.ofList rest) ':' with
    | [p, m] => do let p ← peer? p; let m ← parseMsg m; some (.recv p m)
    | _ => none
  | _ => none

/-- The oracle used by the driver: the outcome class does not depend on it (`Props/C13.lean`,
`outcome_env_irrelevant`); the harness keeps histories shorter than the capacity of the rate limiter. -/
def defaultEnv : Env :=
  { limited := false, knownNode := fun _ => true, announcedFresh := true, routingSynced := true,
    seeded := fun _ => true, haveLocal := fun _ => false, wanted := fun _ refs => refs, shuffle := id }

def showStep (σ : State) (op : Op) (o : Outcome) : String :=
  match op, o with
  | _, .panic _ => "P"
  | .recv r (.ping n), .ok => if dispatched defaultEnv σ r && (pongFor n).isSome then "o+" else "o"
  | .recv _ _, .ok => "o"
  | .recv _ _, .disconnect .misbehavior => "m"
  | .recv _ _, .disconnect .invalidTimestamp => "t"
  | _, _ => "-"

def runOps (σ : State) : List Op → List String
  | [] => []
  | op :: ops =>
    match step serviceCode defaultEnv σ op with
    | (.panic s, _) => [showStep σ op (.panic s)]
    | (o, σ') => showStep σ op o :: runOps σ' ops

def runB (sessions seeded : String) (ops : List String) : String :=
  match parseSessions sessions, parseKnown seeded with
  | some ss, some known =>
    match ops.mapM (parseOp (configured ss)) with
    | some ops => joinWith "" (runOps (initState ss known) ops)
    | none => "bad-op"
  | _, _ => "bad-op"
end B

/-! ### (d) -/
section D
open HeartwoodModel.Streams

def parseOpD (s : String) : Option Op :=
  match s.toList with
  | ['F'] => some .fetch
  | k :: rest =>
    match nat? (String.ofList rest) with
    | some n =>
      if n < 2 ^ 62 && toString n == String.ofList rest then
        match k with
        | 'O' => some (.recvOpen n) | 'C' => some (.recvClose n) | 'E' => some (.recvEof n)
        | 'G' => if idKind n = 2 then some (.recvGit n) else none
        | 'W' => some (.workerResult n)
        | _ => none
      else none
    | none => none
  | _ => none

def showEv : Ev → String
  | .task true id => s!"Tr{id}"
  | .task false id => s!"Ti{id}"
  | .sendOpen id => s!"So{id}"
  | .sendClose id => s!"Sc{id}"

def runOpsD (σ : Streams.State) : List (String × Op) → List String
  | [] => []
  | (label, op) :: ops =>
    match Streams.step streamsCode σ op with
    | .error _ => [label ++ ":P"]
    | .ok (σ', evs) =>
      (label ++ ":" ++ (if evs.isEmpty then "-" else joinWith "," (evs.map showEv))) :: runOpsD σ' ops

def runD (link : String) (ops : List String) : String :=
  let l : Option Link := if link == "o" then some .outbound else if link == "i" then some .inbound else none
  match l, ops.mapM (fun s => (parseOpD s).map fun op => (s, op)) with
  | some l, some ops => joinWith " " (runOpsD (Streams.init l) ops)
  | _, _ => "bad-op"
end D

def run (args : List String) : String :=
  match args with
  | ["a", stream, onions] =>
    match hexBytes? stream, parseSet onions with
    | some s, some o => runA (toBytes s) o
    | _, _ => "bad-op"
  | "b" :: sessions :: seeded :: ops => runB sessions seeded ops
  | "d" :: link :: ops => runD link ops
  | ["c", stream, chunk, graph] => HeartwoodModel.Driver.C12.run ["h", stream, chunk, graph]
  | _ => "bad-op"

end HeartwoodModel.Driver.C13
