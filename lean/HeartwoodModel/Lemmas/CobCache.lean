import HeartwoodModel.Model.CobCache
/-!
# Helper lemmas for C09 (`Model/CobCache.lean`)

* sorted tables: `lookup` after `upsert` / `erase` / `image`, preservation of sortedness, extensionality;
* the write rules preserve the invariant "cache row `k` = encoding of truth `k`" (`Inv`);
* `decodeRows`, `GROUP BY` (`addToGroups`, `countsGo`).
-/
set_option linter.unusedSimpArgs false
set_option linter.unusedVariables false
namespace HeartwoodModel.CobCache

namespace Table
variable {α β : Type}

@[simp] private theorem image_nil (f : α → β) : image f ([] : Table α) = [] := rfl
@[simp] theorem image_cons (f : α → β) (k : Id) (v : α) (t : Table α) :
    image f ((k, v) :: t) = (k, f v) :: image f t := rfl

@[simp] theorem lookup_nil (k : Id) : lookup k ([] : Table α) = none := rfl
theorem lookup_cons (k k' : Id) (v : α) (t : Table α) :
    lookup k ((k', v) :: t) = if k' = k then some v else lookup k t := rfl

theorem lookup_image (f : α → β) (k : Id) (t : Table α) :
    lookup k (image f t) = (lookup k t).map f := by
  induction t with
  | nil => rfl
  | cons kv t ih =>
    obtain ⟨k', v⟩ := kv
    rw [image_cons, lookup_cons, lookup_cons, ih]
    by_cases h : k' = k <;> simp [h]

private theorem lookup_upsert_self (k : Id) (v : α) (t : Table α) : lookup k (upsert k v t) = some v := by
  induction t with
  | nil => simp [upsert, lookup_cons]
  | cons kv t ih =>
    obtain ⟨k₁, v₁⟩ := kv
    by_cases h1 : k₁ = k
    · simp [upsert, h1, lookup_cons]
    · by_cases h2 : k < k₁
      · simp [upsert, h1, h2, lookup_cons]
      · simp [upsert, h1, h2, lookup_cons, ih]

private theorem lookup_upsert_ne {k k' : Id} (h : k' ≠ k) (v : α) (t : Table α) :
    lookup k' (upsert k v t) = lookup k' t := by
  have h' : ¬ k = k' := fun e => h e.symm
  induction t with
  | nil => simp [upsert, lookup_cons, h']
  | cons kv t ih =>
    obtain ⟨k₁, v₁⟩ := kv
    by_cases h1 : k₁ = k
    · subst h1
      simp [upsert, lookup_cons, h']
    · by_cases h2 : k < k₁
      · simp [upsert, h1, h2, lookup_cons, h']
      · simp [upsert, h1, h2, lookup_cons, ih]

theorem lookup_upsert (k k' : Id) (v : α) (t : Table α) :
    lookup k' (upsert k v t) = if k' = k then some v else lookup k' t := by
  by_cases h : k' = k
  · subst h; simp [lookup_upsert_self]
  · simp [h, lookup_upsert_ne h]

theorem lookup_erase (k k' : Id) (t : Table α) :
    lookup k' (erase k t) = if k' = k then none else lookup k' t := by
  induction t with
  | nil => simp [erase]
  | cons kv t ih =>
    obtain ⟨k₁, v₁⟩ := kv
    by_cases h1 : k₁ = k
    · subst h1
      by_cases h : k' = k₁
      · subst h; simp [erase, ih]
      · have : ¬ k₁ = k' := fun e => h e.symm
        simp [erase, ih, h, lookup_cons, this]
    · by_cases h : k' = k
      · subst h; simp [erase, h1, lookup_cons, ih]
      · simp [erase, h1, lookup_cons, ih, h]

private theorem lookup_set (k k' : Id) (o : Option α) (t : Table α) :
    lookup k' (set k o t) = if k' = k then o else lookup k' t := by
  cases o with
  | none => simp [set, lookup_erase]
  | some v => simp [set, lookup_upsert]

/-! ### sortedness -/

/-- Strictly increasing keys (in particular: no key twice). -/
def Sorted (t : Table α) : Prop := t.Pairwise (fun a b => a.1 < b.1)

theorem sorted_nil : Sorted ([] : Table α) := List.Pairwise.nil

theorem sorted_cons {k : Id} {v : α} {t : Table α} :
    Sorted ((k, v) :: t) ↔ (∀ kv ∈ t, k < kv.1) ∧ Sorted t := by
  unfold Sorted; exact List.pairwise_cons

private theorem mem_upsert {k : Id} {v : α} {t : Table α} {kv : Id × α} (h : kv ∈ upsert k v t) :
    kv = (k, v) ∨ kv ∈ t := by
  induction t with
  | nil => simp [upsert] at h; exact Or.inl h
  | cons kv₁ t ih =>
    obtain ⟨k₁, v₁⟩ := kv₁
    by_cases h1 : k₁ = k
    · simp [upsert, h1] at h
      rcases h with h | h
      · exact Or.inl h
      · exact Or.inr (List.mem_cons_of_mem _ h)
    · by_cases h2 : k < k₁
      · simp [upsert, h1, h2] at h
        rcases h with h | h | h
        · exact Or.inl h
        · exact Or.inr (by rw [h]; exact List.mem_cons_self)
        · exact Or.inr (List.mem_cons_of_mem _ h)
      · simp [upsert, h1, h2] at h
        rcases h with h | h
        · exact Or.inr (by rw [h]; exact List.mem_cons_self)
        · rcases ih h with h | h
          · exact Or.inl h
          · exact Or.inr (List.mem_cons_of_mem _ h)

theorem sorted_upsert {k : Id} {v : α} {t : Table α} (hs : Sorted t) : Sorted (upsert k v t) := by
  induction t with
  | nil => simp [upsert, Sorted]
  | cons kv₁ t ih =>
    obtain ⟨k₁, v₁⟩ := kv₁
    obtain ⟨hlt, hst⟩ := sorted_cons.mp hs
    by_cases h1 : k₁ = k
    · subst h1
      simp only [upsert, if_true]
      exact sorted_cons.mpr ⟨hlt, hst⟩
    · by_cases h2 : k < k₁
      · simp only [upsert, h1, h2, if_false, if_true]
        refine sorted_cons.mpr ⟨?_, hs⟩
        intro kv hkv
        rcases List.mem_cons.mp hkv with h | h
        · rw [h]; exact h2
        · exact String.lt_trans h2 (hlt kv h)
      · simp only [upsert, h1, h2, if_false]
        refine sorted_cons.mpr ⟨?_, ih hst⟩
        intro kv hkv
        rcases mem_upsert hkv with h | h
        · rw [h]
          -- ¬ k < k₁ and k₁ ≠ k, hence k₁ < k
          rcases Decidable.em (k₁ < k) with h3 | h3
          · exact h3
          · exact absurd (String.le_antisymm (String.not_lt.mp h2) (String.not_lt.mp h3)) h1
        · exact hlt kv h

private theorem mem_erase {k : Id} {t : Table α} {kv : Id × α} (h : kv ∈ erase k t) : kv ∈ t := by
  induction t with
  | nil => simp [erase] at h
  | cons kv₁ t ih =>
    obtain ⟨k₁, v₁⟩ := kv₁
    by_cases h1 : k₁ = k
    · simp only [erase, h1, if_true] at h
      exact List.mem_cons_of_mem _ (ih h)
    · simp only [erase, h1, if_false] at h
      rcases List.mem_cons.mp h with h | h
      · rw [h]; exact List.mem_cons_self
      · exact List.mem_cons_of_mem _ (ih h)

theorem sorted_erase {k : Id} {t : Table α} (hs : Sorted t) : Sorted (erase k t) := by
  induction t with
  | nil => simp [erase, Sorted]
  | cons kv₁ t ih =>
    obtain ⟨k₁, v₁⟩ := kv₁
    obtain ⟨hlt, hst⟩ := sorted_cons.mp hs
    by_cases h1 : k₁ = k
    · simp only [erase, h1, if_true]; exact ih hst
    · simp only [erase, h1, if_false]
      exact sorted_cons.mpr ⟨fun kv hkv => hlt kv (mem_erase hkv), ih hst⟩

theorem sorted_set {k : Id} {o : Option α} {t : Table α} (hs : Sorted t) : Sorted (set k o t) := by
  cases o with
  | none => exact sorted_erase hs
  | some v => exact sorted_upsert hs

theorem sorted_image (f : α → β) {t : Table α} (hs : Sorted t) : Sorted (image f t) := by
  induction t with
  | nil => exact sorted_nil
  | cons kv t ih =>
    obtain ⟨k, v⟩ := kv
    obtain ⟨hlt, hst⟩ := sorted_cons.mp hs
    rw [image_cons]
    refine sorted_cons.mpr ⟨?_, ih hst⟩
    intro kv hkv
    obtain ⟨kv', hm, rfl⟩ := List.mem_map.mp hkv
    exact hlt kv' hm

private theorem lookup_eq_none_of_lt {k : Id} {t : Table α} (h : ∀ kv ∈ t, k < kv.1) : lookup k t = none := by
  induction t with
  | nil => rfl
  | cons kv t ih =>
    obtain ⟨k₁, v₁⟩ := kv
    have h1 : k < k₁ := h (k₁, v₁) List.mem_cons_self
    have hne : ¬ k₁ = k := fun e => String.lt_irrefl k (by rw [e] at h1; exact h1)
    rw [lookup_cons, if_neg hne]
    exact ih (fun kv hkv => h kv (List.mem_cons_of_mem _ hkv))

theorem lookup_of_mem {k : Id} {v : α} {t : Table α} (hs : Sorted t) (h : (k, v) ∈ t) :
    lookup k t = some v := by
  induction t with
  | nil => cases h
  | cons kv t ih =>
    obtain ⟨k₁, v₁⟩ := kv
    obtain ⟨hlt, hst⟩ := sorted_cons.mp hs
    rcases List.mem_cons.mp h with h | h
    · cases h; simp [lookup_cons]
    · have h1 : k₁ < k := hlt (k, v) h
      have hne : ¬ k₁ = k := fun e => String.lt_irrefl k (by rw [e] at h1; exact h1)
      rw [lookup_cons, if_neg hne]
      exact ih hst h

theorem mem_of_lookup {k : Id} {v : α} {t : Table α} (h : lookup k t = some v) : (k, v) ∈ t := by
  induction t with
  | nil => cases h
  | cons kv t ih =>
    obtain ⟨k₁, v₁⟩ := kv
    rw [lookup_cons] at h
    by_cases h1 : k₁ = k
    · rw [if_pos h1] at h; cases h; rw [h1]; exact List.mem_cons_self
    · rw [if_neg h1] at h; exact List.mem_cons_of_mem _ (ih h)

/-- Two sorted tables with the same `lookup` are equal. -/
theorem ext_of_sorted {a b : Table α} (ha : Sorted a) (hb : Sorted b)
    (h : ∀ k, lookup k a = lookup k b) : a = b := by
  induction a generalizing b with
  | nil =>
    cases b with
    | nil => rfl
    | cons kv b =>
      obtain ⟨k, v⟩ := kv
      have := h k
      simp [lookup_cons] at this
  | cons kv a ih =>
    obtain ⟨k, v⟩ := kv
    obtain ⟨hlt, hsa⟩ := sorted_cons.mp ha
    cases b with
    | nil =>
      have := h k
      simp [lookup_cons] at this
    | cons kv' b =>
      obtain ⟨k', v'⟩ := kv'
      obtain ⟨hlt', hsb⟩ := sorted_cons.mp hb
      -- the heads carry the same key
      have hk : k = k' := by
        rcases Decidable.em (k < k') with h1 | h1
        · -- k is in a but smaller than every key of b
          have h2 := h k
          rw [lookup_cons, if_pos rfl] at h2
          have : lookup k ((k', v') :: b) = none :=
            lookup_eq_none_of_lt (fun kv hkv => by
              rcases List.mem_cons.mp hkv with e | e
              · rw [e]; exact h1
              · exact String.lt_trans h1 (hlt' kv e))
          rw [this] at h2; cases h2
        · rcases Decidable.em (k' < k) with h3 | h3
          · have h2 := h k'
            rw [lookup_cons (k := k') (k' := k'), if_pos rfl] at h2
            have : lookup k' ((k, v) :: a) = none :=
              lookup_eq_none_of_lt (fun kv hkv => by
                rcases List.mem_cons.mp hkv with e | e
                · rw [e]; exact h3
                · exact String.lt_trans h3 (hlt kv e))
            rw [this] at h2; cases h2
          · exact String.le_antisymm (String.not_lt.mp h3) (String.not_lt.mp h1)
      subst hk
      have hv : v = v' := by
        have h2 := h k
        simp [lookup_cons] at h2
        exact h2
      subst hv
      congr 1
      apply ih hsa hsb
      intro j
      have h2 := h j
      rw [lookup_cons, lookup_cons] at h2
      by_cases hj : k = j
      · subst hj
        rw [lookup_eq_none_of_lt hlt, lookup_eq_none_of_lt hlt']
      · rw [if_neg hj, if_neg hj] at h2; exact h2

end Table

/-! ## The invariant: every cache row is the encoding of the truth -/

section Inv
variable {α : Type}

/-- Both tables are sorted and row `k` of the cache is the encoding of object `k` of the truth. -/
structure Inv (enc : α → Json) (s : Store α) : Prop where
  truth_sorted : Table.Sorted s.truth
  cache_sorted : Table.Sorted s.cache
  agree : ∀ k, s.cache.lookup k = (s.truth.lookup k).map enc

theorem Inv.cache_eq {enc : α → Json} {s : Store α} (h : Inv enc s) : s.cache = s.truth.image enc :=
  Table.ext_of_sorted h.cache_sorted (Table.sorted_image enc h.truth_sorted)
    (fun k => by rw [h.agree k, Table.lookup_image])

theorem inv_empty (enc : α → Json) : Inv enc (Store.empty : Store α) :=
  ⟨Table.sorted_nil, Table.sorted_nil, fun _ => rfl⟩

theorem sorted_applyChanges {t : Table α} (cs : List (Id × Option α)) (h : Table.Sorted t) :
    Table.Sorted (applyChanges t cs) := by
  induction cs generalizing t with
  | nil => exact h
  | cons c cs ih => obtain ⟨id, o⟩ := c; exact ih (Table.sorted_set h)

/-- Objects not named in `changes` evaluate as before. -/
theorem lookup_applyChanges_of_not_mem {t : Table α} (cs : List (Id × Option α)) {k : Id}
    (h : ∀ c ∈ cs, c.1 ≠ k) : (applyChanges t cs).lookup k = t.lookup k := by
  induction cs generalizing t with
  | nil => rfl
  | cons c cs ih =>
    obtain ⟨id, o⟩ := c
    have hne : k ≠ id := fun e => h (id, o) List.mem_cons_self e.symm
    rw [applyChanges, ih (fun c hc => h c (List.mem_cons_of_mem _ hc)), Table.lookup_set, if_neg hne]

private theorem sorted_updateOrRemove (enc : α → Json) (truth : Table α) {cache : Table Json} (id : Id)
    (h : Table.Sorted cache) : Table.Sorted (updateOrRemove enc truth cache id) := by
  unfold updateOrRemove
  cases truth.lookup id with
  | none => exact Table.sorted_erase h
  | some o => exact Table.sorted_upsert h

private theorem lookup_updateOrRemove (enc : α → Json) (truth : Table α) (cache : Table Json) (id k : Id) :
    (updateOrRemove enc truth cache id).lookup k =
      if k = id then (truth.lookup id).map enc else cache.lookup k := by
  unfold updateOrRemove
  cases truth.lookup id with
  | none => simp [Table.lookup_erase]
  | some o => simp [Table.lookup_upsert]

theorem sorted_cacheCobs (enc : α → Json) (truth : Table α) {cache : Table Json} (refs : List RefUpd)
    (h : Table.Sorted cache) : Table.Sorted (cacheCobs enc truth cache refs) := by
  induction refs generalizing cache with
  | nil => exact h
  | cons r rs ih =>
    unfold cacheCobs
    by_cases hsk : r.skipped = true
    · rw [if_pos hsk]; exact ih h
    · rw [if_neg hsk]; exact ih (sorted_updateOrRemove enc truth r.id h)

/-- After `cache_cobs`, the rows of the objects named by a non-skipped update are in sync with the
repository; all other rows are untouched. -/
theorem lookup_cacheCobs (enc : α → Json) (truth : Table α) (cache : Table Json) (refs : List RefUpd)
    (k : Id) :
    (cacheCobs enc truth cache refs).lookup k =
      if (∃ r ∈ refs, r.id = k ∧ r.skipped = false) then (truth.lookup k).map enc else cache.lookup k := by
  induction refs generalizing cache with
  | nil => simp [cacheCobs]
  | cons r rs ih =>
    unfold cacheCobs
    by_cases hsk : r.skipped = true
    · rw [if_pos hsk, ih]
      have : (∃ r' ∈ r :: rs, r'.id = k ∧ r'.skipped = false) ↔ (∃ r' ∈ rs, r'.id = k ∧ r'.skipped = false) := by
        constructor
        · rintro ⟨r', hm, h1, h2⟩
          rcases List.mem_cons.mp hm with e | e
          · subst e; rw [hsk] at h2; cases h2
          · exact ⟨r', e, h1, h2⟩
        · rintro ⟨r', hm, h1, h2⟩; exact ⟨r', List.mem_cons_of_mem _ hm, h1, h2⟩
      by_cases hex : ∃ r' ∈ rs, r'.id = k ∧ r'.skipped = false
      · rw [if_pos hex, if_pos (this.mpr hex)]
      · rw [if_neg hex, if_neg (fun h => hex (this.mp h))]
    · rw [if_neg hsk, ih]
      have hsk' : r.skipped = false := by cases h : r.skipped <;> simp_all
      by_cases hex : ∃ r' ∈ rs, r'.id = k ∧ r'.skipped = false
      · obtain ⟨r', hm, h1, h2⟩ := hex
        rw [if_pos ⟨r', hm, h1, h2⟩, if_pos ⟨r', List.mem_cons_of_mem _ hm, h1, h2⟩]
      · rw [if_neg hex, lookup_updateOrRemove]
        by_cases hk : k = r.id
        · rw [if_pos hk, if_pos ⟨r, List.mem_cons_self, hk.symm, hsk'⟩, hk]
        · rw [if_neg hk]
          have : ¬ ∃ r' ∈ r :: rs, r'.id = k ∧ r'.skipped = false := by
            rintro ⟨r', hm, h1, h2⟩
            rcases List.mem_cons.mp hm with e | e
            · subst e; exact hk h1.symm
            · exact hex ⟨r', e, h1, h2⟩
          rw [if_neg this]

end Inv

/-! ## Decoding rows -/

theorem decodeRows_image {α : Type} {enc : α → Json} {dec : Json → Option α}
    (h : ∀ a, dec (enc a) = some a) (t : Table α) : decodeRows dec (t.image enc) = .ok t := by
  induction t with
  | nil => rfl
  | cons kv t ih =>
    obtain ⟨k, v⟩ := kv
    rw [Table.image_cons, decodeRows, h v]
    simp only [ih, Res.bind]

theorem filter_image {α : Type} (enc : α → Json) (p : Json → Bool) (q : α → Bool)
    (t : Table α) (h : ∀ kv ∈ t, p (enc kv.2) = q kv.2) :
    (t.image enc).filter (fun kv => p kv.2) = Table.image enc (t.filter fun kv => q kv.2) := by
  induction t with
  | nil => rfl
  | cons kv t ih =>
    obtain ⟨k, v⟩ := kv
    have hv : p (enc v) = q v := h (k, v) List.mem_cons_self
    have ih' := ih (fun kv hkv => h kv (List.mem_cons_of_mem _ hkv))
    rw [Table.image_cons, List.filter_cons, List.filter_cons]
    simp only [hv]
    cases q v
    · simpa using ih'
    · simp only [if_true, Table.image_cons]; rw [ih']

/-! ## JSON accessors -/

namespace Json

@[simp] theorem members_ofObj (l : List (String × Json)) : members (ofObj l) = l := by
  induction l with
  | nil => rfl
  | cons kv l ih => obtain ⟨k, v⟩ := kv; simp [ofObj, members, ih]

private theorem get?_ofObj (k : String) (l : List (String × Json)) : get? k (ofObj l) = Table.lookup k l := by
  induction l with
  | nil => rfl
  | cons kv l ih =>
    obtain ⟨k', v⟩ := kv
    simp only [ofObj, get?, Table.lookup_cons, ih]

end Json

/-! ## `GROUP BY` and the counts fold -/

section Counts
variable {σ κ : Type}

/-- `pick` returns a row of the group. -/
def PickOk (pick : List Json → Option Json) : Prop :=
  ∀ l, l ≠ [] → ∃ x, x ∈ l ∧ pick l = some x

theorem pickOk_head : PickOk List.head? := by
  intro l hl
  cases l with
  | nil => exact absurd rfl hl
  | cons x t => exact ⟨x, List.mem_cons_self, rfl⟩

/-- The state a row decodes to. -/
def rowState (decState : Json → Option σ) (j : Json) : Option σ := (j.get? "state").bind decState

/-- Row `j` is the encoding of an object in state `s`: `$.state` decodes to `s` and `$.state.status` is the
status name of `s`. -/
def GoodRow (decState : Json → Option σ) (nm : σ → String) (j : Json) (s : σ) : Prop :=
  rowState decState j = some s ∧ statusKey j = some (.str (nm s))

/-- Every group is non-empty; its rows are good and carry the group's key. -/
def GroupsOk (decState : Json → Option σ) (nm : σ → String) (gs : Groups) : Prop :=
  ∀ g ∈ gs, g.2 ≠ [] ∧ ∀ j ∈ g.2, statusKey j = g.1 ∧ ∃ s, GoodRow decState nm j s

private theorem groupsOk_addToGroups {decState : Json → Option σ} {nm : σ → String} {gs : Groups} {j : Json}
    {s : σ} (hg : GroupsOk decState nm gs) (hj : GoodRow decState nm j s) :
    GroupsOk decState nm (addToGroups (statusKey j) j gs) := by
  induction gs with
  | nil =>
    intro g hgm
    simp only [addToGroups, List.mem_singleton] at hgm
    subst hgm
    refine ⟨by simp, ?_⟩
    intro j' hj'
    simp only [List.mem_singleton] at hj'
    subst hj'
    exact ⟨rfl, s, hj⟩
  | cons g gs ih =>
    obtain ⟨k', rows⟩ := g
    have hhead := hg (k', rows) List.mem_cons_self
    have htail : GroupsOk decState nm gs := fun g hgm => hg g (List.mem_cons_of_mem _ hgm)
    unfold addToGroups
    by_cases hk : k' = statusKey j
    · rw [if_pos hk]
      intro g hgm
      rcases List.mem_cons.mp hgm with e | e
      · subst e
        refine ⟨by simp, ?_⟩
        intro j' hj'
        rcases List.mem_cons.mp hj' with e' | e'
        · subst e'; exact ⟨hk.symm, s, hj⟩
        · exact hhead.2 j' e'
      · exact htail g e
    · rw [if_neg hk]
      intro g hgm
      rcases List.mem_cons.mp hgm with e | e
      · subst e; exact hhead
      · exact ih htail g e

/-- What `countsGo` needs to know about the bucket arithmetic. -/
structure AddLaws (nm : σ → String) (add : κ → σ → Nat → κ) : Prop where
  congr : ∀ acc s s' n, nm s = nm s' → add acc s n = add acc s' n
  merge : ∀ acc s n m, add (add acc s n) s m = add acc s (n + m)
  comm : ∀ acc s n s' m, add (add acc s n) s' m = add (add acc s' m) s n

private theorem countsGo_add {decState : Json → Option σ} {nm : σ → String} {add : κ → σ → Nat → κ}
    (hl : AddLaws nm add) (pick : List Json → Option Json) (gs : Groups) (acc : κ) (s : σ) (n : Nat) :
    countsGo decState add pick gs (add acc s n) =
      (countsGo decState add pick gs acc).bind fun r => .ok (add r s n) := by
  induction gs generalizing acc with
  | nil => rfl
  | cons g gs ih =>
    obtain ⟨k', rows⟩ := g
    simp only [countsGo]
    cases (pick rows).bind (Json.get? "state") with
    | none => rfl
    | some st =>
      simp only
      cases decState st with
      | none => rfl
      | some s' =>
        simp only
        rw [hl.comm, ih]

/-- The picked row of a good group decodes to a state with the group's status name. -/
private theorem picked_state {decState : Json → Option σ} {nm : σ → String} {pick : List Json → Option Json}
    (hp : PickOk pick) {k : Option Json} {rows : List Json} (hne : rows ≠ [])
    (hrows : ∀ j ∈ rows, statusKey j = k ∧ ∃ s, GoodRow decState nm j s) :
    ∃ st s, (pick rows).bind (Json.get? "state") = some st ∧ decState st = some s ∧
      k = some (.str (nm s)) := by
  obtain ⟨x, hx, hpick⟩ := hp rows hne
  obtain ⟨hkx, s, hrs, hkey⟩ := hrows x hx
  unfold rowState at hrs
  cases hst : x.get? "state" with
  | none => rw [hst] at hrs; cases hrs
  | some st =>
    rw [hst] at hrs
    exact ⟨st, s, by rw [hpick]; exact hst, hrs, by rw [← hkx, hkey]⟩

private theorem countsGo_addToGroups {decState : Json → Option σ} {nm : σ → String} {add : κ → σ → Nat → κ}
    (hl : AddLaws nm add) {pick : List Json → Option Json} (hp : PickOk pick)
    {gs : Groups} (hg : GroupsOk decState nm gs) {j : Json} {s : σ} (hj : GoodRow decState nm j s)
    (acc : κ) :
    countsGo decState add pick (addToGroups (statusKey j) j gs) acc =
      (countsGo decState add pick gs acc).bind fun r => .ok (add r s 1) := by
  induction gs generalizing acc with
  | nil =>
    have hrows : ∀ j' ∈ [j], statusKey j' = statusKey j ∧ ∃ s, GoodRow decState nm j' s := by
      intro j' hj'; simp only [List.mem_singleton] at hj'; subst hj'; exact ⟨rfl, s, hj⟩
    obtain ⟨st, s', h1, h2, h3⟩ := picked_state hp (by simp) hrows
    have hnm : nm s' = nm s := by
      rw [hj.2] at h3; injection h3 with h3; injection h3 with h3; exact h3.symm
    simp only [addToGroups, countsGo, h1, h2, List.length_singleton, Res.bind]
    rw [hl.congr _ _ _ _ hnm]
  | cons g gs ih =>
    obtain ⟨k', rows⟩ := g
    have hhead := hg (k', rows) List.mem_cons_self
    have htail : GroupsOk decState nm gs := fun g hgm => hg g (List.mem_cons_of_mem _ hgm)
    obtain ⟨st, sy, hy1, hy2, hy3⟩ := picked_state hp hhead.1 hhead.2
    unfold addToGroups
    by_cases hk : k' = statusKey j
    · rw [if_pos hk]
      have hrows : ∀ j' ∈ j :: rows, statusKey j' = k' ∧ ∃ s, GoodRow decState nm j' s := by
        intro j' hj'
        rcases List.mem_cons.mp hj' with e | e
        · subst e; exact ⟨hk.symm, s, hj⟩
        · exact hhead.2 j' e
      obtain ⟨st', sx, hx1, hx2, hx3⟩ := picked_state hp (by simp) hrows
      have hnx : nm sx = nm s := by
        rw [hk, hj.2] at hx3; injection hx3 with h; injection h with h; exact h.symm
      have hny : nm sy = nm s := by
        rw [hk, hj.2] at hy3; injection hy3 with h; injection h with h; exact h.symm
      simp only [countsGo, hx1, hx2, hy1, hy2, List.length_cons]
      rw [hl.congr _ _ _ _ hnx, hl.congr acc _ _ _ hny, ← hl.merge, countsGo_add hl]
    · rw [if_neg hk]
      simp only [countsGo, hy1, hy2]
      exact ih htail _

/-- The SQL counts over good rows: one unit per row, added to the bucket of the row's state. -/
theorem countsGo_groupBy {decState : Json → Option σ} {nm : σ → String} {add : κ → σ → Nat → κ}
    (hl : AddLaws nm add) {pick : List Json → Option Json} (hp : PickOk pick)
    (xs : List (Json × σ)) (hx : ∀ x ∈ xs, GoodRow decState nm x.1 x.2) (acc : κ) :
    countsGo decState add pick (groupBy statusKey (xs.map (·.1))) acc =
      .ok (xs.foldr (fun x a => add a x.2 1) acc) ∧
    GroupsOk decState nm (groupBy statusKey (xs.map (·.1))) := by
  induction xs with
  | nil => exact ⟨rfl, fun g hg => by cases hg⟩
  | cons x xs ih =>
    obtain ⟨j, s⟩ := x
    have hj : GoodRow decState nm j s := hx (j, s) List.mem_cons_self
    obtain ⟨ih1, ih2⟩ := ih (fun x hxm => hx x (List.mem_cons_of_mem _ hxm))
    refine ⟨?_, ?_⟩
    · simp only [List.map_cons, groupBy, List.foldr_cons]
      rw [countsGo_addToGroups hl hp ih2 hj, ih1]
      rfl
    · simp only [List.map_cons, groupBy]
      exact groupsOk_addToGroups ih2 hj

theorem foldl_eq_foldr_add {τ : Type} {nm : σ → String} {add : κ → σ → Nat → κ} (hl : AddLaws nm add)
    (st : τ → σ) (t : List τ) (acc : κ) :
    t.foldl (fun a x => add a (st x) 1) acc = t.foldr (fun x a => add a (st x) 1) acc := by
  induction t generalizing acc with
  | nil => rfl
  | cons x t ih =>
    simp only [List.foldl_cons, List.foldr_cons]
    rw [ih]
    -- move the unit for `x` past the fold
    clear ih
    induction t with
    | nil => rfl
    | cons y t ih2 =>
      simp only [List.foldr_cons]
      rw [ih2, hl.comm]

end Counts

/-! ## The concrete encoding used by the driver is lawful -/

private theorem decIds_encIds (l : List Id) : decIds (encIds l) = l := by
  simp [decIds, encIds, List.map_map, Function.comp_def]

private theorem decReview_encReview (r : Review) : decReview (encReview r) = some r := by
  simp [decReview, encReview, Json.ofObj, Json.get?, Json.path?, decIds_encIds]

private theorem decReviews_enc (l : List (String × Review)) :
    decReviews (l.map fun ar => (ar.1, encReview ar.2)) = some l := by
  induction l with
  | nil => rfl
  | cons ar l ih => simp [decReviews, decReview_encReview, ih]

private theorem decRevision_encRevision (r : Revision) : decRevision (encRevision r) = some r := by
  simp [decRevision, encRevision, Json.ofObj, Json.get?, Json.path?, decIds_encIds, decReviews_enc]

private theorem encRevision_ne_null (r : Revision) : encRevision r ≠ Json.null := by
  simp [encRevision, Json.ofObj]

private theorem ofName_name (s : PStatus) : PStatus.ofName s.name = some s := by
  cases s <;> simp [PStatus.ofName, PStatus.name]

private theorem decPState_encPState (s : PState) : decPState (encPState s) = some s := by
  simp [decPState, encPState, Json.ofObj, Json.get?, ofName_name]

@[simp] private theorem encRevisionOpt_none : encRevisionOpt none = Json.null := rfl
@[simp] private theorem encRevisionOpt_some (r : Revision) : encRevisionOpt (some r) = encRevision r := rfl

private theorem decRevisions_enc (l : List (Id × Option Revision)) :
    decRevisions (l.map fun kv => (kv.1, encRevisionOpt kv.2)) = some l := by
  induction l with
  | nil => rfl
  | cons kv l ih =>
    obtain ⟨k, o⟩ := kv
    cases o with
    | none => simp [decRevisions, decRevOpt, ih]
    | some r =>
      have h : decRevOpt (encRevision r) = some (some r) := by
        unfold decRevOpt
        split
        · next h => exact absurd h (encRevision_ne_null r)
        · simp [decRevision_encRevision]
      simp [decRevisions, h, ih]

private theorem decPatch_encPatch (p : Patch) : decPatch (encPatch p) = some p := by
  have h := decRevisions_enc p.revisions
  simp only [decPatch, encPatch, Json.ofObj, Json.get?, decPState_encPState, Json.members_ofObj]
  simp [h, decPState_encPState]

theorem stdPatchCodec_lawful : stdPatchCodec.Lawful where
  dec_enc := decPatch_encPatch
  decRev_encRev := decRevision_encRevision
  encRev_ne_null := encRevision_ne_null
  revisions_at := by
    intro p
    have : stdPatchCodec.encRevOpt = encRevisionOpt := by
      funext o; cases o <;> rfl
    rw [this]
    simp [stdPatchCodec, encPatch, Json.ofObj, Json.get?]
  state_at := by
    intro p
    refine ⟨encPState p.state, ?_, decPState_encPState _, ?_⟩
    · simp [stdPatchCodec, encPatch, Json.ofObj, Json.get?]
    · simp [encPState, Json.ofObj, Json.get?]

private theorem decIState_encIState (s : IState) : decIState (encIState s) = some s := by
  cases s with
  | «open» => simp [decIState, encIState, Json.ofObj, Json.get?]
  | closed r => cases r <;> simp [decIState, encIState, Json.ofObj, Json.get?]

private theorem decIssue_encIssue (i : Issue) : decIssue (encIssue i) = some i := by
  simp [decIssue, encIssue, Json.ofObj, Json.get?, Json.path?, decIState_encIState, decIds_encIds]

theorem stdIssueCodec_lawful : stdIssueCodec.Lawful where
  dec_enc := decIssue_encIssue
  state_at := by
    intro i
    refine ⟨encIState i.state, ?_, decIState_encIState _, ?_, ?_⟩
    · simp [stdIssueCodec, encIssue, Json.ofObj, Json.get?]
    · cases i.state with
      | «open» => simp [encIState, Json.ofObj, Json.get?, IState.name]
      | closed r => cases r <;> simp [encIState, Json.ofObj, Json.get?, IState.name]
    · cases i.state with
      | «open» => simp [encIState, Json.ofObj, Json.get?, IState.reasonName]
      | closed r => cases r <;> simp [encIState, Json.ofObj, Json.get?, IState.reasonName]


end HeartwoodModel.CobCache
