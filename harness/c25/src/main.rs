//! C25 — sync targets. Runs the real `Announcer` and `Fetcher` state machines on operation sequences.
//!
//! Announcer case: `A <me> <repl> <preferred> <synced> <unsynced> <ops>`
//! Fetcher case:   `F <me> <repl> <seeds> <extra> <ops>`
//! (the same tokens the Lean driver reads; see `lean/HeartwoodModel/Driver/C25.lean`).
//! Node `k` is the k-th of 16 fixed node ids sorted by public key, so that `BTreeSet` order = index order.
//! The oracle evaluates the property statement over *sets of distinct nodes other than the local node*,
//! independently of the model.

use std::collections::{BTreeMap, BTreeSet, HashSet};
use std::ops::ControlFlow;
use std::time::Duration;

use radicle::crypto::test::signer::MockSigner;
use radicle::crypto::Signer as _;
use radicle::node::sync::announce::{self, Announcer, AnnouncerConfig, AnnouncerError, AnnouncerResult};
use radicle::node::sync::fetch::{self, Candidate, Fetcher, FetcherConfig, FetcherError, FetcherResult};
use radicle::node::sync::ReplicationFactor;
use radicle::node::{Address, FetchResult, NodeId};
use verif_common::*;

const N_NODES: usize = 16;

fn nodes() -> Vec<NodeId> {
    let mut v: Vec<NodeId> = (0..N_NODES)
        .map(|i| {
            let mut seed = [0x25u8; 32];
            seed[0] = i as u8;
            *MockSigner::from_seed(seed).public_key()
        })
        .collect();
    v.sort();
    v.dedup();
    assert_eq!(v.len(), N_NODES);
    v
}

fn set(s: &str) -> Option<Vec<usize>> {
    if s == "-" {
        return Some(vec![]);
    }
    let v: Vec<usize> = s.split(',').map(|x| x.parse().ok()).collect::<Option<_>>()?;
    if v.windows(2).any(|w| w[0] >= w[1]) || v.iter().any(|k| *k >= N_NODES) {
        return None;
    }
    Some(v)
}

fn list(s: &str) -> Option<Vec<usize>> {
    if s == "-" {
        return Some(vec![]);
    }
    let v: Vec<usize> = s.split(',').map(|x| x.parse().ok()).collect::<Option<_>>()?;
    if v.iter().any(|k| *k >= N_NODES) {
        return None;
    }
    Some(v)
}

fn repl(s: &str) -> Option<ReplicationFactor> {
    if let Some(n) = s.strip_prefix('m') {
        Some(ReplicationFactor::must_reach(n.parse().ok()?))
    } else if let Some(r) = s.strip_prefix('r') {
        let (lo, hi) = r.split_once('-')?;
        Some(ReplicationFactor::range(lo.parse().ok()?, hi.parse().ok()?))
    } else {
        None
    }
}

fn bound(r: &ReplicationFactor) -> usize {
    r.upper_bound().unwrap_or(r.lower_bound())
}

fn show(ns: impl IntoIterator<Item = NodeId>, all: &[NodeId]) -> String {
    let mut v: Vec<u64> = ns.into_iter().map(|n| all.iter().position(|x| *x == n).map(|i| i as u64).unwrap_or(999)).collect();
    v.sort();
    nats(&v)
}

fn bad() -> Outcome {
    Outcome::new("bad-case").trivial().tag("bad-case")
}

fn run_announcer(f: &[&str]) -> Outcome {
    if f.len() != 7 {
        return bad();
    }
    let all = nodes();
    let (Ok(me), Some(rf), Some(pref), Some(synced), Some(unsynced)) = (f[1].parse::<usize>(), repl(f[2]), set(f[3]), set(f[4]), set(f[5])) else {
        return bad();
    };
    if me >= N_NODES {
        return bad();
    }
    let ops: Vec<&str> = if f[6] == "-" { vec![] } else { f[6].split(',').collect() };
    let to = |v: &[usize]| v.iter().map(|k| all[*k]).collect::<BTreeSet<NodeId>>();
    let cfg = AnnouncerConfig::public(all[me], rf, to(&pref), to(&synced), to(&unsynced));
    let mut viol: Vec<(String, String)> = vec![];
    let mut tags: Vec<String> = vec!["announcer".into()];
    let mut out = String::new();
    let mut ann = match catch(|| Announcer::new(cfg)) {
        Err(m) => return Outcome::new("panic").tag("panic").violation("announcer-panic", m),
        Ok(Err(AnnouncerError::NoSeeds)) => return Outcome::new("new:noSeeds").trivial().tag("ann-new-noSeeds"),
        Ok(Err(AnnouncerError::AlreadySynced(a))) => {
            return Outcome::new(format!("new:already:{}/{}", a.preferred(), a.synced())).trivial().tag("ann-new-already")
        }
        Ok(Err(AnnouncerError::Target(_))) => return Outcome::new("new:target").trivial().tag("ann-new-target"),
        Ok(Ok(a)) => a,
    };
    out.push_str("ok");
    // --- specification state: sets of distinct nodes other than the local node ---
    let pref_s: BTreeSet<usize> = pref.iter().copied().filter(|k| *k != me).collect();
    let mut s: BTreeSet<usize> = synced.iter().copied().filter(|k| *k != me).collect();
    let b = bound(ann.target().replicas());
    let target_met = |s: &BTreeSet<usize>| pref_s.is_subset(s) && s.len() >= b;
    if target_met(&s) {
        viol.push(("announcer-constructed-with-target-met".into(), "Announcer::new returned an announcer whose target is already met".into()));
    }
    let mut done = false;
    let mut broke = false;
    for op in ops {
        if done {
            break;
        }
        let res = catch(|| -> Option<(Announcer, bool)> {
            match op {
                "q" => {
                    let ts = ann.to_sync();
                    if ts.contains(&all[me]) {
                        viol.push(("announcer-handed-out-local".into(), "to_sync() contains the local node".into()));
                    }
                    out.push_str(&format!(";Q{}", show(ts, &all)));
                    Some((ann, false))
                }
                "c" => match ann.can_continue() {
                    ControlFlow::Break(no) => {
                        out.push_str(&format!(";N{}", show(no.synced().keys().copied(), &all)));
                        tags.push("ann-no-nodes".into());
                        None
                    }
                    ControlFlow::Continue(a) => {
                        out.push_str(";K");
                        Some((a, false))
                    }
                },
                "t" => {
                    let met = target_met(&s);
                    match ann.timed_out() {
                        AnnouncerResult::Success(su) => {
                            let (kind, p, n) = match su.outcome() {
                                announce::SuccessfulOutcome::MinReplicationFactor { preferred, synced } => ("min", preferred, synced),
                                announce::SuccessfulOutcome::MaxReplicationFactor { preferred, synced } => ("max", preferred, synced),
                            };
                            out.push_str(&format!(";S{kind}:{p}/{n}:{}", show(su.synced().keys().copied(), &all)));
                            tags.push("ann-timedout-success".into());
                            if !met {
                                viol.push(("announcer-success-target-unmet".into(), format!("timed_out() reports success, synced set {s:?}, preferred {pref_s:?}, bound {b}")));
                            }
                            if su.synced().contains_key(&all[me]) {
                                viol.push(("announcer-counted-local".into(), "local node in the synced map".into()));
                            }
                        }
                        AnnouncerResult::TimedOut(to) => {
                            out.push_str(&format!(";T{}|{}", show(to.synced().keys().copied(), &all), show(to.timed_out().iter().copied(), &all)));
                            tags.push("ann-timedout-timeout".into());
                            if met {
                                viol.push(("announcer-timeout-target-met".into(), format!("timed_out() reports a timeout although the target is met: synced set {s:?}, preferred {pref_s:?}, bound {b}")));
                            }
                            if to.synced().contains_key(&all[me]) || to.timed_out().contains(&all[me]) {
                                viol.push(("announcer-counted-local".into(), "local node in the synced map or timed-out set".into()));
                            }
                        }
                        AnnouncerResult::NoNodes(_) => out.push_str(";?"),
                    }
                    None
                }
                _ => {
                    let k: usize = op.strip_prefix('s').and_then(|x| x.parse().ok()).filter(|k| *k < N_NODES).expect("bad-op");
                    let before = ann.progress();
                    let r = ann.synced_with(all[k], Duration::from_secs(1));
                    if k != me {
                        s.insert(k);
                    }
                    let met = target_met(&s);
                    let want_p = s.intersection(&pref_s).count();
                    match r {
                        ControlFlow::Continue(p) => {
                            out.push_str(&format!(";C{}/{}", p.preferred(), p.synced()));
                            if k == me {
                                tags.push("ann-sync-local".into());
                                if p != before {
                                    viol.push(("announcer-counted-local".into(), "synced_with(local) changed the progress".into()));
                                }
                            } else if met && !broke {
                                viol.push(("announcer-continue-target-met".into(), format!("synced_with({k}) continues although the target is met: synced set {s:?}, preferred {pref_s:?}, bound {b}")));
                            }
                            if p.synced() != s.len() || p.preferred() != want_p {
                                viol.push(("announcer-count-mismatch".into(), format!("progress {}/{} but {} distinct synced nodes, {} preferred", p.preferred(), p.synced(), s.len(), want_p)));
                            }
                            Some((ann, false))
                        }
                        ControlFlow::Break(su) => {
                            let (kind, p, n) = match su.outcome() {
                                announce::SuccessfulOutcome::MinReplicationFactor { preferred, synced } => ("min", preferred, synced),
                                announce::SuccessfulOutcome::MaxReplicationFactor { preferred, synced } => ("max", preferred, synced),
                            };
                            out.push_str(&format!(";B{kind}:{p}/{n}"));
                            if !met {
                                viol.push(("announcer-success-target-unmet".into(), format!("synced_with({k}) reports success, synced set {s:?}, preferred {pref_s:?}, bound {b}")));
                            }
                            if n != s.len() || p != want_p {
                                viol.push(("announcer-count-mismatch".into(), format!("outcome {p}/{n} but {} distinct synced nodes, {} preferred", s.len(), want_p)));
                            }
                            Some((ann, true))
                        }
                    }
                }
            }
        });
        match res {
            Err(m) => {
                if m == "bad-op" {
                    return bad();
                }
                return Outcome::new("panic").tag("panic").violation("announcer-panic", m);
            }
            Ok(None) => {
                done = true;
                // `ann` was consumed; stop.
                let mut o = Outcome::new(out);
                o.violations = viol;
                tags.sort();
                tags.dedup();
                o.tags = tags;
                return o;
            }
            Ok(Some((a, b))) => {
                ann = a;
                if b {
                    broke = true;
                    tags.push("ann-break".into());
                }
            }
        }
    }
    let mut o = Outcome::new(out);
    o.violations = viol;
    o.nontrivial = true;
    tags.sort();
    tags.dedup();
    o.tags = tags;
    o
}

fn success() -> FetchResult {
    FetchResult::Success { updated: vec![], namespaces: HashSet::new(), clone: false }
}

fn fet_outcome(o: &fetch::SuccessfulOutcome) -> String {
    match o {
        fetch::SuccessfulOutcome::PreferredNodes { preferred } => format!("pref{preferred}"),
        fetch::SuccessfulOutcome::MinReplicas { succeeded } => format!("min{succeeded}"),
        fetch::SuccessfulOutcome::MaxReplicas { succeeded, min, max } => format!("max{succeeded}/{min}/{max}"),
    }
}

fn run_fetcher(f: &[&str]) -> Outcome {
    if f.len() != 6 {
        return bad();
    }
    let all = nodes();
    let (Ok(me), Some(rf), Some(seeds), Some(extra)) = (f[1].parse::<usize>(), repl(f[2]), set(f[3]), list(f[4])) else {
        return bad();
    };
    if me >= N_NODES {
        return bad();
    }
    let ops: Vec<&str> = if f[5] == "-" { vec![] } else { f[5].split(',').collect() };
    let cfg = FetcherConfig::public(seeds.iter().map(|k| all[*k]).collect(), rf, all[me])
        .with_candidates(extra.iter().map(|k| Candidate::new(all[*k])));
    let mut viol: Vec<(String, String)> = vec![];
    let mut tags: Vec<String> = vec!["fetcher".into()];
    let mut out = String::new();
    let mut fet = match catch(|| Fetcher::new(cfg)) {
        Err(m) => return Outcome::new("panic").tag("panic").violation("fetcher-panic", m),
        Ok(Err(FetcherError::NoCandidates)) => return Outcome::new("new:noCandidates").trivial().tag("fet-new-noCandidates"),
        Ok(Err(FetcherError::Target(_))) => return Outcome::new("new:target").trivial().tag("fet-new-target"),
        Ok(Err(_)) => return Outcome::new("new:other").trivial(),
        Ok(Ok(x)) => x,
    };
    out.push_str("ok");
    // --- specification state ---
    let seeds_s: BTreeSet<usize> = seeds.iter().copied().collect();
    let b = bound(fet.target().replicas());
    let mut first: BTreeMap<usize, bool> = BTreeMap::new(); // first reported result per node != me
    let mut reported: BTreeSet<usize> = BTreeSet::new(); // nodes for which any result was reported
    let succ = |first: &BTreeMap<usize, bool>| first.iter().filter(|(_, ok)| **ok).map(|(k, _)| *k).collect::<BTreeSet<usize>>();
    let target_met = |s: &BTreeSet<usize>| (!seeds_s.is_empty() && seeds_s.is_subset(s)) || s.len() >= b;
    let addr = Address::from(std::net::SocketAddr::from(([8, 8, 8, 8], 8776)));
    let idx = |n: &NodeId| all.iter().position(|x| x == n);
    let mut finished = false;
    let mut dup = false;
    let mut local_reported = false;
    for op in ops {
        let r = catch(|| -> Result<(), ()> {
            match op {
                "n" | "f" => {
                    let got = if op == "n" { fet.next_node() } else { fet.next_fetch().map(|(n, _)| n) };
                    match got {
                        None => out.push_str(&format!(";{op}-")),
                        Some(n) => {
                            let k = idx(&n);
                            out.push_str(&format!(";{op}{}", k.map(|k| k.to_string()).unwrap_or("?".into())));
                            if k == Some(me) {
                                viol.push(("fetcher-handed-out-local".into(), format!("{} returned the local node", if op == "n" { "next_node" } else { "next_fetch" })));
                            }
                            if let Some(k) = k {
                                if reported.contains(&k) {
                                    viol.push(("fetcher-handed-out-node-with-result".into(), format!("node {k} already has a result but was handed out by {}", if op == "n" { "next_node" } else { "next_fetch" })));
                                }
                            }
                        }
                    }
                    Ok(())
                }
                "z" => Err(()),
                _ => {
                    let (c, k) = op.split_at(1);
                    let k: usize = k.parse().ok().filter(|k| *k < N_NODES).expect("bad-op");
                    match c {
                        "r" => {
                            fet.ready_to_fetch(all[k], addr.clone());
                            out.push_str(";r");
                        }
                        "x" => {
                            fet.fetch_failed(all[k], "verif");
                            out.push_str(";x");
                            if k != me {
                                first.entry(k).or_insert(false);
                            } else {
                                local_reported = true;
                            }
                            if !reported.insert(k) {
                                dup = true;
                            }
                        }
                        "o" | "e" => {
                            let ok = c == "o";
                            let res = if ok { success() } else { FetchResult::Failed { reason: "verif".into() } };
                            let r = fet.fetch_complete(all[k], res);
                            if k != me {
                                first.entry(k).or_insert(ok);
                            } else {
                                local_reported = true;
                            }
                            if !reported.insert(k) {
                                dup = true;
                            }
                            let s = succ(&first);
                            let met = target_met(&s);
                            let want_p = s.intersection(&seeds_s).count();
                            let (p, n) = match r {
                                ControlFlow::Continue(p) => {
                                    out.push_str(&format!(";C{}/{}", p.preferred(), p.succeeded()));
                                    if met {
                                        viol.push(("fetcher-continue-target-met".into(), format!("fetch_complete({k}) continues although the target is met: succeeded set {s:?}, seeds {seeds_s:?}, bound {b}")));
                                    }
                                    (p.preferred(), p.succeeded())
                                }
                                ControlFlow::Break(su) => {
                                    out.push_str(&format!(";B{}:{}/{}", fet_outcome(su.outcome()), su.progress().preferred(), su.progress().succeeded()));
                                    if !met {
                                        viol.push(("fetcher-success-target-unmet".into(), format!("fetch_complete({k}) reports success, but the distinct non-local succeeded nodes are {s:?}, seeds {seeds_s:?}, bound {b}")));
                                    }
                                    (su.progress().preferred(), su.progress().succeeded())
                                }
                            };
                            if n != s.len() || p != want_p {
                                viol.push(("fetcher-count-mismatch".into(), format!("counters {p}/{n} but {} distinct non-local succeeded nodes, {} of them preferred", s.len(), want_p)));
                            }
                        }
                        _ => panic!("bad-op"),
                    }
                    Ok(())
                }
            }
        });
        match r {
            Err(m) if m == "bad-op" => return bad(),
            Err(m) => return Outcome::new("panic").tag("panic").violation("fetcher-panic", m),
            Ok(Err(())) => {
                finished = true;
                break;
            }
            Ok(Ok(())) => {}
        }
    }
    if finished {
        let s = succ(&first);
        let met = target_met(&s);
        match catch(|| fet.finish()) {
            Err(m) => return Outcome::new("panic").tag("panic").violation("fetcher-panic", m),
            Ok(FetcherResult::TargetReached(su)) => {
                out.push_str(&format!(";R{}:{}/{}", fet_outcome(su.outcome()), su.progress().preferred(), su.progress().succeeded()));
                tags.push("fet-finish-reached".into());
                if !met {
                    viol.push(("fetcher-success-target-unmet".into(), format!("finish() reports TargetReached, but the distinct non-local succeeded nodes are {s:?}, seeds {seeds_s:?}, bound {b}")));
                }
                if su.fetch_results().iter().any(|(n, r)| *n == all[me] && r.is_success()) {
                    viol.push(("fetcher-counted-local".into(), "a successful result of the local node is among the results".into()));
                }
            }
            Ok(FetcherResult::TargetError(miss)) => {
                out.push_str(&format!(
                    ";E{}:{}:{}/{}",
                    show(miss.missed_nodes().iter().copied(), &all),
                    miss.required_nodes(),
                    miss.progress().preferred(),
                    miss.progress().succeeded()
                ));
                tags.push("fet-finish-missed".into());
                if met {
                    viol.push(("fetcher-failure-target-met".into(), format!("finish() reports TargetError although the target is met: succeeded set {s:?}, seeds {seeds_s:?}, bound {b}")));
                }
                if miss.fetch_results().failed().any(|(n, _)| *n == all[me]) {
                    // observation only (fetch_failed is not guarded); never counts towards the target
                    tags.push("obs-local-node-in-failed-list".into());
                }
            }
        }
    }
    if dup {
        tags.push("fet-repeated-result".into());
    }
    if local_reported {
        tags.push("fet-local-reported".into());
    }
    if seeds_s.contains(&me) {
        tags.push("fet-local-among-seeds".into());
    }
    let mut o = Outcome::new(out);
    o.violations = viol;
    o.nontrivial = true;
    tags.sort();
    tags.dedup();
    o.tags = tags;
    o
}

fn run_case(input: &str) -> Outcome {
    let f: Vec<&str> = input.split(' ').collect();
    match f.first() {
        Some(&"A") => run_announcer(&f),
        Some(&"F") => run_fetcher(&f),
        _ => bad(),
    }
}

fn gen_set(rng: &mut Rng, universe: u64, max: u64) -> Vec<u64> {
    let n = rng.below(max + 1);
    let mut s = BTreeSet::new();
    for _ in 0..n {
        s.insert(rng.below(universe));
    }
    s.into_iter().collect()
}

fn gen_repl(rng: &mut Rng) -> String {
    match rng.below(4) {
        0 | 1 => format!("m{}", rng.below(5)),
        2 => {
            let lo = rng.below(4);
            format!("r{lo}-{}", lo + rng.range(1, 3))
        }
        _ => format!("r{}-{}", rng.below(4), rng.below(5)),
    }
}

fn gen_case(rng: &mut Rng) -> String {
    let universe = rng.range(4, 9);
    let me = rng.below(universe);
    let repl = gen_repl(rng);
    if rng.bool() {
        // announcer
        let pref = gen_set(rng, universe, 3);
        let synced = gen_set(rng, universe, 2);
        let mut unsynced = gen_set(rng, universe, 5);
        if unsynced.is_empty() && rng.chance(3, 4) {
            unsynced.push(rng.below(universe));
        }
        let n = rng.range(1, 10);
        let mut ops = vec![];
        for _ in 0..n {
            ops.push(match rng.below(12) {
                0 => "q".to_string(),
                1 => "c".to_string(),
                2 => format!("s{me}"),
                // nodes of the universe (known, unknown, repeated), sometimes one outside every set
                3 => format!("s{}", universe + rng.below(3)),
                _ => format!("s{}", rng.below(universe)),
            });
        }
        ops.push("t".into());
        format!("A {me} {repl} {} {} {} {}", nats(&pref), nats(&synced), nats(&unsynced), ops.join(","))
    } else {
        let seeds = gen_set(rng, universe, 3);
        let extra: Vec<u64> = (0..rng.below(5)).map(|_| rng.below(universe)).collect();
        let n = rng.range(1, 14);
        let mut ops = vec![];
        let mut handed: Vec<u64> = vec![];
        for _ in 0..n {
            let k = if !handed.is_empty() && rng.chance(2, 3) { *rng.pick(&handed) } else { rng.below(universe + 1) };
            ops.push(match rng.below(14) {
                0..=2 => "n".to_string(),
                3 => "f".to_string(),
                4..=5 => format!("r{k}"),
                6 => format!("x{k}"),
                7 => format!("e{k}"),
                8 => format!("o{me}"),
                _ => format!("o{k}"),
            });
            handed.push(k);
        }
        if rng.chance(9, 10) {
            ops.push("z".into());
        }
        format!("F {me} {repl} {} {} {}", nats(&seeds), nats(&extra), ops.join(","))
    }
}

fn main() {
    let mut ctx = Ctx::from_args("C25");
    if !ctx.run_fixed(run_case) {
        let mut rng = ctx.rng();
        for _ in 0..ctx.size(6_000, 300_000) {
            let input = gen_case(&mut rng);
            let o = run_case(&input);
            ctx.record(&input, o);
        }
    }
    ctx.finish(
        "random announcer / fetcher configurations (local node inside or outside the sets, preferred seeds, synced/unsynced sets, \
         must-reach and range replication factors incl. 0 and inverted ranges, extra candidates with repetitions) and random operation sequences \
         (results for known, unknown and the local node, repeated results, failed-then-succeeded, queries of next_node/next_fetch/to_sync, \
         can_continue, timed_out/finish); non-trivial = the machine was constructed and at least one operation ran; distinct by input text",
        false,
    );
}
