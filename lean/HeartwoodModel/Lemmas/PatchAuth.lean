import HeartwoodModel.Model.Patch
import HeartwoodModel.Lemmas.Thread
import HeartwoodModel.Lemmas.Patch
/-! Lemmas for C07 on `Model/Patch.lean`: what an action authorised for a non-delegate can do. -/
set_option linter.unusedVariables false
namespace HeartwoodModel.Patch
open HeartwoodModel.Cob

theorem withRevision_spec {p p' : Patch} {r : Id} {f : Revision → Except Err Revision}
    (h : withRevision p r f = .ok p') :
    (p' = p) ∨ ∃ rev rev', get? r p.revisions = some (some rev) ∧ f rev = .ok rev' ∧
      p' = { p with revisions := ins r (some rev') p.revisions } := by
  unfold withRevision at h
  split at h
  · rename_i rev hrev
    split at h
    · rename_i rev' hf
      cases h
      exact Or.inr ⟨rev, rev', hrev, hf, rfl⟩
    · cases h
  · cases h; exact Or.inl rfl
  · cases h

theorem withReview_spec {p p' : Patch} {rid : Id} {f : Review → Except Err Review}
    (h : withReview p rid f = .ok p') :
    (p' = p) ∨ ∃ revId reviewer rev rv rv', get? rid p.reviews = some (some (revId, reviewer)) ∧
      get? revId p.revisions = some (some rev) ∧ get? reviewer rev.reviews = some rv ∧ f rv = .ok rv' ∧
      p' = { p with revisions := ins revId (some { rev with reviews := ins reviewer rv' rev.reviews }) p.revisions } := by
  unfold withReview at h
  split at h
  · rename_i revId reviewer hidx
    split at h
    · rename_i rev hrev
      split at h
      · rename_i rv hrv
        split at h
        · rename_i rv' hf
          cases h
          exact Or.inr ⟨revId, reviewer, rev, rv, rv', hidx, hrev, hrv, hf, rfl⟩
        · cases h
      · cases h
    · cases h; exact Or.inl rfl
    · cases h
  · cases h; exact Or.inl rfl
  · cases h

theorem lookupReview_some {p : Patch} {rid : Id} {rev : Revision} {rv : Review}
    (h : lookupReview p rid = .ok (some (rev, rv))) :
    ∃ revId reviewer, get? rid p.reviews = some (some (revId, reviewer)) ∧
      get? revId p.revisions = some (some rev) ∧ get? reviewer rev.reviews = some rv := by
  unfold lookupReview at h
  split at h
  · rename_i revId reviewer hidx
    split at h
    · rename_i rev0 hrev
      split at h
      · rename_i rv0 hrv
        cases h
        exact ⟨revId, reviewer, hidx, hrev, hrv⟩
      · cases h
    · cases h
    · cases h
  · cases h
  · cases h

theorem lookupRevision_some {p : Patch} {r : Id} {rev : Revision}
    (h : lookupRevision p r = .ok (some rev)) : get? r p.revisions = some (some rev) := by
  unfold lookupRevision at h
  split at h
  · rename_i rev0 hrev; cases h; exact hrev
  · cases h
  · cases h

/-- What `authorization = allow` implies for a non-delegate, per action. -/
def AuthFact (p : Patch) (actor : Actor) : Action → Prop
  | .edit _ => actor = p.author
  | .lifecycle _ => actor = p.author
  | .label ls => canon ls = p.labels
  | .assign _ => False
  | .merge _ _ _ => False
  | .reviewEdit review _ _ _ | .reviewRedact review =>
    ∃ rev rv, lookupReview p review = .ok (some (rev, rv)) ∧ actor = rv.author
  | .reviewCommentEdit review comment _ | .reviewCommentRedact review comment =>
    ∃ rev rv c, lookupReview p review = .ok (some (rev, rv)) ∧
      get? comment rv.comments.comments = some (some c) ∧ actor = c.author
  | .revisionEdit revision _ | .revisionRedact revision =>
    ∃ rev, lookupRevision p revision = .ok (some rev) ∧ actor = rev.author
  | .revisionCommentEdit revision comment _ | .revisionCommentRedact revision comment =>
    ∃ rev c, lookupRevision p revision = .ok (some rev) ∧
      get? comment rev.discussion.comments = some (some c) ∧ actor = c.author
  | _ => True

theorem auth_allow_nondelegate {p : Patch} {a : Action} {actor : Actor} {doc : Doc}
    (hnd : doc.isDelegate actor = false) (h : authorization p a actor doc = .ok .allow) :
    AuthFact p actor a := by
  unfold authorization at h
  rw [if_neg (by simp [hnd])] at h
  cases a <;> simp only [AuthFact] <;> simp only [] at h
  case edit t => simpa [Auth.ofBool] using h
  case lifecycle l => simpa [Auth.ofBool] using h
  case label ls => split at h <;> simp_all
  case assign as => cases h
  case merge r c anc => cases h
  case reviewEdit review s v l =>
    split at h
    · cases h
    · rename_i rev rv hl; exact ⟨rev, rv, hl, by simpa [Auth.ofBool] using h⟩
    · cases h
  case reviewRedact review =>
    split at h
    · cases h
    · rename_i rev rv hl; exact ⟨rev, rv, hl, by simpa [Auth.ofBool] using h⟩
    · cases h
  case reviewCommentEdit review comment b =>
    split at h
    · cases h
    · rename_i rev rv hl
      split at h
      · rename_i c hc; exact ⟨rev, rv, c, hl, hc, by simpa [Auth.ofBool] using h⟩
      · cases h
    · cases h
  case reviewCommentRedact review comment =>
    split at h
    · cases h
    · rename_i rev rv hl
      split at h
      · rename_i c hc; exact ⟨rev, rv, c, hl, hc, by simpa [Auth.ofBool] using h⟩
      · cases h
    · cases h
  case revisionEdit revision d =>
    split at h
    · cases h
    · rename_i rev hl; exact ⟨rev, hl, by simpa [Auth.ofBool] using h⟩
    · cases h
  case revisionRedact revision =>
    split at h
    · cases h
    · rename_i rev hl; exact ⟨rev, hl, by simpa [Auth.ofBool] using h⟩
    · cases h
  case revisionCommentEdit revision comment b =>
    split at h
    · cases h
    · rename_i rev hl
      split at h
      · rename_i c hc; exact ⟨rev, c, hl, hc, by simpa [Auth.ofBool] using h⟩
      · cases h
    · cases h
  case revisionCommentRedact revision comment =>
    split at h
    · cases h
    · rename_i rev hl
      split at h
      · rename_i c hc; exact ⟨rev, c, hl, hc, by simpa [Auth.ofBool] using h⟩
      · cases h
    · cases h


/-! ### what a non-delegate may do to a revision -/

/-- What "edited" means for a review: identity, author, summary, verdict, labels. -/
def Review.core (rv : Review) : Id × Actor × Option Nat × Option Bool × List Nat :=
  (rv.id, rv.author, rv.summary, rv.verdict, rv.labels)

/-- The revision contains nothing by anybody but `actor`. -/
structure OwnOnly (actor : Actor) (rev : Revision) : Prop where
  author : rev.author = actor
  discussion : ∀ id, rev.discussion.other actor id = none
  reviews : ∀ k rv, get? k rev.reviews = some rv → rv.author = actor ∧ ∀ id, rv.comments.other actor id = none

/-- `rev ⟶ rev'` by actions of the non-delegate `actor`: the author is fixed; the description changes
only if `actor` is the revision author; comments of other authors in the discussion are untouched;
reviews of other authors are kept with the same core; review comments of other authors keep their core. -/
structure RevStep (actor : Actor) (rev rev' : Revision) : Prop where
  author : rev'.author = rev.author
  description : rev.author ≠ actor → rev'.description = rev.description
  discussion : ∀ id, rev'.discussion.other actor id = rev.discussion.other actor id
  kept : ∀ k rv, get? k rev.reviews = some rv → rv.author ≠ actor →
    ∃ rv', get? k rev'.reviews = some rv' ∧ rv'.core = rv.core
  origin : ∀ k rv', get? k rev'.reviews = some rv' →
    (∃ rv, get? k rev.reviews = some rv ∧ rv'.author = rv.author ∧
      ∀ id, rv'.comments.otherCore actor id = rv.comments.otherCore actor id) ∨
    (rv'.author = actor ∧ ∀ id, rv'.comments.other actor id = none)

theorem otherCore_none {actor : Actor} {t : Thread} {id : Id} :
    t.otherCore actor id = none ↔ t.other actor id = none := by
  simp [Thread.otherCore]

theorem other_empty (actor : Actor) (id : Id) : Thread.empty.other actor id = none := by
  simp [Thread.other, Thread.empty, get?]

theorem RevStep.refl (actor : Actor) (rev : Revision) : RevStep actor rev rev :=
  ⟨rfl, fun _ => rfl, fun _ => rfl, fun k rv h _ => ⟨rv, h, rfl⟩,
   fun k rv h => Or.inl ⟨rv, h, rfl, fun _ => rfl⟩⟩

theorem RevStep.trans {actor : Actor} {r1 r2 r3 : Revision} (h12 : RevStep actor r1 r2)
    (h23 : RevStep actor r2 r3) : RevStep actor r1 r3 := by
  refine ⟨h23.author.trans h12.author, fun hne => ?_, fun id => (h23.discussion id).trans (h12.discussion id),
    fun k rv hk hne => ?_, fun k rv3 hk => ?_⟩
  · rw [h23.description (by rw [h12.author]; exact hne), h12.description hne]
  · obtain ⟨rv2, hk2, hc2⟩ := h12.kept k rv hk hne
    have hne2 : rv2.author ≠ actor := by
      have : rv2.author = rv.author := by
        have := congrArg (fun c => c.2.1) hc2; simpa [Review.core] using this
      rw [this]; exact hne
    obtain ⟨rv3, hk3, hc3⟩ := h23.kept k rv2 hk2 hne2
    exact ⟨rv3, hk3, hc3.trans hc2⟩
  · rcases h23.origin k rv3 hk with ⟨rv2, hk2, ha2, ho2⟩ | ⟨ha, ho⟩
    · rcases h12.origin k rv2 hk2 with ⟨rv1, hk1, ha1, ho1⟩ | ⟨ha1, ho1⟩
      · exact Or.inl ⟨rv1, hk1, ha2.trans ha1, fun id => (ho2 id).trans (ho1 id)⟩
      · refine Or.inr ⟨ha2.trans ha1, fun id => ?_⟩
        have := ho2 id
        rw [otherCore_none.mpr (ho1 id)] at this
        exact otherCore_none.mp this
    · exact Or.inr ⟨ha, ho⟩

theorem OwnOnly.step {actor : Actor} {rev rev' : Revision} (ho : OwnOnly actor rev)
    (hs : RevStep actor rev rev') : OwnOnly actor rev' := by
  refine ⟨hs.author.trans ho.author, fun id => (hs.discussion id).trans (ho.discussion id), fun k rv' hk => ?_⟩
  rcases hs.origin k rv' hk with ⟨rv, hk0, ha, hoc⟩ | ⟨ha, hoc⟩
  · obtain ⟨ha0, ho0⟩ := ho.reviews k rv hk0
    refine ⟨ha.trans ha0, fun id => ?_⟩
    have := hoc id
    rw [otherCore_none.mpr (ho0 id)] at this
    exact otherCore_none.mp this
  · exact ⟨ha, hoc⟩

theorem get?_del_self {α : Type} (k : Nat) (m : List (Nat × α)) : get? k (del k m) = none := by
  induction m with
  | nil => simp [del, get?]
  | cons y ys ih =>
    obtain ⟨k', v'⟩ := y
    simp only [del]
    split
    · exact ih
    · rename_i hk; simp [get?, hk, ih]

theorem RevStep.of_discussion {actor : Actor} {rev : Revision} {t' : Thread}
    (hd : ∀ id, t'.other actor id = rev.discussion.other actor id) :
    RevStep actor rev { rev with discussion := t' } :=
  ⟨rfl, fun _ => rfl, hd, fun k rv h _ => ⟨rv, h, rfl⟩, fun k rv h => Or.inl ⟨rv, h, rfl, fun _ => rfl⟩⟩

theorem RevStep.of_description {actor : Actor} {rev : Revision} {d : List (Actor × Nat)}
    (ha : rev.author = actor) : RevStep actor rev { rev with description := d } :=
  ⟨rfl, fun hne => absurd ha hne, fun _ => rfl, fun k rv h _ => ⟨rv, h, rfl⟩,
   fun k rv h => Or.inl ⟨rv, h, rfl, fun _ => rfl⟩⟩

theorem RevStep.of_review_update {actor : Actor} {rev : Revision} {k : Actor} {rv rv' : Review}
    (hk : get? k rev.reviews = some rv) (ha : rv'.author = rv.author)
    (hc : rv.author ≠ actor → rv'.core = rv.core)
    (ho : ∀ id, rv'.comments.otherCore actor id = rv.comments.otherCore actor id) :
    RevStep actor rev { rev with reviews := ins k rv' rev.reviews } := by
  refine ⟨rfl, fun _ => rfl, fun _ => rfl, fun k0 rv0 hk0 hne => ?_, fun k0 rv0 hk0 => ?_⟩
  · by_cases hkk : k0 = k
    · subst hkk
      rw [hk] at hk0; cases hk0
      exact ⟨rv', by simp [get?_ins_self], hc hne⟩
    · exact ⟨rv0, by simpa [get?_ins_ne _ _ hkk] using hk0, rfl⟩
  · by_cases hkk : k0 = k
    · subst hkk
      simp only [get?_ins_self, Option.some.injEq] at hk0
      subst hk0
      exact Or.inl ⟨rv, hk, ha, ho⟩
    · simp only [get?_ins_ne _ _ hkk] at hk0
      exact Or.inl ⟨rv0, hk0, rfl, fun _ => rfl⟩

theorem RevStep.of_review_insert {actor : Actor} {rev : Revision} {k : Actor} {rvn : Review}
    (hk : get? k rev.reviews = none) (ha : rvn.author = actor) (hc : rvn.comments = Thread.empty) :
    RevStep actor rev { rev with reviews := ins k rvn rev.reviews } := by
  refine ⟨rfl, fun _ => rfl, fun _ => rfl, fun k0 rv0 hk0 hne => ?_, fun k0 rv0 hk0 => ?_⟩
  · have hkk : k0 ≠ k := by intro h; subst h; rw [hk] at hk0; cases hk0
    exact ⟨rv0, by simpa [get?_ins_ne _ _ hkk] using hk0, rfl⟩
  · by_cases hkk : k0 = k
    · subst hkk
      simp only [get?_ins_self, Option.some.injEq] at hk0
      subst hk0
      exact Or.inr ⟨ha, fun id => by rw [hc]; exact other_empty _ _⟩
    · simp only [get?_ins_ne _ _ hkk] at hk0
      exact Or.inl ⟨rv0, hk0, rfl, fun _ => rfl⟩

theorem RevStep.of_review_delete {actor : Actor} {rev : Revision} {k : Actor} {rv : Review}
    (hk : get? k rev.reviews = some rv) (ha : rv.author = actor) :
    RevStep actor rev { rev with reviews := del k rev.reviews } := by
  refine ⟨rfl, fun _ => rfl, fun _ => rfl, fun k0 rv0 hk0 hne => ?_, fun k0 rv0 hk0 => ?_⟩
  · have hkk : k0 ≠ k := by intro h; subst h; rw [hk] at hk0; cases hk0; exact hne ha
    exact ⟨rv0, by simpa [get?_del_ne _ hkk] using hk0, rfl⟩
  · have hkk : k0 ≠ k := by intro h; subst h; simp [get?_del_self] at hk0
    simp only [get?_del_ne _ hkk] at hk0
    exact Or.inl ⟨rv0, hk0, rfl, fun _ => rfl⟩

/-! ### the relation between the revision maps before and after -/

/-- `e` (the id of the op being applied) is fresh for `actor` in `p`: whatever is stored under `e`
contains nothing by other authors. -/
structure Fresh (actor : Actor) (e : Id) (p : Patch) : Prop where
  own : ∀ rev, get? e p.revisions = some (some rev) → OwnOnly actor rev
  disc : ∀ r rev, get? r p.revisions = some (some rev) → rev.discussion.other actor e = none
  rcom : ∀ r rev k rv, get? r p.revisions = some (some rev) → get? k rev.reviews = some rv →
    rv.comments.other actor e = none

/-- Relation between the patch before and after actions of the non-delegate `actor` (entry `e`):
every live revision of another author stays live and is related by `RevStep`; every live revision
afterwards either stems from one before (`RevStep`) or is `actor`'s own new revision `e`. A revision
disappears only by redaction through its own author. -/
structure RevsRel (actor : Actor) (e : Id) (p p' : Patch) : Prop where
  fwd : ∀ r rev, get? r p.revisions = some (some rev) → rev.author ≠ actor →
    ∃ rev', get? r p'.revisions = some (some rev') ∧ RevStep actor rev rev'
  bwd : ∀ r rev', get? r p'.revisions = some (some rev') →
    (∃ rev, get? r p.revisions = some (some rev) ∧ RevStep actor rev rev') ∨ (r = e ∧ OwnOnly actor rev')

theorem RevsRel.same {actor : Actor} {e : Id} {p p' : Patch} (h : p'.revisions = p.revisions) :
    RevsRel actor e p p' :=
  ⟨fun r rev hr _ => ⟨rev, h ▸ hr, RevStep.refl _ _⟩, fun r rev' hr => Or.inl ⟨rev', h ▸ hr, RevStep.refl _ _⟩⟩

theorem RevsRel.update {actor : Actor} {e : Id} {p p' : Patch} {r0 : Id} {rev0 rev0' : Revision}
    (h : p'.revisions = ins r0 (some rev0') p.revisions) (h0 : get? r0 p.revisions = some (some rev0))
    (hs : RevStep actor rev0 rev0') : RevsRel actor e p p' := by
  refine ⟨fun r rev hr _ => ?_, fun r rev' hr => ?_⟩
  · by_cases hrr : r = r0
    · subst hrr; rw [h0] at hr; cases hr
      exact ⟨rev0', by rw [h, get?_ins_self], hs⟩
    · exact ⟨rev, by rw [h, get?_ins_ne _ _ hrr]; exact hr, RevStep.refl _ _⟩
  · by_cases hrr : r = r0
    · subst hrr
      rw [h, get?_ins_self] at hr; cases hr
      exact Or.inl ⟨rev0, h0, hs⟩
    · rw [h, get?_ins_ne _ _ hrr] at hr
      exact Or.inl ⟨rev', hr, RevStep.refl _ _⟩

theorem RevsRel.redact {actor : Actor} {e : Id} {p p' : Patch} {r0 : Id}
    (h : p'.revisions = ins r0 none p.revisions)
    (h0 : ∀ rev, get? r0 p.revisions = some (some rev) → rev.author = actor) : RevsRel actor e p p' := by
  refine ⟨fun r rev hr hne => ?_, fun r rev' hr => ?_⟩
  · have hrr : r ≠ r0 := by intro hh; subst hh; exact hne (h0 rev hr)
    exact ⟨rev, by rw [h, get?_ins_ne _ _ hrr]; exact hr, RevStep.refl _ _⟩
  · by_cases hrr : r = r0
    · subst hrr; rw [h, get?_ins_self] at hr; cases hr
    · rw [h, get?_ins_ne _ _ hrr] at hr
      exact Or.inl ⟨rev', hr, RevStep.refl _ _⟩

theorem RevsRel.new {actor : Actor} {e : Id} {p p' : Patch} {revn : Revision}
    (h : p'.revisions = ins e (some revn) p.revisions) (hf : Fresh actor e p) (hn : OwnOnly actor revn) :
    RevsRel actor e p p' := by
  refine ⟨fun r rev hr hne => ?_, fun r rev' hr => ?_⟩
  · have hrr : r ≠ e := by intro hh; subst hh; exact hne (hf.own rev hr).author
    exact ⟨rev, by rw [h, get?_ins_ne _ _ hrr]; exact hr, RevStep.refl _ _⟩
  · by_cases hrr : r = e
    · subst hrr; rw [h, get?_ins_self] at hr; cases hr
      exact Or.inr ⟨rfl, hn⟩
    · rw [h, get?_ins_ne _ _ hrr] at hr
      exact Or.inl ⟨rev', hr, RevStep.refl _ _⟩

theorem RevsRel.trans {actor : Actor} {e : Id} {p1 p2 p3 : Patch} (h12 : RevsRel actor e p1 p2)
    (h23 : RevsRel actor e p2 p3) : RevsRel actor e p1 p3 := by
  refine ⟨fun r rev hr hne => ?_, fun r rev3 hr => ?_⟩
  · obtain ⟨rev2, hr2, hs2⟩ := h12.fwd r rev hr hne
    obtain ⟨rev3, hr3, hs3⟩ := h23.fwd r rev2 hr2 (by rw [hs2.author]; exact hne)
    exact ⟨rev3, hr3, hs2.trans hs3⟩
  · rcases h23.bwd r rev3 hr with ⟨rev2, hr2, hs3⟩ | ⟨hre, ho⟩
    · rcases h12.bwd r rev2 hr2 with ⟨rev1, hr1, hs2⟩ | ⟨hre, ho⟩
      · exact Or.inl ⟨rev1, hr1, hs2.trans hs3⟩
      · exact Or.inr ⟨hre, ho.step hs3⟩
    · exact Or.inr ⟨hre, ho⟩

/-- Freshness is preserved. -/
theorem Fresh.step {actor : Actor} {e : Id} {p p' : Patch} (hf : Fresh actor e p)
    (hr : RevsRel actor e p p') : Fresh actor e p' := by
  refine ⟨fun rev' h => ?_, fun r rev' h => ?_, fun r rev' k rv' h hk => ?_⟩
  · rcases hr.bwd e rev' h with ⟨rev, h0, hs⟩ | ⟨_, ho⟩
    · exact (hf.own rev h0).step hs
    · exact ho
  · rcases hr.bwd r rev' h with ⟨rev, h0, hs⟩ | ⟨_, ho⟩
    · rw [hs.discussion]; exact hf.disc r rev h0
    · exact ho.discussion e
  · rcases hr.bwd r rev' h with ⟨rev, h0, hs⟩ | ⟨_, ho⟩
    · rcases hs.origin k rv' hk with ⟨rv, hk0, _, hoc⟩ | ⟨_, hoc⟩
      · have := hoc e
        rw [otherCore_none.mpr (hf.rcom r rev k rv h0 hk0)] at this
        exact otherCore_none.mp this
      · exact hoc e
    · exact (ho.reviews k rv' hk).2 e


theorem liftThread_ok {rv rv' : Review} {r : Except Err Thread} (h : liftThread rv r = .ok rv') :
    ∃ t, r = .ok t ∧ rv' = { rv with comments := t } := by
  unfold liftThread at h
  split at h
  · cases h; exact ⟨_, rfl, rfl⟩
  · cases h

theorem liftDiscussion_ok {rev rev' : Revision} {r : Except Err Thread} (h : liftDiscussion rev r = .ok rev') :
    ∃ t, r = .ok t ∧ rev' = { rev with discussion := t } := by
  unfold liftDiscussion at h
  split at h
  · cases h; exact ⟨_, rfl, rfl⟩
  · cases h

/-- A review-comment action (through `withReview`) whose thread operation preserves the comments of
other authors (up to `core`). -/
theorem revsRel_withReview {actor : Actor} {e : Id} {p p' : Patch} {rid : Id}
    {f : Review → Except Err Review} (h : withReview p rid f = .ok p')
    (hf : ∀ revId reviewer rev rv rv', get? rid p.reviews = some (some (revId, reviewer)) →
      get? revId p.revisions = some (some rev) → get? reviewer rev.reviews = some rv → f rv = .ok rv' →
      rv'.author = rv.author ∧ (rv.author ≠ actor → rv'.core = rv.core) ∧
      ∀ id, rv'.comments.otherCore actor id = rv.comments.otherCore actor id) :
    RevsRel actor e p p' := by
  rcases withReview_spec h with rfl | ⟨revId, reviewer, rev, rv, rv', hidx, hrev, hrv, hfr, rfl⟩
  · exact RevsRel.same rfl
  · obtain ⟨ha, hc, ho⟩ := hf revId reviewer rev rv rv' hidx hrev hrv hfr
    exact RevsRel.update rfl hrev (RevStep.of_review_update hrv ha hc ho)

theorem revsRel_withRevision {actor : Actor} {e : Id} {p p' : Patch} {r : Id}
    {f : Revision → Except Err Revision} (h : withRevision p r f = .ok p')
    (hf : ∀ rev rev', get? r p.revisions = some (some rev) → f rev = .ok rev' → RevStep actor rev rev') :
    RevsRel actor e p p' := by
  rcases withRevision_spec h with rfl | ⟨rev, rev', hrev, hfr, rfl⟩
  · exact RevsRel.same rfl
  · exact RevsRel.update rfl hrev (hf rev rev' hrev hfr)

/-- **Central lemma**: an applied action that was authorised for a non-delegate relates the revision
maps by `RevsRel`. -/
theorem unauth_action_revsRel {p p' : Patch} {a : Action} {e : Id} {actor : Actor} {doc : Doc}
    (hnd : doc.isDelegate actor = false) (hauth : authorization p a actor doc = .ok .allow)
    (hfr : Fresh actor e p) (h : action p a e actor doc = .ok p') : RevsRel actor e p p' := by
  have hfact := auth_allow_nondelegate hnd hauth
  cases a with
  | edit t => simp only [action] at h; cases h; exact RevsRel.same rfl
  | label ls => simp only [action] at h; cases h; exact RevsRel.same rfl
  | lifecycle l =>
    simp only [action] at h
    split at h
    · split at h <;> cases h <;> exact RevsRel.same rfl
    · cases h; exact RevsRel.same rfl
  | assign as => exact absurd hfact (by simp [AuthFact])
  | merge r c anc => exact absurd hfact (by simp [AuthFact])
  | review r s v l =>
    simp only [action] at h
    split at h
    · rename_i rev hrev
      split at h
      · rename_i hnone
        cases h
        exact RevsRel.update rfl hrev (RevStep.of_review_insert hnone rfl rfl)
      · cases h; exact RevsRel.same rfl
    · cases h; exact RevsRel.same rfl
  | reviewEdit review s v l =>
    simp only [action] at h
    split at h
    · cases h
    · obtain ⟨rev0, rv0, hl, hact⟩ := hfact
      obtain ⟨revId0, reviewer0, hi0, hr0, hv0⟩ := lookupReview_some hl
      refine revsRel_withReview h ?_
      intro revId reviewer rev rv rv' hidx hrev hrv hfr'
      rw [hi0] at hidx; cases hidx
      rw [hr0] at hrev; cases hrev
      rw [hv0] at hrv; cases hrv
      cases hfr'
      exact ⟨rfl, fun hne => absurd hact.symm hne, fun _ => rfl⟩
  | reviewRedact review =>
    obtain ⟨rev0, rv0, hl, hact⟩ := hfact
    obtain ⟨revId0, reviewer0, hi0, hr0, hv0⟩ := lookupReview_some hl
    simp only [action, hi0, hr0] at h
    cases h
    exact RevsRel.update rfl hr0 (RevStep.of_review_delete hv0 hact.symm)
  | reviewComment review b rt =>
    simp only [action] at h
    refine revsRel_withReview h ?_
    intro revId reviewer rev rv rv' hidx hrev hrv hfr'
    obtain ⟨t, ht, rfl⟩ := liftThread_ok hfr'
    exact ⟨rfl, fun _ => rfl, Thread.otherCore_of_other
      (Thread.comment_other ht (hfr.rcom revId rev reviewer rv hrev hrv))⟩
  | reviewCommentEdit review comment b =>
    obtain ⟨rev0, rv0, c, hl, hc, hact⟩ := hfact
    obtain ⟨revId0, reviewer0, hi0, hr0, hv0⟩ := lookupReview_some hl
    simp only [action] at h
    refine revsRel_withReview h ?_
    intro revId reviewer rev rv rv' hidx hrev hrv hfr'
    rw [hi0] at hidx; cases hidx
    rw [hr0] at hrev; cases hrev
    rw [hv0] at hrv; cases hrv
    obtain ⟨t, ht, rfl⟩ := liftThread_ok hfr'
    exact ⟨rfl, fun _ => rfl, Thread.otherCore_of_other
      (Thread.edit_other ht (fun c' hc' => by rw [hc] at hc'; cases hc'; exact hact.symm))⟩
  | reviewCommentRedact review comment =>
    obtain ⟨rev0, rv0, c, hl, hc, hact⟩ := hfact
    obtain ⟨revId0, reviewer0, hi0, hr0, hv0⟩ := lookupReview_some hl
    simp only [action] at h
    refine revsRel_withReview h ?_
    intro revId reviewer rev rv rv' hidx hrev hrv hfr'
    rw [hi0] at hidx; cases hidx
    rw [hr0] at hrev; cases hrev
    rw [hv0] at hrv; cases hrv
    obtain ⟨t, ht, rfl⟩ := liftThread_ok hfr'
    exact ⟨rfl, fun _ => rfl, Thread.otherCore_of_other
      (Thread.redact_other ht (fun c' hc' => by rw [hc] at hc'; cases hc'; exact hact.symm))⟩
  | reviewCommentReact review comment =>
    simp only [action] at h
    refine revsRel_withReview h ?_
    intro revId reviewer rev rv rv' hidx hrev hrv hfr'
    obtain ⟨t, ht, rfl⟩ := liftThread_ok hfr'
    exact ⟨rfl, fun _ => rfl, Thread.otherCore_of_other
      (Thread.other_of_comments_eq (Thread.react_comments ht))⟩
  | reviewCommentResolve review comment =>
    simp only [action] at h
    refine revsRel_withReview h ?_
    intro revId reviewer rev rv rv' hidx hrev hrv hfr'
    obtain ⟨t, ht, rfl⟩ := liftThread_ok hfr'
    exact ⟨rfl, fun _ => rfl, Thread.setResolved_otherCore ht⟩
  | reviewCommentUnresolve review comment =>
    simp only [action] at h
    refine revsRel_withReview h ?_
    intro revId reviewer rev rv rv' hidx hrev hrv hfr'
    obtain ⟨t, ht, rfl⟩ := liftThread_ok hfr'
    exact ⟨rfl, fun _ => rfl, Thread.setResolved_otherCore ht⟩
  | revision d =>
    simp only [action] at h
    cases h
    exact RevsRel.new rfl hfr ⟨rfl, fun id => other_empty _ _, fun k rv hk => by simp [get?] at hk⟩
  | revisionEdit r d =>
    obtain ⟨rev0, hl, hact⟩ := hfact
    have hr0 := lookupRevision_some hl
    simp only [action, hr0] at h
    cases h
    exact RevsRel.update rfl hr0 (RevStep.of_description hact.symm)
  | revisionReact r =>
    simp only [action] at h
    split at h <;> cases h
    exact RevsRel.same rfl
  | revisionRedact r =>
    obtain ⟨rev0, hl, hact⟩ := hfact
    have hr0 := lookupRevision_some hl
    simp only [action] at h
    split at h
    · cases h
    · split at h
      · cases h
      · rw [hr0] at h
        simp only at h
        split at h
        · cases h; exact RevsRel.same rfl
        · cases h
          exact RevsRel.redact rfl (fun rev hrev => by rw [hr0] at hrev; cases hrev; exact hact.symm)
  | revisionComment r b rt =>
    simp only [action] at h
    refine revsRel_withRevision h ?_
    intro rev rev' hrev hfr'
    obtain ⟨t, ht, rfl⟩ := liftDiscussion_ok hfr'
    exact RevStep.of_discussion (Thread.comment_other ht (hfr.disc r rev hrev))
  | revisionCommentEdit r comment b =>
    obtain ⟨rev0, c, hl, hc, hact⟩ := hfact
    have hr0 := lookupRevision_some hl
    simp only [action] at h
    refine revsRel_withRevision h ?_
    intro rev rev' hrev hfr'
    rw [hr0] at hrev; cases hrev
    obtain ⟨t, ht, rfl⟩ := liftDiscussion_ok hfr'
    exact RevStep.of_discussion
      (Thread.edit_other ht (fun c' hc' => by rw [hc] at hc'; cases hc'; exact hact.symm))
  | revisionCommentRedact r comment =>
    obtain ⟨rev0, c, hl, hc, hact⟩ := hfact
    have hr0 := lookupRevision_some hl
    simp only [action] at h
    refine revsRel_withRevision h ?_
    intro rev rev' hrev hfr'
    rw [hr0] at hrev; cases hrev
    obtain ⟨t, ht, rfl⟩ := liftDiscussion_ok hfr'
    exact RevStep.of_discussion
      (Thread.redact_other ht (fun c' hc' => by rw [hc] at hc'; cases hc'; exact hact.symm))
  | revisionCommentReact r comment =>
    simp only [action] at h
    refine revsRel_withRevision h ?_
    intro rev rev' hrev hfr'
    obtain ⟨t, ht, rfl⟩ := liftDiscussion_ok hfr'
    exact RevStep.of_discussion (Thread.other_of_comments_eq (Thread.react_comments ht))

end HeartwoodModel.Patch
