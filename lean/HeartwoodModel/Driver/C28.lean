import HeartwoodModel.Model.Clean
import HeartwoodModel.Driver.Util
/-! Driver entry for C28.

Case: `<local> <delegates> <idstate> <namespaces>`
* `local` — peer index of the storage's own node; `delegates` — comma list of peer indices;
* `idstate` — `ok`, or `bad` when `refs/rad/id` does not lead to a loadable identity document;
* `namespaces` — comma list (or `-`) of `<peer><v|j><m|s|c>`: `v` = the namespace is named by the peer's
  node id, `j` = a stray directory `<id>junk`; `m`/`s`/`c` = `rad/sigrefs` missing / present and valid /
  present but unloadable.
Output: `err` | `removed:<remotes>` | `cleaned:<deleted>;kept:<peer><v|j>,…` (all sorted). -/
namespace HeartwoodModel.Driver.C28
open HeartwoodModel.Clean HeartwoodModel.Driver.Util

def parseNs (s : String) : Option Ns :=
  match s.toList.reverse with
  | sg :: vl :: digits =>
    match nat? (String.ofList digits.reverse) with
    | none => none
    | some p =>
      let valid? : Option Bool := if vl == 'v' then some true else if vl == 'j' then some false else none
      let sig? : Option Sig :=
        if sg == 'm' then some .missing else if sg == 's' then some .valid
        else if sg == 'c' then some .corrupt else none
      match valid?, sig? with
      | some v, some g => some { id := p, valid := v, sig := g }
      | _, _ => none
  | _ => none

def insertSorted (x : Nat) : List Nat → List Nat
  | [] => [x]
  | y :: ys => if x ≤ y then x :: y :: ys else y :: insertSorted x ys

def sortNats (xs : List Nat) : List Nat := xs.foldr insertSorted []

/-- sort key of a namespace: `2 * id + (0 if valid else 1)` -/
def showKept (rem : List Ns) : String :=
  let keys := sortNats (rem.map (fun ns => 2 * ns.id + (if ns.valid then 0 else 1)))
  if keys.isEmpty then "-" else
  joinWith "," (keys.map (fun k => s!"{k / 2}{if k % 2 == 0 then "v" else "j"}"))

def distinctNames (nss : List Ns) : Bool :=
  let keys := nss.map (fun ns => 2 * ns.id + (if ns.valid then 0 else 1))
  keys.length == keys.eraseDups.length

def run (args : List String) : String :=
  match args with
  | [me, dels, idst, nss] =>
    match nat? me, nats? dels with
    | some me, some dels =>
      let nssP : Option (List Ns) := if nss == "-" then some [] else (splitOn nss ',').mapM parseNs
      match nssP with
      | none => "bad-op"
      | some nss =>
        if dels.isEmpty || !(idst == "ok" || idst == "bad") || !distinctNames nss then "bad-op" else
        let delegates := if idst == "ok" then some dels else none
        match clean me delegates nss with
        | (.err, _) => "err"
        | (.removedRepo ids, _) => s!"removed:{showNats (sortNats ids)}"
        | (.cleaned del, rem) => s!"cleaned:{showNats (sortNats del)};kept:{showKept rem}"
    | _, _ => "bad-op"
  | _ => "bad-op"

end HeartwoodModel.Driver.C28
