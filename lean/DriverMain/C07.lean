import HeartwoodModel.Driver.Loop
import HeartwoodModel.Driver.C07
def main : IO Unit := HeartwoodModel.Driver.driverMain "C07" HeartwoodModel.Driver.C07.run
