import HeartwoodModel.Lemmas.DagFuel
/-!
# C23 — DAG traversals respect dependencies and pruning removes exactly descendants

Property theorems about `Model/Dag.lean` (the model of `crates/radicle-dag/src/lib.rs`).

Vocabulary. `g.Wf` (`Lemmas/DagBasic.lean`): the `BTreeMap`/`BTreeSet` representation is sorted, every
edge is recorded at both of its ends — so the graph is *closed*: both ends of an edge are nodes — and
`tips`/`roots` are the nodes without dependents/dependencies. This is what `Dag::node` (fresh key) and
`Dag::dependency` (both ends present) build (`node_wf`, `dependency_wf`, `build_wf`), and it is the
"dependency graph" of the property. `Acyclic g.dependentsOf`: no key reaches itself along dependents
edges. `g.Desc u v`: `v` is a transitive dependent of `u`. `Before l u v`: `u` occurs strictly before
`v` in `l`. Stateful filters (`FnMut`) are arbitrary; `traced`/`tracedF` only record on which keys the
filter was called and what it answered (`calledOf`, `brokenOf`).
-/
set_option linter.unusedSimpArgs false
set_option linter.unusedVariables false
namespace HeartwoodModel.Dag
variable {V : Type}

/-! ### `sorted_by` -/

/-- **The topological order lists every node exactly once and after all of its dependencies**, for
every comparison function. -/
theorem sorted_is_topological {g : Dag V} (hwf : g.Wf) (hac : Acyclic g.dependentsOf)
    {cmp : K → K → Ordering} {fuel : Nat} {ord : List K} (h : g.sortedBy cmp fuel = some ord) :
    ord.Nodup ∧ (∀ k, k ∈ ord ↔ g.contains k = true) ∧
    (∀ v, v ∈ ord → ∀ u ∈ g.depsOf v, Before ord u v) := by
  simp only [Dag.sortedBy, Option.map_eq_some_iff] at h
  obtain ⟨⟨vis, ord'⟩, hd, rfl⟩ := h
  obtain ⟨htopo, hmem⟩ := order_topo (acyclic_visitNext hac) hd
  have hkeys : ∀ k, k ∈ ord' ↔ g.contains k = true := by
    intro k
    rw [hmem]
    simp only [mem_isort, Dag.mem_keys_iff]
    constructor
    · rintro ⟨r, hr, rfl | h1⟩
      · exact hr
      · exact (hwf.desc_contains (reach_visitNext_iff.mp h1)).2
    · intro hk; exact ⟨k, hk, .inl rfl⟩
  refine ⟨htopo.nodup, hkeys, ?_⟩
  intro v hv u hu
  have huv : v ∈ g.dependentsOf u := (hwf.sym u v).mpr hu
  have huc : g.contains u = true := Dag.contains_of_mem_dependentsOf huv
  exact htopo.order u v ((hkeys u).mpr huc) hv (.step (mem_visitNext.mpr huv))

/-- The fuel the driver uses for `sorted_by` never runs out. -/
theorem sorted_fuel_sufficient (g : Dag V) (cmp : K → K → Ordering) :
    ∃ ord, g.sortedBy cmp (g.fuelFor g.len) = some ord := by
  have h1 := fuelFor_wD g g.len []
  obtain ⟨r, hr⟩ := dfs_visitNext_fuel g (fuel := g.fuelFor g.len)
    (isort (fun a b => cmp a b != .lt) g.keys) [] [] (by simp [length_isort, Dag.keys, Dag.len] at h1 ⊢; omega)
  exact ⟨r.2, by simp [Dag.sortedBy, hr]⟩

/-! ### `fold` -/

/-- `fold` panics exactly when the roots are not strictly ascending (the `assert!`). -/
theorem fold_panics_iff {A : Type} (g : Dag V) (fuel : Nat) (roots : List K) (a : A)
    (f : A → K → Node V → A × Bool) (hf : g.fold fuel roots a f ≠ .fuel) :
    g.fold fuel roots a f = .panic ↔ strictAsc roots = false := by
  unfold Dag.fold at hf ⊢
  cases hs : strictAsc roots with
  | false => simp
  | true =>
    simp only [hs, Bool.not_true, Bool.false_eq_true, if_false] at hf ⊢
    cases hd : dfs g.visitNext fuel roots.reverse ([], []) with
    | none => simp [hd] at hf
    | some r =>
      simp only [hd]
      cases g.foldLoop fuel f r.2 [] a <;> simp

theorem fold_trace {A : Type} {g : Dag V} (hwf : g.Wf) (hac : Acyclic g.dependentsOf)
    {fuel : Nat} {roots : List K} {a a' : A} {f : A → K → Node V → A × Bool} {tr : List (K × Bool)}
    (h : g.fold fuel roots (a, []) (tracedF f) = .ok (a', tr)) :
    ∃ ord, Topo g.dependentsOf ord ∧ List.Sublist (calledOf tr) ord ∧
      ∀ x, x ∈ calledOf tr ↔
        g.contains x = true ∧ (∃ r ∈ roots, x = r ∨ g.Desc r x) ∧ ¬ ∃ b ∈ brokenOf tr, g.Desc b x := by
  unfold Dag.fold at h
  split at h
  · simp at h
  · cases hd : dfs g.visitNext fuel roots.reverse ([], []) with
    | none => simp [hd] at h
    | some r =>
      obtain ⟨vis, ord⟩ := r
      simp only [hd] at h
      cases hl : g.foldLoop fuel (tracedF f) ord [] (a, []) with
      | none => simp [hl] at h
      | some r2 =>
        simp only [hl, FoldOut.ok.injEq] at h
        subst h
        obtain ⟨htopo, hmem⟩ := order_topo (acyclic_visitNext hac) hd
        have htopo' : Topo g.dependentsOf ord :=
          ⟨htopo.nodup, fun u v hu hv hr => htopo.order u v hu hv (reach_visitNext_iff.mpr hr)⟩
        obtain ⟨ext, he, hp⟩ := foldLoop_post hwf hac fuel f ord [] a [] a' tr htopo' hl
        simp only [List.nil_append] at he
        subst he
        refine ⟨ord, htopo', hp.sub, ?_⟩
        intro x
        rw [hp.called x, hmem]
        simp only [List.mem_reverse, List.not_mem_nil, not_false_eq_true, true_and]
        constructor
        · rintro ⟨⟨r, hr, h1⟩, h2, h3⟩
          refine ⟨h2, ⟨r, hr, ?_⟩, h3⟩
          rcases h1 with h1 | h1
          · exact .inl h1
          · exact .inr (reach_visitNext_iff.mp h1)
        · rintro ⟨h2, ⟨r, hr, h1⟩, h3⟩
          refine ⟨⟨r, hr, ?_⟩, h2, h3⟩
          rcases h1 with h1 | h1
          · exact .inl h1
          · exact .inr (reach_visitNext_iff.mpr h1)

/-- **Folding visits nodes in a dependency-respecting order**: the filter is called at most once per
key, and on a node only after every visited node it transitively depends on. -/
theorem fold_visits_topologically {A : Type} {g : Dag V} (hwf : g.Wf) (hac : Acyclic g.dependentsOf)
    {fuel : Nat} {roots : List K} {a a' : A} {f : A → K → Node V → A × Bool} {tr : List (K × Bool)}
    (h : g.fold fuel roots (a, []) (tracedF f) = .ok (a', tr)) :
    (calledOf tr).Nodup ∧
    ∀ u v, u ∈ calledOf tr → v ∈ calledOf tr → g.Desc u v → Before (calledOf tr) u v := by
  obtain ⟨ord, htopo, hsub, _⟩ := fold_trace hwf hac h
  refine ⟨hsub.nodup htopo.nodup, ?_⟩
  intro u v hu hv hr
  exact Before.of_sublist hsub htopo.nodup (htopo.order u v (hsub.subset hu) (hsub.subset hv) hr) hu hv

/-- **Stopping at a node skips exactly that node's transitive dependents**: the filter is called on a
key iff it is a node reachable from the given roots and not a transitive dependent of a node at which
the filter answered `Break`. -/
theorem fold_break_skips_descendants {A : Type} {g : Dag V} (hwf : g.Wf) (hac : Acyclic g.dependentsOf)
    {fuel : Nat} {roots : List K} {a a' : A} {f : A → K → Node V → A × Bool} {tr : List (K × Bool)}
    (h : g.fold fuel roots (a, []) (tracedF f) = .ok (a', tr)) :
    ∀ x, x ∈ calledOf tr ↔
      g.contains x = true ∧ (∃ r ∈ roots, x = r ∨ g.Desc r x) ∧ ¬ ∃ b ∈ brokenOf tr, g.Desc b x := by
  obtain ⟨_, _, _, hc⟩ := fold_trace hwf hac h
  exact hc

/-- The fuel the driver uses for `fold` never runs out. -/
theorem fold_fuel_sufficient {A : Type} {g : Dag V} (hwf : g.Wf) (roots : List K) (a : A)
    (f : A → K → Node V → A × Bool) : g.fold (g.fuel2 roots.length) roots a f ≠ .fuel :=
  fold_fuel hwf roots a f

/-! ### `remove` -/

/-- **`remove` keeps the invariants and removes exactly the node and its transitive dependents.** -/
theorem remove_keeps_invariants {g g' : Dag V} (hwf : g.Wf) {fuel : Nat} {k : K}
    (h : g.remove fuel k = some g') :
    g'.Wf ∧
    (∀ x, g'.contains x = true ↔ g.contains x = true ∧ ¬ (g.contains k = true ∧ (x = k ∨ g.Desc k x))) ∧
    (∀ x n', g'.get x = some n' → ∃ n, g.get x = some n ∧ n'.value = n.value ∧ n'.deps = n.deps ∧
        ∀ y, y ∈ n'.dependents ↔ y ∈ n.dependents ∧ g'.contains y = true) :=
  remove_spec hwf h

theorem remove_fuel_sufficient {g : Dag V} (hwf : g.Wf) (k : K) : ∃ g', g.remove (g.fuelFor 1) k = some g' := by
  have := fuelFor_wD g 1 []
  exact removeL_fuel hwf _ g [] [k] (Rel.refl hwf) (by simpa using this)

/-! ### `prune_by` -/

theorem prune_trace {S : Type} {g g' : Dag V} (hwf : g.Wf) (hac : Acyclic g.dependentsOf)
    {fuel : Nat} {roots : List K} {filter : S → K → Node V → List (K × Node V) → S × Bool}
    {le : K × V → K × V → Bool} {s s' : S} {tr : List (K × Bool)}
    (h : g.pruneBy fuel roots (traced filter) le (s, []) = some (g', (s', tr))) :
    ∃ ord R, Topo g.dependentsOf ord ∧ (∀ x, x ∈ ord ↔ ∃ r ∈ roots, x = r ∨ g.Desc r x) ∧
      PrunePost g [] ord g' tr R := by
  unfold Dag.pruneBy at h
  cases hd : dfs (g.visitByNext le) fuel roots ([], []) with
  | none => simp [hd] at h
  | some r =>
    obtain ⟨vis, ord⟩ := r
    simp only [hd] at h
    obtain ⟨htopo, hmem⟩ := order_topo (acyclic_visitByNext hac le) hd
    have htopo' : Topo g.dependentsOf ord :=
      ⟨htopo.nodup, fun u v hu hv hr => htopo.order u v hu hv ((reach_visitByNext_iff hwf).mpr hr)⟩
    obtain ⟨ext, R, he, hp⟩ :=
      pruneLoop_post hwf hac fuel filter ord g s [] [] g' s' tr htopo' (Rel.refl hwf) (by simp) h
    simp only [List.nil_append] at he
    subst he
    refine ⟨ord, R, htopo', ?_, hp⟩
    intro x
    rw [hmem]
    constructor
    · rintro ⟨r, hr, h1 | h1⟩
      · exact ⟨r, hr, .inl h1⟩
      · exact ⟨r, hr, .inr ((reach_visitByNext_iff hwf).mp h1)⟩
    · rintro ⟨r, hr, h1 | h1⟩
      · exact ⟨r, hr, .inl h1⟩
      · exact ⟨r, hr, .inr ((reach_visitByNext_iff hwf).mpr h1)⟩

/-- **Pruning removes exactly the nodes at which the filter answered `Break` and their transitive
dependents**; the result is again well-formed and surviving nodes keep value and dependencies. -/
theorem prune_removes_exactly_descendants {S : Type} {g g' : Dag V} (hwf : g.Wf)
    (hac : Acyclic g.dependentsOf) {fuel : Nat} {roots : List K}
    {filter : S → K → Node V → List (K × Node V) → S × Bool}
    {le : K × V → K × V → Bool} {s s' : S} {tr : List (K × Bool)}
    (h : g.pruneBy fuel roots (traced filter) le (s, []) = some (g', (s', tr))) :
    g'.Wf ∧
    (∀ x, g'.contains x = true ↔ g.contains x = true ∧ ¬ ∃ b ∈ brokenOf tr, x = b ∨ g.Desc b x) ∧
    (∀ x n', g'.get x = some n' → ∃ n, g.get x = some n ∧ n'.value = n.value ∧ n'.deps = n.deps ∧
        ∀ y, y ∈ n'.dependents ↔ y ∈ n.dependents ∧ g'.contains y = true) := by
  obtain ⟨ord, R, _, _, hp⟩ := prune_trace hwf hac h
  have hR : ∀ x, x ∈ R ↔ ∃ b ∈ brokenOf tr, x = b ∨ g.Desc b x := by
    intro x
    constructor
    · intro hx
      rcases hp.sound x hx with h1 | h1
      · simp at h1
      · exact h1
    · rintro ⟨b, hb, rfl | hd⟩
      · exact hp.broken _ hb
      · exact closed_desc hp.closed (hp.broken b hb) hd
  have hcont : ∀ x, g'.contains x = true ↔ x ∉ R ∧ g.contains x = true := by
    intro u
    simp only [Dag.contains, hp.rel.get u]
    by_cases hu : u ∈ R <;> simp [hu]
  refine ⟨hp.rel.wf hwf hp.closed, ?_, ?_⟩
  · intro x
    rw [hcont, hR]
    exact And.comm
  · intro x n' hx
    obtain ⟨hxR, n0, hn0, rfl⟩ := hp.rel.get_some hx
    refine ⟨n0, hn0, rfl, rfl, ?_⟩
    intro y
    simp only [Node.strip_dependents, List.mem_filter, decide_eq_true_eq, hcont]
    constructor
    · rintro ⟨h1, h2⟩
      refine ⟨h1, h2, ?_⟩
      have : y ∈ g.dependentsOf x := by rw [Dag.dependentsOf_of_get hn0]; exact h1
      exact Dag.contains_of_mem_depsOf ((hwf.sym x y).mp this)
    · rintro ⟨h1, h2, _⟩
      exact ⟨h1, h2⟩

/-- **Pruning visits nodes in a dependency-respecting order**, and calls the filter exactly on the
nodes reachable from the given roots that are not transitive dependents of a pruned node. -/
theorem prune_visits_topologically {S : Type} {g g' : Dag V} (hwf : g.Wf)
    (hac : Acyclic g.dependentsOf) {fuel : Nat} {roots : List K}
    {filter : S → K → Node V → List (K × Node V) → S × Bool}
    {le : K × V → K × V → Bool} {s s' : S} {tr : List (K × Bool)}
    (h : g.pruneBy fuel roots (traced filter) le (s, []) = some (g', (s', tr))) :
    (calledOf tr).Nodup ∧
    (∀ u v, u ∈ calledOf tr → v ∈ calledOf tr → g.Desc u v → Before (calledOf tr) u v) ∧
    (∀ x, x ∈ calledOf tr ↔
      g.contains x = true ∧ (∃ r ∈ roots, x = r ∨ g.Desc r x) ∧ ¬ ∃ b ∈ brokenOf tr, g.Desc b x) := by
  obtain ⟨ord, R, htopo, hmem, hp⟩ := prune_trace hwf hac h
  refine ⟨hp.sub.nodup htopo.nodup, ?_, ?_⟩
  · intro u v hu hv hr
    exact Before.of_sublist hp.sub htopo.nodup
      (htopo.order u v (hp.sub.subset hu) (hp.sub.subset hv) hr) hu hv
  · intro x
    rw [hp.called x, hmem]
    simp only [List.not_mem_nil, not_false_eq_true, true_and]
    constructor
    · rintro ⟨h1, h2, h3⟩; exact ⟨h2, h1, h3⟩
    · rintro ⟨h1, h2, h3⟩; exact ⟨h2, h1, h3⟩

/-- The fuel the driver uses for `prune_by` never runs out. -/
theorem prune_fuel_sufficient {S : Type} {g : Dag V} (hwf : g.Wf) (roots : List K)
    (filter : S → K → Node V → List (K × Node V) → S × Bool) (le : K × V → K × V → Bool) (s : S) :
    ∃ r, g.pruneBy (g.fuel2 roots.length) roots filter le s = some r :=
  pruneBy_fuel hwf roots filter le s

/-! ### `merge` -/

/-- **Merging yields the union of nodes and edges** (`self`'s value wins on common keys), for a
well-formed `self` and a well-formed `other` in which every node is reachable from a root. -/
theorem merge_is_union {sf other r : Dag V} (hws : sf.Wf) (hwo : other.Wf)
    (hrr : other.RootReachable) {fuel : Nat} (h : sf.merge other fuel = some r) :
    r.Wf ∧
    (∀ x, r.contains x = true ↔ sf.contains x = true ∨ other.contains x = true) ∧
    (∀ x y, y ∈ r.depsOf x ↔ y ∈ sf.depsOf x ∨ y ∈ other.depsOf x) ∧
    (∀ x y, y ∈ r.dependentsOf x ↔ y ∈ sf.dependentsOf x ∨ y ∈ other.dependentsOf x) ∧
    (∀ x, (r.get x).map (·.value) =
      match sf.get x with
      | some n => some n.value
      | none => (other.get x).map (·.value)) :=
  merge_spec hws hwo hrr h

/-- Every well-formed acyclic graph is root-reachable (so `merge_is_union` applies to every acyclic
closed `other`). -/
theorem wf_acyclic_rootReachable {g : Dag V} (hwf : g.Wf) (hac : Acyclic g.dependentsOf) :
    g.RootReachable := by
  obtain ⟨ord, hs⟩ := sorted_fuel_sufficient g compare
  have h := hs
  simp only [Dag.sortedBy, Option.map_eq_some_iff] at h
  obtain ⟨⟨vis, ord'⟩, hd, rfl⟩ := h
  obtain ⟨htopo, _⟩ := order_topo (acyclic_visitNext hac) hd
  have htopo' : Topo g.dependentsOf ord' :=
    ⟨htopo.nodup, fun u v hu hv hr => htopo.order u v hu hv (reach_visitNext_iff.mpr hr)⟩
  exact rootReachable_of_topo hwf htopo' (fun x hx => ((sorted_is_topological hwf hac hs).2.1 x).mpr hx)

theorem merge_fuel_sufficient (sf other : Dag V) :
    ∃ r, sf.merge other (other.fuelFor other.roots.length) = some r := by
  have := fuelFor_wD other other.roots.length []
  exact mergeLoop_fuel other _ other.roots [] sf this

/-! ### building well-formed graphs; non-vacuity -/

/-- Adding edges between existing nodes keeps a graph well-formed. -/
theorem build_wf : ∀ (es : List (K × K)) {g : Dag V}, g.Wf →
    (∀ e ∈ es, g.contains e.1 = true ∧ g.contains e.2 = true) → (g.addEdges es).Wf := by
  intro es
  induction es with
  | nil => intro g h _; exact h
  | cons e es ih =>
    intro g h hc
    obtain ⟨h1, h2⟩ := hc e (by simp)
    apply ih (dependency_wf h h1 h2)
    intro e' he'
    rw [dependency_contains, dependency_contains]
    exact hc e' (List.mem_cons_of_mem _ he')

/-- If every edge goes from a smaller to a larger value of `rank`, the relation is acyclic. -/
theorem acyclic_of_rank {next : K → List K} (rank : K → Nat)
    (h : ∀ u v, v ∈ next u → rank u < rank v) : Acyclic next := by
  have : ∀ u v, Reach next u v → rank u < rank v := by
    intro u v hr
    induction hr with
    | step e => exact h _ _ e
    | trans e _ ih => exact Nat.lt_trans (h _ _ e) ih
  intro u hu
  exact Nat.lt_irrefl _ (this u u hu)

/-- The diamond `1 ← {2, 3} ← 4` (4 depends on 2 and 3, which depend on 1). -/
def exNodes : Dag Unit := (((Dag.empty.node 1 ()).node 2 ()).node 3 ()).node 4 ()
def exEdges : List (K × K) := [(2, 1), (3, 1), (4, 2), (4, 3)]
def exDiamond : Dag Unit := exNodes.addEdges exEdges

theorem exNodes_wf : exNodes.Wf := by
  unfold exNodes
  apply node_wf (node_wf (node_wf (node_wf empty_wf _ (by decide)) _ (by decide)) _ (by decide)) _
  decide

theorem exDiamond_wf : exDiamond.Wf :=
  build_wf exEdges exNodes_wf (by decide)

theorem exDiamond_acyclic : Acyclic exDiamond.dependentsOf := by
  apply acyclic_of_rank id
  intro u v hv
  have := ((addEdges_spec exEdges exNodes).dependents u v).mp hv
  rcases this with h1 | ⟨_, h1⟩
  · -- `exNodes` has no edges
    exfalso
    have hno : ∀ x, exNodes.dependentsOf x = [] := by
      intro x
      have := exNodes_wf.tips_iff x
      by_cases hc : exNodes.contains x = true
      · have hx : x ∈ exNodes.tips := by
          have : x = 1 ∨ x = 2 ∨ x = 3 ∨ x = 4 := by
            have := Dag.mem_keys_iff.mpr hc
            simpa [exNodes, Dag.keys, Dag.node, Dag.empty, mins] using this
          rcases this with rfl | rfl | rfl | rfl <;> decide
        exact (this.mp hx).2
      · have : exNodes.get x = none := Dag.not_contains_iff.mp (by simpa using hc)
        exact Dag.dependentsOf_of_none this
    rw [hno u] at h1
    simp at h1
  · simp only [exEdges, List.mem_cons, Prod.mk.injEq, List.not_mem_nil, or_false] at h1
    simp only [id]
    rcases h1 with ⟨rfl, rfl⟩ | ⟨rfl, rfl⟩ | ⟨rfl, rfl⟩ | ⟨rfl, rfl⟩ <;> decide

/-- Non-vacuity of `sorted_is_topological`, `remove_keeps_invariants`, `merge_is_union`: the diamond
satisfies all hypotheses and the model computes the expected values on it. -/
example : exDiamond.Wf ∧ Acyclic exDiamond.dependentsOf ∧ exDiamond.RootReachable ∧
    exDiamond.sorted (exDiamond.fuelFor exDiamond.len) = some [1, 2, 3, 4] ∧
    ((exDiamond.remove (exDiamond.fuelFor 1) 2).map (·.keys)) = some [1, 3] ∧
    ((Dag.empty.merge exDiamond (exDiamond.fuelFor exDiamond.roots.length)).map (·.keys)) = some [1, 2, 3, 4] :=
  ⟨exDiamond_wf, exDiamond_acyclic, wf_acyclic_rootReachable exDiamond_wf exDiamond_acyclic,
    by decide, by decide, by decide⟩

/-- Non-vacuity of the `fold` / `prune_by` theorems: on the diamond, breaking at `2` visits
`1, 2, 3` (not `4`), and pruning at `2` leaves `1, 3`. -/
example :
    (match exDiamond.fold (exDiamond.fuel2 1) [1] ((), []) (tracedF fun _ k _ => ((), k != 2)) with
      | .ok (_, tr) => some (calledOf tr, brokenOf tr)
      | _ => none) = some ([1, 2, 3], [2]) ∧
    ((exDiamond.pruneBy (exDiamond.fuel2 1) [1] (traced fun (_ : Unit) k _ _ => ((), k != 2))
        (fun x y => decide (x.1 ≤ y.1)) ((), [])).map fun r => (r.1.keys, calledOf r.2.2)) =
      some ([1, 3], [1, 2, 3]) := by
  constructor <;> decide

/-- The pre-`fix:` witness of `merge` (`other = {1, 2, 3; 3 → 1, 3 → 2}` merged into the empty graph):
with the queue seeded by every root all three nodes arrive. -/
example :
    let other : Dag Unit := (((Dag.empty.node 1 ()).node 2 ()).node 3 ()).addEdges [(3, 1), (3, 2)]
    ((Dag.empty.merge other (other.fuelFor other.roots.length)).map (·.keys)) = some [1, 2, 3] := by
  decide

/-- **Known limitation of `merge`, kept visible** (`merge_is_union` needs `other` closed): a node of
`other` whose only dependency is *not a node of `other`* is neither a root nor reachable from one, and
is lost. Such an `other` is not well-formed (`sym` fails: the edge is recorded at one end only). -/
theorem merge_dangling_counterexample :
    let other : Dag Unit := (Dag.empty.node 1 ()).dependency 1 9
    other.contains 1 = true ∧
    ((Dag.empty.merge other (other.fuelFor other.roots.length)).map (·.keys)) = some [] := by
  decide

end HeartwoodModel.Dag
