//! C27 — SSH agent client response parsing and SSH wire encoding of keys.
//!
//! Runs the REAL `AgentClient` (radicle-ssh) over a scripted `ClientStream` that answers every request
//! with the response bytes of the case, and the REAL `Encodable` impls of radicle-crypto.
//!
//! Case forms (same tokens the Lean driver reads; bytes in hex, `-` = empty):
//!   ident <resp>      request_identities::<PublicKey>()      -> ok:<key>,<key>… | err | panic
//!   sign <resp>       sign(&pk, data)                         -> ok:<sig> | err | panic
//!   ext <resp>        query_extension(..)                     -> ok:0|1 | err | panic
//!   pkread|sigread|skread <bytes>   K::read(&mut bytes.reader(0)) -> ok:<value> | err | panic
//!   rtsig <sig64> | rtsk <sk64>     write, then read          -> <written> <result>
//!   rtpk <pk32>       write, read_string, PublicKey::read on the blob -> <written> <result>
//!   rtids <pk>,<pk>… <comment>,<comment>…   identities answer built with the real writers,
//!                     then request_identities                 -> <answer> <result>
//!
//! Oracle (the property statement on what the real code did): no panic on any response; what was
//! written reads back unchanged.

use radicle_crypto::{PublicKey, SecretKey, Signature};
use radicle_ssh::agent::client::{AgentClient, ClientStream, Error};
use radicle_ssh::encoding::{Buffer, Encodable, Encoding, Reader};
use verif_common::*;

/// A stream that ignores requests and answers with canned bytes (the response body, i.e. what
/// follows the 4-byte length prefix on the socket).
struct Scripted(Vec<u8>);

impl ClientStream for Scripted {
    fn connect<P>(_path: P) -> Result<AgentClient<Self>, Error>
    where
        P: AsRef<std::path::Path> + Send,
    {
        unreachable!()
    }

    fn request(&mut self, _buf: &[u8]) -> Result<Buffer, Error> {
        Ok(Buffer::new(self.0.clone()))
    }
}

fn some_pk() -> PublicKey {
    PublicKey::from([0x42u8; 32])
}

fn hex_list(xs: &[Vec<u8>]) -> String {
    if xs.is_empty() {
        "-".into()
    } else {
        xs.iter().map(|x| hex(x)).collect::<Vec<_>>().join(",")
    }
}

fn unhex_list(s: &str) -> Option<Vec<Vec<u8>>> {
    if s == "-" {
        return Some(vec![]);
    }
    s.split(',').map(|t| if t == "_" { Some(vec![]) } else { unhex(t) }).collect()
}

/// `ok:<…>` / `err` / `panic`
fn show<T, E>(r: Result<Result<T, E>, String>, f: impl Fn(&T) -> String) -> (String, &'static str) {
    match r {
        Ok(Ok(v)) => (format!("ok:{}", f(&v)), "ok"),
        Ok(Err(_)) => ("err".to_string(), "err"),
        Err(_) => ("panic".to_string(), "panic"),
    }
}

fn run_case(input: &str) -> Outcome {
    let toks: Vec<&str> = input.split(' ').collect();
    let bad = || Outcome::new("bad-case").trivial();
    match toks.as_slice() {
        ["ident", r] => {
            let Some(resp) = unhex(r) else { return bad() };
            let res = catch(|| AgentClient::connect(Scripted(resp.clone())).request_identities::<PublicKey>());
            let nkeys = res.as_ref().ok().and_then(|r| r.as_ref().ok()).map(|k| k.len());
            let (out, kind) = show(res, |ks| hex_list(&ks.iter().map(|k| k.to_vec()).collect::<Vec<_>>()));
            let mut o = Outcome::new(out).tag(format!("ident-{kind}"));
            if let Some(n) = nkeys {
                o = o.tag(format!("ident-keys-{}", n.min(3)));
            }
            if kind == "panic" {
                o = o.violation("ident-panic", format!("request_identities panicked on response {r}"));
            }
            o.nontrivial = resp.first() == Some(&12) && resp.len() >= 5;
            o
        }
        ["sign", r] => {
            let Some(resp) = unhex(r) else { return bad() };
            let pk = some_pk();
            let res = catch(|| AgentClient::connect(Scripted(resp.clone())).sign(&pk, b"data"));
            let (out, kind) = show(res, |s| hex(&s[..]));
            let mut o = Outcome::new(out).tag(format!("sign-{kind}"));
            if kind == "panic" {
                o = o.violation("sign-panic", format!("sign panicked on response {r}"));
            }
            o.nontrivial = resp.first() == Some(&14) && resp.len() >= 5;
            o
        }
        ["ext", r] => {
            let Some(resp) = unhex(r) else { return bad() };
            let res = catch(|| AgentClient::connect(Scripted(resp.clone())).query_extension(b"ext", Buffer::default()));
            let (out, kind) = show(res, |b| (*b as u8).to_string());
            let mut o = Outcome::new(out).tag(format!("ext-{kind}"));
            if kind == "panic" {
                o = o.violation("ext-panic", format!("query_extension panicked on response {r}"));
            }
            o.nontrivial = resp.len() >= 5;
            o
        }
        [op @ ("pkread" | "sigread" | "skread"), r] => {
            let Some(bytes) = unhex(r) else { return bad() };
            let (out, kind) = match *op {
                "pkread" => show(catch(|| PublicKey::read(&mut bytes.reader(0))), |k| hex(&k[..])),
                "sigread" => show(catch(|| Signature::read(&mut bytes.reader(0))), |s| hex(&s[..])),
                _ => show(catch(|| SecretKey::read(&mut bytes.reader(0))), |s| hex(&s[..])),
            };
            let mut o = Outcome::new(out).tag(format!("{op}-{kind}"));
            if kind == "panic" {
                o = o.violation("key-read-panic", format!("{op} panicked on {r}"));
            }
            o.nontrivial = bytes.len() >= 4;
            o
        }
        ["rtsig", v] => {
            let Some(b) = unhex(v) else { return bad() };
            let Ok(arr) = <[u8; 64]>::try_from(b.as_slice()) else { return bad() };
            let sig = Signature::from(arr);
            let res = catch(|| {
                let mut buf = Buffer::default();
                sig.write(&mut buf);
                let r = Signature::read(&mut buf.reader(0));
                (buf.to_vec(), r)
            });
            rt_outcome("rtsig", "sig-roundtrip", res, |s| s[..].to_vec(), &b)
        }
        ["rtsk", v] => {
            let Some(b) = unhex(v) else { return bad() };
            let Ok(arr) = <[u8; 64]>::try_from(b.as_slice()) else { return bad() };
            let sk = SecretKey::from(arr);
            let res = catch(|| {
                let mut buf = Buffer::default();
                sk.write(&mut buf);
                let r = SecretKey::read(&mut buf.reader(0));
                (buf.to_vec(), r)
            });
            rt_outcome("rtsk", "sk-roundtrip", res, |s| s[..].to_vec(), &b)
        }
        ["rtpk", v] => {
            let Some(b) = unhex(v) else { return bad() };
            let Ok(arr) = <[u8; 32]>::try_from(b.as_slice()) else { return bad() };
            let pk = PublicKey::from(arr);
            // Reading fixed in DESIGN.md §6 C27: through the agent framing, as request_identities does.
            let res = catch(|| {
                let mut buf = Buffer::default();
                pk.write(&mut buf);
                let mut r = buf.reader(0);
                let read = match r.read_string() {
                    Ok(blob) => PublicKey::read(&mut blob.reader(0)).map_err(|_| ()),
                    Err(_) => Err(()),
                };
                (buf.to_vec(), read)
            });
            // Observation only: a direct read of what `write` wrote.
            let direct = catch(|| {
                let mut buf = Buffer::default();
                pk.write(&mut buf);
                PublicKey::read(&mut buf.reader(0)).is_ok()
            });
            let o = rt_outcome("rtpk", "pk-roundtrip", res, |k| k[..].to_vec(), &b);
            match direct {
                Ok(true) => o.tag("rtpk-direct-read-ok"),
                Ok(false) => o.tag("rtpk-direct-read-err"),
                Err(_) => o.violation("key-read-panic", "direct PublicKey::read of written key panicked"),
            }
        }
        ["rtids", pks, cms] => {
            let (Some(pks), Some(cms)) = (unhex_list(pks), unhex_list(cms)) else { return bad() };
            if pks.len() != cms.len() || pks.iter().any(|p| p.len() != 32) {
                return bad();
            }
            let keys: Vec<PublicKey> =
                pks.iter().map(|p| PublicKey::from(<[u8; 32]>::try_from(p.as_slice()).unwrap())).collect();
            let res = catch(|| {
                // byte SSH_AGENT_IDENTITIES_ANSWER, uint32 nkeys, (string key blob, string comment)*
                let mut resp: Vec<u8> = vec![12u8];
                resp.extend_u32(keys.len() as u32);
                for (k, c) in keys.iter().zip(cms.iter()) {
                    k.write(&mut resp);
                    resp.extend_ssh_string(c);
                }
                let r = AgentClient::connect(Scripted(resp.clone())).request_identities::<PublicKey>();
                (resp, r)
            });
            match res {
                Err(_) => Outcome::new("panic")
                    .tag("rtids-panic")
                    .violation("ident-panic", "writing or parsing an identities answer panicked"),
                Ok((written, r)) => {
                    let (out, kind) = show(Ok(r.as_ref().map(|ks| ks.iter().map(|k| k.to_vec()).collect::<Vec<_>>())), |ks| hex_list(ks));
                    let mut o = Outcome::new(format!("{} {}", hex(&written), out))
                        .tag(format!("rtids-{kind}"))
                        .tag(format!("rtids-n-{}", keys.len().min(3)));
                    let same = matches!(&r, Ok(ks) if ks.iter().map(|k| k.to_vec()).collect::<Vec<_>>() == pks);
                    if !same {
                        o = o.violation("identities-roundtrip", format!("{} keys written, read back {out}", keys.len()));
                    }
                    o.nontrivial = !keys.is_empty();
                    o
                }
            }
        }
        _ => bad(),
    }
}

fn rt_outcome<T, E>(
    op: &str,
    class: &str,
    res: Result<(Vec<u8>, Result<T, E>), String>,
    bytes: impl Fn(&T) -> Vec<u8>,
    expect: &[u8],
) -> Outcome {
    match res {
        Err(_) => Outcome::new("panic").tag(format!("{op}-panic")).violation("key-read-panic", format!("{op}: write/read panicked")),
        Ok((written, r)) => {
            let same = matches!(&r, Ok(v) if bytes(v) == expect);
            let (out, kind) = show(Ok(r), |v| hex(&bytes(v)));
            let mut o = Outcome::new(format!("{} {}", hex(&written), out)).tag(format!("{op}-{kind}"));
            if !same {
                o = o.violation(class, format!("{op}: wrote {} but read back {out}", hex(expect)));
            }
            o
        }
    }
}

// ---------------------------------------------------------------------------------------------
// generators

fn rbytes(rng: &mut Rng, n: u64) -> Vec<u8> {
    rng.bytes(n as usize)
}

fn ssh_string(s: &[u8]) -> Vec<u8> {
    let mut v = (s.len() as u32).to_be_bytes().to_vec();
    v.extend_from_slice(s);
    v
}

fn key_type(rng: &mut Rng) -> Vec<u8> {
    match rng.below(10) {
        0 => b"ssh-rsa".to_vec(),
        1 => b"ssh-ed25518".to_vec(),
        2 => vec![],
        3 => { let n_ = rng.below(14); rbytes(rng, n_ as u64) },
        _ => b"ssh-ed25519".to_vec(),
    }
}

fn blob_len(rng: &mut Rng, exact: usize) -> usize {
    match rng.below(12) {
        0 => 0,
        1 => 1,
        2 => exact - 1,
        3 => exact + 1,
        4 => 2 * exact,
        5 => rng.below(80) as usize,
        _ => exact,
    }
}

/// Key blob as found in an identities answer (contents of the outer string).
fn key_blob(rng: &mut Rng) -> Vec<u8> {
    if rng.chance(1, 12) {
        return { let n_ = rng.below(12); rbytes(rng, n_ as u64) };
    }
    let mut b = ssh_string(&key_type(rng));
    let n = blob_len(rng, 32);
    b.extend(ssh_string(&rng.bytes(n)));
    if rng.chance(1, 10) {
        b.extend({ let n_ = rng.range(1, 6); rbytes(rng, n_ as u64) });
    }
    b
}

fn identities_answer(rng: &mut Rng) -> Vec<u8> {
    let actual = rng.below(5);
    let declared: u32 = match rng.below(12) {
        0 => actual as u32 + 1,
        1 => (actual as u32).saturating_sub(1),
        2 => u32::MAX,
        3 => rng.next() as u32,
        _ => actual as u32,
    };
    let mut v = vec![if rng.chance(1, 16) { rng.next() as u8 } else { 12u8 }];
    v.extend(declared.to_be_bytes());
    for _ in 0..actual {
        v.extend(ssh_string(&key_blob(rng)));
        v.extend(ssh_string(&{ let n_ = rng.below(10); rbytes(rng, n_ as u64) }));
    }
    if rng.chance(1, 8) {
        v.extend({ let n_ = rng.range(1, 9); rbytes(rng, n_ as u64) });
    }
    v
}

fn sign_response(rng: &mut Rng) -> Vec<u8> {
    let first = match rng.below(12) {
        0 => 5u8,
        1 => 6,
        2 => rng.next() as u8,
        _ => 14,
    };
    let mut inner = ssh_string(&key_type(rng));
    let n = blob_len(rng, 64);
    inner.extend(ssh_string(&rng.bytes(n)));
    if rng.chance(1, 10) {
        inner.extend({ let n_ = rng.range(1, 5); rbytes(rng, n_ as u64) });
    }
    let mut v = vec![first];
    v.extend(ssh_string(&inner));
    if rng.chance(1, 10) {
        v.extend({ let n_ = rng.range(1, 5); rbytes(rng, n_ as u64) });
    }
    v
}

fn ext_response(rng: &mut Rng) -> Vec<u8> {
    let mut v = vec![*rng.pick(&[6u8, 5, 28, 0])];
    v.extend(ssh_string(&{ let n_ = rng.below(12); rbytes(rng, n_ as u64) }));
    v
}

/// Malformed stream: damage a well-formed message.
fn damage(rng: &mut Rng, mut v: Vec<u8>) -> Vec<u8> {
    match rng.below(10) {
        // keep
        0..=3 => v,
        // truncate (every prefix is reachable, including the empty response)
        4 | 5 => {
            let n = rng.below(v.len() as u64 + 1) as usize;
            v.truncate(n);
            v
        }
        // overwrite one byte, biased to the length fields' interesting values
        6 | 7 => {
            if !v.is_empty() {
                let i = rng.below(v.len() as u64) as usize;
                v[i] = *rng.pick(&[0u8, 1, 3, 4, 0x0b, 0x20, 0x40, 0x41, 0x7f, 0x80, 0xff]);
            }
            v
        }
        // random short bytes with small length fields
        8 => {
            let len = rng.below(48) as usize;
            let mut w = rng.bytes(len);
            if let Some(f) = w.first_mut() {
                if rng.bool() {
                    *f = *rng.pick(&[5u8, 6, 12, 14]);
                }
            }
            for b in w.iter_mut().skip(1) {
                if rng.chance(5, 8) {
                    *b = if rng.bool() { 0 } else { rng.below(8) as u8 };
                }
            }
            w
        }
        // drop a byte
        _ => {
            if !v.is_empty() {
                let i = rng.below(v.len() as u64) as usize;
                v.remove(i);
            }
            v
        }
    }
}

fn written_key(rng: &mut Rng, which: u64) -> Vec<u8> {
    let mut buf = Buffer::default();
    match which {
        0 => {
            // the blob form PublicKey::read expects
            let mut b = ssh_string(&key_type(rng));
            let n = blob_len(rng, 32);
            b.extend(ssh_string(&rng.bytes(n)));
            return b;
        }
        1 => Signature::from(<[u8; 64]>::try_from(rng.bytes(64).as_slice()).unwrap()).write(&mut buf),
        _ => {
            let sk = SecretKey::from(<[u8; 64]>::try_from(rng.bytes(64).as_slice()).unwrap());
            sk.write(&mut buf);
            let mut v = buf.to_vec();
            if rng.chance(1, 4) {
                // make the public half disagree with the key pair (Mismatch branch)
                let i = 4 + 11 + 4 + rng.below(32) as usize;
                v[i] ^= 1 << rng.below(8);
            }
            return v;
        }
    }
    buf.to_vec()
}

fn gen_case(rng: &mut Rng) -> String {
    match rng.below(20) {
        0..=6 => {
            let v = identities_answer(rng);
            format!("ident {}", hex(&damage(rng, v)))
        }
        7..=11 => {
            let v = sign_response(rng);
            format!("sign {}", hex(&damage(rng, v)))
        }
        12 => {
            let v = ext_response(rng);
            format!("ext {}", hex(&damage(rng, v)))
        }
        13..=15 => {
            let which = rng.below(3);
            let v = written_key(rng, which);
            let v = damage(rng, v);
            format!("{} {}", ["pkread", "sigread", "skread"][which as usize], hex(&v))
        }
        16 => format!("rtsig {}", hex(&rng.bytes(64))),
        17 => format!("rtsk {}", hex(&rng.bytes(64))),
        18 => format!("rtpk {}", hex(&rng.bytes(32))),
        _ => {
            let n = rng.below(5) as usize;
            let pks: Vec<Vec<u8>> = (0..n).map(|_| rng.bytes(32)).collect();
            let cms: Vec<String> = (0..n)
                .map(|_| {
                    let c = { let n_ = rng.below(9); rbytes(rng, n_ as u64) };
                    if c.is_empty() { "_".to_string() } else { hex(&c) }
                })
                .collect();
            format!("rtids {} {}", hex_list(&pks), if cms.is_empty() { "-".to_string() } else { cms.join(",") })
        }
    }
}

fn main() {
    let mut ctx = Ctx::from_args("C27");
    if !ctx.run_fixed(run_case) {
        let mut rng = ctx.rng();
        // every prefix and a set of one-byte overwrites of three well-formed messages (small finite domain)
        let mut seeds: Vec<(&str, Vec<u8>)> = vec![];
        {
            let pk = PublicKey::from([9u8; 32]);
            let mut ids = vec![12u8, 0, 0, 0, 2];
            for c in [&b"comment"[..], &b""[..]] {
                pk.write(&mut ids);
                ids.extend(ssh_string(c));
            }
            seeds.push(("ident", ids));
            for n in [64usize, 3] {
                let mut inner = ssh_string(b"ssh-ed25519");
                inner.extend(ssh_string(&(0..n).map(|i| i as u8).collect::<Vec<_>>()));
                let mut v = vec![14u8];
                v.extend(ssh_string(&inner));
                seeds.push(("sign", v));
            }
        }
        for (op, valid) in &seeds {
            for i in 0..=valid.len() {
                let input = format!("{op} {}", hex(&valid[..i]));
                let o = run_case(&input);
                ctx.count("enumerated-prefix");
                ctx.record(&input, o);
            }
            for i in 0..valid.len() {
                for b in [0u8, 1, 0x3f, 0x40, 0x41, 0x7f, 0x80, 0xff] {
                    let mut v = valid.clone();
                    v[i] = b;
                    let input = format!("{op} {}", hex(&v));
                    let o = run_case(&input);
                    ctx.count("enumerated-overwrite");
                    ctx.record(&input, o);
                }
            }
        }
        for _ in 0..ctx.size(20_000, 1_000_000) {
            let input = gen_case(&mut rng);
            let o = run_case(&input);
            ctx.record(&input, o);
        }
    }
    ctx.finish(
        "agent responses built from well-formed identities answers / sign responses / extension replies (0-4 keys, \
         key and signature blobs of length 0,1,n-1,n,n+1,2n,random, wrong algorithm names, declared counts above/below/far \
         above the entries present, trailing bytes) then kept, truncated at a random prefix, one byte overwritten, one byte \
         dropped, or replaced by short random bytes with small length fields; every prefix and 8 overwrites per byte of \
         three well-formed messages; Encodable::read on damaged written keys; write/read round trips of random keys, \
         signatures, secret keys and identity lists. Non-trivial = the response has the expected message type and at \
         least a length field (ident/sign/ext), at least 4 bytes (key reads), any round trip; distinct by input text",
        false,
    );
}
