/-!
# Model of `Service::timestamp` (radicle-node/src/service.rs) — C29

```rust
fn timestamp(&mut self) -> Timestamp {
    let now = Timestamp::from(self.clock);
    if *now > *self.last_timestamp { self.last_timestamp = now; }
    else { self.last_timestamp = self.last_timestamp + 1; }   // `Add<u64>` is `saturating_add`
    self.last_timestamp
}
```

`Timestamp` is a `u64` of milliseconds; `+ 1` saturates at `u64::MAX`.
-/
namespace HeartwoodModel.Timestamp

/-- `u64::MAX` -/
def U64MAX : Nat := 18446744073709551615

/-- The value `Service::timestamp` returns (and stores in `last_timestamp`) when the service clock
reads `clock` and the last timestamp handed out is `last`. -/
def next (clock last : Nat) : Nat :=
  if clock > last then clock else min (last + 1) U64MAX

/-- Successive calls of `Service::timestamp`, the clock reading `cs[i]` at the `i`-th call
(any readings: forward, equal, backward). Returns the timestamps handed out, in order. -/
def runTs (last : Nat) : List Nat → List Nat
  | [] => []
  | c :: cs => next c last :: runTs (next c last) cs

/-- `last_timestamp` after the calls. -/
def lastAfter (last : Nat) : List Nat → Nat
  | [] => last
  | c :: cs => lastAfter (next c last) cs

end HeartwoodModel.Timestamp
