import HeartwoodModel.Model.Ids
import HeartwoodModel.Driver.Util
/-!
Driver entry for C21 (textual identifiers). Cases:

* `pk <hex32>` / `did <hex32>` / `rid <hex20>` — print the value, parse the text back.
  Output `<text> <1|0>` (1 = parsed back to the same value), `fuel` if a conversion ran out of fuel.
* `pkparse <strhex> <g>` / `didparse …` / `ridparse …` — parse an arbitrary string (UTF-8 bytes in hex).
  `g` = graph of `multibase::decode` for the bases other than base-58-btc: comma list `<strhex>=<n|b<hex>>`
  (`n` = error, `b…` = decoded bytes) or `-`.
  Output `ok <valuehex> <canonical text>` | `err` | `no-graph-point`.
* `alias <strhex>` / `ua <strhex>` — `Alias::from_str` / `UserAgent::from_str`. Output `ok` | `err`.
* `cls <from>` — for the 256 code points from `from`: three characters each, `s` for a surrogate, else
  `0/1` for: the one-character alias; the user agent `/<c>:1/`; the user agent `/a:<c>/`.
-/
namespace HeartwoodModel.Driver.C21
open HeartwoodModel.Driver.Util
open HeartwoodModel

def text (bs : List Nat) : String := String.ofList (bs.map Char.ofNat)

def hexIn? (s : String) : Option (List Nat) := if s.isEmpty then some [] else if s == "-" then none else hexBytes? s

def codePoints? (bs : List Nat) : Option (List Nat) :=
  match String.fromUTF8? (ByteArray.mk (bs.map UInt8.ofNat).toArray) with
  | some s => some (s.toList.map Char.toNat)
  | none => none

def graphEntry? (s : String) : Option (List Nat × Option (List Nat)) :=
  match splitOn s '=' with
  | [k, v] => do
    let k ← hexIn? k
    if v == "n" then some (k, none)
    else if v.startsWith "b" then do let b ← hexIn? (v.drop 1).toString; some (k, some b)
    else none
  | _ => none

def graph? (s : String) : Option (List (List Nat × Option (List Nat))) :=
  if s == "-" then some [] else (splitOn s ',').mapM graphEntry?

def isOk {ε α} : Except ε α → Bool
  | .ok _ => true
  | .error _ => false

def isOkEq {ε} (r : Except ε (List Nat)) (v : List Nat) : Bool :=
  match r with
  | .ok v' => v' == v
  | .error _ => false

def showRt (printed : Option (List Nat)) (back : List Nat → Bool) : String :=
  match printed with
  | none => "fuel"
  | some t => s!"{text t} {showBool (back t)}"

def noOther : List Nat → Option (List Nat) := fun _ => none

/-- The string the parser hands to `multibase::decode`. -/
def query (kind : String) (s : List Nat) : Option (List Nat) :=
  if kind == "pkparse" then some s
  else if kind == "didparse" then Ids.stripPrefix Ids.didPrefix s
  else match Ids.stripPrefix Ids.radPrefix s with
    | some r => some r
    | none => some s

def runParse (kind : String) (s : List Nat) (g : List (List Nat × Option (List Nat))) : String :=
  let missing := match query kind s with
    | some (c :: cs) => c != 0x7a && (g.find? (fun (e : List Nat × Option (List Nat)) => e.1 == c :: cs)).isNone
    | _ => false
  if missing then "no-graph-point" else
  let other : List Nat → Option (List Nat) := fun q =>
    match g.find? (fun (e : List Nat × Option (List Nat)) => e.1 == q) with
    | some (_, r) => r
    | none => none
  let (res, print) :=
    if kind == "pkparse" then (Ids.pkParse other s, Ids.pkPrint)
    else if kind == "didparse" then (Ids.didParse other s, Ids.didPrint)
    else (Ids.ridParse other s, Ids.ridPrint)
  match res with
  | .error .fuel => "fuel"
  | .error _ => "err"
  | .ok v =>
    match print v with
    | none => "fuel"
    | some t => s!"ok {toHex v} {text t}"

def clsOne (c : Nat) : String :=
  if (0xd800 ≤ c && c ≤ 0xdfff) || c > 0x10ffff then "sss" else
  showBool (isOk (Ids.aliasParse [c])) ++
  showBool (Ids.uaParse [0x2f, c, 0x3a, 0x31, 0x2f]).isSome ++
  showBool (Ids.uaParse [0x2f, 0x61, 0x3a, c, 0x2f]).isSome

def run (args : List String) : String :=
  match args with
  | ["pk", k] =>
    match hexBytes? k with
    | some k => if k.length != 32 then "bad-op" else
      showRt (Ids.pkPrint k) (fun t => isOkEq (Ids.pkParse noOther t) k)
    | none => "bad-op"
  | ["did", k] =>
    match hexBytes? k with
    | some k => if k.length != 32 then "bad-op" else
      showRt (Ids.didPrint k) (fun t => isOkEq (Ids.didParse noOther t) k)
    | none => "bad-op"
  | ["rid", o] =>
    match hexBytes? o with
    | some o => if o.length != 20 then "bad-op" else
      showRt (Ids.ridPrint o) (fun t => isOkEq (Ids.ridParse noOther t) o)
    | none => "bad-op"
  | [kind, s, g] =>
    if kind == "pkparse" || kind == "didparse" || kind == "ridparse" then
      match hexBytes? s, graph? g with
      | some s, some g => if (codePoints? s).isNone then "bad-op" else runParse kind s g
      | _, _ => "bad-op"
    else "bad-op"
  | ["alias", s] =>
    match (hexBytes? s).bind codePoints? with
    | some cs => if isOk (Ids.aliasParse cs) then "ok" else "err"
    | none => "bad-op"
  | ["ua", s] =>
    match (hexBytes? s).bind codePoints? with
    | some cs => if (Ids.uaParse cs).isSome then "ok" else "err"
    | none => "bad-op"
  | ["cls", f] =>
    match nat? f with
    | some f => joinWith "" ((List.range 256).map fun i => clsOne (f + i))
    | none => "bad-op"
  | _ => "bad-op"

end HeartwoodModel.Driver.C21
