//! C21 harness (stub: not implemented yet).
fn main() {
    eprintln!("C21: harness not implemented");
    std::process::exit(3);
}
