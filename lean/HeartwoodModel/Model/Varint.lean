import HeartwoodModel.Model.Codec
/-!
# Model of `radicle-node/src/wire/varint.rs` (QUIC variable-length integers) — C13a, C14

Values are `Nat`; the Rust type holds a `u64 < 2^62`.
-/
namespace HeartwoodModel.Varint
open HeartwoodModel.Codec

/-- `VarInt::MAX` -/
def MAX : Nat := 2 ^ 62 - 1

/-- `VarInt::decode`. The two top bits of the first byte select the width; the Rust `match` on
`buf[0] >> 6` ends in `_ => unreachable!{}`, which is the `panic` outcome here (proved unreachable in
`Lemmas/Varint.lean`). Every `read_exact` that runs short is `incomplete`. -/
def decode : Dec Nat := fun b =>
  match b with
  | [] => .incomplete
  | b0 :: r =>
    let low := b0.toNat % 64          -- buf[0] &= 0b0011_1111
    match b0.toNat / 64 with          -- buf[0] >> 6
    | 0 => .ok low r
    | 1 => (take 1).map (fun t => low * 256 ^ 1 + beVal t) r
    | 2 => (take 3).map (fun t => low * 256 ^ 3 + beVal t) r
    | 3 => (take 7).map (fun t => low * 256 ^ 7 + beVal t) r
    | _ => .panic "varint.rs: unreachable!"

/-- `VarInt::encode` (shortest form). `none` is `panic!("VarInt::encode: integer overflow")`
(unreachable for values built with `VarInt::new`). -/
def encode? (x : Nat) : Option Bytes :=
  if x < 2 ^ 6 then some (beEnc 1 x)
  else if x < 2 ^ 14 then some (beEnc 2 (1 * 2 ^ 14 + x))      -- (0b01 << 14) | x
  else if x < 2 ^ 30 then some (beEnc 4 (2 * 2 ^ 30 + x))      -- (0b10 << 30) | x
  else if x < 2 ^ 62 then some (beEnc 8 (3 * 2 ^ 62 + x))      -- (0b11 << 62) | x
  else none

/-- `varint::payload::encode`: `none` is the `InvalidInput` error for payloads of 2^62 bytes or more. -/
def payloadEncode? (p : Bytes) : Option Bytes :=
  (encode? p.length).map (· ++ p)

/-- `varint::payload::decode` as of `fix:` 1c20c28: `reader.take(size).read_to_end(&mut data)`, then
`UnexpectedEof` if fewer than `size` bytes were there. -/
def payloadDecode : Dec Bytes := decode.bind take

/-- Upper bound on the capacity a `Vec<u8>` requests from the allocator while `read_to_end` grows it to hold
`k` bytes: growth is amortised doubling (`max(2·cap, cap + 32)`, with `cap ≤ k` whenever it grows). -/
def growReq (k : Nat) : Nat := 2 * k + 32

/-- Largest single buffer request made by `payload::decode` on input `b`: the buffer only ever grows with
the bytes that are actually there (`min declared available`), never with the declared length. -/
def payloadAlloc (b : Bytes) : Nat :=
  match decode b with
  | .ok n r => growReq (min n r.length)
  | _ => 0

/-- The request `payload::decode` made BEFORE the fix (`vec![0; size]`): the declared length. Kept only to
state what the fix repaired (`Props/C14.lean`, `alloc_declared_unbounded`). -/
def payloadAllocDeclared (b : Bytes) : Nat :=
  match decode b with
  | .ok n _ => n
  | _ => 0

end HeartwoodModel.Varint
