/-!
# Model of terminal text truncation (C26)

Sources modelled (as on `/repo` main, i.e. *with* `fix: term: cut truncated text at the grapheme
boundary`):

* `crates/radicle-term/src/cell.rs` — `impl Cell for str`: `width`, `truncate`;
* `crates/radicle-term/src/element.rs` — `Line::width`, `Line::truncate`.

A string is the list of its extended grapheme clusters as the real crates measure them
(`unicode-segmentation` for the clusters, `unicode-display-width` for the width of each cluster,
`char::is_whitespace` for each scalar value). These three Unicode tables are *parameters*: their
values on the strings of a case are sent with the case. `Cell::width` of a string is by definition
the sum of the widths of its clusters (`graphemes(true).map(width).sum()`).

Byte offsets are real: `boundary` is accumulated from `g.len()` and `self[boundary..]`,
`self[..boundary]` are slicing operations that panic when the offset is past the end or not on a
`char` boundary. A cut on a `char` boundary strictly inside a cluster cannot be expressed as a list of
measured clusters: that is the explicit outcome `cutInsideGrapheme`. `Props/C26.lean` proves that
neither it nor a panic is reachable.

The output of `truncate` is a prefix of the input clusters, possibly followed by the clusters of the
delimiter. That the real `Cell::width` of this concatenation (which re-segments the new string) is the
sum of the parts' widths is the *additivity hypothesis* (`Measures` in `Props/C26.lean`); the harness
checks it on every case.
-/
namespace HeartwoodModel.Term

/-- A Unicode scalar value: its UTF-8 bytes and `char::is_whitespace`. -/
structure Chr where
  bytes : List Nat
  ws : Bool
  deriving Repr, DecidableEq

/-- An extended grapheme cluster: its scalar values and its display width (`unicode::width(g)`). -/
structure Grapheme where
  chars : List Chr
  width : Nat
  deriving Repr, DecidableEq

abbrev Str := List Grapheme

def Chr.len (c : Chr) : Nat := c.bytes.length

def charsLen : List Chr → Nat
  | [] => 0
  | c :: cs => c.len + charsLen cs

/-- `g.len()`: length in bytes. -/
def Grapheme.byteLen (g : Grapheme) : Nat := charsLen g.chars

/-- `s.len()` -/
def byteLen : Str → Nat
  | [] => 0
  | g :: s => g.byteLen + byteLen s

/-- `Cell::width(s)`: `s.graphemes(true).map(|g| unicode::width(g)).sum()`. -/
def gwidth : Str → Nat
  | [] => 0
  | g :: s => g.width + gwidth s

/-- The UTF-8 bytes of the string. -/
def bytesOf (s : Str) : List Nat := s.flatMap fun g => g.chars.flatMap (·.bytes)

inductive Res (α : Type) where
  | ok (a : α)
  | panic (site : String)
  /-- a byte offset on a `char` boundary strictly inside a grapheme cluster -/
  | cutInsideGrapheme
  deriving Repr, DecidableEq

/-- Is byte offset `b` (relative to the start of these scalar values) on a `char` boundary? -/
def isCharBoundary : List Chr → Nat → Bool
  | _, 0 => true
  | [], _ + 1 => false
  | c :: cs, b + 1 => if c.len ≤ b + 1 then isCharBoundary cs (b + 1 - c.len) else false

/-- `(&s[..b], &s[b..])`: panics unless `b ≤ s.len()` and `b` is on a `char` boundary. -/
def splitAtByte : Str → Nat → Res (Str × Str)
  | s, 0 => .ok ([], s)
  | [], _ + 1 => .panic "byte index out of bounds"
  | g :: rest, b + 1 =>
    if g.byteLen ≤ b + 1 then
      match splitAtByte rest (b + 1 - g.byteLen) with
      | .ok (pre, post) => .ok (g :: pre, post)
      | .panic site => .panic site
      | .cutInsideGrapheme => .cutInsideGrapheme
    else if isCharBoundary g.chars (b + 1) then .cutInsideGrapheme
    else .panic "byte index is not a char boundary"

/-- The `for g in self.graphemes(true)` loop of `truncate`: returns the final `(cols, boundary)`. -/
def scan (width d : Nat) : Str → Nat → Nat → Nat × Nat
  | [], cols, boundary => (cols, boundary)
  | g :: rest, cols, boundary =>
    if cols + g.width + d > width then (cols, boundary)
    else scan width d rest (cols + g.width) (boundary + g.byteLen)

/-- `s.trim().is_empty()`: every scalar value is whitespace. -/
def allWhitespace (s : Str) : Bool := s.all fun g => g.chars.all (·.ws)

/-- `<str as Cell>::truncate(width, delim)` -/
def truncate (s : Str) (width : Nat) (delim : Str) : Res Str :=
  if width < gwidth s then
    let d := gwidth delim
    if width < d then .ok []
    else
      match splitAtByte s (scan width d s 0 0).2 with
      | .ok (pre, post) => if allWhitespace post then .ok pre else .ok (pre ++ delim)
      | .panic site => .panic site
      | .cutInsideGrapheme => .cutInsideGrapheme
  else .ok s

/-! ## `Line` -/

/-- A line is the list of the contents of its labels. -/
abbrev Line := List Str

/-- `Line::width` -/
def lwidth : Line → Nat
  | [] => 0
  | i :: l => gwidth i + lwidth l

/-- `Line::truncate`. One unit of fuel per evaluation of the `while` condition; `none` = out of
fuel. `usize` subtractions that would underflow are panics (debug builds). The `else if let Some(..)`
without a last item leaves the line unchanged and loops. -/
def lineTruncate : Nat → Line → Nat → Str → Option (Res Line)
  | 0, _, _, _ => none
  | fuel + 1, items, width, delim =>
    if lwidth items > width then
      let total := lwidth items
      let lastW := match items.getLast? with
        | some i => gwidth i
        | none => 0
      if total < lastW then some (.panic "attempt to subtract with overflow")
      else if total - lastW > width then lineTruncate fuel items.dropLast width delim
      else
        match items.getLast? with
        | some item =>
          if total < gwidth item then some (.panic "attempt to subtract with overflow")
          else if width < total - gwidth item then some (.panic "attempt to subtract with overflow")
          else
            match truncate item (width - (total - gwidth item)) delim with
            | .ok item' => lineTruncate fuel (items.dropLast ++ [item']) width delim
            | .panic site => some (.panic site)
            | .cutInsideGrapheme => some .cutInsideGrapheme
        | none => lineTruncate fuel items width delim
    else some (.ok items)

/-! ## operation sequences on one `Line` value -/

/-- `" "`: one byte, whitespace, its own cluster, one column (the harness checks this against the real
crates on every sequence case). -/
def spaceG : Grapheme := ⟨[⟨[32], true⟩], 1⟩

/-- `Line::pad`: a label of `width - w` spaces is pushed when the line is narrower than `width`. -/
def linePad (l : Line) (width : Nat) : Line :=
  if width > lwidth l then l ++ [List.replicate (width - lwidth l) spaceG] else l

/-- The operations that build and change a `Line` value: `new`/`item`/`push`/`extend` (one `push` per
label), `space`, `pad`, `truncate`. `Line::width` is a pure query (`lwidth`). -/
inductive LineOp where
  | push (s : Str)
  | space
  | pad (width : Nat)
  | truncate (width : Nat) (delim : Str)
  deriving Repr, DecidableEq

/-- One operation; `truncate` runs with the fuel of `line_truncate_terminates`. -/
def lineApply (l : Line) : LineOp → Option (Res Line)
  | .push s => some (.ok (l ++ [s]))
  | .space => some (.ok (l ++ [[spaceG]]))
  | .pad w => some (.ok (linePad l w))
  | .truncate w d => lineTruncate (l.length + 2) l w d

/-- A history of operations on the same value. -/
def lineRun : Line → List LineOp → Option (Res Line)
  | l, [] => some (.ok l)
  | l, op :: ops =>
    match lineApply l op with
    | some (.ok l') => lineRun l' ops
    | other => other

end HeartwoodModel.Term
