import HeartwoodModel.Model.Fetch
import HeartwoodModel.Model.FetchWorker
import HeartwoodModel.Driver.Util
/-! Driver entry for C01 (and, through `Driver/C02.lean`, C02): one fetch scenario per case.

Case tokens: the scenario script (ignored here, it is what the harness executes), a `|` token, then the
abstract world extracted by the harness:

`nid=<name> nsig=<name> rad=<names> ldoc=<delegates>/<threshold>|- adoc=… local=<key> clone=<0|1>
 scope=all|f:<keys> blocked=<keys> refsat=none|<key>:<oid>,… L=<key>:<name>:<oid>,… A=…
 B=<key>@<oid>:x | <key>@<oid>:<sigOk>:<a|s|o>:<name>><oid>+…;…  ANC=<old>><new>:<E|A|B|D>,… worker=<0|1>`

With `worker=1` the scenario is also run one level up (two real nodes, `worker::fetch::Handle::fetch`) and
` ; worker=<success|failed> dir=<0|1>` is appended: node-level outcome and whether a repository directory
exists in the fetching node's storage afterwards (`Model/FetchWorker.lean`).

Output: `success r=<validated remotes> L=<refdb>` | `failed L=…` | `error L=…` (`panic L=…` is what the harness prints
when the real code panics; the model never produces it: `fetch_no_panic`), the refdb
sorted by `(key, name)`. -/
namespace HeartwoodModel.Driver.C01
open HeartwoodModel.Fetch HeartwoodModel.Driver.Util

def kv? (key : String) (tok : String) : Option String :=
  let p := key ++ "="
  if tok.startsWith p then some ((tok.drop p.length).toString) else none

def doc? (s : String) : Option (Option Doc) :=
  if s == "-" then some none else
  match splitOn s '/' with
  | [ds, t] => do
    let ds ← nats? ds
    let t ← nat? t
    if t == 0 then none else some (some { delegates := ds.eraseDups, threshold := t })
  | _ => none

def list? {α : Type} (s : String) (sep : Char) (f : String → Option α) : Option (List α) :=
  if s == "-" || s.isEmpty then some [] else (splitOn s sep).mapM f

/-- `dups`: an advertisement may list a reference more than once; a refdb has one entry per reference. -/
def refdb? (s : String) (dups : Bool) : Option Refdb := do
  let es ← list? s ',' (fun e =>
    match splitOn e ':' with
    | [k, n, o] => do some (((← nat? k), (← nat? n)), (← nat? o))
    | _ => none)
  if dups || (es.map (·.1)).eraseDups.length == es.length then some es else none

def blobEntry? (s : String) : Option ((Key × Oid) × Option Blob) :=
  match splitOn s ':' with
  | [ko, "x"] =>
    match splitOn ko '@' with
    | [k, o] => do some (((← nat? k), (← nat? o)), none)
    | _ => none
  | [ko, sig, root, refs] =>
    match splitOn ko '@' with
    | [k, o] => do
      let sigOk ← bool? sig
      let idRoot ← (if root == "a" then some IdRoot.absent else if root == "s" then some IdRoot.same
                    else if root == "o" then some IdRoot.other else none)
      let refs ← list? refs '+' (fun e =>
        match splitOn e '>' with
        | [n, t] => do some ((← nat? n), (← nat? t))
        | _ => none)
      some (((← nat? k), (← nat? o)), some { refs, sigOk, idRoot })
    | _ => none
  | _ => none

def anc? (s : String) : Option ((Oid × Oid) × Anc) :=
  match splitOn s ':' with
  | [p, c] =>
    match splitOn p '>' with
    | [a, b] => do
      let c ← (if c == "E" then some Anc.equal else if c == "A" then some Anc.ahead
               else if c == "B" then some Anc.behind else if c == "D" then some Anc.diverged else none)
      some (((← nat? a), (← nat? b)), c)
    | _ => none
  | _ => none

def assoc {α β : Type} [BEq α] (tbl : List (α × β)) (a : α) : Option β :=
  (tbl.find? (fun e => e.1 == a)).map (·.2)

/-- Insertion sort of refdb entries by `(key, name)`. -/
def insertEntry (e : Ref × Oid) : List (Ref × Oid) → List (Ref × Oid)
  | [] => [e]
  | x :: xs =>
    if e.1.1 < x.1.1 || (e.1.1 == x.1.1 && e.1.2 ≤ x.1.2) then e :: x :: xs else x :: insertEntry e xs

def showRefdb (db : Refdb) : String :=
  let sorted := db.foldl (fun acc e => insertEntry e acc) []
  if sorted.isEmpty then "-" else
  joinWith "," (sorted.map (fun e => s!"{e.1.1}:{e.1.2}:{e.2}"))

def insertNat (n : Nat) : List Nat → List Nat
  | [] => [n]
  | x :: xs => if n ≤ x then n :: x :: xs else x :: insertNat n xs

def showOutcome (o : Outcome) : String :=
  match o with
  | .success rs => "success r=" ++ showNats (rs.foldl (fun acc k => insertNat k acc) [])
  | .failed => "failed"
  | .error => "error"
  | .panic => "panic"

def runWorld : List String → String
  | [nid, nsig, rad, ldoc, adoc, loc, clone, scope, blocked, refsat, l, a, b, anc, worker] =>
    let r : Option String := do
      let nId ← nat? (← kv? "nid" nid)
      let nSig ← nat? (← kv? "nsig" nsig)
      let rad ← nats? (← kv? "rad" rad)
      let localDoc ← doc? (← kv? "ldoc" ldoc)
      let advDoc ← doc? (← kv? "adoc" adoc)
      let localKey ← nat? (← kv? "local" loc)
      let isClone ← bool? (← kv? "clone" clone)
      let scopeS ← kv? "scope" scope
      let scope ← (if scopeS == "all" then some none
                   else if scopeS.startsWith "f:" then (nats? ((scopeS.drop 2).toString)).map some else none)
      let blocked ← nats? (← kv? "blocked" blocked)
      let refsatS ← kv? "refsat" refsat
      let refsAt ← (if refsatS == "none" then some none else
        (list? refsatS ',' (fun e =>
          match splitOn e ':' with
          | [k, o] => do some ((← nat? k), (← nat? o))
          | _ => none)).map some)
      let L ← refdb? (← kv? "L" l) false
      let A ← refdb? (← kv? "A" a) true
      let blobs ← list? (← kv? "B" b) ';' blobEntry?
      let ancs ← list? (← kv? "ANC" anc) ',' anc?
      let worker ← bool? (← kv? "worker" worker)
      if nId == nSig || !rad.contains nId || !rad.contains nSig then none else
      let env : Env :=
        { nId, nSig, isRad := fun n => rad.contains n,
          blob := fun k o => (assoc blobs (k, o)).bind id,
          anc := fun x y => assoc ancs (x, y) }
      let cfg : Config := { localDoc, advDoc, localKey, isClone, scope, blocked, refsAt }
      let (out, db) := fetch env cfg L A
      let base := showOutcome out ++ " L=" ++ showRefdb db
      if worker then
        -- the node's own key: no namespace, no delegate
        let (outW, _) := fetch env (HeartwoodModel.FetchWorker.nodeConfig cfg 1000000) L A
        let w := HeartwoodModel.FetchWorker.workerFetch (!isClone) outW
        some (base ++ " ; worker=" ++ (if w.success then "success" else "failed") ++ " dir=" ++ showBool w.dirPresent)
      else some base
    r.getD "bad-op"
  | _ => "bad-op"

/-- Drop the scenario script: everything up to and including the `|` token. -/
def afterBar : List String → Option (List String)
  | [] => none
  | t :: ts => if t == "|" then some ts else afterBar ts

def run (args : List String) : String :=
  match afterBar args with
  | some w => runWorld w
  | none => "bad-op"

end HeartwoodModel.Driver.C01
