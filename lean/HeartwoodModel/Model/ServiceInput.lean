/-!
# Model of the message-handling path of `radicle-node/src/service.rs` (C13b)

`Service::received_message → handle_message → handle_announcement → fetch/_fetch/try_fetch →
Outbox::fetch → Session::fetching`, `queue_fetch → Session::queue_fetch`, `RateLimiter::limit`,
`gossip::Store::announced`, `gossip::Store::filtered`, plus the two connection events needed to reach every
session state (`Service::connected` inbound, `Service::disconnected`).

What is modelled is the *control skeleton that decides whether an assertion site is reached*: every
`assert!`, `assert_eq!`, `assert_ne!`, `panic!`, `expect` on that path is a `Site`, every `if`/`match`/early
`return` in front of it is a guard of the model. Everything the Rust takes from SQLite, the storage or the
RNG (is the announcer known, was the announcement fresh, is the repository seeded / already local, which
refs are wanted, in which order the missing repositories are fetched, is the token bucket empty) is an
*oracle* (`Env`), quantified universally in the theorems: they hold for every database content.
`Result::Err` of the databases is folded into the oracle answers the code maps them to (it logs and
returns); the three `.expect`s on the policy database are not modelled (SQLite errors: modelled-not-verified).
`debug_assert!`s are not sites (the node is built in release mode).

`Code` selects the version of the code: `current` is `/repo` main; the fields are the repairs of commits
e41c53f and 192a092, so that the counterexamples that motivated them can be stated (`Props/C13.lean`).

Import-free.
-/
namespace HeartwoodModel.ServiceInput

abbrev Nid := Nat
abbrev Rid := Nat
abbrev Host := Nat
/-- `RefsAt { remote, at }` -/
abbrev RefAt := Nat × Nat

/-- `MAX_TIME_DELTA` = 60 min, in milliseconds -/
def MAX_TIME_DELTA : Nat := 3600000
/-- `Ping::MAX_PONG_ZEROES` = `u16::MAX - 2 - 2` -/
def MAX_PONG_ZEROES : Nat := 65531
/-- `session::MAX_FETCH_QUEUE_SIZE` -/
def MAX_FETCH_QUEUE_SIZE : Nat := 128

/-- Assertion sites on the path. -/
inductive Site where
  /-- `gossip::Store::announced`: `assert_ne!(ann.timestamp(), Timestamp::MIN)` -/
  | announcedZeroTimestamp
  /-- `gossip::Store::filtered`: `assert!(*from <= *to)` (removed by e41c53f) -/
  | filteredRange
  /-- `Session::fetching`: `assert!(fetching.insert(rid))` -/
  | sessionAlreadyFetching
  /-- `Session::fetching`: `panic!("Attempting to fetch … from disconnected session")` -/
  | sessionNotConnected
  /-- `Session::queue_fetch`: `assert_eq!(fetch.from, self.id)` -/
  | queueFetchFrom
  /-- `TokenBucket::refill`: `now.duration_since(self.refilled_at)` (`expect`) -/
  | limiterClock
  /-- `Service::initial`: `Timestamp::from(last - SUBSCRIBE_BACKLOG_DELTA)`: `LocalTime - LocalDuration` is a plain
  `u128` subtraction (overflow panic in debug builds; in release builds it wraps and the `try_into().unwrap()`
  of `LocalTime::as_millis` panics) -/
  | subscribeBacklog
  deriving Repr, DecidableEq

inductive SessErr where
  /-- `session::Error::Misbehavior` -/
  | misbehavior
  /-- `session::Error::InvalidTimestamp` -/
  | invalidTimestamp
  deriving Repr, DecidableEq

/-- What `received_message` does with one message. `disconnect` = `outbox.disconnect(remote, Session(err))`. -/
inductive Outcome where
  | ok
  | disconnect (e : SessErr)
  | panic (s : Site)
  deriving Repr, DecidableEq

/-- Version of the code. -/
structure Code where
  /-- `handle_announcement`: `if timestamp == Timestamp::MIN { return Err(InvalidTimestamp) }` -/
  zeroTimestampGuard : Bool
  /-- `gossip::Store::filtered` still asserts `from <= to` -/
  filteredAsserts : Bool
  /-- `Service::initial` computes the backlog start with the saturating subtraction of `Timestamp`
  (commit 192a092) -/
  subscribeSaturates : Bool
  deriving Repr, DecidableEq

/-- `/repo` main (incl. e41c53f and 192a092). -/
def Code.current : Code := { zeroTimestampGuard := true, filteredAsserts := false, subscribeSaturates := true }
/-- The tree before commit 192a092 (`Service::initial` subtracted on `LocalTime`). -/
def Code.before192a092 : Code := { zeroTimestampGuard := true, filteredAsserts := false, subscribeSaturates := false }
/-- The tree before commit e41c53f. -/
def Code.beforeE41c53f : Code := { zeroTimestampGuard := false, filteredAsserts := true, subscribeSaturates := false }

/-- `SUBSCRIBE_BACKLOG_DELTA` = 3 min, in milliseconds -/
def SUBSCRIBE_BACKLOG_DELTA : Nat := 180000

/-- `session::State`; `Connected` carries the set of repositories being fetched from the peer and
the length of the pong we are waiting for. -/
inductive SessState where
  | initial
  | attempted
  | connected (fetching : List Rid) (awaiting : Option Nat)
  | disconnected
  deriving Repr, DecidableEq

structure Session where
  /-- `Session::id` -/
  id : Nid
  /-- host part of `Session::addr` (key of the rate limiter) and whether it is a routable IP / a DNS name -/
  host : Host
  routable : Bool
  /-- configured as a persistent peer (`config.connect`) -/
  persistent : Bool
  state : SessState
  /-- `Session::queue`: `(rid, refs_at)` of each `QueuedFetch` -/
  queue : List (Rid × List RefAt)
  subscribed : Bool
  deriving Repr, DecidableEq

def Session.isConnected (s : Session) : Bool :=
  match s.state with
  | .connected _ _ => true
  | _ => false

/-- `Session::is_at_capacity` -/
def Session.isAtCapacity (s : Session) (limit : Nat) : Bool :=
  match s.state with
  | .connected fs _ => decide (limit ≤ fs.length)
  | _ => false

/-- `Session::to_connected` -/
def Session.toConnected (s : Session) : Session := { s with state := .connected [] none }

/-- State of the service, as far as the path reads it. Maps are functions. -/
structure State where
  /-- `Service::nid()` -/
  self : Nid
  /-- `Service::clock`, milliseconds -/
  now : Nat
  /-- `limits.fetch_concurrency` -/
  fetchConcurrency : Nat
  /-- `Service::sessions` -/
  sessions : Nid → Option Session
  /-- `Service::fetching`: rid ↦ (from, refs_at) -/
  fetching : Rid → Option (Nid × List RefAt)
  /-- `RateLimiter::buckets`: host ↦ `refilled_at` -/
  buckets : Host → Option Nat
  /-- the `announcements` table of the node database: (announcer, type, repo) ↦ timestamp
  (type 0 node, 1 inventory, 2 refs; repo 0 for the first two) -/
  gossip : Nid × Nat × Rid → Option Nat
  /-- `SELECT MAX(timestamp) FROM announcements` (`gossip::Store::last`) -/
  gossipMax : Option Nat
  /-- `Service::last_online_at`: what `gossip().last()` returned when the process started -/
  lastOnline : Option Nat
  /-- nodes with a row in the address book (`db.addresses().get(nid)` is `Some`) -/
  known : Nid → Bool

def upd {α : Type} (f : Nat → Option α) (k : Nat) (v : Option α) : Nat → Option α :=
  fun k' => if k' = k then v else f k'

/-- Oracle: the answers of the databases, the storage and the RNG. -/
structure Env where
  /-- the token bucket of the host is empty -/
  limited : Bool
  /-- `db.addresses().get(announcer)` did not fail (`Err` is treated like an unknown node) -/
  knownNode : Nid → Bool
  /-- `db.gossip_mut().announced(..)` did not fail (`Err` is treated like a stale announcement) -/
  announcedFresh : Bool
  /-- `sync_routing(..)` is `Ok(synced)` with `synced` non-empty -/
  routingSynced : Bool
  /-- `policies.is_seeding(rid)` / `seed_policy(rid)` is `Allow` -/
  seeded : Rid → Bool
  /-- `db.routing().entry(rid, self)` is `Some` -/
  haveLocal : Rid → Bool
  /-- `refs_status_of(..)`: `Ok(status)` and the refs still wanted (empty = nothing to fetch / error) -/
  wanted : Rid → List RefAt → List RefAt
  /-- `rng.shuffle(&mut missing)` -/
  shuffle : List Rid → List Rid

inductive AnnKind where
  | node (seed : Bool)
  | inventory (rids : List Rid)
  | refs (rid : Rid) (refs : List RefAt)
  deriving Repr, DecidableEq

structure Announcement where
  announcer : Nid
  /-- `announcement.verify()` -/
  sigOk : Bool
  timestamp : Nat
  kind : AnnKind
  deriving Repr, DecidableEq

inductive Msg where
  | announcement (a : Announcement)
  | subscribe (since until_ : Nat)
  | info
  | ping (ponglen : Nat)
  | pong (len : Nat)
  deriving Repr, DecidableEq

/-! ## fetch scheduling reached from announcements -/

/-- `Service::queue_fetch` → `Session::queue_fetch` -/
def queueFetch (σ : State) (rid : Rid) (frm : Nid) (refsAt : List RefAt) : Except Site State :=
  match σ.sessions frm with
  | none => .ok σ
  | some s =>
    if frm ≠ s.id then .error .queueFetchFrom
    else if MAX_FETCH_QUEUE_SIZE ≤ s.queue.length then .ok σ
    else if (rid, refsAt) ∈ s.queue then .ok σ
    else .ok { σ with sessions := upd σ.sessions frm (some { s with queue := s.queue ++ [(rid, refsAt)] }) }

/-- `Service::_fetch` (with `try_fetch`, `Outbox::fetch`, `Session::fetching` inlined; no reply channel). -/
def fetch (σ : State) (rid : Rid) (frm : Nid) (refsAt : List RefAt) : Except Site State :=
  match σ.sessions frm with
  | none => .ok σ                                   -- TryFetchError::SessionNotConnected
  | some s =>
    match σ.fetching rid with
    | some (f, r) =>                                -- TryFetchError::AlreadyFetching
      if f = frm ∧ r = refsAt then .ok σ else queueFetch σ rid frm refsAt
    | none =>
      if !s.isConnected then .ok σ                  -- SessionNotConnected
      else if s.isAtCapacity σ.fetchConcurrency then queueFetch σ rid frm refsAt
      else
        -- `fetching.insert(FetchState{..})`, then `outbox.fetch(session, ..)` → `peer.fetching(rid)`
        match s.state with
        | .connected fs aw =>
          if rid ∈ fs then .error .sessionAlreadyFetching
          else .ok { σ with
            fetching := upd σ.fetching rid (some (frm, refsAt))
            sessions := upd σ.sessions frm (some { s with state := .connected (rid :: fs) aw }) }
        | _ => .error .sessionNotConnected

/-- `for rid in missing { self.fetch(rid, *announcer, ..) }` -/
def fetchAll (σ : State) (frm : Nid) : List Rid → Except Site State
  | [] => .ok σ
  | rid :: rest =>
    match fetch σ rid frm [] with
    | .error e => .error e
    | .ok σ' => fetchAll σ' frm rest

/-! ## `handle_announcement` -/

/-- Inventory and refs announcements of nodes we have no node announcement of are ignored. -/
def unknownIgnored (env : Env) (σ : State) (a : Announcement) : Bool :=
  match a.kind with
  | .node _ => false
  | _ => !(env.knownNode a.announcer && σ.known a.announcer)

/-- Key of an announcement in the `announcements` table (`UNIQUE (node, repo, type)`). -/
def Announcement.key (a : Announcement) : Nid × Nat × Rid :=
  match a.kind with
  | .node _ => (a.announcer, 0, 0)
  | .inventory _ => (a.announcer, 1, 0)
  | .refs rid _ => (a.announcer, 2, rid)

/-- `INSERT … ON CONFLICT DO UPDATE … WHERE timestamp < ?6 RETURNING rowid`: stored iff there is no row with
the same key and a timestamp at least as large. -/
def isNewer (σ : State) (a : Announcement) : Bool :=
  match σ.gossip a.key with
  | none => true
  | some t => decide (t < a.timestamp)

def optMax (m : Option Nat) (t : Nat) : Option Nat :=
  match m with
  | none => some t
  | some x => some (max x t)

/-- The state after the announcement was stored; a node announcement of a seed also creates / updates the
announcer's row in the address book. -/
def stored (σ : State) (a : Announcement) : State :=
  { σ with
    gossip := fun k => if k = a.key then some a.timestamp else σ.gossip k
    gossipMax := optMax σ.gossipMax a.timestamp
    known := match a.kind with
      | .node true => fun n => if n = a.announcer then true else σ.known n
      | _ => σ.known }

/-- What `handle_announcement` does with an announcement once it is stored (`match message { … }`). -/
def processStored (env : Env) (σ : State) (a : Announcement) : Outcome × State :=
  match a.kind with
  | .node _ => (.ok, σ)
  | .inventory rids =>
    if !env.routingSynced then (.ok, σ) else
    match σ.sessions a.announcer with
    | none => (.ok, σ)
    | some _ =>
      let missing := rids.filter fun id => env.seeded id && !env.haveLocal id
      match fetchAll σ a.announcer (env.shuffle missing) with
      | .error s => (.panic s, σ)
      | .ok σ' => (.ok, σ')
  | .refs rid refs =>
    if refs.isEmpty then (.ok, σ) else
    if !env.seeded rid then (.ok, σ) else
    match σ.sessions a.announcer with
    | none => (.ok, σ)
    | some remote =>
      -- `fetch_refs_at(message.rid, remote.id, refs, ..)`
      let want := env.wanted rid refs
      if want.isEmpty then (.ok, σ) else
      match fetch σ rid remote.id want with
      | .error s => (.panic s, σ)
      | .ok σ' => (.ok, σ')

/-- Result of `handle_announcement`: `Err(e)` is `.disconnect e`. -/
def handleAnnouncement (c : Code) (env : Env) (σ : State) (a : Announcement) : Outcome × State :=
  if !a.sigOk then (.disconnect .misbehavior, σ) else
  if a.announcer = σ.self then (.ok, σ) else
  if c.zeroTimestampGuard && a.timestamp == 0 then (.disconnect .invalidTimestamp, σ) else
  if MAX_TIME_DELTA < a.timestamp - σ.now then (.disconnect .invalidTimestamp, σ) else
  if unknownIgnored env σ a then (.ok, σ) else
  -- `self.db.gossip_mut().announced(announcer, announcement)`
  if a.timestamp = 0 then (.panic .announcedZeroTimestamp, σ) else
  if !(env.announcedFresh && isNewer σ a) then (.ok, σ) else
  processStored env (stored σ a) a

/-! ## `handle_message` / `received_message` -/

/-- `self.limiter.limit(peer.addr.into(), Some(remote), limit, self.clock)`: `none` = the `expect` in
`duration_since` fired; otherwise whether the message is dropped, and the buckets afterwards.
(No node is on the bypass list in the configurations considered.) -/
def limit (env : Env) (σ : State) (s : Session) : Option (Bool × (Host → Option Nat)) :=
  if !s.routable then some (false, σ.buckets) else
  match σ.buckets s.host with
  | none => some (false, upd σ.buckets s.host (some σ.now))     -- fresh bucket: `capacity ≥ 1` tokens
  | some t =>
    if σ.now < t then none
    else some (env.limited, upd σ.buckets s.host (some σ.now))

/-- The `match message { … }` of `handle_message`, for a peer in `Connected` state (`peer` is the
session stored under `remote`). -/
def dispatch (c : Code) (env : Env) (σ : State) (remote : Nid) (peer : Session) (m : Msg) : Outcome × State :=
  match m with
  | .announcement a => handleAnnouncement c env σ a
  | .subscribe since until_ =>
    -- `self.db.gossip().filtered(&filter, since, until)`
    if c.filteredAsserts && decide (until_ < since) then (.panic .filteredRange, σ)
    else (.ok, { σ with sessions := upd σ.sessions remote (some { peer with subscribed := true }) })
  | .info => (.ok, σ)
  | .ping _ => (.ok, σ)                         -- `ponglen > MAX_PONG_ZEROES` ⇒ ignored, else a pong is queued
  | .pong len =>
    match peer.state with
    | .connected fs (some expected) =>
      if expected = len then
        (.ok, { σ with sessions := upd σ.sessions remote (some { peer with state := .connected fs none }) })
      else (.ok, σ)
    | _ => (.ok, σ)

def handleMessage (c : Code) (env : Env) (σ : State) (remote : Nid) (m : Msg) : Outcome × State :=
  match σ.sessions remote with
  | none => (.ok, σ)                                -- "Session not found"
  | some peer =>
    match limit env σ peer with
    | none => (.panic .limiterClock, σ)
    | some (limited, buckets) =>
      let σ := { σ with buckets := buckets }
      if limited then (.ok, σ) else
      match peer.state with
      | .disconnected => (.ok, σ)
      | .connected _ _ => dispatch c env σ remote peer m
      | _ =>
        -- `Attempted | Initial` ⇒ `peer.to_connected(self.clock)`
        dispatch c env { σ with sessions := upd σ.sessions remote (some peer.toConnected) } remote peer.toConnected m

/-- Does the service answer a ping? (`Message::Ping` branch.) -/
def pongFor (ponglen : Nat) : Option Nat := if MAX_PONG_ZEROES < ponglen then none else some ponglen

/-- Does a message from `remote` get as far as the `match message` (session known, not rate limited,
not in `Disconnected` state)? -/
def dispatched (env : Env) (σ : State) (remote : Nid) : Bool :=
  match σ.sessions remote with
  | none => false
  | some peer =>
    match limit env σ peer with
    | some (false, _) => !(peer.state == .disconnected)
    | _ => false

/-! ## connection events (to reach every session state) -/

/-- `Service::fail_fetches`: drop every ongoing fetch from `remote` from `Service::fetching`. -/
def failFetches (σ : State) (remote : Nid) : Rid → Option (Nid × List RefAt) := fun rid =>
  match σ.fetching rid with
  | some (f, r) => if f = remote then none else some (f, r)
  | none => none

/-- `Service::initial`: the `since` of the Subscribe sent on every new connection. `none` = the
subtraction `last - SUBSCRIBE_BACKLOG_DELTA` underflowed (panic, see `Site.subscribeBacklog`; before 192a092).
Since 192a092 the subtraction saturates. -/
def initialSince (c : Code) (σ : State) : Option Nat :=
  match σ.lastOnline with
  | none => some (σ.now - 86400000)        -- `now - INITIAL_SUBSCRIBE_BACKLOG_DELTA`
  | some last =>
    if c.subscribeSaturates then some (last - SUBSCRIBE_BACKLOG_DELTA)
    else if last < SUBSCRIBE_BACKLOG_DELTA then none
    else some (last - SUBSCRIBE_BACKLOG_DELTA)

/-- The session table after `Service::connected(remote, addr, Link::Inbound)`: a peer that already has a
session gets it reset; if that session was connected, its ongoing fetches are failed (commit ba93de2). -/
def connectedSessions (σ : State) (remote : Nid) (host : Host) (routable persistent : Bool) : State :=
  match σ.sessions remote with
  | some s =>
    if s.isConnected then
      { σ with fetching := failFetches σ remote, sessions := upd σ.sessions remote (some s.toConnected) }
    else { σ with sessions := upd σ.sessions remote (some s.toConnected) }
  | none =>
    let s : Session := { id := remote, host := host, routable := routable, persistent := persistent,
                         state := SessState.connected [] none, queue := [], subscribed := false }
    { σ with sessions := upd σ.sessions remote (some s) }

/-- `Service::connected(remote, addr, Link::Inbound)`: first `self.initial(link)` builds the initial messages. -/
def connectedInbound (c : Code) (σ : State) (remote : Nid) (host : Host) (routable persistent : Bool) :
    Outcome × State :=
  match initialSince c σ with
  | none => (.panic .subscribeBacklog, σ)
  | some _ => (.ok, connectedSessions σ remote host routable persistent)

/-- The node process is restarted: a new `Service` over the same database. Sessions, ongoing fetches and
rate-limiter buckets are gone; `initialize` records the newest stored announcement as `last_online_at` and
creates a session (in `Initial` state) for every configured peer. -/
def restarted (σ : State) (configured : List (Nid × Host × Bool)) : State :=
  { σ with
    sessions := fun k =>
      match configured.find? (·.1 = k) with
      | some (p, h, ro) =>
        some (Session.mk p h ro true SessState.initial [] false)
      | none => none
    fetching := fun _ => none
    buckets := fun _ => none
    lastOnline := σ.gossipMax }

/-- `Service::disconnected(remote, link, reason)` with `link` = the session's link. -/
def disconnected (σ : State) (remote : Nid) : State :=
  match σ.sessions remote with
  | none => σ
  | some s =>
    if s.persistent then
      { σ with fetching := failFetches σ remote,
               sessions := upd σ.sessions remote (some { s with state := .disconnected }) }
    else
      { σ with fetching := failFetches σ remote, sessions := upd σ.sessions remote none }

/-! ## runs -/

inductive Op where
  | recv (remote : Nid) (m : Msg)
  | connectIn (remote : Nid) (host : Host) (routable persistent : Bool)
  | disconnect (remote : Nid)
  | restart (configured : List (Nid × Host × Bool))
  deriving Repr, DecidableEq

def step (c : Code) (env : Env) (σ : State) : Op → Outcome × State
  | .recv r m => handleMessage c env σ r m
  | .connectIn r h ro p => connectedInbound c σ r h ro p
  | .disconnect r => (.ok, disconnected σ r)
  | .restart cfg => (.ok, restarted σ cfg)

/-- A whole history; the oracle may answer differently at every step. Stops at the first panic. -/
def run (c : Code) (envs : Nat → Env) (σ : State) : List Op → Nat → List Outcome
  | [], _ => []
  | op :: ops, i =>
    match step c (envs i) σ op with
    | (.panic s, _) => [.panic s]
    | (o, σ') => o :: run c envs σ' ops (i + 1)

end HeartwoodModel.ServiceInput
