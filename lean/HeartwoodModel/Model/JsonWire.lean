import HeartwoodModel.Model.Json
/-!
# Line-protocol syntax for JSON trees (used by the C18 and C19 drivers)

Not a model of any Rust code: the textual form in which the harness hands a member-list JSON value to the
driver. One token, no spaces:

```
N | T | F            null, true, false
I<int>               integer, e.g. I-5
D<digits>            a floating point number (the digits select the literal the harness prints)
S<hex>               string, UTF-8 bytes in hex (possibly empty)
K<idx>               string: entry <idx> of the case's string table (used for DID strings)
A[v,v,…]             array
O{k:v,k:v,…}         object; k is <hex> or K<idx>; members in the given order, duplicates allowed
```

Every recursive call consumes at least one character, so `fuel = length + 1` always suffices; running out
is reported as `.fuel` (the driver prints `fuel`).
-/
namespace HeartwoodModel.JsonWire
open HeartwoodModel.Json

inductive Res (α : Type) where
  | ok (a : α) (rest : List Char)
  | syntax
  | fuel

def hexVal (c : Char) : Option Nat :=
  if '0' ≤ c ∧ c ≤ '9' then some (c.toNat - 48)
  else if 'a' ≤ c ∧ c ≤ 'f' then some (c.toNat - 87)
  else none

/-- Longest even-length run of lower-case hex digits. -/
def takeHex : List Char → Bytes → Bytes × List Char
  | a :: b :: rest, acc =>
    match hexVal a, hexVal b with
    | some x, some y => takeHex rest ((x * 16 + y) :: acc)
    | _, _ => (acc.reverse, a :: b :: rest)
  | rest, acc => (acc.reverse, rest)

def takeNat : List Char → Nat → Nat → Nat × Nat × List Char
  | c :: rest, n, k => if c.isDigit then takeNat rest (n * 10 + (c.toNat - 48)) (k + 1) else (n, k, c :: rest)
  | [], n, k => (n, k, [])

def lookupIdx (tbl : List (Nat × Bytes)) (i : Nat) : Option Bytes :=
  match tbl with
  | [] => none
  | (j, s) :: rest => if i = j then some s else lookupIdx rest i

/-- A string: `<hex>` or `K<idx>`. -/
def parseStr (tbl : List (Nat × Bytes)) : List Char → Res Bytes
  | 'K' :: r =>
    let (n, k, r') := takeNat r 0 0
    if k = 0 then .syntax else
    match lookupIdx tbl n with
    | some s => .ok s r'
    | none => .syntax
  | r => let (s, r') := takeHex r []; .ok s r'

mutual
def parseValue (tbl : List (Nat × Bytes)) : Nat → List Char → Res Json
  | 0, _ => .fuel
  | _ + 1, 'N' :: r => .ok .null r
  | _ + 1, 'T' :: r => .ok (.bool true) r
  | _ + 1, 'F' :: r => .ok (.bool false) r
  | _ + 1, 'D' :: r => let (_, _, r') := takeNat r 0 0; .ok .float r'
  | _ + 1, 'I' :: '-' :: r =>
    let (n, k, r') := takeNat r 0 0
    if k = 0 then .syntax else .ok (.int (-(n : Int))) r'
  | _ + 1, 'I' :: r =>
    let (n, k, r') := takeNat r 0 0
    if k = 0 then .syntax else .ok (.int (n : Int)) r'
  | _ + 1, 'S' :: r => let (s, r') := takeHex r []; .ok (.str s) r'
  | _ + 1, 'K' :: r =>
    match parseStr tbl ('K' :: r) with
    | .ok s r' => .ok (.str s) r'
    | .syntax => .syntax
    | .fuel => .fuel
  | _ + 1, 'A' :: '[' :: ']' :: r => .ok (.arr []) r
  | fuel + 1, 'A' :: '[' :: r => parseElems tbl fuel r []
  | _ + 1, 'O' :: '{' :: '}' :: r => .ok (.obj []) r
  | fuel + 1, 'O' :: '{' :: r => parseMembers tbl fuel r []
  | _ + 1, _ => .syntax
def parseElems (tbl : List (Nat × Bytes)) : Nat → List Char → List Json → Res Json
  | 0, _, _ => .fuel
  | fuel + 1, r, acc =>
    match parseValue tbl fuel r with
    | .ok v (',' :: r') => parseElems tbl fuel r' (v :: acc)
    | .ok v (']' :: r') => .ok (.arr (v :: acc).reverse) r'
    | .ok _ _ => .syntax
    | .syntax => .syntax
    | .fuel => .fuel
def parseMembers (tbl : List (Nat × Bytes)) : Nat → List Char → List (Bytes × Json) → Res Json
  | 0, _, _ => .fuel
  | fuel + 1, r, acc =>
    match parseStr tbl r with
    | .ok k (':' :: r1) =>
      match parseValue tbl fuel r1 with
      | .ok v (',' :: r') => parseMembers tbl fuel r' ((k, v) :: acc)
      | .ok v ('}' :: r') => .ok (.obj ((k, v) :: acc).reverse) r'
      | .ok _ _ => .syntax
      | .syntax => .syntax
      | .fuel => .fuel
    | .ok _ _ => .syntax
    | .syntax => .syntax
    | .fuel => .fuel
end

/-- Parse a whole token. -/
def parseTree (tbl : List (Nat × Bytes)) (s : String) : Res Json :=
  let cs := s.toList
  match parseValue tbl (cs.length + 1) cs with
  | .ok v [] => .ok v []
  | .ok _ _ => .syntax
  | .syntax => .syntax
  | .fuel => .fuel

/-- All strings (values and keys) of a value, for coverage checks of the per-case tables. -/
def bytesToHex (bs : Bytes) : String :=
  String.ofList (bs.foldr (fun b acc =>
    let d (n : Nat) : Char := if n < 10 then Char.ofNat (48 + n) else Char.ofNat (87 + n)
    d (b / 16 % 16) :: d (b % 16) :: acc) [])

end HeartwoodModel.JsonWire
