import HeartwoodModel.Model.Crdt
import HeartwoodModel.Driver.Util
/-! Driver entry for C22.

Case: `<type> <A> <B> <C>` — three *construction scripts* for values of the named CRDT type (the same
scripts the harness runs on the real `radicle-crdt` types). Output:

    <a> <b> <c> <a∨b> <(a∨b)∨c> <bits>

the canonical states of the three operands and of the two joins, and the bits
`a==b, ab==ba, (ab)c==a(bc), aa==a, ab==a, abc==ab`.

Script syntax (keys / clocks / values are `u8`, printed in decimal):

* `max` `min`: `n` · `bool`: `0|1` · `unit`: `u` · `optmax`: `-|n` · `red`: `R|n` · `optred`: `-|R|n`
* `regmax` `regmin` `regred` `regopt` (`LWWReg<T, u8>`): `v@c;v@c;…` — first is `new(v, c)`, the rest `set(v, c)`
* `gmap` `gmapred` `gmapreg` (`GMap<u8, V>`): `-` or `k=V;k=V;…` — `insert(k, V)` in this order
* `gset`: `-` or `k;k;…`
* `lwwmap` `lwwmapred` (`LWWMap<u8, V, u8>`): `-` or ops `+k=v@c` (insert) / `!k@c` (remove)
* `lwwset` (`LWWSet<u8, Lamport>`): `-` or ops `+k@c` / `!k@c`

State syntax: scalars as above, `LWWReg` as `v@c`, `GMap` as sorted `k=V;…`, `GSet` as sorted `k;…`;
`LWWMap`/`LWWSet` as sorted `k=v@c` / `+k@c` for visible keys and `k=-@c` / `!k@c` for tombstones with
clock `c > 0` (a tombstone at the least clock cannot be told from an absent key through the API of the real
type, which the harness uses to recover the hidden clocks; Rust's `==` does distinguish them and is
compared through the bits). -/
namespace HeartwoodModel.Driver.C22
open HeartwoodModel.Crdt HeartwoodModel.Driver.Util

class Wire (α : Type) where
  build : String → Option α
  render : α → String

def byte? (s : String) : Option Nat :=
  match nat? s with
  | some n => if n < 256 then some n else none
  | none => none

def dropFirst (s : String) : String := String.ofList (s.toList.drop 1)

def showList (parts : List String) : String := if parts.isEmpty then "-" else joinWith ";" parts

instance : Wire (MaxV Nat) := ⟨fun s => (byte? s).map (⟨·⟩), fun m => toString m.val⟩
instance : Wire (MinV Nat) := ⟨fun s => (byte? s).map (⟨·⟩), fun m => toString m.val⟩
instance : Wire Bool := ⟨bool?, showBool⟩
instance : Wire Unit := ⟨fun s => if s == "u" then some () else none, fun _ => "u"⟩

instance [Wire α] : Wire (Option α) where
  build s := if s == "-" then some none else (Wire.build s).map some
  render
    | none => "-"
    | some a => Wire.render a

instance : Wire (Redactable Nat) where
  build s := if s == "R" then some .redacted else (byte? s).map .present
  render
    | .redacted => "R"
    | .present n => toString n

def parseVC [Wire T] (s : String) : Option (T × Nat) :=
  match splitOn s '@' with
  | [v, c] => do
    let v ← Wire.build v
    let c ← byte? c
    some (v, c)
  | _ => none

instance [Wire T] [Semilattice T] : Wire (LWWReg T Nat) where
  build s := do
    let ops ← (splitOn s ';').mapM parseVC
    match ops with
    | [] => none
    | (v, c) :: rest => some (rest.foldl (fun r vc => r.set vc.1 vc.2) (LWWReg.new v c))
  render r := s!"{Wire.render r.value}@{r.clock.val}"

instance [Wire V] [Semilattice V] : Wire (GMap Nat V) where
  build s :=
    if s == "-" then some GMap.empty else do
      let es ← (splitOn s ';').mapM (fun e =>
        match splitOn e '=' with
        | [k, v] => do
          let k ← byte? k
          let v ← Wire.build v
          some (k, v)
        | _ => none)
      some (es.foldl (fun m kv => m.insert kv.1 kv.2) GMap.empty)
  render m := showList (m.entries.map fun kv => s!"{kv.1}={Wire.render kv.2}")

instance : Wire (GSet Nat) where
  build s :=
    if s == "-" then some GSet.empty else do
      let ks ← (splitOn s ';').mapM byte?
      some (ks.foldl (fun m k => m.insert k) GSet.empty)
  render m := showList (m.keys.map toString)

/-- `+k=v@c` / `!k@c` -/
def parseMapOp [Wire V] (s : String) : Option (Write Nat V Nat) :=
  if s.startsWith "+" then
    match splitOn (dropFirst s) '=' with
    | [k, vc] => do
      let k ← byte? k
      let (v, c) ← parseVC vc
      some ⟨k, some v, c⟩
    | _ => none
  else if s.startsWith "!" then
    match splitOn (dropFirst s) '@' with
    | [k, c] => do
      let k ← byte? k
      let c ← byte? c
      some ⟨k, none, c⟩
    | _ => none
  else none

instance [Wire V] [Semilattice V] : Wire (LWWMap Nat V Nat) where
  build s :=
    if s == "-" then some LWWMap.empty else do
      let ops ← (splitOn s ';').mapM parseMapOp
      some (ops.foldl LWWMap.apply LWWMap.empty)
  render m := showList (m.inner.entries.filterMap fun kr =>
    match kr.2.value with
    | some v => some s!"{kr.1}={Wire.render v}@{kr.2.clock.val}"
    | none => if kr.2.clock.val = 0 then none else some s!"{kr.1}=-@{kr.2.clock.val}")

/-- `+k@c` / `!k@c` -/
def parseSetOp (s : String) : Option (Bool × Nat × Nat) :=
  if s.startsWith "+" || s.startsWith "!" then
    match splitOn (dropFirst s) '@' with
    | [k, c] => do
      let k ← byte? k
      let c ← byte? c
      some (s.startsWith "+", k, c)
    | _ => none
  else none

instance : Wire (LWWSet Nat Nat) where
  build s :=
    if s == "-" then some LWWSet.empty else do
      let ops ← (splitOn s ';').mapM parseSetOp
      some (ops.foldl (fun m op => if op.1 then m.insert op.2.1 op.2.2 else m.remove op.2.1 op.2.2) LWWSet.empty)
  render m := showList (m.inner.inner.entries.filterMap fun kr =>
    match kr.2.value with
    | some _ => some s!"+{kr.1}@{kr.2.clock.val}"
    | none => if kr.2.clock.val = 0 then none else some s!"!{kr.1}@{kr.2.clock.val}")

def runLaws (α : Type) [Semilattice α] [DecidableEq α] [Wire α] (a b c : String) : String :=
  match (Wire.build a : Option α), (Wire.build b : Option α), (Wire.build c : Option α) with
  | some a, some b, some c =>
    let ab := merge a b
    let abc := merge ab c
    let bits := [decide (a = b), decide (ab = merge b a), decide (abc = merge a (merge b c)),
      decide (merge a a = a), decide (ab = a), decide (abc = ab)]
    let r : α → String := Wire.render
    s!"{r a} {r b} {r c} {r ab} {r abc} {joinWith "" (bits.map showBool)}"
  | _, _, _ => "bad-op"

def run (args : List String) : String :=
  match args with
  | [ty, a, b, c] =>
    match ty with
    | "max" => runLaws (MaxV Nat) a b c
    | "min" => runLaws (MinV Nat) a b c
    | "bool" => runLaws Bool a b c
    | "unit" => runLaws Unit a b c
    | "optmax" => runLaws (Option (MaxV Nat)) a b c
    | "red" => runLaws (Redactable Nat) a b c
    | "optred" => runLaws (Option (Redactable Nat)) a b c
    | "regmax" => runLaws (LWWReg (MaxV Nat) Nat) a b c
    | "regmin" => runLaws (LWWReg (MinV Nat) Nat) a b c
    | "regred" => runLaws (LWWReg (Redactable Nat) Nat) a b c
    | "regopt" => runLaws (LWWReg (Option (MaxV Nat)) Nat) a b c
    | "gmap" => runLaws (GMap Nat (MaxV Nat)) a b c
    | "gmapred" => runLaws (GMap Nat (Redactable Nat)) a b c
    | "gmapreg" => runLaws (GMap Nat (LWWReg (Option (MaxV Nat)) Nat)) a b c
    | "gset" => runLaws (GSet Nat) a b c
    | "lwwmap" => runLaws (LWWMap Nat (MaxV Nat) Nat) a b c
    | "lwwmapred" => runLaws (LWWMap Nat (Redactable Nat) Nat) a b c
    | "lwwset" => runLaws (LWWSet Nat Nat) a b c
    | _ => "bad-op"
  | _ => "bad-op"

end HeartwoodModel.Driver.C22
