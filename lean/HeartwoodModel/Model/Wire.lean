import HeartwoodModel.Model.Codec
/-!
# Model of the gossip message codec — C13a, C14, C15

`radicle-node/src/wire.rs` (primitives, strings, bounded vectors, filters, oids, timestamps),
`wire/message.rs` (message type ids, addresses, `ZeroBytes`, announcements) and the `Encode`/`Decode`
impls of `service/message.rs` (`NodeAnnouncement` with its optional trailing user agent).

Opaque payloads are byte strings with a length constraint: public keys (32), signatures (64), git oids
(20, always sent with a `u16` length prefix of 20), bloom filter contents (1, 4 or 16 KiB), IP octets.
String validity is implemented on bytes: UTF-8 well-formedness (`String::from_utf8`), `Alias::from_str`
(non-empty, ≤ 32 bytes, no `char::is_control`/`char::is_whitespace` code point), `UserAgent::from_str`.
The validity of a raw Tor v3 onion address (version byte, SHA3 checksum, curve point) is a parameter
(`Env.onionOk`); its graph on the points used is sent with each case by the harness.
-/
namespace HeartwoodModel.Wire
open HeartwoodModel.Codec

/-! ## Strings -/

def isCont (b : UInt8) : Bool := 0x80 ≤ b.toNat && b.toNat ≤ 0xBF

/-- `String::from_utf8` as a decoder to code points: `none` iff the bytes are not well-formed UTF-8
(Unicode Table 3-7: no overlong forms, no surrogates, nothing above U+10FFFF). -/
def utf8Decode : Bytes → Option (List Nat)
  | [] => some []
  | b0 :: rest =>
    let n0 := b0.toNat
    if n0 < 0x80 then (utf8Decode rest).map (n0 :: ·)
    else if 0xC2 ≤ n0 && n0 ≤ 0xDF then
      match rest with
      | b1 :: rest1 =>
        if isCont b1 then
          (utf8Decode rest1).map (((n0 - 0xC0) * 64 + (b1.toNat - 0x80)) :: ·)
        else none
      | _ => none
    else if 0xE0 ≤ n0 && n0 ≤ 0xEF then
      match rest with
      | b1 :: b2 :: rest2 =>
        let lo := if n0 = 0xE0 then 0xA0 else 0x80
        let hi := if n0 = 0xED then 0x9F else 0xBF
        if lo ≤ b1.toNat && b1.toNat ≤ hi && isCont b2 then
          (utf8Decode rest2).map
            (((n0 - 0xE0) * 4096 + (b1.toNat - 0x80) * 64 + (b2.toNat - 0x80)) :: ·)
        else none
      | _ => none
    else if 0xF0 ≤ n0 && n0 ≤ 0xF4 then
      match rest with
      | b1 :: b2 :: b3 :: rest3 =>
        let lo := if n0 = 0xF0 then 0x90 else 0x80
        let hi := if n0 = 0xF4 then 0x8F else 0xBF
        if lo ≤ b1.toNat && b1.toNat ≤ hi && isCont b2 && isCont b3 then
          (utf8Decode rest3).map
            (((n0 - 0xF0) * 262144 + (b1.toNat - 0x80) * 4096 + (b2.toNat - 0x80) * 64
              + (b3.toNat - 0x80)) :: ·)
        else none
      | _ => none
    else none

def utf8Ok (s : Bytes) : Bool := (utf8Decode s).isSome

/-- `char::is_control`: general category Cc. -/
def isControl (c : Nat) : Bool := c ≤ 0x1F || (0x7F ≤ c && c ≤ 0x9F)

/-- `char::is_whitespace`: the `White_Space` property. -/
def isWhitespace (c : Nat) : Bool :=
  (0x09 ≤ c && c ≤ 0x0D) || c = 0x20 || c = 0x85 || c = 0xA0 || c = 0x1680 ||
  (0x2000 ≤ c && c ≤ 0x200A) || c = 0x2028 || c = 0x2029 || c = 0x202F || c = 0x205F || c = 0x3000

/-- `Alias::from_str` on the bytes of a string (`MAX_ALIAS_LENGTH = 32`). -/
def aliasOk (s : Bytes) : Bool :=
  match utf8Decode s with
  | none => false
  | some cps => !s.isEmpty && !cps.any (fun c => isControl c || isWhitespace c) && s.length ≤ 32

/-- Split on a byte (like `str::split` on an ASCII char): always at least one segment. -/
def splitOn (sep : UInt8) : Bytes → List Bytes
  | [] => [[]]
  | x :: xs =>
    if x = sep then [] :: splitOn sep xs
    else
      match splitOn sep xs with
      | seg :: segs => (x :: seg) :: segs
      | [] => [[x]]

def isAsciiGraphic (b : UInt8) : Bool := 0x21 ≤ b.toNat && b.toNat ≤ 0x7E

/-- One `/`-separated segment of a user agent: without a `:` anything goes; otherwise `client:version` with
both parts non-empty and `client` ASCII-graphic (the check on `version` in the Rust is vacuous:
`is_ascii_graphic() || !reserved.contains(..)` holds for every char of a segment). -/
def agentSegmentOk (seg : Bytes) : Bool :=
  if seg.contains 0x3A then
    let client := seg.takeWhile (· ≠ 0x3A)
    let version := (seg.dropWhile (· ≠ 0x3A)).drop 1
    !client.isEmpty && !version.isEmpty && client.all isAsciiGraphic
  else true

/-- `UserAgent::from_str` on the bytes of a string. -/
def agentOk (s : Bytes) : Bool :=
  utf8Ok s && s.length ≤ 64 &&
  match s with
  | 0x2F :: rest =>
    match rest.reverse with
    | 0x2F :: midRev =>
      let mid := midRev.reverse
      !mid.isEmpty && (splitOn 0x2F mid).all agentSegmentOk
    | _ => false
  | _ => false

/-- `UserAgent::default()`: `"/radicle/"`. -/
def defaultAgent : Bytes := [0x2F, 0x72, 0x61, 0x64, 0x69, 0x63, 0x6C, 0x65, 0x2F]

/-! ## Values -/

/-- Opaque external functions. -/
structure Env where
  /-- `tor::OnionAddrV3::from_raw_bytes` succeeds on these 35 bytes. -/
  onionOk : Bytes → Bool

inductive Host where
  | ipv4 (octets : Bytes)
  | ipv6 (octets : Bytes)
  | dns (name : Bytes)
  | onion (raw : Bytes)
  deriving Repr, DecidableEq

structure Addr where
  host : Host
  port : Nat
  deriving Repr, DecidableEq

structure RefsAt where
  remote : Bytes
  «at» : Bytes
  deriving Repr, DecidableEq

/-- `service::message::Message` -/
inductive Msg where
  | subscribe (filter : Bytes) (since «until» : Nat)
  | nodeAnn (node sig : Bytes) (version features ts : Nat) (alias : Bytes) (addrs : List Addr)
      (nonce : Nat) (agent : Bytes)
  | invAnn (node sig : Bytes) (inventory : List Bytes) (ts : Nat)
  | refsAnn (node sig : Bytes) (rid : Bytes) (refs : List RefsAt) (ts : Nat)
  | info (rid «at» : Bytes)
  | ping (ponglen zeroes : Nat)
  | pong (zeroes : Nat)
  deriving Repr, DecidableEq

/-- Ghost record of the lossy steps a decode took (not computed by the Rust; it does not influence the
decoded value — `decodeMsg` is the first projection of `decodeMsgG`). -/
structure Ghost where
  /-- a ping/pong padding byte was not zero (`ZeroBytes::decode` does not look at the bytes) -/
  padNonZero : Bool := false
  /-- the user agent of a node announcement was missing and replaced by the default -/
  agentDefaulted : Bool := false
  deriving Repr, DecidableEq

def Ghost.clean (g : Ghost) : Bool := !g.padNonZero && !g.agentDefaulted

/-! ## Decoders -/

def u16 : Dec Nat := beNat 2
def u64 : Dec Nat := beNat 8

/-- `Timestamp::decode`: `u64`, at most `i64::MAX`. -/
def tsMax : Nat := 9223372036854775807
def timestamp : Dec Nat := u64.filterMap fun n => if n ≤ tsMax then some n else none

/-- `git::Oid::decode`: `u16` length that must be 20 (checked before the bytes are read). -/
def oid : Dec Bytes := u16.bind fun len => if len = 20 then take 20 else Dec.fail

def pubkey : Dec Bytes := take 32
def signature : Dec Bytes := take 64

/-- `String::decode`: `u8` length, the bytes, then `String::from_utf8`. -/
def str : Dec Bytes := ((beNat 1).bind take).filterMap fun s => if utf8Ok s then some s else none

def alias : Dec Bytes := str.filterMap fun s => if aliasOk s then some s else none
def agent : Dec Bytes := str.filterMap fun s => if agentOk s then some s else none

/-- `filter::FILTER_SIZES` -/
def filterSizes : List Nat := [1024, 4096, 16384]

/-- `Filter::decode`: `u16` size that must be one of the three filter sizes, then the bytes. -/
def filter : Dec Bytes := u16.bind fun size => if size ∈ filterSizes then take size else Dec.fail

/-- `BoundedVec::<T, N>::decode`: `u16` length, at most `N`, then that many items. -/
def boundedVec {α : Type} (N : Nat) (d : Dec α) : Dec (List α) :=
  u16.bind fun len => if len ≤ N then count d len else Dec.fail

/-- `Address::decode` -/
def host (env : Env) : Dec Host :=
  (beNat 1).bind fun ty =>
    if ty = 1 then (take 4).map .ipv4
    else if ty = 2 then (take 16).map .ipv6
    else if ty = 3 then str.map .dns
    else if ty = 4 then (take 35).filterMap fun raw => if env.onionOk raw then some (.onion raw) else none
    else Dec.fail

def address (env : Env) : Dec Addr :=
  (host env).bind fun h => u16.map fun p => ⟨h, p⟩

def refsAt : Dec RefsAt := pubkey.bind fun r => oid.map fun a => ⟨r, a⟩

/-- `ZeroBytes::decode`: a `u16` count, then that many bytes, whose values are ignored. The ghost flag says
whether one of them was not zero. -/
def zeroBytesG : Dec (Nat × Bool) :=
  u16.bind fun n => (take n).map fun pad => (n, pad.any (· ≠ 0))

/-- The trailing user agent of a node announcement (as of `fix:` 7273931). It is optional — older nodes do
not send it — and counts as absent only if NOTHING follows the nonce (`reader.read(&mut first)? == 0`), in
which case `UserAgent::default()` is used. Otherwise the string is decoded normally: a user agent that is
cut short is `incomplete` (an EOF error: `wire::deserialize` fails, a gossip frame reports `invalid`). -/
def agentOrDefault : Dec (Bytes × Bool) := fun b =>
  match b with
  | [] => .ok (defaultAgent, true) []
  | _ :: _ => agent.map (fun ua => (ua, false)) b

def ADDRESS_LIMIT : Nat := 16
def REF_REMOTE_LIMIT : Nat := 1024
def INVENTORY_LIMIT : Nat := 2973

/-- `Subscribe` (type 8): filter, since, until. -/
def subscribeBody : Dec (Msg × Ghost) :=
  filter.bind fun f => timestamp.bind fun s => timestamp.map fun u => (.subscribe f s u, {})

/-- Node announcement (type 2): node id, signature, then `NodeAnnouncement::decode`. -/
def nodeAnnBody (env : Env) : Dec (Msg × Ghost) :=
  pubkey.bind fun node => signature.bind fun sig =>
  (beNat 1).bind fun version => u64.bind fun features => timestamp.bind fun ts =>
  alias.bind fun al => (boundedVec ADDRESS_LIMIT (address env)).bind fun addrs =>
  u64.bind fun nonce => agentOrDefault.map fun uad =>
    (.nodeAnn node sig version features ts al addrs nonce uad.1, { agentDefaulted := uad.2 })

/-- Inventory announcement (type 4). -/
def invAnnBody : Dec (Msg × Ghost) :=
  pubkey.bind fun node => signature.bind fun sig =>
  (boundedVec INVENTORY_LIMIT oid).bind fun inv => timestamp.map fun ts =>
    (.invAnn node sig inv ts, {})

/-- Refs announcement (type 6). -/
def refsAnnBody : Dec (Msg × Ghost) :=
  pubkey.bind fun node => signature.bind fun sig =>
  oid.bind fun rid => (boundedVec REF_REMOTE_LIMIT refsAt).bind fun refs => timestamp.map fun ts =>
    (.refsAnn node sig rid refs ts, {})

/-- `Info` (type 14): a `u16` info type, only `RefsAlreadySynced = 1` is known. -/
def infoBody : Dec (Msg × Ghost) :=
  u16.bind fun infoTy =>
    if infoTy = 1 then oid.bind fun rid => oid.map fun a => (.info rid a, {})
    else Dec.fail

/-- `Ping` (type 10): pong length, zero padding. -/
def pingBody : Dec (Msg × Ghost) :=
  u16.bind fun ponglen => zeroBytesG.map fun znz => (.ping ponglen znz.1, { padNonZero := znz.2 })

/-- `Pong` (type 12): zero padding. -/
def pongBody : Dec (Msg × Ghost) :=
  zeroBytesG.map fun znz => (.pong znz.1, { padNonZero := znz.2 })

/-- Dispatch on the `MessageType`; anything else is `UnknownMessageType`. -/
def bodyOf (env : Env) (ty : Nat) : Dec (Msg × Ghost) :=
  if ty = 8 then subscribeBody
  else if ty = 2 then nodeAnnBody env
  else if ty = 4 then invAnnBody
  else if ty = 6 then refsAnnBody
  else if ty = 14 then infoBody
  else if ty = 10 then pingBody
  else if ty = 12 then pongBody
  else Dec.fail

/-- `Message::decode`, with the ghost record. -/
def decodeMsgG (env : Env) : Dec (Msg × Ghost) := u16.bind (bodyOf env)

/-- `Message::decode` -/
def decodeMsg (env : Env) : Dec Msg := (decodeMsgG env).map Prod.fst

/-- `wire::deserialize::<Message>`: the whole input must be consumed (`Error::UnexpectedBytes`). -/
def deserializeG (env : Env) (b : Bytes) : Res (Msg × Ghost) :=
  match decodeMsgG env b with
  | .ok mg [] => .ok mg []
  | .ok _ (_ :: _) => .invalid
  | .incomplete => .incomplete
  | .invalid => .invalid
  | .panic s => .panic s

def deserialize (env : Env) (b : Bytes) : Res Msg :=
  match deserializeG env b with
  | .ok mg r => .ok mg.1 r
  | .incomplete => .incomplete
  | .invalid => .invalid
  | .panic s => .panic s

/-! ## Encoders -/

def encU16 (n : Nat) : Bytes := beEnc 2 n
def encU64 (n : Nat) : Bytes := beEnc 8 n
/-- `&str::encode`: `u8` length + bytes (the Rust asserts `len ≤ 255`, see `Msg.strsOk`). -/
def encStr (s : Bytes) : Bytes := beEnc 1 s.length ++ s
/-- `git::Oid::encode`: the 20 bytes as a `&[u8]` slice, i.e. with a `u16` length prefix. -/
def encOid (o : Bytes) : Bytes := encU16 o.length ++ o
/-- `&[T]::encode`: `len as u16`, then the items. -/
def encVec {α : Type} (e : α → Bytes) (l : List α) : Bytes := encU16 l.length ++ (l.map e).flatten

def Host.encode : Host → Bytes
  | .ipv4 o => [1] ++ o
  | .ipv6 o => [2] ++ o
  | .dns n => [3] ++ encStr n
  | .onion raw => [4] ++ raw

def Addr.encode (a : Addr) : Bytes := a.host.encode ++ encU16 a.port
def RefsAt.encode (r : RefsAt) : Bytes := r.remote ++ encOid r.at

/-- `ZeroBytes::encode` -/
def encZeroes (n : Nat) : Bytes := encU16 n ++ List.replicate n 0

/-- `Message::type_id` -/
def Msg.typeId : Msg → Nat
  | .subscribe .. => 8
  | .nodeAnn .. => 2
  | .invAnn .. => 4
  | .refsAnn .. => 6
  | .info .. => 14
  | .ping .. => 10
  | .pong .. => 12

/-- What `Message::encode` writes after the type id. -/
def Msg.encodeBody : Msg → Bytes
  | .subscribe f s u => (encU16 f.length ++ f) ++ encU64 s ++ encU64 u
  | .nodeAnn node sig v feat ts al addrs nonce ua =>
    node ++ sig ++ beEnc 1 v ++ encU64 feat ++ encU64 ts ++ encStr al ++
      encVec Addr.encode addrs ++ encU64 nonce ++ encStr ua
  | .invAnn node sig inv ts => node ++ sig ++ encVec encOid inv ++ encU64 ts
  | .refsAnn node sig rid refs ts =>
    node ++ sig ++ encOid rid ++ encVec RefsAt.encode refs ++ encU64 ts
  | .info rid a => encU16 1 ++ encOid rid ++ encOid a
  | .ping p z => encU16 p ++ encZeroes z
  | .pong z => encZeroes z

/-- The bytes `Message::encode` writes. -/
def Msg.encode (m : Msg) : Bytes := encU16 m.typeId ++ m.encodeBody

/-- Every string of the message fits the `u8` length prefix (`assert!(self.len() <= u8::MAX)` in
`&str::encode`). -/
def Msg.strsOk : Msg → Bool
  | .nodeAnn _ _ _ _ _ al addrs _ ua =>
    al.length ≤ 255 && ua.length ≤ 255 &&
      addrs.all fun a => match a.host with | .dns n => n.length ≤ 255 | _ => true
  | _ => true

/-- `wire::serialize(&msg)`: `none` = it panics (`Message::encode` returns "Message exceeds maximum size"
for more than `u16::MAX` bytes and `serialize` unwraps; or a string is too long). -/
def Msg.serialize? (m : Msg) : Option Bytes :=
  if m.strsOk && m.encode.length ≤ 65535 then some m.encode else none

/-- What `Announcement::verify` checks the signature over: `wire::serialize(&self.message)`, the
re-encoding of the announcement without type id, node id and signature. `none` for other messages. -/
def Msg.signedPart : Msg → Option Bytes
  | .nodeAnn _ _ v feat ts al addrs nonce ua =>
    some (beEnc 1 v ++ encU64 feat ++ encU64 ts ++ encStr al ++ encVec Addr.encode addrs ++ encU64 nonce ++
      encStr ua)
  | .invAnn _ _ inv ts => some (encVec encOid inv ++ encU64 ts)
  | .refsAnn _ _ rid refs ts => some (encOid rid ++ encVec RefsAt.encode refs ++ encU64 ts)
  | _ => none

/-! ## Largest allocation made from a declared length

`String::decode` and `Filter::decode` allocate `vec![0; len]` and `BoundedVec::decode` calls
`Vec::with_capacity(len)` BEFORE the bytes are read. All three lengths are capped by constants: 255, the
largest filter size, and the vector limits (times the in-memory size of an item, at most
`2973 · 20 = 59 460`, `1024 · 52 = 53 248`, `16 · size_of::<Address>()`). The model does not track the
individual sites: the request made while decoding one message from a received payload is bounded by the
constant `allocMax`. -/
def allocMax : Nat := 65536
def msgAlloc (_payload : Bytes) : Nat := allocMax

end HeartwoodModel.Wire
