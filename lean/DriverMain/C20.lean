import HeartwoodModel.Driver.Loop
import HeartwoodModel.Driver.C20
def main : IO Unit := HeartwoodModel.Driver.driverMain "C20" HeartwoodModel.Driver.C20.run
