import HeartwoodModel.Driver.C10
/-! Driver entry for C11: same model (`Model/Gossip.lean`), case syntax and canonical output as C10
(see `Driver/C10.lean`). -/
namespace HeartwoodModel.Driver.C11

def run (args : List String) : String := HeartwoodModel.Driver.C10.runGossip args

end HeartwoodModel.Driver.C11
