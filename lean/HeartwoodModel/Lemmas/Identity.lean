import HeartwoodModel.Model.Identity
import HeartwoodModel.Lemmas.Cob
/-! Invariant of `Model/Identity.lean` and its preservation by every arm of `Identity::action`. -/
set_option linter.unusedVariables false
namespace HeartwoodModel.Identity
open HeartwoodModel.Cob

/-- `k` has a recorded `Accept` verdict on `r` whose signature verifies over `r`'s blob. -/
def ValidAccept (V : Key → Sig → Blob → Bool) (r : Revision) (k : Key) : Prop :=
  ∃ sig, get? k r.verdicts = some (.accept sig) ∧ V k sig r.doc.blob = true

/-- A strict majority of the delegates of `d` have each recorded a valid signature over `r`'s blob:
a duplicate-free list of at least `|delegates(d)|/2 + 1` delegates of `d` with `ValidAccept`. -/
def MajoritySigned (V : Key → Sig → Blob → Bool) (d : IdDoc) (r : Revision) : Prop :=
  ∃ L : List Key, L.Nodup ∧ d.majority ≤ L.length ∧ ∀ k ∈ L, d.isDelegate k = true ∧ ValidAccept V r k

theorem ValidAccept.congr {V : Key → Sig → Blob → Bool} {r r' : Revision} {k : Key}
    (hv : get? k r'.verdicts = get? k r.verdicts) (hd : r'.doc = r.doc) (h : ValidAccept V r k) :
    ValidAccept V r' k := by
  obtain ⟨sig, h1, h2⟩ := h
  exact ⟨sig, by rw [hv]; exact h1, by rw [hd]; exact h2⟩

theorem MajoritySigned.congr {V : Key → Sig → Blob → Bool} {d : IdDoc} {r r' : Revision}
    (hv : r'.verdicts = r.verdicts) (hd : r'.doc = r.doc) (h : MajoritySigned V d r) :
    MajoritySigned V d r' := by
  obtain ⟨L, h1, h2, h3⟩ := h
  exact ⟨L, h1, h2, fun k hk => ⟨(h3 k hk).1, (h3 k hk).2.congr (by rw [hv]) hd⟩⟩

/-- Invariant of evaluation. -/
structure Inv (V : Key → Sig → Blob → Bool) (s : Identity) : Prop where
  /-- the current revision exists and is accepted -/
  cur : ∃ c, get? s.current s.revisions = some (some c) ∧ c.state = .accepted
  heads : (s.heads.map (·.1)).Nodup
  /-- an active revision is a child of the current one, and every head pointing to it belongs to a
  delegate of the current document with a valid recorded signature -/
  active : ∀ id r c, get? id s.revisions = some (some r) → r.state = .active →
    get? s.current s.revisions = some (some c) →
    r.parent = some s.current ∧ ∀ k, get? k s.heads = some id → c.doc.isDelegate k = true ∧ ValidAccept V r k
  /-- every accepted revision but the root was signed by a majority of its (accepted) parent's delegates -/
  accepted : ∀ id r, get? id s.revisions = some (some r) → r.state = .accepted → id ≠ s.root →
    ∃ pid p, r.parent = some pid ∧ get? pid s.revisions = some (some p) ∧ p.state = .accepted ∧
      MajoritySigned V p.doc r
  /-- every head points to the id of a (possibly redacted) revision -/
  headsLive : ∀ k id, get? k s.heads = some id → get? id s.revisions ≠ none

theorem get?_ins_keeps {α : Type} {k k' : Nat} {v : α} {m : List (Nat × α)} (h : get? k m ≠ none) :
    get? k (ins k' v m) ≠ none := by
  rw [get?_ins]; split <;> simp_all

theorem get?_map_snd {α β : Type} (f : α → β) (k : Nat) (m : List (Nat × α)) :
    get? k (m.map fun kv => (kv.1, f kv.2)) = (get? k m).map f := by
  induction m with
  | nil => rfl
  | cons y ys ih =>
    obtain ⟨k', v⟩ := y
    simp only [List.map_cons, get?]
    split
    · rfl
    · exact ih

theorem get?_of_mem_nodup {α : Type} {m : List (Nat × α)} (hn : (m.map (·.1)).Nodup) {k : Nat} {v : α}
    (h : (k, v) ∈ m) : get? k m = some v := by
  induction m with
  | nil => cases h
  | cons y ys ih =>
    obtain ⟨k', v'⟩ := y
    simp only [List.map_cons, List.nodup_cons] at hn
    simp only [get?]
    rcases List.mem_cons.mp h with h | h
    · cases h; simp
    · split
      · rename_i hk
        subst hk
        exact absurd (List.mem_map.mpr ⟨(k', v), h, rfl⟩) hn.1
      · exact ih hn.2 h

/-- The voters for `id`: duplicate-free, as many as `adopt` counts, each with its head on `id`. -/
theorem voters {heads : List (Key × Id)} (hn : (heads.map (·.1)).Nodup) (id : Id) :
    ∃ L : List Key, L.Nodup ∧ L.length = (heads.filter fun h => h.2 = id).length ∧
      ∀ k ∈ L, get? k heads = some id := by
  refine ⟨(heads.filter fun h => h.2 = id).map (·.1), ?_, by simp, ?_⟩
  · exact List.Nodup.sublist (List.Sublist.map _ List.filter_sublist) hn
  · intro k hk
    obtain ⟨x, hx, rfl⟩ := List.mem_map.mp hk
    have := List.mem_filter.mp hx
    have h2 : x.2 = id := of_decide_eq_true this.2
    exact get?_of_mem_nodup hn (by rw [← h2]; exact this.1)

theorem voidActive_not_active {x : Option Revision} {r : Revision} (h : voidActive x = some r) :
    r.state ≠ .active := by
  unfold voidActive at h
  split at h
  · split at h
    · cases h; simp
    · cases h; assumption
  · cases h

theorem voidActive_of_not_active {r : Revision} (h : r.state ≠ .active) : voidActive (some r) = some r := by
  simp [voidActive, h]

theorem voidActive_accepted {x : Option Revision} {r : Revision} (h : voidActive x = some r)
    (ha : r.state = .accepted) : x = some r := by
  unfold voidActive at h
  split at h
  · split at h
    · cases h; cases ha
    · exact h
  · cases h

theorem ne_of_states' {m : List (Id × Option Revision)} {id1 id2 : Id} {r1 r2 : Revision}
    (h1 : get? id1 m = some (some r1)) (h2 : get? id2 m = some (some r2))
    (hs : r1.state ≠ r2.state) : id1 ≠ id2 := by
  intro h; subst h; rw [h1] at h2; cases h2; exact hs rfl

/-- What `adopt` does. -/
theorem adopt_spec {s s' : Identity} {cur : Revision} {id : Id} (h : adopt s cur id = .ok s') :
    s' = s ∨ (s.current ≠ id ∧ cur.doc.majority ≤ (s.heads.filter fun h => h.2 = id).length ∧
      ∃ r, get? id s.revisions = some (some r) ∧
        s' = { s with current := id, revisions := adoptedRevisions s.revisions id r }) := by
  unfold adopt at h
  split at h
  · cases h; exact Or.inl rfl
  · rename_i hne
    split at h
    · rename_i hmaj
      split at h
      · rename_i r hr
        cases h
        exact Or.inr ⟨hne, hmaj, r, hr, rfl⟩
      · cases h
    · cases h; exact Or.inl rfl

/-- A change of `current` and its justification. -/
def Transition (V : Key → Sig → Blob → Bool) (s s' : Identity) : Prop :=
  s'.current = s.current ∨
  ∃ c r1, get? s.current s.revisions = some (some c) ∧ get? s'.current s'.revisions = some (some r1) ∧
    r1.parent = some s.current ∧ MajoritySigned V c.doc r1

/-- `adopt` preserves the invariant; if it moves `current`, the new current revision is a child of the
old one signed by a majority of the old document's delegates; the old current revision is untouched. -/
theorem adopt_inv {V : Key → Sig → Blob → Bool} {s s' : Identity} {cur r : Revision} {id : Id}
    (inv : Inv V s) (hcur : get? s.current s.revisions = some (some cur))
    (hr : get? id s.revisions = some (some r)) (hact : r.state = .active)
    (h : adopt s cur id = .ok s') :
    Inv V s' ∧ Transition V s s' ∧
      (∀ id0 r0, get? id0 s.revisions = some (some r0) → r0.state = .accepted →
        get? id0 s'.revisions = some (some r0)) ∧ s'.root = s.root ∧ s'.heads = s.heads := by
  rcases adopt_spec h with rfl | ⟨hne, hmaj, r0, hr0, rfl⟩
  · exact ⟨inv, Or.inl rfl, fun _ _ h _ => h, rfl, rfl⟩
  · rw [hr] at hr0; cases hr0
    obtain ⟨c, hc, hca⟩ := inv.cur
    rw [hcur] at hc; cases hc
    obtain ⟨hpar, hev⟩ := inv.active id r cur hr hact hcur
    have hmajsigned : MajoritySigned V cur.doc { r with state := .accepted } := by
      obtain ⟨L, hn, hl, hk⟩ := voters inv.heads id
      refine ⟨L, hn, by rw [hl]; exact hmaj, fun k hkL => ?_⟩
      obtain ⟨hd, hva⟩ := hev k (hk k hkL)
      exact ⟨hd, hva.congr rfl rfl⟩
    have hget : ∀ k, get? k (adoptedRevisions s.revisions id r) =
        if k = id then some (some { r with state := .accepted }) else (get? k s.revisions).map voidActive := by
      intro k
      unfold adoptedRevisions
      rw [get?_map_snd, get?_ins]
      split
      · simp [voidActive]
      · rfl
    have hcur' : get? s.current (adoptedRevisions s.revisions id r) = some (some cur) := by
      rw [hget, if_neg hne, hcur]
      simp [voidActive_of_not_active (r := cur) (by rw [hca]; simp)]
    have hstab : ∀ id0 r0, get? id0 s.revisions = some (some r0) → r0.state = .accepted →
        get? id0 (adoptedRevisions s.revisions id r) = some (some r0) := by
      intro id0 r0 h0 hacc0
      have hne0 : id0 ≠ id := ne_of_states' h0 hr (by rw [hacc0, hact]; simp)
      rw [hget, if_neg hne0, h0]
      simp [voidActive_of_not_active (r := r0) (by rw [hacc0]; simp)]
    have hlive : ∀ k id0, get? k s.heads = some id0 →
        get? id0 (adoptedRevisions s.revisions id r) ≠ none := by
      intro k id0 hk
      rw [hget]
      split
      · simp
      · have := inv.headsLive k id0 hk
        cases hx : get? id0 s.revisions with
        | none => exact absurd hx this
        | some x => simp
    refine ⟨⟨?_, inv.heads, ?_, ?_, hlive⟩, Or.inr ⟨cur, { r with state := .accepted }, hcur, ?_, hpar, hmajsigned⟩,
      hstab, rfl, rfl⟩
    · exact ⟨{ r with state := .accepted }, by simp only [hget]; simp, rfl⟩
    · intro id2 r2 c2 hr2 hact2 _
      simp only [hget] at hr2
      split at hr2
      · cases hr2; cases hact2
      · cases hx : get? id2 s.revisions with
        | none => simp [hx] at hr2
        | some x =>
          simp only [hx, Option.map_some, Option.some.injEq] at hr2
          exact absurd hact2 (voidActive_not_active hr2)
    · intro id2 r2 hr2 hacc2 hroot
      simp only [hget] at hr2
      split at hr2
      · rename_i heq
        cases hr2
        refine ⟨s.current, cur, hpar, hcur', hca, hmajsigned⟩
      · rename_i hne2
        cases hx : get? id2 s.revisions with
        | none => simp [hx] at hr2
        | some x =>
          simp only [hx, Option.map_some, Option.some.injEq] at hr2
          have hx2 := voidActive_accepted hr2 hacc2
          subst hx2
          obtain ⟨pid, p, hp1, hp2, hp3, hp4⟩ := inv.accepted id2 r2 hx hacc2 hroot
          have hpne : pid ≠ id := by
            intro hh; subst hh; rw [hr] at hp2; cases hp2; rw [hact] at hp3; cases hp3
          refine ⟨pid, p, hp1, ?_, hp3, hp4⟩
          simp only [hget, if_neg hpne, hp2, Option.map_some]
          rw [voidActive_of_not_active (by rw [hp3]; simp)]
    · simp only [hget]; simp


/-- What one successful action guarantees. -/
structure Step (V : Key → Sig → Blob → Bool) (s s' : Identity) : Prop where
  inv : Inv V s'
  trans : Transition V s s'
  /-- an accepted revision (in particular the current one) is never redacted, edited or otherwise modified -/
  stable : ∀ id0 r0, get? id0 s.revisions = some (some r0) → r0.state = .accepted →
    get? id0 s'.revisions = some (some r0)
  root : s'.root = s.root

theorem Step.refl {V : Key → Sig → Blob → Bool} {s : Identity} (inv : Inv V s) : Step V s s :=
  ⟨inv, Or.inl rfl, fun _ _ h _ => h, rfl⟩

/-- The op's id is fresh: no revision is stored under it and no head points to it. -/
structure Fresh (s : Identity) (e : Id) : Prop where
  rev : get? e s.revisions = none
  head : ∀ k, get? k s.heads ≠ some e

theorem ne_of_states {s : Identity} {id1 id2 : Id} {r1 r2 : Revision}
    (h1 : get? id1 s.revisions = some (some r1)) (h2 : get? id2 s.revisions = some (some r2))
    (hs : r1.state ≠ r2.state) : id1 ≠ id2 := by
  intro h; subst h; rw [h1] at h2; cases h2; exact hs rfl

/-- `RevisionAccept` arm. -/
theorem actAccept_step {V : Key → Sig → Blob → Bool} {s s' : Identity} {cur : Revision} {author : Key}
    {id : Id} {sig : Sig} (inv : Inv V s) (hcur : get? s.current s.revisions = some (some cur))
    (hdel : cur.doc.isDelegate author = true) (h : actAccept V s cur author id sig = .ok s') :
    Step V s s' := by
  unfold actAccept at h
  split at h
  · cases h
  · cases h
  · rename_i r hr
    split at h
    · cases h
    · rename_i hact
      have hact : r.state = .active := by simpa using hact
      split at h
      · cases h
      · split at h
        · cases h
        · rename_i hver
          split at h
          · cases h
          · rename_i hdup
            obtain ⟨c, hc, hca⟩ := inv.cur
            rw [hcur] at hc; cases hc
            have hidne : id ≠ s.current := ne_of_states hr hcur (by rw [hact, hca]; simp)
            have hV : V author sig r.doc.blob = true := by
              have : (cur.doc.isDelegate author && V author sig r.doc.blob) = true := by
                simpa [IdDoc.verifySignature] using hver
              exact (Bool.and_eq_true_iff.mp this).2
            have hnone : get? author r.verdicts = none := by
              cases hx : get? author r.verdicts with
              | none => rfl
              | some v => simp [hx] at hdup
            -- the intermediate state: verdict and head recorded
            let r' : Revision := { r with verdicts := ins author (.accept sig) r.verdicts }
            let s1 : Identity := { s with revisions := ins id (some r') s.revisions, heads := ins author id s.heads }
            have hcur1 : get? s1.current s1.revisions = some (some cur) := by
              show get? s.current (ins id (some r') s.revisions) = _
              rw [get?_ins_ne _ _ (Ne.symm hidne)]; exact hcur
            have inv1 : Inv V s1 := by
              refine ⟨⟨cur, hcur1, hca⟩, keys_ins_nodup inv.heads, ?_, ?_, ?_⟩
              rotate_left 2
              · intro k id0 hk
                have hk' : get? k (ins author id s.heads) = some id0 := hk
                show get? id0 (ins id (some r') s.revisions) ≠ none
                rw [get?_ins] at hk'
                split at hk'
                · cases hk'; rw [get?_ins_self]; simp
                · exact get?_ins_keeps (inv.headsLive k id0 hk')
              · intro id2 r2 c2 hr2 hact2 hc2
                rw [hcur1] at hc2; cases hc2
                by_cases hid : id2 = id
                · subst hid
                  have : r2 = r' := by
                    have : get? id2 s1.revisions = some (some r') := get?_ins_self _ _ _
                    rw [this] at hr2; cases hr2; rfl
                  subst this
                  obtain ⟨hp, hev⟩ := inv.active id2 r cur hr hact hcur
                  refine ⟨hp, fun k hk => ?_⟩
                  by_cases hka : k = author
                  · subst hka
                    exact ⟨hdel, sig, get?_ins_self _ _ _, hV⟩
                  · have hk' : get? k s.heads = some id2 := by
                      have : get? k s1.heads = get? k s.heads := get?_ins_ne _ _ hka
                      rw [← this]; exact hk
                    obtain ⟨h1, h2⟩ := hev k hk'
                    exact ⟨h1, h2.congr (get?_ins_ne _ _ hka) rfl⟩
                · have hr2' : get? id2 s.revisions = some (some r2) := by
                    have : get? id2 s1.revisions = get? id2 s.revisions := get?_ins_ne _ _ hid
                    rw [← this]; exact hr2
                  obtain ⟨hp, hev⟩ := inv.active id2 r2 cur hr2' hact2 hcur
                  refine ⟨hp, fun k hk => ?_⟩
                  have hka : k ≠ author := by
                    intro hh; subst hh
                    have : get? k s1.heads = some id := get?_ins_self _ _ _
                    rw [this] at hk; cases hk; exact hid rfl
                  have hk' : get? k s.heads = some id2 := by
                    have : get? k s1.heads = get? k s.heads := get?_ins_ne _ _ hka
                    rw [← this]; exact hk
                  exact hev k hk'
              · intro id2 r2 hr2 hacc2 hroot
                have hid : id2 ≠ id := by
                  intro hh; subst hh
                  have : get? id2 s1.revisions = some (some r') := get?_ins_self _ _ _
                  rw [this] at hr2; cases hr2
                  rw [show r'.state = r.state from rfl, hact] at hacc2; cases hacc2
                have hr2' : get? id2 s.revisions = some (some r2) := by
                  have : get? id2 s1.revisions = get? id2 s.revisions := get?_ins_ne _ _ hid
                  rw [← this]; exact hr2
                obtain ⟨pid, p, hp1, hp2, hp3, hp4⟩ := inv.accepted id2 r2 hr2' hacc2 hroot
                have hpne : pid ≠ id := ne_of_states hp2 hr (by rw [hp3, hact]; simp)
                exact ⟨pid, p, hp1, by show get? pid (ins id (some r') s.revisions) = _; rw [get?_ins_ne _ _ hpne]; exact hp2, hp3, hp4⟩
            have hr1 : get? id s1.revisions = some (some r') := get?_ins_self _ _ _
            obtain ⟨i2, t2, c2, ro2, _⟩ := adopt_inv inv1 hcur1 hr1 hact h
            refine ⟨i2, ?_, fun id0 r0 h0 hacc0 => ?_, ro2⟩
            · rcases t2 with t2 | ⟨c, r1, h1, h2, h3, h4⟩
              · exact Or.inl t2
              · rw [hcur1] at h1; cases h1
                exact Or.inr ⟨cur, r1, hcur, h2, h3, h4⟩
            · have hne0 : id0 ≠ id := ne_of_states h0 hr (by rw [hacc0, hact]; simp)
              refine c2 id0 r0 ?_ hacc0
              show get? id0 (ins id (some r') s.revisions) = _
              rw [get?_ins_ne _ _ hne0]; exact h0


/-- Replace an active revision by a non-accepted one with the same parent, document and the same
verdicts of its voters. -/
theorem inv_update {V : Key → Sig → Blob → Bool} {s : Identity} {id : Id} {r r' : Revision} (inv : Inv V s)
    (hr : get? id s.revisions = some (some r)) (hact : r.state = .active) (hst : r'.state ≠ .accepted)
    (hp : r'.parent = r.parent) (hd : r'.doc = r.doc)
    (hv : ∀ k, get? k s.heads = some id → get? k r'.verdicts = get? k r.verdicts) :
    Inv V { s with revisions := ins id (some r') s.revisions } := by
  obtain ⟨cur, hcur, hca⟩ := inv.cur
  have hidne : id ≠ s.current := ne_of_states hr hcur (by rw [hact, hca]; simp)
  have hcur1 : get? s.current (ins id (some r') s.revisions) = some (some cur) := by
    rw [get?_ins_ne _ _ (Ne.symm hidne)]; exact hcur
  refine ⟨⟨cur, hcur1, hca⟩, inv.heads, ?_, ?_, fun k id0 hk => get?_ins_keeps (inv.headsLive k id0 hk)⟩
  · intro id2 r2 c2 hr2 hact2 hc2
    rw [show get? s.current (ins id (some r') s.revisions) = some (some cur) from hcur1] at hc2; cases hc2
    by_cases hid : id2 = id
    · subst hid
      have : get? id2 (ins id2 (some r') s.revisions) = some (some r') := get?_ins_self _ _ _
      rw [show get? id2 ({ s with revisions := ins id2 (some r') s.revisions } : Identity).revisions =
        some (some r') from this] at hr2
      cases hr2
      obtain ⟨hp0, hev⟩ := inv.active id2 r cur hr hact hcur
      refine ⟨hp ▸ hp0, fun k hk => ?_⟩
      obtain ⟨h1, h2⟩ := hev k hk
      exact ⟨h1, h2.congr (hv k hk) hd⟩
    · have hr2' : get? id2 s.revisions = some (some r2) := by
        have : get? id2 (ins id (some r') s.revisions) = get? id2 s.revisions := get?_ins_ne _ _ hid
        rw [← this]; exact hr2
      exact inv.active id2 r2 cur hr2' hact2 hcur
  · intro id2 r2 hr2 hacc2 hroot
    have hid : id2 ≠ id := by
      intro hh; subst hh
      have : get? id2 (ins id2 (some r') s.revisions) = some (some r') := get?_ins_self _ _ _
      rw [show get? id2 ({ s with revisions := ins id2 (some r') s.revisions } : Identity).revisions =
        some (some r') from this] at hr2
      cases hr2; exact hst hacc2
    have hr2' : get? id2 s.revisions = some (some r2) := by
      have : get? id2 (ins id (some r') s.revisions) = get? id2 s.revisions := get?_ins_ne _ _ hid
      rw [← this]; exact hr2
    obtain ⟨pid, p, hp1, hp2, hp3, hp4⟩ := inv.accepted id2 r2 hr2' hacc2 hroot
    have hpne : pid ≠ id := ne_of_states hp2 hr (by rw [hp3, hact]; simp)
    exact ⟨pid, p, hp1, by show get? pid (ins id (some r') s.revisions) = _; rw [get?_ins_ne _ _ hpne]; exact hp2, hp3, hp4⟩

theorem step_update {V : Key → Sig → Blob → Bool} {s : Identity} {id : Id} {r r' : Revision} (inv : Inv V s)
    (hr : get? id s.revisions = some (some r)) (hact : r.state = .active) (hst : r'.state ≠ .accepted)
    (hp : r'.parent = r.parent) (hd : r'.doc = r.doc)
    (hv : ∀ k, get? k s.heads = some id → get? k r'.verdicts = get? k r.verdicts) :
    Step V s { s with revisions := ins id (some r') s.revisions } := by
  refine ⟨inv_update inv hr hact hst hp hd hv, Or.inl rfl, fun id0 r0 h0 hacc0 => ?_, rfl⟩
  have hne0 : id0 ≠ id := ne_of_states h0 hr (by rw [hacc0, hact]; simp)
  show get? id0 (ins id (some r') s.revisions) = _
  rw [get?_ins_ne _ _ hne0]; exact h0

/-- `RevisionReject` arm. -/
theorem actReject_step {V : Key → Sig → Blob → Bool} {s s' : Identity} {author : Key} {id : Id}
    (inv : Inv V s) (h : actReject s author id = .ok s') : Step V s s' := by
  unfold actReject at h
  split at h
  · cases h
  · cases h
  · rename_i r hr
    split at h
    · cases h
    · rename_i hact
      have hact : r.state = .active := by simpa using hact
      split at h
      · cases h
      · split at h
        · cases h
        · rename_i hdup
          cases h
          obtain ⟨cur, hcur, _⟩ := inv.cur
          have hnone : get? author r.verdicts = none := by
            cases hx : get? author r.verdicts with
            | none => rfl
            | some v => simp [hx] at hdup
          refine step_update inv hr hact ?_ rfl rfl ?_
          · simp only
            split
            · simp
            · rw [hact]; simp
          · intro k hk
            have hka : k ≠ author := by
              intro hh; subst hh
              obtain ⟨sig, hs, _⟩ := ((inv.active id r cur hr hact hcur).2 k hk).2
              rw [hnone] at hs; cases hs
            exact get?_ins_ne _ _ hka

/-- `RevisionEdit` arm. -/
theorem actEdit_step {V : Key → Sig → Blob → Bool} {s s' : Identity} {author : Key} {id : Id} {title : Nat}
    (inv : Inv V s) (h : actEdit s author id title = .ok s') : Step V s s' := by
  unfold actEdit at h
  split at h
  · cases h
  · split at h
    · cases h
    · cases h
    · rename_i r hr
      split at h
      · cases h
      · rename_i hact
        have hact : r.state = .active := by simpa using hact
        split at h
        · cases h
        · split at h
          · cases h
          · cases h
            exact step_update inv hr hact (by simp [hact]) rfl rfl (fun _ _ => rfl)

/-- `RevisionRedact` arm. -/
theorem actRedact_step {V : Key → Sig → Blob → Bool} {s s' : Identity} {author : Key} {id : Id}
    (inv : Inv V s) (h : actRedact s author id = .ok s') : Step V s s' := by
  unfold actRedact at h
  split at h
  · cases h
  · rename_i hidne
    split at h
    · cases h
    · cases h; exact Step.refl inv
    · rename_i r hr
      split at h
      · cases h
      · rename_i hnacc
        split at h
        · cases h
        · cases h
          obtain ⟨cur, hcur, hca⟩ := inv.cur
          have hcur1 : get? s.current (ins id none s.revisions) = some (some cur) := by
            rw [get?_ins_ne _ _ (Ne.symm hidne)]; exact hcur
          refine ⟨⟨⟨cur, hcur1, hca⟩, inv.heads, ?_, ?_, fun k id0 hk => get?_ins_keeps (inv.headsLive k id0 hk)⟩,
            Or.inl rfl, fun id0 r0 h0 hacc0 => ?_, rfl⟩
          · intro id2 r2 c2 hr2 hact2 hc2
            rw [show get? s.current (ins id none s.revisions) = some (some cur) from hcur1] at hc2; cases hc2
            have hid : id2 ≠ id := by
              intro hh; subst hh
              have : get? id2 (ins id2 none s.revisions) = some none := get?_ins_self _ _ _
              rw [show get? id2 ({ s with revisions := ins id2 none s.revisions } : Identity).revisions =
                some none from this] at hr2
              cases hr2
            have hr2' : get? id2 s.revisions = some (some r2) := by
              have : get? id2 (ins id none s.revisions) = get? id2 s.revisions := get?_ins_ne _ _ hid
              rw [← this]; exact hr2
            exact inv.active id2 r2 cur hr2' hact2 hcur
          · intro id2 r2 hr2 hacc2 hroot
            have hid : id2 ≠ id := by
              intro hh; subst hh
              have : get? id2 (ins id2 none s.revisions) = some none := get?_ins_self _ _ _
              rw [show get? id2 ({ s with revisions := ins id2 none s.revisions } : Identity).revisions =
                some none from this] at hr2
              cases hr2
            have hr2' : get? id2 s.revisions = some (some r2) := by
              have : get? id2 (ins id none s.revisions) = get? id2 s.revisions := get?_ins_ne _ _ hid
              rw [← this]; exact hr2
            obtain ⟨pid, p, hp1, hp2, hp3, hp4⟩ := inv.accepted id2 r2 hr2' hacc2 hroot
            have hpne : pid ≠ id := ne_of_states hp2 hr (by rw [hp3]; exact fun hh => hnacc hh.symm)
            exact ⟨pid, p, hp1, by show get? pid (ins id none s.revisions) = _; rw [get?_ins_ne _ _ hpne]; exact hp2, hp3, hp4⟩
          · have hne0 : id0 ≠ id := ne_of_states h0 hr (by rw [hacc0]; exact fun hh => hnacc hh.symm)
            show get? id0 (ins id none s.revisions) = _
            rw [get?_ins_ne _ _ hne0]; exact h0


/-- The new revision a `Revision` action stores under the op's id. -/
def newRevision (doc : IdDoc) (title : Nat) (st : RState) (author : Key) (pid : Id) (sig : Sig) : Revision :=
  { doc, title, state := st, author, parent := some pid, verdicts := [(author, .accept sig)] }

/-- The state after a `Revision` action recorded the new revision and the author's head (before `adopt`). -/
def withNew (s : Identity) (entry : Id) (author : Key) (r : Revision) : Identity :=
  { s with heads := ins author entry s.heads, revisions := ins entry (some r) s.revisions }

theorem inv_new {V : Key → Sig → Blob → Bool} {s : Identity} {cur p : Revision} {entry pid : Id}
    {author : Key} {doc : IdDoc} {title : Nat} {sig : Sig} {st : RState} (inv : Inv V s)
    (hcur : get? s.current s.revisions = some (some cur)) (hf : Fresh s entry)
    (hp : get? pid s.revisions = some (some p)) (hpdel : p.doc.isDelegate author = true)
    (hV : V author sig doc.blob = true) (hst : st ≠ .accepted) (hact : st = .active → pid = s.current) :
    Inv V (withNew s entry author (newRevision doc title st author pid sig)) := by
  obtain ⟨c, hc, hca⟩ := inv.cur
  rw [hcur] at hc; cases hc
  have hene : entry ≠ s.current := by
    intro hh; rw [hh] at hf; have := hf.rev; rw [hcur] at this; cases this
  have hcur1 : get? s.current (withNew s entry author (newRevision doc title st author pid sig)).revisions =
      some (some cur) := by
    show get? s.current (ins entry _ s.revisions) = _
    rw [get?_ins_ne _ _ (Ne.symm hene)]; exact hcur
  have hnew : get? entry (withNew s entry author (newRevision doc title st author pid sig)).revisions =
      some (some (newRevision doc title st author pid sig)) := get?_ins_self _ _ _
  have hold : ∀ id2, id2 ≠ entry →
      get? id2 (withNew s entry author (newRevision doc title st author pid sig)).revisions =
        get? id2 s.revisions := fun id2 hid => get?_ins_ne _ _ hid
  refine ⟨⟨cur, hcur1, hca⟩, keys_ins_nodup inv.heads, ?_, ?_, ?_⟩
  rotate_left 2
  · intro k id0 hk
    have hk' : get? k (ins author entry s.heads) = some id0 := hk
    show get? id0 (ins entry _ s.revisions) ≠ none
    rw [get?_ins] at hk'
    split at hk'
    · cases hk'; rw [get?_ins_self]; simp
    · exact get?_ins_keeps (inv.headsLive k id0 hk')
  · intro id2 r2 c2 hr2 hact2 hc2
    rw [show get? (withNew s entry author (newRevision doc title st author pid sig)).current _ = _ from hcur1] at hc2
    cases hc2
    by_cases hid : id2 = entry
    · subst hid
      rw [hnew] at hr2; cases hr2
      have hpc : pid = s.current := hact hact2
      refine ⟨by show some pid = _; rw [hpc]; rfl, fun k hk => ?_⟩
      by_cases hka : k = author
      · subst hka
        have hpcur : p = cur := by rw [hpc, hcur] at hp; cases hp; rfl
        refine ⟨hpcur ▸ hpdel, sig, ?_, hV⟩
        show get? k [(k, Verdict.accept sig)] = _
        simp [get?]
      · have : get? k (withNew s id2 author (newRevision doc title st author pid sig)).heads = get? k s.heads :=
          get?_ins_ne _ _ hka
        rw [this] at hk
        exact absurd hk (hf.head k)
    · rw [hold id2 hid] at hr2
      obtain ⟨hp0, hev⟩ := inv.active id2 r2 cur hr2 hact2 hcur
      refine ⟨hp0, fun k hk => ?_⟩
      have hka : k ≠ author := by
        intro hh; subst hh
        have : get? k (withNew s entry k (newRevision doc title st k pid sig)).heads = some entry :=
          get?_ins_self _ _ _
        rw [this] at hk; cases hk; exact hid rfl
      have : get? k (withNew s entry author (newRevision doc title st author pid sig)).heads = get? k s.heads :=
        get?_ins_ne _ _ hka
      rw [this] at hk
      exact hev k hk
  · intro id2 r2 hr2 hacc2 hroot
    have hid : id2 ≠ entry := by
      intro hh; subst hh
      rw [hnew] at hr2; cases hr2
      exact hst hacc2
    rw [hold id2 hid] at hr2
    obtain ⟨pid2, p2, hp1, hp2, hp3, hp4⟩ := inv.accepted id2 r2 hr2 hacc2 hroot
    have hpne : pid2 ≠ entry := by
      intro hh; subst hh; rw [hf.rev] at hp2; cases hp2
    exact ⟨pid2, p2, hp1, by rw [hold pid2 hpne]; exact hp2, hp3, hp4⟩

/-- `Revision` arm (the arm itself rejects an id that is already a revision id; no head can point to an
id that is not a revision id). -/
theorem actRevision_step {V : Key → Sig → Blob → Bool} {s s' : Identity} {cur : Revision} {entry : Id}
    {author : Key} {title : Nat} {doc : Option IdDoc} {parent : Option Id} {sig : Sig} (inv : Inv V s)
    (hcur : get? s.current s.revisions = some (some cur))
    (h : actRevision V s cur entry author title doc parent sig = .ok s') : Step V s s' := by
  unfold actRevision at h
  split at h
  · cases h
  rename_i hnew0
  have hf : Fresh s entry := by
    have hnone : get? entry s.revisions = none := by
      cases hx : get? entry s.revisions with
      | none => rfl
      | some v => simp [hx] at hnew0
    exact ⟨hnone, fun k hk => inv.headsLive k entry hk hnone⟩
  split at h
  · cases h
  · rename_i doc
    split at h
    · cases h
    · rename_i pid
      split at h
      · cases h
      · cases h
      · rename_i p hp
        split at h
        · cases h
        · split at h
          · cases h
          · rename_i hver
            have hene : entry ≠ s.current := by
              intro hh; rw [hh] at hf; have := hf.rev; rw [hcur] at this; cases this
            have hver' : (p.doc.isDelegate author && V author sig doc.blob) = true := by
              simpa [IdDoc.verifySignature] using hver
            obtain ⟨hpdel, hV⟩ := Bool.and_eq_true_iff.mp hver'
            have hstable : ∀ st id0 r0, get? id0 s.revisions = some (some r0) →
                get? id0 (withNew s entry author (newRevision doc title st author pid sig)).revisions =
                  some (some r0) := by
              intro st id0 r0 h0
              have hne0 : id0 ≠ entry := by intro hh; subst hh; rw [hf.rev] at h0; cases h0
              show get? id0 (ins entry _ s.revisions) = _
              rw [get?_ins_ne _ _ hne0]; exact h0
            by_cases hpc : pid = s.current
            · subst hpc
              simp only [↓reduceIte] at h
              have inv1 := inv_new (title := title) inv hcur hf hp hpdel hV (st := .active) (by simp) (fun _ => rfl)
              have hnew : get? entry (withNew s entry author (newRevision doc title .active author s.current sig)).revisions =
                  some (some (newRevision doc title .active author s.current sig)) := get?_ins_self _ _ _
              obtain ⟨i2, t2, c2, ro2, _⟩ := adopt_inv inv1 (hstable _ _ cur hcur) hnew rfl h
              refine ⟨i2, ?_, fun id0 r0 h0 hacc0 => c2 id0 r0 (hstable _ id0 r0 h0) hacc0, ro2⟩
              rcases t2 with t2 | ⟨c, r1, h1, h2, h3, h4⟩
              · exact Or.inl t2
              · rw [show get? (withNew s entry author _).current _ = _ from hstable _ _ cur hcur] at h1; cases h1
                exact Or.inr ⟨cur, r1, hcur, h2, h3, h4⟩
            · simp only [hpc, if_false] at h
              cases h
              have inv1 := inv_new (title := title) inv hcur hf hp hpdel hV (st := .stale) (by simp)
                (fun hh => by cases hh)
              exact ⟨inv1, Or.inl rfl, fun id0 r0 h0 _ => hstable _ id0 r0 h0, rfl⟩

/-- **Every successful action** preserves the invariant, moves `current` only to a child of the old
current revision that a majority of the old document's delegates validly signed, and leaves the old
current revision untouched. -/
theorem action_step {V : Key → Sig → Blob → Bool} {s s' : Identity} {a : Action} {entry : Id} {author : Key}
    (inv : Inv V s) (h : action V s a entry author = .ok s') : Step V s s' := by
  unfold action at h
  split at h
  · cases h
  · rename_i cur hcr
    have hcur : get? s.current s.revisions = some (some cur) := by
      unfold Identity.currentRev at hcr
      split at hcr
      · rename_i r hr; cases hcr; exact hr
      · cases hcr
    split at h
    · cases h
    · rename_i hdel
      have hdel : cur.doc.isDelegate author = true := by simpa using hdel
      cases a with
      | revisionAccept id sig => exact actAccept_step inv hcur hdel h
      | revisionReject id => exact actReject_step inv h
      | revisionEdit id t => exact actEdit_step inv h
      | revisionRedact id => exact actRedact_step inv h
      | revision t d p sg => exact actRevision_step inv hcur h

/-- An action by a key that is not a delegate of the current document fails with `UnexpectedState`
(or panics if there is no current revision): it never produces a state. -/
theorem action_non_delegate {V : Key → Sig → Blob → Bool} {s : Identity} {a : Action} {entry : Id}
    {author : Key} (hnd : ∀ c, s.currentRev = some c → c.doc.isDelegate author = false) :
    action V s a entry author = .error .unexpectedState ∨ action V s a entry author = .error .panic := by
  unfold action
  split
  · exact Or.inr rfl
  · rename_i cur hcr
    simp [hnd cur hcr]

end HeartwoodModel.Identity
