import HeartwoodModel.Lemmas.ChangeGraphPrune
/-!
# C05 — Collaborative object state is a function of the change set

Property theorems about `Model/ChangeGraph.lean` (`ChangeGraph::load` / `evaluate`) over `Model/Dag.lean`.

`store : K → Option (List K × E)` is the graph of `change::Storage::load` (`none` = not loadable as a
change), `Reachable store tips k`: `k` is a tip or reachable from one through parents of loadable
changes. The *change set* of a list of tip references is `{k | Reachable store tips k ∧ store k ≠ none}`.
-/
set_option linter.unusedSimpArgs false
set_option linter.unusedVariables false
namespace HeartwoodModel.ChangeGraph
open HeartwoodModel.Dag
variable {E S : Type}

/-- **The loaded graph is a function of the change set**: two lists of tip references (any order, any
multiplicity, any namespaces) that reach the same loadable changes load the same graph — or both
nothing. -/
theorem load_closure {store : Store E} {tips tips' : List K}
    (hcl : ∀ k, (store k).isSome = true → (Reachable store tips k ↔ Reachable store tips' k))
    {f f' : Nat} {r r' : Option (Dag E)}
    (h : load store f tips = some r) (h' : load store f' tips' = some r') : r = r' := by
  obtain ⟨G, hG, rfl⟩ := load_spec h
  obtain ⟨G', hG', rfl⟩ := load_spec h'
  rw [hG.unique hG' hcl]

/-- **Loading does not depend on the order in which the tip references are enumerated.** -/
theorem load_perm {store : Store E} {tips tips' : List K} (hp : tips.Perm tips')
    {f f' : Nat} {r r' : Option (Dag E)}
    (h : load store f tips = some r) (h' : load store f' tips' = some r') : r = r' := by
  apply load_closure _ h h'
  intro k _
  constructor
  · rintro ⟨t, ht, h1⟩; exact ⟨t, hp.mem_iff.mp ht, h1⟩
  · rintro ⟨t, ht, h1⟩; exact ⟨t, hp.mem_iff.mpr ht, h1⟩

/-- Reachability from a tip list only depends on the *set* of tips, and a tip that is itself reachable
from the others adds nothing. -/
theorem reachable_append_redundant {store : Store E} {tips extra : List K}
    (hex : ∀ x ∈ extra, Reachable store tips x) (k : K) :
    Reachable store (tips ++ extra) k ↔ Reachable store tips k := by
  constructor
  · rintro ⟨t, ht, h1⟩
    rcases List.mem_append.mp ht with ht | ht
    · exact ⟨t, ht, h1⟩
    · obtain ⟨t0, ht0, h0⟩ := hex t ht
      refine ⟨t0, ht0, ?_⟩
      rcases h1 with rfl | h1
      · exact h0
      · rcases h0 with rfl | h0
        · exact .inr h1
        · exact .inr (h0.append h1)
  · rintro ⟨t, ht, h1⟩
    exact ⟨t, List.mem_append.mpr (.inl ht), h1⟩

/-- **Which namespaces point at the changes does not matter**: further references (another remote's
`refs/cobs/<type>/<id>`) to changes that are already reachable — ancestors of the tips, or the tips
again — leave the loaded graph unchanged. -/
theorem load_redundant_tips {store : Store E} {tips extra : List K}
    (hex : ∀ x ∈ extra, Reachable store tips x)
    {f f' : Nat} {r r' : Option (Dag E)}
    (h : load store f tips = some r) (h' : load store f' (tips ++ extra) = some r') : r = r' := by
  apply load_closure _ h h'
  intro k _
  exact (reachable_append_redundant hex k).symm

/-- **Multiplicity of references does not matter**: loading through a tip list and through the same list
with duplicates removed gives the same graph. -/
theorem load_dedup [DecidableEq K] {store : Store E} {tips : List K}
    {f f' : Nat} {r r' : Option (Dag E)}
    (h : load store f tips = some r) (h' : load store f' tips.eraseDups = some r') : r = r' := by
  apply load_closure _ h h'
  intro k _
  constructor
  · rintro ⟨t, ht, h1⟩; exact ⟨t, List.mem_eraseDups.mpr ht, h1⟩
  · rintro ⟨t, ht, h1⟩; exact ⟨t, List.mem_eraseDups.mp ht, h1⟩

/-- **References to unloadable objects that reach nothing do not matter**: a tip that is not a change
(`store t = none`, e.g. a ref that points at a non-COB commit) contributes no change to the change set,
so replicas that differ only in such references load the same graph. -/
theorem load_unloadable_tip {store : Store E} {tips : List K} {t : K} (ht : store t = none)
    {f f' : Nat} {r r' : Option (Dag E)}
    (h : load store f tips = some r) (h' : load store f' (t :: tips) = some r') : r = r' := by
  apply load_closure _ h h'
  intro k hk
  constructor
  · rintro ⟨t0, ht0, h1⟩; exact ⟨t0, List.mem_cons_of_mem _ ht0, h1⟩
  · rintro ⟨t0, ht0, h1⟩
    rcases List.mem_cons.mp ht0 with rfl | ht0
    · rcases h1 with rfl | h1
      · simp [ht] at hk
      · exfalso
        have hnil : storeNext store t0 = [] := storeNext_of_none ht
        cases h1 with
        | step e => simp [hnil] at e
        | trans e _ => simp [hnil] at e
    · exact ⟨t0, ht0, h1⟩

/-- What is loaded: exactly the reachable loadable changes, each with its parents as dependencies
(unloadable parents stay as dangling dependencies), dependents the loaded children; `none` iff that
graph has no root. -/
theorem load_graph {store : Store E} {fuel : Nat} {tips : List K} {r : Option (Dag E)}
    (h : load store fuel tips = some r) :
    ∃ G, LoadSpec store (Reachable store tips) G ∧ r = if G.rootsOf.isEmpty then none else some G :=
  load_spec h

/-- **The evaluated object and history are a function of the change set alone**: `cob::get` through
two tip lists with the same reachable loadable changes returns the same result (same state, same
pruned history graph, or the same error / `None`). The traversal order is a function of the graph. -/
theorem evaluate_deterministic {store : Store E} {tips tips' : List K}
    (hcl : ∀ k, (store k).isSome = true → (Reachable store tips k ↔ Reachable store tips' k))
    (sigOk : E → Bool) (ts : E → Nat) (init : E → Option S)
    (applyM : S → K → E → List (K × E) → S × Bool) {fL fL' fE : Nat} (root : K)
    {r r' : Option (EvalOut S E)}
    (h : getFromTips store sigOk ts init applyM fL fE tips root = some r)
    (h' : getFromTips store sigOk ts init applyM fL' fE tips' root = some r') : r = r' := by
  unfold getFromTips at h h'
  cases hl : load store fL tips with
  | none => simp [hl] at h
  | some g =>
    cases hl' : load store fL' tips' with
    | none => simp [hl'] at h'
    | some g' =>
      have := load_closure hcl hl hl'
      subst this
      rw [hl] at h
      rw [hl'] at h'
      rw [h] at h'
      exact Option.some.inj h'

/-- The fuel the driver uses for `load` never runs out (`ids` lists every loadable id). -/
theorem load_fuel_sufficient {store : Store E} (ids tips : List K)
    (hids : ∀ k, (store k).isSome = true → k ∈ ids) :
    ∃ r, load store (loadFuel store ids tips) tips = some r :=
  load_fuel ids tips hids

/-- `ChangeGraph::chronological` is a total preorder (needed for `sort_by` to be well defined). -/
theorem chronological_total_preorder (ts : E → Nat) : TotalPreorder (chronological ts) := by
  constructor
  · intro a b
    simp only [chronological, Bool.or_eq_true, Bool.and_eq_true, decide_eq_true_eq, beq_iff_eq]
    rcases Nat.lt_trichotomy (ts a.2) (ts b.2) with h | h | h
    · exact .inl (.inl h)
    · rcases Nat.le_total a.1 b.1 with h1 | h1
      · exact .inl (.inr ⟨h, h1⟩)
      · exact .inr (.inr ⟨h.symm, h1⟩)
    · exact .inr (.inl h)
  · intro a b c
    simp only [chronological, Bool.or_eq_true, Bool.and_eq_true, decide_eq_true_eq, beq_iff_eq]
    rintro (h1 | ⟨h1, h2⟩) (h3 | ⟨h3, h4⟩)
    · exact .inl (Nat.lt_trans h1 h3)
    · exact .inl (h3 ▸ h1)
    · exact .inl (h1 ▸ h3)
    · exact .inr ⟨h1.trans h3, Nat.le_trans h2 h4⟩

/-- The fuel the driver uses for `evaluate` never runs out on a closed history. -/
theorem evaluate_fuel_sufficient {g : Dag E} (hwf : g.Wf) (sigOk : E → Bool) (ts : E → Nat)
    (init : E → Option S) (applyM : S → K → E → List (K × E) → S × Bool) (root : K) :
    evaluate sigOk ts init applyM (evalFuel g root) g root = .fuel → False := by
  unfold evaluate
  cases hr : g.get root with
  | none => simp
  | some rn =>
    simp only
    by_cases hs : (!sigOk rn.value) = true
    · simp [hs]
    · simp only [hs, if_false]
      cases hi : init rn.value with
      | none => simp
      | some s0 =>
        simp only
        have : evalFuel g root = g.fuel2 rn.dependents.length := by
          simp [evalFuel, Dag.dependentsOf_of_get hr]
        rw [this]
        obtain ⟨r, hr'⟩ := pruneBy_fuel hwf rn.dependents (evalFilter sigOk applyM) (chronological ts) s0
        rw [hr']
        simp

/-- The loaded graph is well-formed (closed) when no parent of a loaded change is missing. -/
theorem load_wf {store : Store E} {fuel : Nat} {tips : List K} {G : Dag E}
    (h : load store fuel tips = some (some G))
    (hfull : ∀ k, G.contains k = true → ∀ p ∈ storeNext store k, (store p).isSome = true) : G.Wf := by
  obtain ⟨G', hG', hr⟩ := load_spec h
  split at hr
  · simp at hr
  · simp at hr; subst hr
    exact hG'.wf hfull

/-! ### non-vacuity -/

/-- A history with colliding timestamps: `0 ← 1 ← {2, 3} ← 4` (4 is a merge), entry = timestamp. -/
def exStore : Store Nat := fun k =>
  match k with
  | 0 => some ([], 5)
  | 1 => some ([0], 6)
  | 2 => some ([1], 7)
  | 3 => some ([1], 7)
  | 4 => some ([2, 3], 6)
  | _ => none

/-- order of application for the example: the state is the list of applied ids -/
def exRun (tips : List K) : Option (List K) :=
  match getFromTips exStore (fun _ => true) id (fun _ => some [0]) (applyOfOption fun s k _ _ => some (s ++ [k]))
      (loadFuel exStore [0, 1, 2, 3, 4] tips) 100 tips 0 with
  | some (some (.ok s _)) => some s
  | _ => none

/-- Loading through `[4]`, `[4, 2]`, `[3, 4, 0]` (same change set) applies `0, 1, 2, 3, 4` — the tie between
the equal timestamps of `2` and `3` is broken by the id — while `[2]` alone is a different change set. -/
example : exRun [4] = some [0, 1, 2, 3, 4] ∧ exRun [4, 2] = some [0, 1, 2, 3, 4] ∧
    exRun [3, 4, 0] = some [0, 1, 2, 3, 4] ∧ exRun [2] = some [0, 1, 2] := by decide

/-- The hypothesis of `load_closure` / `evaluate_deterministic` holds for `[4]` and `[3, 4, 0]`. -/
example : ∀ k, (exStore k).isSome = true → (Reachable exStore [4] k ↔ Reachable exStore [3, 4, 0] k) := by
  intro k hk
  have h4 : ∀ x, x = 0 ∨ x = 1 ∨ x = 2 ∨ x = 3 ∨ x = 4 → Reachable exStore [4] x := by
    intro x hx
    have e42 : (2 : K) ∈ storeNext exStore 4 := by decide
    have e43 : (3 : K) ∈ storeNext exStore 4 := by decide
    have e21 : (1 : K) ∈ storeNext exStore 2 := by decide
    have e10 : (0 : K) ∈ storeNext exStore 1 := by decide
    rcases hx with rfl | rfl | rfl | rfl | rfl
    · exact ⟨4, by simp, .inr (.trans e42 (.trans e21 (.step e10)))⟩
    · exact ⟨4, by simp, .inr (.trans e42 (.step e21))⟩
    · exact ⟨4, by simp, .inr (.step e42)⟩
    · exact ⟨4, by simp, .inr (.step e43)⟩
    · exact ⟨4, by simp, .inl rfl⟩
  have hk' : k = 0 ∨ k = 1 ∨ k = 2 ∨ k = 3 ∨ k = 4 := by
    unfold exStore at hk
    split at hk <;> simp_all
  constructor
  · rintro ⟨t, ht, h1⟩
    simp at ht; subst ht
    exact ⟨4, by simp, h1⟩
  · intro _; exact h4 k hk'

end HeartwoodModel.ChangeGraph
